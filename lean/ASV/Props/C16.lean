/-
  C16 — Sanitised record identifiers are unique, short and filesystem-safe.
  Property theorems only; helper lemmas live in ASV/Proofs/Ids*.lean.

  `preProcessIds allowLong inp` is the identifier handling of `pre_process_sequences` (duplicate
  pass, `fix_record_name_id` per record, final "record has no name" check) on the list of
  `(id, name, accession annotation)` triples of the input records (repairs D14, D15 included).
  Every statement is for all input lists (any length, any characters, duplicates, ids equal to
  another record's rewritten form, …) and both settings of `allow_long_headers`; none has a
  side condition.  The illegal-character sets are the regenerated tables `ASV.Generated.Ids`.
-/
import ASV.Proofs.IdsMain
import ASV.Proofs.IdsGenes
import ASV.Proofs.IdsOptions
import ASV.Proofs.IdsScan
namespace ASV.C16
open ASV ASV.Ids ASV.Generated.Ids

/-- all records have pairwise distinct identifiers afterwards -/
theorem ids_distinct (allowLong : Bool) (inp : List (Str × Str × Option Str)) (recs : List Rec)
    (h : preProcessIds allowLong inp = .ok recs) : (recs.map (·.id)).Nodup :=
  (preProcessIds_post h).distinct

/-- neither id nor name contains a character unusable in file names / GenBank headers -/
theorem ids_clean (allowLong : Bool) (inp : List (Str × Str × Option Str)) (recs : List Rec)
    (h : preProcessIds allowLong inp = .ok recs) :
    ∀ r ∈ recs, ∀ bad ∈ illegalRecordChars, bad ∉ r.id ∧ bad ∉ r.name :=
  fun r hr bad hb =>
    ⟨fun hm => ((preProcessIds_post h).each r hr).1 bad hm hb,
     fun hm => ((preProcessIds_post h).each r hr).2.1 bad hm hb⟩

/-- at most 16 characters unless long headers were allowed -/
theorem ids_short (inp : List (Str × Str × Option Str)) (recs : List Rec)
    (h : preProcessIds false inp = .ok recs) : ∀ r ∈ recs, r.id.length ≤ 16 ∧ r.name.length ≤ 16 :=
  fun r hr => ((preProcessIds_post h).each r hr).2.2.1 rfl

/-- no record is lost or invented, and a record remembers its original identifier exactly when
    its identifier was changed (by the duplicate pass, the shortening or the stripping) -/
theorem original_remembered (allowLong : Bool) (inp : List (Str × Str × Option Str)) (recs : List Rec)
    (h : preProcessIds allowLong inp = .ok recs) :
    List.Forall₂ (fun p r => r.orig = if r.id = p.1 then none else some p.1) inp recs :=
  (preProcessIds_post h).remembers

/-- accepted inputs have no empty identifier, before or after -/
theorem ids_nonempty (allowLong : Bool) (inp : List (Str × Str × Option Str)) (recs : List Rec)
    (h : preProcessIds allowLong inp = .ok recs) : (∀ p ∈ inp, p.1 ≠ []) ∧ ∀ r ∈ recs, r.id ≠ [] :=
  ⟨(preProcessIds_post h).inputsNamed, fun r hr => ((preProcessIds_post h).each r hr).2.2.2.1⟩

/-- an input is rejected only because no 16-character identifier is left (`RuntimeError` of
    `generate_unique_id`) or because a record has no identifier; the `assert` on the size of the
    id set never fires and the counter loop of `generate_unique_id` always stops -/
theorem rejected_only_as_documented (allowLong : Bool) (inp : List (Str × Str × Option Str)) (e : Err)
    (h : preProcessIds allowLong inp = .error e) : e = .runtime ∨ e = .noName :=
  preProcessIds_err h

/-- with `allow_long_headers` the only rejection left is a record without identifier -/
theorem allow_long_rejects_only_unnamed (inp : List (Str × Str × Option Str)) (e : Err)
    (h : preProcessIds true inp = .error e) : e = .noName :=
  preProcessIds_err_long h

/-- the executable specification evaluated by the driver on the implementation's output holds of
    the model's output (same definition, `ASV.IdSpec.recordsOk`) -/
theorem sanitised_meets_spec (allowLong : Bool) (inp : List (Str × Str × Option Str)) (recs : List Rec)
    (h : preProcessIds allowLong inp = .ok recs) :
    IdSpec.recordsOk allowLong (inp.map (·.1)) (recs.map toOut) = true :=
  post_recordsOk (preProcessIds_post h)

/-- `generate_unique_id` returns `prefix_counter` for a counter not below `start`, not among the
    existing ids and within `max_length` when one is given -/
theorem unique_id_fresh (pre : Str) (taken : List Str) (start : Nat) (maxLength : Int) (n : Str) (k : Nat)
    (h : generateUniqueId pre taken start maxLength = .ok (n, k)) :
    n ∉ taken ∧ n = mkName pre k ∧ (0 < maxLength → (n.length : Int) ≤ maxLength) :=
  ⟨(generateUniqueId_ok h).2.1, (generateUniqueId_ok h).1, (generateUniqueId_ok h).2.2⟩

/-- … and it fails only with the `RuntimeError` for a positive `max_length` (totality of the loop) -/
theorem unique_id_total (pre : Str) (taken : List Str) (start : Nat) (maxLength : Int) (e : Err)
    (h : generateUniqueId pre taken start maxLength = .error e) : e = .runtime ∧ 0 < maxLength :=
  generateUniqueId_err h

/-- function level, in the terms the driver evaluates on the implementation's result
    (`IdSpec.uniqueOk`): whenever `generate_unique_id` returns, the RETURNED id is not among the
    existing ids and is within `max_length` — the bound is on the candidate finally chosen, however
    many taken candidates (and digit boundaries of the counter) the loop has skipped -/
theorem unique_id_meets_spec (pre : Str) (taken : List Str) (start : Nat) (maxLength : Int) (n : Str) (k : Nat)
    (h : generateUniqueId pre taken start maxLength = .ok (n, k)) : IdSpec.uniqueOk taken maxLength n = true :=
  uniqueOk_of_ok h

/-- one `fix_record_name_id` call with an arbitrary id set, `original_id` and `record_index`
    meets the executable per-call spec `IdSpec.fixOk` -/
theorem fix_meets_spec (allowLong : Bool) (taken : List Str) (r r' : Rec) (t' : List Str)
    (h : fixRecordNameId allowLong taken r = .ok (r', t')) :
    IdSpec.fixOk allowLong taken r.id r.orig (toOut r') t' = true :=
  fixOk_of_post (fixRecordNameId_spec h)

/-- the `accession` annotation never exceeds 16 characters afterwards (it is shortened even when
    long headers are allowed) -/
theorem accession_short (allowLong : Bool) (inp : List (Str × Str × Option Str)) (recs : List Rec)
    (h : preProcessIds allowLong inp = .ok recs) : ∀ r ∈ recs, ∀ a, r.acc = some a → a.length ≤ 16 :=
  fun r hr => ((preProcessIds_post h).each r hr).2.2.2.2

/-- the repaired `_shorten_ids` always fits (D15) and is the old format for numbers of ≤ 5 digits -/
theorem shortened_fits (recordIndex : Nat) (s : Str) :
    (shortenIds recordIndex s).length ≤ 16 ∧
    ((Nat.toDigits 10 (contigNoOf recordIndex s)).length ≤ 5 →
      shortenIds recordIndex s = 'c' :: pad5 (contigNoOf recordIndex s) ++ '_' :: s.take 7 ++ ['.', '.']) :=
  ⟨shortenIds_length _ _, shortenIds_small _ _⟩

/-- gene identifiers: a successful `add_cds_feature` stores the feature under a name and a
    location key (`str(location)`) that no earlier CDS of the record has, and the name is
    `get_name()` or `get_name()_<crc32 of the location text>` -/
theorem add_cds_fresh_or_rejected (s s' : GState) (c : Cds) (n : Str) (h : addCds s c = .ok (s', n)) :
    n ∉ s.cdss.map (·.1) ∧ locChars c.loc ∉ s.cdss.map (fun x => locChars x.2) ∧
    s'.cdss = s.cdss ++ [(n, c.loc)] ∧
    ∃ name, c.getName = some name ∧ (n = name ∨ n = name ++ '_' :: locationChecksum c.loc) :=
  ⟨(addCds_ok h).1, (addCds_ok h).2.1, (addCds_ok h).2.2.1, (addCds_ok h).2.2.2.2⟩

/-- a rejected call (the three input errors are the only constructors of `GErr`: the renamed
    splice variant whose generated name is taken is an input error too, D60) leaves the record
    exactly as it was -/
theorem rejected_call_leaves_record (s : GState) (loc : Loc) (lt g p : Option Str) (e : GErr)
    (h : addCds s (mkCds loc lt g p) = .error e) : applyOp s (.cds loc lt g p) = s :=
  applyOp_rejected h

/-- after any sequence of `add_gene` / `add_cds_feature` calls on a fresh record the CDS names,
    the location keys and hence the locations are pairwise distinct -/
theorem gene_names_unique_or_rejected (ops : List GOp) :
    ((runOps {} ops).cdss.map (·.1)).Nodup ∧ ((runOps {} ops).cdss.map (fun x => locChars x.2)).Nodup ∧
    ((runOps {} ops).cdss.map (·.2)).Nodup :=
  have h := runOps_inv ops (s := {}) ⟨List.nodup_nil, List.nodup_nil⟩
  ⟨h.1, h.2, locs_nodup_of_keys h.2⟩

/-- `_sanitise_id_value` removes every gene-level illegal character, keeps the length and leaves
    legal values alone; the names of all CDS features are legal (the checksum suffix is made of
    hex digits, which the regenerated table does not contain) -/
theorem gene_names_safe (s : Str) (ops : List GOp) :
    (∀ bad ∈ illegalGeneChars, bad ∉ sanitiseIdValue s) ∧ (sanitiseIdValue s).length = s.length ∧
    ((∀ c ∈ s, c ∉ illegalGeneChars) → sanitiseIdValue s = s) ∧
    (∀ x ∈ (runOps {} ops).cdss, ∀ bad ∈ illegalGeneChars, bad ∉ x.1) :=
  ⟨fun bad hb hm => sanitise_safe s bad hm hb, sanitise_length s, sanitise_id_of_safe,
   fun x hx bad hb hm => runOps_safe ops (by simp) x hx bad hm hb⟩

/-- the executable gene-level spec (`IdSpec.genesOk`, run by the driver on the implementation's
    CDS list) holds of the model's state after any operation sequence -/
theorem genes_meet_spec (ops : List GOp) : IdSpec.genesOk (runOps {} ops).cdss = true :=
  genesOk_of_runOps ops

/-- reading a record (`Record.from_biopython`: gene / CDS features in file order, identifiers from
    the qualifiers with biopython's line-break blanks removed from locus tags, a position-based name
    when a CDS has none): either the record is rejected — and then only because two CDS features
    share a location or a name that cannot be told apart as splice variants, never for a missing
    identifier — or all its CDS features have pairwise distinct, legal names and pairwise distinct
    locations (`IdSpec.genesOk`, the spec the driver runs on the implementation's record) -/
theorem record_read_unique_or_rejected (feats : List BioFeat) :
    (∀ s, fromBiopython {} feats = .ok s →
      (s.cdss.map (·.1)).Nodup ∧ (s.cdss.map (·.2)).Nodup ∧ (∀ x ∈ s.cdss, ∀ bad ∈ illegalGeneChars, bad ∉ x.1) ∧
      IdSpec.genesOk s.cdss = true) ∧
    (∀ e, fromBiopython {} feats = .error e → e = .dupLocation ∨ e = .dupName) := by
  refine ⟨fun s h => ?_, fun e h => fromBiopython_err feats h⟩
  have hi := fromBiopython_inv feats h ⟨List.nodup_nil, List.nodup_nil⟩ (by simp)
  exact ⟨hi.1.1, locs_nodup_of_keys hi.1.2, fun x hx bad hb hm => hi.2 x hx bad hm hb, genesOk_of_inv hi.1 hi.2⟩

/-! ### the options real runs reach the identifier handling through -/

/-- `pre_process_sequences` with every option combination: when sanitisation is required
    (neither `reuse_results` nor `skip_sanitisation`) the accepted records satisfy the whole
    record-level spec; an input is rejected only in the three documented ways -/
theorem preprocess_with_options_meets_spec (o : Options) (inp : List (Str × Str × Option Str))
    (recs : List Rec) (skips : List Bool) (hreq : checkingRequired o.reuse o.skip = true)
    (h : preProcess o inp = .ok (recs, skips)) :
    IdSpec.recordsOk o.allowLong (inp.map (·.1)) (recs.map toOut) = true ∧ skips.length = recs.length := by
  unfold preProcess at h
  rw [if_pos hreq] at h
  split at h
  · simp at h
  · rename_i recs' hp
    split at h
    · simp at h
    · rename_i skips' hf
      simp only [Except.ok.injEq, Prod.mk.injEq] at h
      obtain ⟨rfl, rfl⟩ := h
      refine ⟨post_recordsOk (preProcessIds_post hp), ?_⟩
      by_cases ht : o.limitTo = []
      · rw [(filterByName_ok hf).1 ht]; simp
      · rw [((filterByName_ok hf).2 ht).1]; simp

/-- … and with `reuse_results` / `skip_sanitisation` the identifiers are left exactly as read
    (only the "record has no name" check and the name filter still apply) -/
theorem unsanitised_ids_untouched (o : Options) (inp : List (Str × Str × Option Str))
    (recs : List Rec) (skips : List Bool) (hreq : checkingRequired o.reuse o.skip = false)
    (h : preProcess o inp = .ok (recs, skips)) :
    List.Forall₂ (fun p r => r.id = p.1 ∧ r.name = p.2.1 ∧ r.orig = none) inp recs ∧ ∀ r ∈ recs, r.id ≠ [] := by
  unfold preProcess at h
  rw [hreq] at h
  simp only [Bool.false_eq_true, if_false] at h
  split at h
  · simp at h
  · rename_i recs' hp
    split at h
    · simp at h
    · simp only [Except.ok.injEq, Prod.mk.injEq] at h
      obtain ⟨rfl, _⟩ := h
      obtain ⟨rfl, hne⟩ := checkNames_ok hp
      exact ⟨mkRecs_forall₂ 1 inp, hne⟩

/-- `--limit-to-record` after sanitisation: because the sanitised ids are pairwise distinct, the
    filter keeps exactly one record, the one whose (new) id is the target, and marks all others -/
theorem limit_to_record_selects_one (o : Options) (inp : List (Str × Str × Option Str))
    (recs : List Rec) (skips : List Bool) (hreq : checkingRequired o.reuse o.skip = true)
    (hl : o.limitTo ≠ []) (h : preProcess o inp = .ok (recs, skips)) :
    skips = recs.map (fun r => r.id != o.limitTo) ∧ recs.countP (·.id == o.limitTo) = 1 := by
  unfold preProcess at h
  rw [if_pos hreq] at h
  split at h
  · simp at h
  · rename_i recs' hp
    split at h
    · simp at h
    · rename_i skips' hf
      simp only [Except.ok.injEq, Prod.mk.injEq] at h
      obtain ⟨rfl, rfl⟩ := h
      obtain ⟨hs, hc⟩ := (filterByName_ok hf).2 hl
      have := countP_le_one_of_nodup (t := o.limitTo) (preProcessIds_post hp).distinct
      exact ⟨hs, by omega⟩

/-- rejections of the whole option-aware function: the two of the sanitisation, or nobody carries
    the `--limit-to-record` target (after renaming) -/
theorem preprocess_rejections (o : Options) (inp : List (Str × Str × Option Str)) (e : Err)
    (h : preProcess o inp = .error e) : e = .runtime ∨ e = .noName ∨ e = .noMatch := by
  unfold preProcess at h
  split at h
  · rename_i e' hp
    simp only [Except.error.injEq] at h
    subst h
    split at hp
    · rcases preProcessIds_err hp with h | h
      · exact Or.inl h
      · exact Or.inr (Or.inl h)
    · unfold checkNames at hp
      split at hp
      · simp only [Except.error.injEq] at hp
        exact Or.inr (Or.inl hp.symm)
      · simp at hp
  · split at h
    · rename_i e' hf
      simp only [Except.error.injEq] at h
      exact Or.inr (Or.inr (h ▸ (filterByName_err hf).1))
    · simp at h

/-- `Record.has_name`: after sanitisation every record answers to the identifier it was read with,
    and to nothing but that and its current identifier (this is how sideloaded annotations find a
    renamed record) -/
theorem has_name_answers_to_input_id (allowLong : Bool) (inp : List (Str × Str × Option Str)) (recs : List Rec)
    (h : preProcessIds allowLong inp = .ok recs) :
    List.Forall₂ (fun p r => hasName r p.1 = true ∧ ∀ t, hasName r t = true → t = r.id ∨ t = p.1) inp recs :=
  (preProcessIds_post h).remembers.imp fun _ _ hr => hasName_of_remembers hr

/-! ### the counter is the least free one; the regex scanners against the patterns' declarative meaning -/

/-- `generate_unique_id` returns the LEAST counter from `start` on whose name is free: every
    smaller candidate is taken (so the result is fully determined by the inputs) -/
theorem unique_id_least (pre : Str) (taken : List Str) (start : Nat) (maxLength : Int) (n : Str) (k : Nat)
    (h : generateUniqueId pre taken start maxLength = .ok (n, k)) :
    start ≤ k ∧ ∀ j, start ≤ j → j < k → mkName pre j ∈ taken :=
  generateUniqueId_least h

/-- `(\d+)\b`: the scanner returns `ds` exactly when `ds` is a match in the declarative
    (backtracking) sense — a non-empty digit prefix followed by a word boundary; hence the match is
    unique and nothing can succeed by backtracking where the greedy run fails -/
theorem regex_digits_boundary_exact (s ds : Str) : digitsThenBoundary s = some ds ↔ MatchDigitsB s ds :=
  digitsThenBoundary_iff s ds

/-- `onti?g?(\d+)\b` anchored: scanner = declarative meaning with both optional letters free to be
    skipped or taken -/
theorem regex_contig_exact (s ds : Str) : matchContigAt s = some ds ↔ MatchContig s ds :=
  matchContigAt_iff s ds

/-- `caff?o?l?d?(\d+)\b` anchored: likewise, four optional letters -/
theorem regex_scaffold_exact (s ds : Str) : matchScaffoldAt s = some ds ↔ MatchScaffold s ds :=
  matchScaffoldAt_iff s ds

/-- `re.search`: the scanner loop returns the match at the leftmost start position that has one -/
theorem regex_search_leftmost (m : Str → Option Str) (r s : Str) :
    searchFrom m s = some r ↔
    ∃ pre suf, s = pre ++ suf ∧ m suf = some r ∧
      ∀ pre' suf', s = pre' ++ suf' → pre'.length < pre.length → m suf' = none :=
  searchFrom_iff m r s

/-- the regenerated illegal-character tables still contain every character they contained when
    the property was written (path separator, blank, shell/GenBank metacharacters; for gene ids
    also tab / newline / carriage return): shrinking a table breaks this obligation -/
theorem illegal_sets_cover_baseline :
    (['!', '"', '#', '$', '%', '&', '(', ')', '*', '+', ',', ':', ';', '=', '>', '?', '@', '[', ']', '^', '`',
      '\'', '{', '|', '}', '/', ' '].all fun c => illegalRecordChars.contains c && illegalGeneChars.contains c) = true ∧
    (['\t', '\n', '\r'].all fun c => illegalGeneChars.contains c) = true := by decide

/-! ### non-vacuity: the hypotheses are satisfiable on the inputs that used to break the property -/

/-- D14 witness: used to give `ab`, `ab` -/
example : preProcessIds false [("a:b".toList, "a:b".toList, none), ("ab".toList, "ab".toList, none)] =
    .ok [⟨"ab_0".toList, "ab".toList, some "a:b".toList, 1, none⟩, ⟨"ab".toList, "ab".toList, none, 2, none⟩] := by decide
/-- D15 witness: used to give the 18-character `c1234567_contig1..` -/
example : preProcessIds false [("contig1234567.abcdefghijklmnop".toList, "x".toList, some "scaffold12.abcdefghijk".toList)] =
    .ok [⟨"c1234567_conti..".toList, "x".toList, some "contig1234567.abcdefghijklmnop".toList, 1,
          some "c00012_scaffol..".toList⟩] := by decide
/-- duplicates, allow_long_headers: second and third occurrence renamed, first kept -/
example : (preProcessIds true [("a".toList, [], none), ("a".toList, [], none), ("a_0".toList, [], none)]).map (·.map (·.id)) =
    .ok ["a".toList, "a_0".toList, "a_0_0".toList] := by decide
/-- the two rejections happen -/
example : preProcessIds false [("a".toList, [], none), ([], [], none)] = .error .noName := by decide
example : generateUniqueId "ab".toList ["ab_0".toList] 0 3 = .error .runtime := by decide
/-- the counter crosses a digit boundary exactly where the length budget ends: `ab_0 … ab_9` taken,
    `ab_10` needs 5 characters — rejected with `max_length = 4` (although the first candidate `ab_0`
    fits), returned with 5 -/
def tenTaken : List Str := (List.range 10).map fun k => mkName "ab".toList k
example : generateUniqueId "ab".toList tenTaken 0 4 = .error .runtime := by decide
example : generateUniqueId "ab".toList tenTaken 0 5 = .ok ("ab_10".toList, 10) := by decide
/-- splice variant: same locus tag, overlapping location → renamed with the checksum; disjoint → rejected -/
example : (runOps {} [.cds (.simple ⟨10, 40, .fwd⟩) (some "a:b".toList) none none,
                      .cds (.simple ⟨20, 50, .fwd⟩) (some "a_b".toList) none none,
                      .cds (.simple ⟨100, 130, .fwd⟩) (some "a b".toList) none none]).cdss.map (·.1) =
    ["a_b".toList, "a_b_e50adf46".toList] := by decide +kernel
/-- reading: a locus tag with a line-break blank collides with its unbroken form and is renamed as a
    splice variant; a CDS without identifiers is named after its position -/
example : (fromBiopython {} [⟨true, .simple ⟨10, 40, .fwd⟩, some "a b".toList, none, none, false⟩,
                             ⟨true, .simple ⟨20, 50, .fwd⟩, some "ab".toList, none, none, false⟩,
                             ⟨true, .simple ⟨100, 130, .rev⟩, none, none, none, true⟩]).toOption.map
            (fun s => s.cdss.map (·.1)) =
    some ["ab".toList, "ab_e50adf46".toList, "pseudo100_130".toList] := by decide +kernel
/-- `f"{crc:x}"` drops leading zero nibbles: seven hex digits here -/
example : locationChecksum (.simple ⟨18, 45, .fwd⟩) = "cdea4e3".toList := by decide +kernel
/-- options: the renamed duplicate is found under its new id only; the original id as target matches the
    first record; with sanitisation switched off nothing is renamed and both carry the target -/
example : (preProcess { limitTo := "a_0".toList } [("a".toList, [], none), ("a".toList, [], none)]).toOption.map (·.2) =
    some [true, false] := by decide
example : (preProcess { limitTo := "a".toList } [("a".toList, [], none), ("a".toList, [], none)]).toOption.map (·.2) =
    some [false, true] := by decide
example : (preProcess { skip := true, limitTo := "a".toList } [("a".toList, [], none), ("a".toList, [], none)]).toOption.map (·.2) =
    some [false, false] := by decide
example : (match preProcess { limitTo := "a:b".toList } [("a:b".toList, [], none)] with
           | .error .noMatch => true | _ => false) = true := by decide
/-- the declarative matches exist: `ontig12.x` matches with the `i` and `g` taken, `ont7` with both skipped,
    `cafold3-` with `f` and `l` skipped; `ontig12x` has no match (no boundary after the digits) -/
example : MatchContig "ontig12.x".toList "12".toList := (matchContigAt_iff _ _).mp (by decide)
example : MatchContig "ont7".toList "7".toList := (matchContigAt_iff _ _).mp (by decide)
example : MatchScaffold "cafod3-".toList "3".toList := (matchScaffoldAt_iff _ _).mp (by decide)
example : ¬ ∃ ds, MatchContig "ontig12x".toList ds := fun ⟨ds, h⟩ => by
  have := (matchContigAt_iff _ _).mpr h
  have hn : matchContigAt "ontig12x".toList = none := by decide
  rw [hn] at this
  exact absurd this (by simp)
/-- D60 witness: the generated name is already there → input error `dupName` (used to be a bare `assert`) -/
example : (match addCds (runOps {} [.cds (.simple ⟨100, 130, .fwd⟩) (some "geneX_e50adf46".toList) none none,
                                    .cds (.simple ⟨10, 40, .fwd⟩) (some "geneX".toList) none none])
                        (mkCds (.simple ⟨20, 50, .fwd⟩) (some "geneX".toList) none none) with
           | .error .dupName => true
           | _ => false) = true := by decide +kernel

end ASV.C16
