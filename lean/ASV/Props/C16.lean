/-
  C16 — Sanitised record identifiers are unique, short and filesystem-safe.
-/
import ASV.Model.Ids
import ASV.Spec.Ids
namespace ASV.C16
open ASV ASV.Ids

theorem strip_idem (s : Str) : strip (strip s) = strip s := by
  simp [strip, List.filter_filter]

end ASV.C16
