/-
  C16 — Sanitised record identifiers are unique, short and filesystem-safe.
  Property theorems only; helper lemmas live in ASV/Proofs/Ids*.lean.

  `preProcessIds allowLong inp` is the identifier handling of `pre_process_sequences` (duplicate
  pass, `fix_record_name_id` per record, final "record has no name" check) on the list of
  `(id, name)` pairs of the input records, for the code repaired by fixes/D14* and fixes/D15*.
  Every statement is for all input lists (any length, any characters, duplicates, ids equal to
  another record's rewritten form, …) and both settings of `allow_long_headers`; none has a
  side condition.  The illegal-character sets are the regenerated tables `ASV.Generated.Ids`.
-/
import ASV.Proofs.IdsMain
import ASV.Proofs.IdsGenes
namespace ASV.C16
open ASV ASV.Ids ASV.Generated.Ids

/-- all records have pairwise distinct identifiers afterwards -/
theorem ids_distinct (allowLong : Bool) (inp : List (Str × Str)) (recs : List Rec)
    (h : preProcessIds allowLong inp = .ok recs) : (recs.map (·.id)).Nodup :=
  (preProcessIds_post h).distinct

/-- neither id nor name contains a character unusable in file names / GenBank headers -/
theorem ids_clean (allowLong : Bool) (inp : List (Str × Str)) (recs : List Rec)
    (h : preProcessIds allowLong inp = .ok recs) :
    ∀ r ∈ recs, ∀ bad ∈ illegalRecordChars, bad ∉ r.id ∧ bad ∉ r.name :=
  fun r hr bad hb =>
    ⟨fun hm => ((preProcessIds_post h).each r hr).1 bad hm hb,
     fun hm => ((preProcessIds_post h).each r hr).2.1 bad hm hb⟩

/-- at most 16 characters unless long headers were allowed -/
theorem ids_short (inp : List (Str × Str)) (recs : List Rec)
    (h : preProcessIds false inp = .ok recs) : ∀ r ∈ recs, r.id.length ≤ 16 ∧ r.name.length ≤ 16 :=
  fun r hr => ((preProcessIds_post h).each r hr).2.2.1 rfl

/-- no record is lost or invented, and a record remembers its original identifier exactly when
    its identifier was changed (by the duplicate pass, the shortening or the stripping) -/
theorem original_remembered (allowLong : Bool) (inp : List (Str × Str)) (recs : List Rec)
    (h : preProcessIds allowLong inp = .ok recs) :
    List.Forall₂ (fun p r => r.orig = if r.id = p.1 then none else some p.1) inp recs :=
  (preProcessIds_post h).remembers

/-- accepted inputs have no empty identifier, before or after -/
theorem ids_nonempty (allowLong : Bool) (inp : List (Str × Str)) (recs : List Rec)
    (h : preProcessIds allowLong inp = .ok recs) : (∀ p ∈ inp, p.1 ≠ []) ∧ ∀ r ∈ recs, r.id ≠ [] :=
  ⟨(preProcessIds_post h).inputsNamed, fun r hr => ((preProcessIds_post h).each r hr).2.2.2⟩

/-- an input is rejected only because no 16-character identifier is left (`RuntimeError` of
    `generate_unique_id`) or because a record has no identifier; the `assert` on the size of the
    id set never fires and the counter loop of `generate_unique_id` always stops -/
theorem rejected_only_as_documented (allowLong : Bool) (inp : List (Str × Str)) (e : Err)
    (h : preProcessIds allowLong inp = .error e) : e = .runtime ∨ e = .noName :=
  preProcessIds_err h

/-- with `allow_long_headers` the only rejection left is a record without identifier -/
theorem allow_long_rejects_only_unnamed (inp : List (Str × Str)) (e : Err)
    (h : preProcessIds true inp = .error e) : e = .noName :=
  preProcessIds_err_long h

/-- the executable specification evaluated by the driver on the implementation's output holds of
    the model's output (same definition, `ASV.IdSpec.recordsOk`) -/
theorem sanitised_meets_spec (allowLong : Bool) (inp : List (Str × Str)) (recs : List Rec)
    (h : preProcessIds allowLong inp = .ok recs) :
    IdSpec.recordsOk allowLong (inp.map (·.1)) (recs.map toOut) = true :=
  post_recordsOk (preProcessIds_post h)

/-- `generate_unique_id` returns `prefix_counter` for a counter not below `start`, not among the
    existing ids and within `max_length` when one is given -/
theorem unique_id_fresh (pre : Str) (taken : List Str) (start : Nat) (maxLength : Int) (n : Str) (k : Nat)
    (h : generateUniqueId pre taken start maxLength = .ok (n, k)) :
    n ∉ taken ∧ n = mkName pre k ∧ (0 < maxLength → (n.length : Int) ≤ maxLength) :=
  ⟨(generateUniqueId_ok h).2.1, (generateUniqueId_ok h).1, (generateUniqueId_ok h).2.2⟩

/-- … and it fails only with the `RuntimeError` for a positive `max_length` (totality of the loop) -/
theorem unique_id_total (pre : Str) (taken : List Str) (start : Nat) (maxLength : Int) (e : Err)
    (h : generateUniqueId pre taken start maxLength = .error e) : e = .runtime ∧ 0 < maxLength :=
  generateUniqueId_err h

/-- the repaired `_shorten_ids` always fits (D15) and is the old format for numbers of ≤ 5 digits -/
theorem shortened_fits (recordIndex : Nat) (s : Str) :
    (shortenIds recordIndex s).length ≤ 16 ∧
    ((Nat.toDigits 10 (contigNoOf recordIndex s)).length ≤ 5 →
      shortenIds recordIndex s = 'c' :: pad5 (contigNoOf recordIndex s) ++ '_' :: s.take 7 ++ ['.', '.']) :=
  ⟨shortenIds_length _ _, shortenIds_small _ _⟩

/-- gene identifiers: a successful `add_cds_feature` stores the feature under a name and a
    location that no earlier CDS of the record has (otherwise the call is rejected and the record
    is left as it was, by construction of `applyOp`) -/
theorem add_cds_fresh_or_rejected (s s' : GState) (c : Cds) (chk n : Str) (h : addCds s c chk = .ok (s', n)) :
    n ∉ s.cdss.map (·.1) ∧ c.loc ∉ s.cdss.map (·.2) ∧ s'.cdss = s.cdss ++ [(n, c.loc)] :=
  ⟨(addCds_ok h).1, (addCds_ok h).2.1, (addCds_ok h).2.2.1⟩

/-- after any sequence of `add_gene` / `add_cds_feature` calls on a fresh record the CDS names and
    the CDS locations are pairwise distinct -/
theorem gene_names_unique_or_rejected (ops : List GOp) :
    ((runOps {} ops).cdss.map (·.1)).Nodup ∧ ((runOps {} ops).cdss.map (·.2)).Nodup :=
  runOps_inv ops ⟨List.nodup_nil, List.nodup_nil⟩

/-- `_sanitise_id_value` removes every gene-level illegal character, keeps the length and leaves
    legal values alone; the names of all CDS features stay legal when the checksums are -/
theorem gene_names_safe (s : Str) (ops : List GOp) :
    (∀ bad ∈ illegalGeneChars, bad ∉ sanitiseIdValue s) ∧ (sanitiseIdValue s).length = s.length ∧
    ((∀ op ∈ ops, chkSafe op) → ∀ x ∈ (runOps {} ops).cdss, ∀ bad ∈ illegalGeneChars, bad ∉ x.1) :=
  ⟨fun bad hb hm => sanitise_safe s bad hm hb, sanitise_length s,
   fun hc x hx bad hb hm => runOps_safe ops hc (by simp) x hx bad hm hb⟩

/-- the regenerated illegal-character tables still contain every character they contained when
    the property was written (path separator, blank, shell/GenBank metacharacters; for gene ids
    also tab / newline / carriage return): shrinking a table breaks this obligation -/
theorem illegal_sets_cover_baseline :
    (['!', '"', '#', '$', '%', '&', '(', ')', '*', '+', ',', ':', ';', '=', '>', '?', '@', '[', ']', '^', '`',
      '\'', '{', '|', '}', '/', ' '].all fun c => illegalRecordChars.contains c && illegalGeneChars.contains c) = true ∧
    (['\t', '\n', '\r'].all fun c => illegalGeneChars.contains c) = true := by decide

/-! ### non-vacuity: the hypotheses are satisfiable on the inputs that used to break the property -/

/-- D14 witness: used to give `ab`, `ab` -/
example : preProcessIds false [("a:b".toList, "a:b".toList), ("ab".toList, "ab".toList)] =
    .ok [⟨"ab_0".toList, "ab".toList, some "a:b".toList, 1⟩, ⟨"ab".toList, "ab".toList, none, 2⟩] := by decide
/-- D15 witness: used to give the 18-character `c1234567_contig1..` -/
example : preProcessIds false [("contig1234567.abcdefghijklmnop".toList, "x".toList)] =
    .ok [⟨"c1234567_conti..".toList, "x".toList, some "contig1234567.abcdefghijklmnop".toList, 1⟩] := by decide
/-- duplicates, allow_long_headers: second and third occurrence renamed, first kept -/
example : (preProcessIds true [("a".toList, []), ("a".toList, []), ("a_0".toList, [])]).map (·.map (·.id)) =
    .ok ["a".toList, "a_0".toList, "a_0_0".toList] := by decide
/-- the two rejections happen -/
example : preProcessIds false [("a".toList, []), ([], [])] = .error .noName := by decide
example : generateUniqueId "ab".toList ["ab_0".toList] 0 3 = .error .runtime := by decide
/-- splice variant: same locus tag, overlapping location → renamed with the checksum; disjoint → rejected -/
example : (runOps {} [.cds (.simple ⟨10, 40, .fwd⟩) (some "a:b".toList) none none "1f".toList,
                      .cds (.simple ⟨20, 50, .fwd⟩) (some "a_b".toList) none none "2e".toList,
                      .cds (.simple ⟨100, 130, .fwd⟩) (some "a b".toList) none none "3d".toList]).cdss.map (·.1) =
    ["a_b".toList, "a_b_2e".toList] := by decide

end ASV.C16
