/-
  C09 — annotations placed inside a gene cover the nucleotides that encode them.
  Property theorems only; helper lemmas live in ASV/Proofs/ProtDna.lean.

  All statements are for EVERY gene location satisfying `geneWF` (≥ 1 exon, no empty exon, one
  strand): any number of exons of any sizes, in any order (so: introns, origin-spanning genes,
  exons split by the origin, overlapping exons), either strand; and every range.  The model is of the
  tree with fixes D8, D8c, D9 applied (see design/C09.md); on the unrepaired tree the correspondence
  fails on the corpus witnesses.

  `bases l` = the gene's coordinates in transcription order (Spec/ProtDna.lean); `sliceL x a b = x[a:b]`.
-/
import ASV.Proofs.ProtDna
import ASV.Proofs.ProtDnaRebuild
import ASV.Proofs.ProtDnaConvert
namespace ASV.C09
open ASV ASV.ProtDna

/-- THE PROPERTY for domains/motifs/prepeptide sections (`Feature.get_sub_location_from_protein_coordinates`):
    for residues `[s,e)` inside the gene's product the call succeeds, and the returned location
    lists exactly nucleotides `[3s,3e)` of the gene in transcription order — hence three bases per
    residue — and every part of it is a non-empty piece of one exon on the gene's strand (so it lies
    inside the gene's location, and ranges starting/ending at exon borders never yield an empty part or
    a part of the wrong exon).  `coversSlice` is the same Bool the driver evaluates on implementation output. -/
theorem sub_is_slice (l : Loc) (hwf : geneWF l = true) (s e : Nat) (hse : s < e) (he : (e : Int) ≤ l.len / 3) :
    ∃ r, subLocation l s e = .ok r ∧
      bases r = sliceL (bases l) (3 * s) (3 * e) ∧
      (bases r).length = 3 * (e - s) ∧
      (∀ q ∈ r.parts, ∃ p ∈ l.parts, p.lo ≤ q.lo ∧ q.lo < q.hi ∧ q.hi ≤ p.hi ∧ q.strand = p.strand) ∧
      coversSlice l r (3 * s) (3 * e) = true := by
  obtain ⟨r, hr, hb, hi⟩ := subLocation_slice l hwf s e hse he
  obtain ⟨_, hparts⟩ := (geneWF_iff l).mp hwf
  have hlen := len_eq_bases_length l (fun p hp => Int.le_of_lt (hparts p hp).1)
  have hl : (bases r).length = 3 * e - 3 * s := by
    rw [hb, sliceL_length _ _ _ (by omega)]
  refine ⟨r, hr, hb, by omega, hi, ?_⟩
  unfold coversSlice
  rw [partsInside_of l r hi, hl, ← hb]
  simp

/-- … and extracting that location from the record and translating it gives exactly residues `[s,e)` of
    the gene's translation — for every sequence, complement function and genetic code -/
theorem sub_extract_translate {β γ} (seq : Int → β) (compl : β → β) (code : β × β × β → γ)
    (l : Loc) (hwf : geneWF l = true) (s e : Nat) (hse : s < e) (he : (e : Int) ≤ l.len / 3) :
    ∃ r, subLocation l s e = .ok r ∧
      extract seq compl r = sliceL (extract seq compl l) (3 * s) (3 * e) ∧
      translate code (extract seq compl r) = sliceL (translate code (extract seq compl l)) s e := by
  obtain ⟨r, hr, hb, hi⟩ := subLocation_slice l hwf s e hse he
  have hx := extract_slice seq compl l r hwf _ _ hb hi
  exact ⟨r, hr, hx, by rw [hx, translate_slice]⟩

/-- ranges not inside the product are refused (ValueError), never answered with a wrong location -/
theorem sub_refused (l : Loc) (s e : Int) (h : ¬ (0 ≤ s ∧ s < e ∧ e ≤ l.len / 3)) :
    subLocation l s e = .valueError :=
  subLocation_refuses l s e h

/-- the exon walk itself (`get_sub_location_from_offsets`, introduced by fix D8): nucleotide offsets
    `[a,b)` inside the gene give exactly `bases[a:b]`, parts inside exons -/
theorem offsets_is_slice (l : Loc) (hwf : geneWF l = true) (a b : Nat) (hab : a < b) (hb : (b : Int) ≤ l.len) :
    ∃ r, subLocationFromOffsets l a b = .ok r ∧ bases r = sliceL (bases l) a b ∧
      (∀ q ∈ r.parts, ∃ p ∈ l.parts, p.lo ≤ q.lo ∧ q.lo < q.hi ∧ q.hi ≤ p.hi ∧ q.strand = p.strand) :=
  subLocationFromOffsets_slice l hwf a b hab hb

/-- leader / core / tail of a precursor peptide (`Prepeptide.to_biopython`): the three sub-locations exist
    exactly when the peptide has that section, are consecutive slices of the gene, and together cover the
    translated part `bases[0 : 3·⌊len/3⌋]` -/
theorem prepeptide_partition (l : Loc) (hwf : geneWF l = true) (ld tl : Nat) (h : (ld : Int) + tl < l.len / 3) :
    ∃ a c b, prepeptideSections l ld tl = .ok (a, c, b) ∧
      (a = none ↔ ld = 0) ∧ (b = none ↔ tl = 0) ∧
      optBases a = sliceL (bases l) 0 (3 * ld) ∧
      bases c = sliceL (bases l) (3 * ld) (3 * ((l.len / 3).toNat - tl)) ∧
      optBases b = sliceL (bases l) (3 * ((l.len / 3).toNat - tl)) (3 * (l.len / 3).toNat) ∧
      optBases a ++ bases c ++ optBases b = (bases l).take (3 * (l.len / 3).toNat) := by
  obtain ⟨a, c, b, hm, ha0, hb0, ha, hc, hb, _⟩ := prepeptide_sections l hwf ld tl h
  have hpos := len_nonneg l hwf
  refine ⟨a, c, b, hm, ha0, hb0, ha, hc, hb, ?_⟩
  rw [ha, hc, hb, sliceL_append _ _ _ _ (by omega) (by omega), sliceL_append _ _ _ _ (by omega) (by omega),
    sliceL_zero]

/-- a marked codon (`TTAResults.new_feature_from_other`, and the codon loop of `tta.detect`, after fix D9):
    the marker of the codon at nucleotide offset `off` covers exactly `bases[off : off+3]`, inside the gene;
    the only codons not marked are those whose location no secmet Feature can hold (two pieces ending at the
    same coordinate), which are refused / skipped — never misplaced -/
theorem tta_marker_is_codon (l : Loc) (hwf : geneWF l = true) (off : Nat) (h : (off : Int) + 3 ≤ l.len) :
    ∃ r, bases r = sliceL (bases l) off (off + 3) ∧
      (∀ q ∈ r.parts, ∃ p ∈ l.parts, p.lo ≤ q.lo ∧ q.lo < q.hi ∧ q.hi ≤ p.hi ∧ q.strand = p.strand) ∧
      ttaLocation l off = (if containsOverlappingExons r then .valueError else .ok r) ∧
      ttaDetectMarker l off = .ok (if containsOverlappingExons r then none else some r) := by
  obtain ⟨r, _, hb, hi, h1, h2⟩ := tta_marker l hwf off h
  exact ⟨r, hb, hi, h1, h2⟩

/-- a `codon_start` of `c` (`frameshift_location_by_qualifier`, as applied by `Feature.from_biopython`):
    under the code's own guard the shifted gene is the original minus its first `c-1` transcribed bases, on
    the same strand; it is again a well-formed gene when the first exon is longer than the shift, so
    `sub_is_slice` applies to it unchanged -/
theorem frameshift_drops_offset (l : Loc) (hwf : geneWF l = true) (c : Int) (hg : frameGuard l c false = true) :
    ∃ l', frameshift l c false = .ok l' ∧ bases l' = (bases l).drop (c - 1).toNat ∧ l'.strand = l.strand ∧
      (c - 1 < firstLen l → geneWF l' = true) := by
  obtain ⟨l', h, hb, hs⟩ := frameshift_shift l hwf c hg
  refine ⟨l', h, hb, hs, fun hlen => frameshift_wf l l' hwf c ?_ h hlen⟩
  simp only [frameGuard, Bool.and_eq_true, decide_eq_true_eq] at hg
  exact hg.1

/-- `Feature.to_biopython` undoes the shift exactly (given that the undo's sanity assertion passes on the
    shifted location, which it does whenever its first exon is still the outermost one) -/
theorem frameshift_undo (l : Loc) (hwf : geneWF l = true) (c : Int) (hg : frameGuard l c false = true) :
    ∃ l', frameshift l c false = .ok l' ∧ (firstExonNotOuter l' = false → frameshift l' c true = .ok l) :=
  frameshift_roundtrip l hwf c hg

/-- outside that guard the shift is refused — an invalid qualifier or a first exon shorter than the shift
    with ValueError, nested exons with the code's AssertionError — never answered wrongly -/
theorem frameshift_refused (l : Loc) (hwf : geneWF l = true) (c : Int) (hg : frameGuard l c false = false) :
    frameshift l c false = .valueError ∨ frameshift l c false = .assertion :=
  frameshift_fails l hwf c hg


/-- THE WRITE-OUT / RE-READ CYCLE, repaired code (fix D107, `_combine_sections`): a prepeptide written with
    `to_biopython` and rebuilt by `Prepeptide.from_biopython` from its core feature gets a location `r` that lists
    exactly the gene's translated bases `bases l [0 : 3⌊len/3⌋]` in transcription order and is again a
    well-formed gene — for every gene shape (several exons, reverse strand, origin-spanning, overlapping exons) —
    and positioning leader/core/tail AGAIN from the rebuilt prepeptide gives the same slices of the ORIGINAL
    gene.  The only refusal is the constructor's (two exons of `r` ending at the same coordinate). -/
theorem prepeptide_rebuild_repaired (l : Loc) (hwf : geneWF l = true) (ld tl : Nat) (h : (ld : Int) + tl < l.len / 3) :
    ∃ r, bases r = (bases l).take (3 * (l.len / 3).toNat) ∧ geneWF r = true ∧
      prepeptideRebuild true l ld tl = (if containsOverlappingExons r then .valueError else .ok r) ∧
      ∃ a c b, prepeptideSections r ld tl = .ok (a, c, b) ∧
        (a = none ↔ ld = 0) ∧ (b = none ↔ tl = 0) ∧
        optBases a = sliceL (bases l) 0 (3 * ld) ∧
        bases c = sliceL (bases l) (3 * ld) (3 * ((l.len / 3).toNat - tl)) ∧
        optBases b = sliceL (bases l) (3 * ((l.len / 3).toNat - tl)) (3 * (l.len / 3).toNat) :=
  rebuild_cycle true l hwf ld tl h
    (fun secs hne hok _ => by simpa [rebuildLocation] using combineSections_ok l.strand secs hne hok)
    (fun hf => by cases hf)

/-- the same for the UNREPAIRED code (`build_location_from_others`), which is only right when each of its merges
    joins parts that really adjoin.  Full statement (false, see the witness below):
      `∀ l ld tl, geneWF l → ld + tl < len/3 → <conclusion of prepeptide_rebuild_repaired with `false`>`.
    Missing part = the hypothesis `rebuildSound l ld tl` (class predicate of KF-C09-prepeptide-false-merge: it
    fails only for genes whose exons are not listed in coordinate order). -/
theorem prepeptide_rebuild_unrepaired_partial (l : Loc) (hwf : geneWF l = true) (ld tl : Nat)
    (h : (ld : Int) + tl < l.len / 3) (hs : rebuildSound l ld tl = true) :
    ∃ r, bases r = (bases l).take (3 * (l.len / 3).toNat) ∧ geneWF r = true ∧
      prepeptideRebuild false l ld tl = (if containsOverlappingExons r then .valueError else .ok r) ∧
      ∃ a c b, prepeptideSections r ld tl = .ok (a, c, b) ∧
        (a = none ↔ ld = 0) ∧ (b = none ↔ tl = 0) ∧
        optBases a = sliceL (bases l) 0 (3 * ld) ∧
        bases c = sliceL (bases l) (3 * ld) (3 * ((l.len / 3).toNat - tl)) ∧
        optBases b = sliceL (bases l) (3 * ((l.len / 3).toNat - tl)) (3 * (l.len / 3).toNat) :=
  rebuild_cycle false l hwf ld tl h
    (fun secs hne hok hsnd => by
      simpa [rebuildLocation] using rebuildUnrepaired_ok l.strand secs hne hok (hsnd rfl))
    (fun _ x hx => by simpa [rebuildSound, hx] using hs)

/-- partial genes (NCBI `<`/`>` positions): when the gene's 3' end is ambiguous (`amb`), a protein end beyond the
    product is truncated to the product — the annotation then covers exactly `bases[3s : 3⌊len/3⌋]`; in every other
    situation (exact end, or an end inside the product) the call is the ordinary one, so `sub_is_slice`,
    `sub_extract_translate` and `sub_refused` apply verbatim -/
theorem sub_partial_gene (l : Loc) (hwf : geneWF l = true) (s : Nat) (e : Int) :
    (∀ amb, (e ≤ l.len / 3 ∨ amb = false) → subLocationFuzzy amb l s e = subLocation l s e) ∧
    ((s : Int) < l.len / 3 → l.len / 3 < e →
      ∃ r, subLocationFuzzy true l s e = .ok r ∧
        bases r = sliceL (bases l) (3 * s) (3 * (l.len / 3).toNat) ∧
        coversSlice l r (3 * s) (3 * (l.len / 3).toNat) = true) := by
  refine ⟨fun amb h => subLocationFuzzy_eq amb l s e h, fun hs he => ?_⟩
  have hpos := len_nonneg l hwf
  obtain ⟨r, hr, hb, _, _, hc⟩ := sub_is_slice l hwf s (l.len / 3).toNat (by omega) (by omega)
  refine ⟨r, ?_, hb, hc⟩
  rw [subLocationFuzzy_truncates l s e (by omega) hs he]
  have : ((l.len / 3).toNat : Int) = l.len / 3 := by omega
  rw [← this]; exact hr

/-- the `codon_start` qualifier as GenBank text: only its first character counts; a digit behaves as that
    number (so `frameshift_drops_offset` / `frameshift_refused` apply), anything else is refused -/
theorem frameshift_text (l : Loc) (raw : String) (undo : Bool) :
    (∀ c, codonStartOfText raw = some c → frameshiftText l raw undo = frameshift l c undo) ∧
    (codonStartOfText raw = none → frameshiftText l raw undo = .valueError) := by
  constructor
  · intro c hc; simp [frameshiftText, hc]
  · intro hc; simp [frameshiftText, hc]

/-- `convert_protein_position_to_dna` itself (the public `Location` method; since fix D8 only the simple-location
    branch feeds an annotation).  Full statement — "for every well-formed gene the pair delimits the range's
    bases" — is FALSE for compound locations whose list order is not the coordinate order (origin-spanning genes:
    witness below; the suite pins the sorted reading).  Proved part: exons listed upwards without overlap on a
    non-reverse strand (`ascDisjointB`): the pair is (coordinate of base 3s, coordinate of base 3e-1, plus 1). -/
theorem convert_compound_forward_partial (ps : List Part) (hwf : geneWF (.compound ps) = true)
    (hnr : isRev (.compound ps) = false) (hasc : ascDisjointB ps = true) (s e : Nat) (hse : s < e)
    (he : (e : Int) ≤ (Loc.compound ps).len / 3) :
    ∃ ds de, convertProteinToDna s e (.compound ps) = .ok (ds, de) ∧
      (bases (.compound ps))[3 * s]? = some ds ∧ (bases (.compound ps))[3 * e - 1]? = some (de - 1) ∧ ds < de :=
  convert_compound_forward ps hwf hnr (ascDisjoint_of_B ps hasc) s e hse he

/-- … and on the reverse strand with exons listed downwards without overlap (`descDisjointB`): `dna_start` is the
    coordinate of the range's LAST base (3e-1), `dna_end` one past the coordinate of its FIRST base (3s) -/
theorem convert_compound_reverse_partial (ps : List Part) (hwf : geneWF (.compound ps) = true)
    (hr : isRev (.compound ps) = true) (hdesc : descDisjointB ps = true) (s e : Nat) (hse : s < e)
    (he : (e : Int) ≤ (Loc.compound ps).len / 3) :
    ∃ ds de, convertProteinToDna s e (.compound ps) = .ok (ds, de) ∧
      (bases (.compound ps))[3 * e - 1]? = some ds ∧ (bases (.compound ps))[3 * s]? = some (de - 1) ∧ ds < de :=
  convert_compound_reverse ps hwf hr (descDisjoint_of_B ps hdesc) s e hse he

/-- simple locations: exact, both strands -/
theorem convert_simple_location (p : Part) (s e : Int) (h0 : 0 ≤ s) (hse : s < e) (he : e ≤ (p.hi - p.lo) / 3) :
    convertProteinToDna s e (.simple p)
      = .ok (if p.strand == .rev then (p.hi - e * 3, p.hi - s * 3) else (p.lo + s * 3, p.lo + e * 3)) :=
  convert_simple p s e h0 hse he

/-- THE GENE'S OWN TABLE (`CDSFeature.from_biopython` for a CDS without a usable /translation, reached through
    `Record.from_biopython`): the translation antiSMASH stores is generated under `T = cdsTable recordTable qual` —
    the CDS's own /transl_table when it has one, the record's otherwise — which is also the gene's `transl_table`
    attribute.  Hence, for every genetic-code family `code`, every sub-location for residues `[s,e)`, `1 ≤ s`,
    up to the first stop, translated under the gene's OWN table, is exactly that stretch of the stored translation
    (residue 0 is the start codon, always shown as `M`: `forceMet`).  A translation generated under any other table
    (the seeded change: the record's default) falsifies this as soon as the tables differ in a codon of the range. -/
theorem cds_translation_own_table {β} (seq : Int → β) (compl : β → β) (code : Nat → β × β × β → Char)
    (l : Loc) (hwf : geneWF l = true) (recordTable : Nat) (qual : Option Nat) (s e : Nat) (hs : 1 ≤ s) (hse : s < e)
    (he : (e : Int) ≤ l.len / 3)
    (hclean : ∀ c ∈ (translate (code (cdsTable recordTable qual)) (extract seq compl l)).take e,
      "*BJOUZ".toList.contains c = false) :
    ∃ r, subLocation l s e = .ok r ∧
      translate (code (cdsTable recordTable qual)) (extract seq compl r)
        = sliceL (cdsGeneratedTranslation (fun t => translate (code t) (extract seq compl l)) recordTable qual) s e := by
  obtain ⟨r, hr, _, ht⟩ := sub_extract_translate seq compl (code (cdsTable recordTable qual)) l hwf s e hse he
  refine ⟨r, hr, ?_⟩
  rw [ht]
  unfold cdsGeneratedTranslation
  rw [sliceL_forceMet _ s e hs]
  apply sliceL_of_take_eq
  symm
  apply aaTranslation_take _ e (by omega) _ hclean
  have hl := extract_length seq compl l hwf
  simp only [translate, List.length_map, codons_length]
  omega

/-- FEATURES READ BACK (`Record.to_biopython` → `Record.from_biopython`, results reuse / GenBank re-read) on a record
    that can be circular: the origin test the reader makes (`location_bridges_origin`, `allow_reversing=False`) answers
    without touching the location (1); a gene, motif, domain or prepeptide section keeps its location exactly (2), so
    every theorem above about `subLocation` / `prepeptideSections` / `prepeptideRebuild` holds verbatim for the re-read
    feature; a misc_feature (TTA marker) keeps it when it does not bridge the origin (3) and when it is split in two over
    the origin with neither piece inside the other (4) — `remove_redundant_exons` finds nothing redundant.
    The seeded change (asking with `allow_reversing=True`) falsifies (1)/(2): see the witness below. -/
theorem read_back_keeps_location (c : Bool) (l : Loc) :
    bridgesOriginAR false l = (bridgesOrigin l, l) ∧
    readLocation c false l = l ∧
    (∀ m, bridgesOrigin l = false → readLocation c m l = l) ∧
    (∀ p q, l = .compound [p, q] → partContains p q = false → partContains q p = false → readLocation c true l = l) := by
  refine ⟨bridgesOriginAR_false l, readLocation_other c l, fun m h => readLocation_not_bridging c m l h, ?_⟩
  intro p q hl h1 h2
  subst hl
  simp only [readLocation, bridgesOriginAR_false]
  split <;> simp [removeRedundant_two p q h1 h2]

/-- … hence a re-read annotation still covers the nucleotides that encode it: the sub-location for residues `[s,e)`
    written out and read back (as CDS_motif / aSDomain / prepeptide section) lists `bases l [3s:3e]` and translates to
    that stretch of the gene's translation; the re-read gene lists `bases l` -/
theorem read_back_sub_feature {β γ} (seq : Int → β) (compl : β → β) (code : β × β × β → γ)
    (c : Bool) (l : Loc) (hwf : geneWF l = true) (s e : Nat) (hse : s < e) (he : (e : Int) ≤ l.len / 3) :
    bases (readLocation c false l) = bases l ∧
    ∃ r, subLocation l s e = .ok r ∧
      bases (readLocation c false r) = sliceL (bases l) (3 * s) (3 * e) ∧
      translate code (extract seq compl (readLocation c false r)) = sliceL (translate code (extract seq compl l)) s e := by
  obtain ⟨r, hr, hb, _⟩ := sub_is_slice l hwf s e hse he
  obtain ⟨r', hr', _, ht⟩ := sub_extract_translate seq compl code l hwf s e hse he
  rw [hr] at hr'; cases hr'
  exact ⟨by rw [readLocation_other], r, hr, by rw [readLocation_other]; exact hb, by rw [readLocation_other]; exact ht⟩

/-- `frameshift_undo` without its side hypothesis for single-exon genes: `Feature.to_biopython` restores the location
    of every single-exon gene read with a `codon_start` (the shifted location is again single-exon, where the undo's
    sanity assertion does not exist) -/
theorem frameshift_undo_single_exon (p : Part) (hwf : geneWF (.simple p) = true) (c : Int)
    (hg : frameGuard (.simple p) c false = true) :
    ∃ l', frameshift (.simple p) c false = .ok l' ∧ frameshift l' c true = .ok (.simple p) := by
  obtain ⟨l', h1, h2⟩ := frameshift_roundtrip (.simple p) hwf c hg
  obtain ⟨q, hq⟩ := frameshift_simple_shape p c false l' h1
  exact ⟨l', h1, h2 (by rw [hq]; rfl)⟩

/-- `Feature.start` / `Feature.end` (used wherever a gene's ends are needed: ordering, overlap, html): they are the
    gene's ends in TRANSCRIPTION order for every well-formed gene, origin-spanning or not — on a non-reverse strand
    the first transcribed base is `start`, the last `end - 1`; on the reverse strand the first is `end - 1`, the last `start` -/
theorem feature_start_end_are_gene_ends (l : Loc) (hwf : geneWF l = true) :
    (isRev l = false → (bases l).head? = some (featureStart l) ∧ (bases l).getLast? = some (featureEnd l - 1)) ∧
    (isRev l = true → (bases l).head? = some (featureEnd l - 1) ∧ (bases l).getLast? = some (featureStart l)) :=
  feature_ends l hwf

/-- the refusal clause of `tta_marker_is_codon` discharged for forward genes in the standard exon order (exons listed
    upwards without overlap, `ascDisjointB`): no codon (and no nucleotide range at all) of such a gene has a location
    the Feature constructor refuses, so EVERY in-frame TTA codon is marked, at exactly its three bases -/
theorem tta_marker_forward_standard_gene (l : Loc) (hwf : geneWF l = true) (hnr : isRev l = false)
    (hasc : ascDisjointB l.parts = true) (off : Nat) (h : (off : Int) + 3 ≤ l.len) :
    ∃ r, bases r = sliceL (bases l) off (off + 3) ∧ ttaLocation l off = .ok r ∧
      ttaDetectMarker l off = .ok (some r) := by
  obtain ⟨r, hr, hb, hno⟩ := offsets_forward_standard_representable l hwf hnr hasc off (off + 3) (by omega)
    (by push_cast; omega)
  have hr' : subLocationFromOffsets l (off : Int) ((off : Int) + 3) = .ok r := by
    have : ((off + 3 : Nat) : Int) = (off : Int) + 3 := by push_cast; rfl
    rw [← this]; exact hr
  exact ⟨r, hb, by simp [ttaLocation, hr', featureAt, Res.bind, hno], by simp [ttaDetectMarker, hr', Res.bind, hno]⟩

/-- mirror of `tta_marker_forward_standard_gene` for reverse-strand genes in their standard exon order (exons listed
    downwards without overlap, `descDisjointB`): every in-frame TTA codon is marked, at exactly its three bases -/
theorem tta_marker_reverse_standard_gene (l : Loc) (hwf : geneWF l = true) (hr : isRev l = true)
    (hdesc : descDisjointB l.parts = true) (off : Nat) (h : (off : Int) + 3 ≤ l.len) :
    ∃ r, bases r = sliceL (bases l) off (off + 3) ∧ ttaLocation l off = .ok r ∧
      ttaDetectMarker l off = .ok (some r) := by
  obtain ⟨r, hrr, hb, hno⟩ := offsets_reverse_standard_representable l hwf hr hdesc off (off + 3) (by omega)
    (by push_cast; omega)
  have hr' : subLocationFromOffsets l (off : Int) ((off : Int) + 3) = .ok r := by
    have : ((off + 3 : Nat) : Int) = (off : Int) + 3 := by push_cast; rfl
    rw [← this]; exact hrr
  exact ⟨r, hb, by simp [ttaLocation, hr', featureAt, Res.bind, hno], by simp [ttaDetectMarker, hr', Res.bind, hno]⟩

/-- domains / motifs / pfam hits on a gene in the standard exon order of its strand (single-exon genes included): the
    feature built from the sub-location for residues `[s,e)` is NEVER refused by the Feature constructor, and covers
    `bases l [3s:3e]` — the `unrepresentable` refusal can only happen for overlapping or origin-spanning exons -/
theorem annotation_standard_gene_never_refused (l : Loc) (hwf : geneWF l = true)
    (hstd : (isRev l = false ∧ ascDisjointB l.parts = true) ∨ (isRev l = true ∧ descDisjointB l.parts = true))
    (s e : Nat) (hse : s < e) (he : (e : Int) ≤ l.len / 3) :
    ∃ r, featureAt (subLocation l s e) = .ok r ∧ bases r = sliceL (bases l) (3 * s) (3 * e) := by
  obtain ⟨r, _, h2, h3⟩ := annotation_standard_representable l hwf hstd s e hse he
  exact ⟨r, h2, h3⟩

/-! ### non-vacuity and witnesses (all decided by the kernel on the model) -/

/-- D8 witnesses, now repaired: the origin-spanning forward gene join{[90:102),[0:21)} and its reverse twin -/
def d8Fwd : Loc := .compound [⟨90, 102, .fwd⟩, ⟨0, 21, .fwd⟩]
def d8Rev : Loc := .compound [⟨0, 21, .rev⟩, ⟨90, 102, .rev⟩]
example : geneWF d8Fwd = true ∧ geneWF d8Rev = true := by decide
example : subLocation d8Fwd 0 2 = .ok (.simple ⟨90, 96, .fwd⟩) := by decide
example : subLocation d8Fwd 3 6 = .ok (.compound [⟨99, 102, .fwd⟩, ⟨0, 6, .fwd⟩]) := by decide
example : subLocation d8Rev 0 2 = .ok (.simple ⟨15, 21, .rev⟩) := by decide
example : subLocation d8Rev 4 8 = .ok (.compound [⟨0, 9, .rev⟩, ⟨99, 102, .rev⟩]) := by decide
example : bases (.compound [⟨0, 3, .rev⟩, ⟨8, 10, .rev⟩]) = [2, 1, 0, 9, 8] := by decide
/-- overlapping exons (a ribosomal frameshift): residues [2,4) of join{[10:16),[15:18),[30:40)} -/
example : subLocation (.compound [⟨10, 16, .fwd⟩, ⟨15, 18, .fwd⟩, ⟨30, 40, .fwd⟩]) 2 4
    = .ok (.compound [⟨15, 18, .fwd⟩, ⟨30, 33, .fwd⟩]) := by decide
/-- a range ending exactly at an exon border stays in that exon; one starting there starts the next -/
example : subLocation (.compound [⟨0, 6, .fwd⟩, ⟨12, 15, .fwd⟩, ⟨21, 27, .fwd⟩]) 0 2 = .ok (.simple ⟨0, 6, .fwd⟩) := by decide
example : subLocation (.compound [⟨0, 6, .fwd⟩, ⟨12, 15, .fwd⟩, ⟨21, 27, .fwd⟩]) 2 4
    = .ok (.compound [⟨12, 15, .fwd⟩, ⟨21, 24, .fwd⟩]) := by decide
/-- the refusals -/
example : subLocation d8Fwd 0 12 = .valueError ∧ subLocation d8Fwd 3 3 = .valueError
    ∧ subLocation d8Fwd (-1) 2 = .valueError := by decide
/-- D9 witness, repaired: a codon split over two exons, and one in the second exon of a reverse gene -/
example : ttaLocation (.compound [⟨3, 10, .fwd⟩, ⟨20, 31, .fwd⟩]) 6
    = .ok (.compound [⟨9, 10, .fwd⟩, ⟨20, 22, .fwd⟩]) := by decide
example : ttaLocation (.compound [⟨20, 31, .rev⟩, ⟨3, 10, .rev⟩]) 12 = .ok (.simple ⟨6, 9, .rev⟩) := by decide
/-- the one refusal class: a codon over exons overlapping so that two pieces end at the same coordinate -/
example : ttaLocation (.compound [⟨2, 9, .rev⟩, ⟨0, 3, .rev⟩, ⟨10, 16, .rev⟩]) 6 = .valueError
    ∧ ttaDetectMarker (.compound [⟨2, 9, .rev⟩, ⟨0, 3, .rev⟩, ⟨10, 16, .rev⟩]) 6 = .ok none := by decide
/-- D8c witnesses, repaired: codon_start on origin-spanning genes; and the guard's three failure modes -/
example : frameshift d8Fwd 2 false = .ok (.compound [⟨91, 102, .fwd⟩, ⟨0, 21, .fwd⟩]) := by decide
example : frameshift d8Rev 3 false = .ok (.compound [⟨0, 19, .rev⟩, ⟨90, 102, .rev⟩]) := by decide
example : frameGuard d8Fwd 2 false = true ∧ frameGuard d8Rev 3 false = true := by decide
example : frameshift d8Fwd 4 false = .valueError ∧ frameshift (.simple ⟨5, 6, .fwd⟩) 3 false = .valueError
    ∧ frameshift (.compound [⟨10, 12, .rev⟩, ⟨5, 30, .rev⟩]) 2 false = .assertion := by decide
/-- prepeptide on the origin-spanning gene: leader 3, tail 2 of 11 residues -/
example : prepeptideSections d8Fwd 3 2 = .ok (some (.simple ⟨90, 99, .fwd⟩),
    .compound [⟨99, 102, .fwd⟩, ⟨0, 15, .fwd⟩], some (.simple ⟨15, 21, .fwd⟩)) := by decide

/-- the seeded change's shape, on the repaired model: a reverse two-exon gene and the reverse origin-spanning gene
    come back as themselves (leader 2 / tail 2, leader 3 / tail 2) -/
example : prepeptideRebuild true (.compound [⟨50, 60, .rev⟩, ⟨30, 41, .rev⟩]) 2 2
    = .ok (.compound [⟨50, 60, .rev⟩, ⟨30, 41, .rev⟩]) := by decide
example : prepeptideRebuild true d8Rev 3 2 = .ok d8Rev := by decide
example : prepeptideRebuild true (.simple ⟨30, 60, .rev⟩) 3 3 = .ok (.simple ⟨30, 60, .rev⟩) := by decide
/-- unrepaired code on the same genes: same bases, more parts (C10's KF-C10-reverse-prepeptide-location) -/
example : prepeptideRebuild false (.simple ⟨30, 60, .rev⟩) 3 3
    = .ok (.compound [⟨51, 60, .rev⟩, ⟨39, 51, .rev⟩, ⟨30, 39, .rev⟩]) := by decide
example : rebuildSound d8Rev 3 2 = true ∧ rebuildSound (.compound [⟨50, 60, .rev⟩, ⟨30, 41, .rev⟩]) 2 2 = true := by decide
/-- negation witness of the full unrepaired statement (KF-C09-prepeptide-false-merge): exons not in coordinate
    order; the hypothesis fails and the rebuilt location has 31 bases instead of the gene's 15 -/
def kfShuffled : Loc := .compound [⟨16, 22, .rev⟩, ⟨0, 6, .rev⟩, ⟨22, 25, .rev⟩]
example : geneWF kfShuffled = true ∧ rebuildSound kfShuffled 1 1 = false := by decide
example : prepeptideRebuild false kfShuffled 1 1
    = .ok (.compound [⟨19, 22, .rev⟩, ⟨16, 19, .rev⟩, ⟨0, 25, .rev⟩]) := by decide
example : prepeptideRebuild true kfShuffled 1 1 = .ok kfShuffled := by decide

/-- partial gene `[10:>40)`: residues [8, 12) are cut back to [8, 10); with an exact end they are refused -/
example : subLocationFuzzy (ambiguousEnd (.simple ⟨10, 40, .fwd⟩) [(false, true)]) (.simple ⟨10, 40, .fwd⟩) 8 12
    = .ok (.simple ⟨34, 40, .fwd⟩) := by decide
example : subLocationFuzzy (ambiguousEnd (.simple ⟨10, 40, .fwd⟩) [(false, false)]) (.simple ⟨10, 40, .fwd⟩) 8 12
    = .valueError := by decide
/-- reverse partial gene `[<3:27)` in two exons: the open end is the START of the lowest exon -/
example : ambiguousEnd (.compound [⟨21, 27, .rev⟩, ⟨3, 15, .rev⟩]) [(false, false), (true, false)] = true
    ∧ ambiguousEnd (.compound [⟨21, 27, .rev⟩, ⟨3, 15, .rev⟩]) [(false, true), (false, false)] = false := by decide
example : codonStartOfText "2" = some 2 ∧ codonStartOfText "3x" = some 3 ∧ codonStartOfText "2.0" = some 2
    ∧ codonStartOfText " 2" = none ∧ codonStartOfText "-1" = none := by decide

/-- `convert_*_partial`: hypotheses satisfiable, and the negation witness of the full statement (D8's origin gene:
    the pair (0,6) is not where residues [0,2) are — base 0 of the gene is coordinate 90) -/
example : ascDisjointB [⟨0, 6, .fwd⟩, ⟨12, 15, .fwd⟩, ⟨21, 27, .fwd⟩] = true
    ∧ descDisjointB [⟨21, 27, .rev⟩, ⟨12, 15, .rev⟩, ⟨0, 6, .rev⟩] = true ∧ ascDisjointB d8Fwd.parts = false := by decide
example : convertProteinToDna 1 5 (.compound [⟨0, 6, .fwd⟩, ⟨12, 15, .fwd⟩, ⟨21, 27, .fwd⟩]) = .ok (3, 27) := by decide
example : convertProteinToDna 1 5 (.compound [⟨21, 27, .rev⟩, ⟨12, 15, .rev⟩, ⟨0, 6, .rev⟩]) = .ok (0, 24) := by decide
example : convertProteinToDna 0 2 d8Fwd = .ok (0, 6) ∧ (bases d8Fwd)[0]? = some 90 := by decide

/-- the seed's witness in the model: `ATG AAA TGA CCC …` — under the gene's table 4 `TGA` is `W` and the stored
    translation runs on; under the record's table 11 it would stop after `MK` -/
example : cdsTable 11 (some 4) = 4 ∧ cdsTable 11 none = 11 := by decide
example : cdsGeneratedTranslation (fun t => if t = 4 then "MKWPGFTCHL*".toList else "MK*PGFTCHL*".toList) 11 (some 4)
    = "MKWPGFTCHL".toList := by decide
example : cdsGeneratedTranslation (fun t => if t = 4 then "MKWPGFTCHL*".toList else "MK*PGFTCHL*".toList) 11 none
    = "MK".toList := by decide
/-- alternate start codon shown as M; a gene that is nothing but a stop comes back as X -/
example : cdsGeneratedTranslation (fun _ => "LKW*".toList) 1 none = "MKW".toList
    ∧ aaTranslation "*".toList = "X".toList := by decide

/-- the seeded change in the model: asked with `allow_reversing=True`, the helper leaves the exons of the reverse
    origin-spanning gene (and of a TTA marker split over the origin) REVERSED — other bases order; asked without, nothing moves -/
example : bridgesOriginAR true d8Rev = (false, .compound [⟨90, 102, .rev⟩, ⟨0, 21, .rev⟩])
    ∧ bridgesOriginAR false d8Rev = (true, d8Rev) := by decide
example : (bases (bridgesOriginAR true (.compound [⟨0, 1, .rev⟩, ⟨58, 60, .rev⟩])).2 = [59, 58, 0])
    ∧ bases (.compound [⟨0, 1, .rev⟩, ⟨58, 60, .rev⟩]) = [0, 59, 58] := by decide
example : readLocation true true (.compound [⟨0, 1, .rev⟩, ⟨58, 60, .rev⟩]) = .compound [⟨0, 1, .rev⟩, ⟨58, 60, .rev⟩] := by decide

/-- `Feature.start/end` of the origin-spanning genes: 90 / 21 forward, and 90 / 21 on the reverse twin -/
example : featureStart d8Fwd = 90 ∧ featureEnd d8Fwd = 21 ∧ featureStart d8Rev = 90 ∧ featureEnd d8Rev = 21 := by decide
example : frameGuard (.simple ⟨5, 20, .rev⟩) 3 false = true
    ∧ frameshift (.simple ⟨5, 20, .rev⟩) 3 false = .ok (.simple ⟨5, 18, .rev⟩) := by decide

/-- hypotheses of `tta_marker_forward_standard_gene` on a three-exon gene, codon split over two exons -/
example : ascDisjointB [⟨3, 10, .fwd⟩, ⟨20, 31, .fwd⟩] = true
    ∧ ttaDetectMarker (.compound [⟨3, 10, .fwd⟩, ⟨20, 31, .fwd⟩]) 6 = .ok (some (.compound [⟨9, 10, .fwd⟩, ⟨20, 22, .fwd⟩])) := by decide

/-- hypotheses of the reverse-strand results on a two-exon gene; the refusal really needs overlapping exons -/
example : descDisjointB [⟨20, 31, .rev⟩, ⟨3, 10, .rev⟩] = true
    ∧ ttaDetectMarker (.compound [⟨20, 31, .rev⟩, ⟨3, 10, .rev⟩]) 9 = .ok (some (.compound [⟨20, 22, .rev⟩, ⟨9, 10, .rev⟩]))
    ∧ descDisjointB [⟨2, 9, .rev⟩, ⟨0, 3, .rev⟩, ⟨10, 16, .rev⟩] = false := by decide

end ASV.C09
