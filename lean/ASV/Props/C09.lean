/-
  C09 — annotations placed inside a gene cover the nucleotides that encode them.
  Property theorems only; helper lemmas live in ASV/Proofs/ProtDna.lean.
-/
import ASV.Model.ProtDna
import ASV.Spec.ProtDna
namespace ASV.C09
open ASV ASV.ProtDna

/-- D8 witness, repaired: residues [0,2) of the origin-spanning forward gene join{[90:102),[0:21)} -/
theorem d8_forward_witness :
    subLocation (.compound [⟨90, 102, .fwd⟩, ⟨0, 21, .fwd⟩]) 0 2 = .ok (.simple ⟨90, 96, .fwd⟩) := by decide

end ASV.C09
