/-
  C02 — Rule text is parsed by the documented grammar, precedence and aliases.
  Property theorems only; helper lemmas live in ASV/Proofs/Parser*.lean.
-/
import ASV.Spec.Grammar
namespace ASV.C02
open ASV ASV.Rules ASV.Parser ASV.Grammar

/-- every member named by the regenerated `Tokeniser.mapping` is a token type the model knows -/
theorem mapping_names_known :
    Generated.RuleTokens.mapping.all (fun p => (TT.ofName p.2).isSome) = true := by decide

/-- `is_a_rule_keyword` (`RULE <= value and value != TEXT`) evaluated on the regenerated numeric
    values of `TokenTypes` is the model's `TT.isRuleKeyword`, and every member is modelled -/
theorem keyword_table_agrees :
    Generated.RuleTokens.tokenValues.all (fun p =>
      (TT.ofName p.1).map TT.isRuleKeyword ==
        some (decide ((Generated.RuleTokens.tokenValues.lookup "RULE").getD 0 ≤ p.2) &&
              p.2 != (Generated.RuleTokens.tokenValues.lookup "TEXT").getD 0)) = true := by decide

end ASV.C02
