/-
  C02 — Rule text is parsed by the documented grammar, precedence and aliases.
  Property theorems only; helper lemmas live in ASV/Proofs/Parser/*.lean.
  Model: ASV/Model/Parser.lean (tokeniser, parser, printer, create_rules — of the repaired code,
  see fixes/D17, D42, D43).  Spec: ASV/Spec/Grammar.lean.
-/
import ASV.Proofs.Parser.Main
import ASV.Proofs.Parser.Grammar
import ASV.Proofs.Parser.Tokeniser
import ASV.Proofs.Parser.RulePP
import ASV.Proofs.Parser.Alias
import ASV.Proofs.Parser.SubstRule
import ASV.Proofs.Parser.FuelTop
import ASV.Proofs.Parser.Reprint11
import ASV.Proofs.Rulesets
import ASV.Proofs.Parser.FilePP
import ASV.Proofs.Continuations
namespace ASV.C02
open ASV ASV.Rules ASV.Parser ASV.Grammar ASV.Layout ASV.Reprint

/-! ### the regenerated tables still say what the model assumes -/

/-- every member named by the regenerated `Tokeniser.mapping` is a token type the model knows -/
theorem mapping_names_known :
    Generated.RuleTokens.mapping.all (fun p => (TT.ofName p.2).isSome) = true := by decide

/-- `is_a_rule_keyword` (`RULE <= value and value != TEXT`) evaluated on the regenerated numeric
    values of `TokenTypes` is the model's `TT.isRuleKeyword`, and every member is modelled -/
theorem keyword_table_agrees :
    Generated.RuleTokens.tokenValues.all (fun p =>
      (TT.ofName p.1).map TT.isRuleKeyword ==
        some (decide ((Generated.RuleTokens.tokenValues.lookup "RULE").getD 0 ≤ p.2) &&
              p.2 != (Generated.RuleTokens.tokenValues.lookup "TEXT").getD 0)) = true := by decide

/-! ### ill-formed input is rejected (thm 6) — stated as: whatever is accepted is well-formed.
    For every list of rule files (any texts whatsoever), every signature set, category set and
    multipliers. -/

/-- `create_rules` only ever returns a well-formed rule set: rule names distinct, categories
    valid, every profile named in a CONDITIONS section a known signature, no condition object
    with a repeated operand (nor `minimum` with a repeated option or a count of 0), a positive
    requirement in the conditions and in the extenders, superiors defined earlier and closed. -/
theorem accepted_rules_wellformed (cfg : Cfg) (files : List String) (rules : List Rule)
    (h : createRules cfg files [] [] = .ok rules) : rulesOk cfg rules = true :=
  createRules_ok cfg files [] [] rules h (by simp [rulesOk, namesDistinct, hasDupStr, supClosed, supClosedFrom])

/-- duplicate rule name ⇒ rejected -/
theorem accepted_names_distinct (cfg : Cfg) (files : List String) (rules : List Rule)
    (h : createRules cfg files [] [] = .ok rules) : (rules.map (·.name)).Nodup := by
  have := (rulesOk_iff.mp (accepted_rules_wellformed cfg files rules h)).1
  simpa [namesDistinct, hasDupStr_false_iff] using this

/-- unknown category, unknown profile, repeated operand, no positive requirement ⇒ rejected -/
theorem accepted_rule_ok (cfg : Cfg) (files : List String) (rules : List Rule)
    (h : createRules cfg files [] [] = .ok rules) (r : Rule) (hr : r ∈ rules) :
    r.category ∈ cfg.cats ∧ (∀ p ∈ r.conditions.profiles, p ∈ cfg.sigs) ∧
      noRepeat r.conditions = true ∧ positive r.conditions = true := by
  have := (rulesOk_iff.mp (accepted_rules_wellformed cfg files rules h)).2.2 r hr
  obtain ⟨⟨h1, h2, h3, _⟩, hp⟩ := ruleOkW_of this
  exact ⟨by simpa using h1, fun p hpm => by simpa using hp p hpm, h2, h3⟩

/-- thm 5: SUPERIORS are rules defined *earlier* (superior not yet defined ⇒ rejected) and are
    closed transitively: the superiors of a superior are superiors -/
theorem superiors_transitive (cfg : Cfg) (files : List String) (rules pre post : List Rule) (r : Rule)
    (h : createRules cfg files [] [] = .ok rules) (hpos : rules = pre ++ r :: post) :
    ∀ m ∈ r.superiors, ∃ q, pre.find? (·.name == m) = some q ∧ ∀ x ∈ q.superiors, x ∈ r.superiors := by
  have hc := (rulesOk_iff.mp (accepted_rules_wellformed cfg files rules h)).2.1
  have := supOk_of_closedFrom [] rules pre r post hc hpos
  simpa using supOk_iff.mp this

/-- missing section / unbalanced group / trailing `not` / `cds` of a single identifier / operator
    without operand ⇒ rejected: the *only* token strings `_parse_conditions` accepts are the
    flattenings (`flatJoin`) of condition objects of the documented shape (`shapeOks`: groups and
    cds non-empty, `and`-chains of ≥ 2 atoms, no `minimum`/`cds` inside `cds`, no lone identifier in
    `cds`), without repeated operands; and it stops where the section may end (`endCheck`). -/
theorem conditions_accepts_only_grammar (fuel : Nat) (allowCds isGroup : Bool) (s s' : PS) (cs : List Cond)
    (h : parseConditions fuel allowCds isGroup s = .ok (cs, s')) :
    ∃ new, s'.consumed = new ++ s.consumed ∧ new.reverse.map Tok.key = flatJoin .orOp cs ∧
      shapeOks allowCds cs = true ∧ noRepeats cs = true ∧ cs ≠ [] ∧ endCheck isGroup s' = .ok () := by
  obtain ⟨new, a, k, g, ne, e⟩ := (blockPost fuel).conds _ _ _ _ _ h
  exact ⟨new, a.consumed, k, g.shape, g.norep, ne, e⟩

/-! ### whitespace and comments are irrelevant (thm 1) -/

/-- thm 1 (`tokenise_layout`): for every sequence of written tokens (single-character symbols and
    multi-character words), every choice of filler before each of them — any whitespace characters,
    any `# … newline` comments, none at all next to a symbol — and every tail (filler, possibly an
    unterminated comment), the tokeniser returns exactly the written tokens, classified by their
    text alone. -/
theorem tokenise_layout (items : List (List Filler × Word)) (tail : Tail)
    (hok : okSeq false items = true) (ht : tail.ok = true) :
    tokenise (String.ofList (render items ++ tail.chars)) = .ok (items.map fun x => mkTok x.2.text) :=
  tokenise_render items tail hok ht

/-- two layouts of the same tokens tokenise alike -/
theorem layout_irrelevant (items items' : List (List Filler × Word)) (tail tail' : Tail)
    (hw : items.map (·.2.text) = items'.map (·.2.text))
    (hok : okSeq false items = true) (ht : tail.ok = true) (hok' : okSeq false items' = true) (ht' : tail'.ok = true) :
    tokenise (String.ofList (render items ++ tail.chars)) = tokenise (String.ofList (render items' ++ tail'.chars)) := by
  rw [tokenise_render items tail hok ht, tokenise_render items' tail' hok' ht']
  have h1 : (items.map fun x => mkTok x.2.text) = (items.map (·.2.text)).map mkTok := by simp
  have h2 : (items'.map fun x => mkTok x.2.text) = (items'.map (·.2.text)).map mkTok := by simp
  rw [h1, h2, hw]

/-- `cds(a# c\n and\tb)` with a trailing open comment -/
example : okSeq false [([], .word 'c' ['d', 's']), ([], .sym '('), ([], .word 'a' []),
      ([.comment [' ', 'c'], .ws ' '], .word 'a' ['n', 'd']), ([.ws '\t'], .word 'b' []), ([], .sym ')')] = true := by
  decide +kernel

/-- the smallest case a change to the `#` branch can break: a comment that directly abuts a word,
    followed by a word in column 0 — the comment alone separates them (the tokeniser finalises the
    pending symbol when it meets `#`) -/
theorem comment_separates (f g : Char) (more more' body : List Char)
    (h1 : (Word.word f more).ok = true) (h2 : (Word.word g more').ok = true) (hb : body.all (· != '\n') = true) :
    tokenise (String.ofList (f :: more ++ '#' :: body ++ '\n' :: g :: more')) =
      .ok [mkTok (String.ofList (f :: more)), mkTok (String.ofList (g :: more'))] := by
  have h := tokenise_render [([], .word f more), ([.comment body], .word g more')] ⟨[], none⟩
    (by simp [okSeq, Filler.ok, h1, h2, hb, Word.isWord]) (by simp [Tail.ok])
  simpa [render, gapChars, Filler.chars, Word.chars, Tail.chars, Word.text] using h

/-- `not#x⏎b` is the two tokens `not`, `b` (not the identifier `notb`) -/
example : (tokenise "not#x\nb").toOption = some [mkTok "not", mkTok "b"] := by decide +kernel

/-- layout-independence of the whole parse: `create_rules` looks at its texts only through the
    tokeniser, so files that tokenise alike — by `layout_irrelevant`: the same written tokens under
    any two layouts — give the same rules or the same error, whatever the earlier rules, aliases,
    signatures, categories and multipliers -/
theorem layout_irrelevant_rules (cfg : Cfg) : ∀ (texts texts' : List String) (rules : List Rule) (aliases : Aliases),
    texts.map tokenise = texts'.map tokenise →
    createRules cfg texts rules aliases = createRules cfg texts' rules aliases
  | [], [], _, _, _ => rfl
  | [], _ :: _, _, _, h => by simp at h
  | _ :: _, [], _, _, h => by simp at h
  | t :: ts, t' :: ts', rules, aliases, h => by
    simp only [List.map_cons, List.cons.injEq] at h
    have ih := layout_irrelevant_rules cfg ts ts'
    simp only [createRules, parseText, h.1]
    cases aliases.forM fun a => verifyAliasName cfg rules a.1 with
    | error e => rfl
    | ok _ =>
      cases tokenise t' with
      | error e => rfl
      | ok toks =>
        simp only [bind, Except.bind]
        cases parseTokens cfg rules aliases toks with
        | error e => rfl
        | ok v => exact ih v.1 v.2 h.2

/-! ### precedence and grouping (thm 2, 3): for every syntax tree of the documented grammar — any
    nesting depth, any mix of operators — its token rendering is parsed into the condition
    objects that tree denotes, and their C01 meaning is the grammar's denotation. -/

/-- thm 2 (`parse_pp`), key level: *any* token string (whatever the spelling of its numbers or the
    provenance of its tokens) whose keys are the flattening of a well-shaped, repeat-free operand
    list `L` is parsed into exactly `L`, consuming exactly that string; `k` is what follows
    (not starting with `and`/`or`, and a legal place for the section to end). -/
theorem parse_keys (allowCds isGroup : Bool) (L : List Cond) (fuel : Nat) (w k consumed : List Tok)
    (rules : List Rule) (ne : L ≠ []) (hs : shapeOks allowCds L = true) (hr : noRepeats L = true)
    (hw : w.map Tok.key = flatJoin .orOp L) (hk : NotBinop k)
    (hend : ∀ c r, endCheck isGroup (ofStream k c r) = .ok ()) (hf : 3 * w.length + 2 ≤ fuel) :
    parseConditions fuel allowCds isGroup (ofStream (w ++ k) consumed rules) =
      .ok (L, ofStream k (w.reverse ++ consumed) rules) :=
  parseConditions_complete allowCds isGroup L fuel w k consumed rules ne hs hr hw hk hend hf

/-- thm 2 (`parse_pp`) for the stratified grammar of the spec: `not` > `and` > `or`,
    parentheses and `cds(...)` group, at every depth -/
theorem parse_pp (t : OrE) (ht : okTop t = true) (fuel : Nat) (k consumed : List Tok) (rules : List Rule)
    (hk : NotBinop k) (hend : ∀ c r, endCheck false (ofStream k c r) = .ok ())
    (hf : 3 * (ppOr t).length + 2 ≤ fuel) :
    parseConditions fuel true false (ofStream (ppOr t ++ k) consumed rules) =
      .ok (shapeOr t, ofStream k ((ppOr t).reverse ++ consumed) rules) := by
  simp only [okTop, Bool.and_eq_true] at ht
  have g := okOr_goods false t ht.1.1 ht.1.2
  exact parseConditions_complete true false (shapeOr t) fuel (ppOr t) k consumed rules (shapeOr_ne_nil t)
    g.shape g.norep (ppOr_keys t) hk hend hf

/-- thm 3 (`sem_shape`): the documented (C01) meaning of the parsed objects is the denotation of
    the syntax tree: OR of ANDs of possibly negated atoms -/
theorem sem_shape (e : Env) (g : Gene) (t : OrE) : sem e g (shapeTop t) = denOr e g t := by
  simp [shapeTop, sem, semAny_shapeOr]

/-- the property's first sentence for a rule written with its mandatory sections: in any parser
    state without aliases, followed by the next `RULE`/`DEFINE` or the end of the text, the rule is
    parsed into the rule the grammar denotes — its name and category, the condition objects of the
    syntax tree (`shapeTop t`, whose meaning is `denOr t` by `sem_shape`), and the two distances
    read in kilobases. -/
theorem rule_parsed_as_denoted (cfg : Cfg) (name cat : String) (cutoffKb nbhKb : Nat) (t : OrE)
    (k consumed : List Tok) (rules : List Rule) (hcat : cfg.cats.contains cat = true) (ht : okTop t = true)
    (hpos : positive (shapeTop t) = true)
    (hk : headType k = none ∨ headType k = some .rule ∨ headType k = some .define) :
    parseRule cfg (ofStream (ruleToks name cat cutoffKb nbhKb t ++ k) consumed rules) =
      .ok ({ name := name, category := cat, cutoff := cutoffKb * 1000, neighbourhood := nbhKb * 1000,
             conditions := shapeTop t },
           ofStream k ((ruleToks name cat cutoffKb nbhKb t).reverse ++ consumed) rules) :=
  parseRule_ruleToks cfg name cat cutoffKb nbhKb t k consumed rules hcat ht hpos hk

/-- … and the main loop then scales them by the multipliers: `int(kb * 1000 * p/q)` -/
theorem distances_scaled (kb : Nat) (mul : Nat × Nat) : scale (kb * 1000) mul = distance kb mul := rfl

/-- the same for a whole alias-free file of one or more written rules, each with an optional
    `SUPERIORS` section, under any multipliers: `Parser.__init__` on the file's tokens (after the rules `earlier` of other
    files) stores exactly the rules the grammar denotes, in order — distances `int(kb * 1000 * multiplier)`, superiors the
    declared ones closed over the superiors of each of them (`closeSup`), conditions the objects of
    the syntax tree.  `srcsOk` is what the text must satisfy to be legal: known category and
    profiles, a name not used before, operands not repeated, something positive, superiors distinct
    and defined earlier.  (No fuel hypothesis: the model's own budget suffices.) -/
theorem file_parsed_as_denoted (cfg : Cfg) (earlier : List Rule) (rs : List RuleSrc) (hne : rs ≠ [])
    (hok : srcsOk cfg earlier rs = true) :
    parseTokens cfg earlier [] (rs.flatMap ruleSrcToks) = .ok (denote cfg earlier rs, []) :=
  parseTokens_file cfg earlier rs hne hok

/-- … and so for `create_rules` on any number of files, each a text the tokeniser reads as the
    tokens of its written rules (any layout and comments, by `tokenise_layout`): the rules of all
    files in order, every rule seeing the rules of earlier files (duplicate names and superiors
    across files included in `srcsOk`) -/
theorem files_created_as_denoted (cfg : Cfg) (files : List (String × List RuleSrc))
    (hf : ∀ f ∈ files, f.2 ≠ [] ∧ tokenise f.1 = .ok (f.2.flatMap ruleSrcToks))
    (hok : srcsOk cfg [] (files.flatMap (·.2)) = true) :
    createRules cfg (files.map (·.1)) [] [] = .ok (denote cfg [] (files.flatMap (·.2))) :=
  createRules_files cfg files [] hf hok

/-- non-vacuity: three rules, the third below the second which is below the first; fungal
    multipliers 1/2 and 3/2 -/
def exSrcs : List RuleSrc :=
  [⟨"r1", "cat", 20, 5, [], .one (.one (.id false "a"))⟩,
   ⟨"r2", "cat", 15, 10, ["r1"], .or (.one (.id false "a")) (.one (.and (.id false "b") (.one (.id true "c"))))⟩,
   ⟨"r3", "cat", 1, 3, ["r2"], .one (.one (.id false "c"))⟩]
def exMulCfg : Cfg := { sigs := ["a", "b", "c"], cats := ["cat"], cutoffMul := (1, 2), nbhMul := (3, 2) }
example : srcsOk exMulCfg [] exSrcs = true := by decide +kernel
example : (tokenise ("RULE r1 CATEGORY cat CUTOFF 20 NEIGHBOURHOOD 5 CONDITIONS a # first\n" ++
    "RULE r2 CATEGORY cat SUPERIORS r1 CUTOFF 15 NEIGHBOURHOOD 10 CONDITIONS a or b and not c")).toOption
    = some ((exSrcs.take 2).flatMap ruleSrcToks) := by decide +kernel
example : (denote exMulCfg [] exSrcs).map (fun r => (r.name, r.cutoff, r.neighbourhood, r.superiors)) =
    [("r1", 10000, 7500, []), ("r2", 7500, 15000, ["r1"]), ("r3", 500, 4500, ["r1", "r2"])] := by decide +kernel

/-- both directions together: a token string is accepted as CONDITIONS with result `L` only if
    it is the flattening of `L` (`conditions_accepts_only_grammar`), and the flattening of every
    legal `L` is accepted with result `L` (`parse_keys`) — so the parser is a bijection between
    accepted key strings and legal operand lists; in particular the flattening is injective:
    no second reading of a text exists. -/
theorem reading_unique (allowCds : Bool) (L L' : List Cond) (fuel : Nat) (w : List Tok)
    (ne : L ≠ []) (hs : shapeOks allowCds L = true) (hr : noRepeats L = true)
    (hw : w.map Tok.key = flatJoin .orOp L) (hf : 3 * w.length + 2 ≤ fuel)
    (s' : PS) (h : parseConditions fuel allowCds false (ofStream w [] []) = .ok (L', s')) : L' = L := by
  have := parse_keys allowCds false L fuel w [] [] [] ne hs hr hw (by simp [NotBinop])
    (by intro c r; simp [endCheck, ofStream]) hf
  simp only [List.append_nil] at this
  rw [this] at h
  cases h; rfl

/-- `a or b and not c` is `a or (b and (not c))`; `(a or b) and c` keeps its group -/
example : shapeOr (.or (.one (.id false "a")) (.one (.and (.id false "b") (.one (.id true "c"))))) =
    [.single false "a", .conj [.single false "b", .single true "c"]] := by
  simp [shapeOr, shapeAnd, shapeAtoms, shapeAtom]
example : okTop (.or (.one (.id false "a")) (.one (.and (.id false "b") (.one (.id true "c"))))) = true := by
  decide +kernel

/-! ### rules split over files: a parse continues from the *value* of the rules handed to it -/

/-- `Parser(text, …, existing_rules=R)` works on its own copy: in any sequence of parses within one
    process, each continuing from any earlier list, a list object never changes once it exists
    (so the caller's `R` still holds what it held) -/
theorem existing_rules_untouched (cfg : Cfg) (steps : List (Option Nat × String)) (st : Continuations.Store)
    (i : Nat) (h : i < st.length) : (Continuations.run cfg steps st).2[i]? = st[i]? :=
  Continuations.run_keeps cfg steps st i h

/-- two continuations of one shared base, one after the other: each is judged against the files
    actually given — the second yields exactly what its text yields after the base rules (same
    rules, or rejected alike, e.g. for a superior only the first continuation defined), whatever
    the first continuation defined or whether it failed; the base still holds the base rules -/
theorem continuations_independent (cfg : Cfg) (st : Continuations.Store) (b : Nat) (base : List Rule)
    (hb : st[b]? = some base) (x y : String) :
    ∃ ox oy fin, Continuations.run cfg [(some b, x), (some b, y)] st = ([ox, oy], fin) ∧ fin[b]? = some base ∧
      (Continuations.outcome fin oy).toOption = (parseText cfg base [] y).toOption.map (·.1) ∧
      (Continuations.outcome fin ox).toOption = (parseText cfg base [] x).toOption.map (·.1) :=
  Continuations.two_branches cfg st b base hb x y

/-! ### DEFINE aliases behave as textual substitution (thm 4) -/

/-- thm 4 core: with a flat alias table (no definition mentions an alias, none is empty), `_consume`
    hands out the head of the *substituted* stream (`view`: current token, then the rest with every
    alias identifier replaced by its definition) and leaves its tail; the token now current is never
    an alias name, the table is untouched. -/
theorem alias_is_substitution_partial (s s' : PS) (expected : TT) (c : Tok) (hf : Flat s.aliases)
    (h : consume expected s = .ok (c, s')) :
    view s = c :: view s' ∧ s'.aliases = s.aliases ∧ ∀ c', s'.cur = some c' → aliasName s.aliases c' = false :=
  consume_view hf h

/-- … and every `Parser` run keeps the table flat (an alias whose name is already used as an
    identifier inside a definition is refused: fixes/D42), starting from the empty table of
    `create_rules`; so the hypothesis of the step lemma always holds. -/
theorem aliases_stay_flat (cfg : Cfg) (rules rules' : List Rule) (aliases aliases' : Aliases) (toks : List Tok)
    (h : parseTokens cfg rules aliases toks = .ok (rules', aliases')) (hf : Flat aliases) : Flat aliases' :=
  parseTokens_flat h hf

/-- thm 4, lifted to the condition parser: with a flat alias table, for every fuel, nesting flags and
    state, `_parse_conditions` returns on the aliased state exactly what it returns on the
    alias-free state whose unread input is the substituted stream (`strip s`: current token, then
    `subst A rest`) — same conditions or same error, and the resulting states correspond again. -/
theorem alias_is_substitution_conditions (fuel : Nat) (allowCds isGroup : Bool) (s : PS) (hf : Flat s.aliases) :
    parseConditions fuel allowCds isGroup (strip s) = mapS (parseConditions fuel allowCds isGroup s) :=
  (blockSim fuel).conds allowCds isGroup s hf

/-- thm 4 (`alias_is_substitution`) for a whole rule: with a flat alias table (guaranteed by
    `aliases_stay_flat`), for every fuel, `_parse_rule` on the aliased state and on the substituted
    alias-free state give the same error, or rules with the same name, category, distances,
    conditions, extenders, superiors, related profiles and examples (`RuleRel`), and corresponding
    states.  Excluded from the comparison is only the free text (DESCRIPTION words, EXAMPLE compound
    names): the code skips it without alias replacement.  An alias right after `RULE` is rejected on
    both sides (the `aliased` flag travels with the substituted tokens). -/
theorem alias_is_substitution (fuel : Nat) (cfg : Cfg) (s : PS) (hf : Flat s.aliases) :
    RelS RuleRel (parseRuleWith fuel cfg (strip s)) (parseRuleWith fuel cfg s) :=
  parseRuleWith_rel hf fuel cfg

/-- … and with the fuel the model computes on each side for itself (`PS.budget`), by
    `fuel_irrelevant` and `fuel_enough_rule` -/
theorem alias_is_substitution_rule (cfg : Cfg) (s : PS) (hf : Flat s.aliases) :
    RelS RuleRel (parseRule cfg (strip s)) (parseRule cfg s) :=
  parseRule_rel hf cfg

/-- ill-formed SUPERIORS lists: `_parse_superiors` succeeds only if the list it read (`parseIds`, after
    the keyword) names no rule twice — whatever the named rules inherit — and names only rules stored
    before; its result is then the sorted set of the listed names and the superiors of each.
    (`SUPERIORS mid, mid` below `mid → top` is rejected: `Props/C02Examples2.lean`.) -/
theorem superiors_list_checked (fuel : Nat) (s s' : PS) (sup : List String)
    (h : parseSuperiors fuel s = .ok (sup, s')) :
    ∃ x s1 decl, consume .superiors s = .ok (x, s1) ∧ parseIds fuel s1 = .ok (decl, s') ∧
      hasDupStr decl = false ∧ (∀ n ∈ decl, (s'.rules.find? (·.name == n)).isSome = true) ∧
      sup = sortDedupStr (decl ++ decl.flatMap (supOf s'.rules)) :=
  parseSuperiors_sound fuel s s' sup h

/-- thm 4 and completeness together: a rule whose CONDITIONS are written *with aliases* — any state
    with a flat table whose substituted input is the mandatory sections followed by tokens `w` that
    read (type and text; the `aliased` flags the substituted tokens carry do not matter) like the
    rendering of a legal syntax tree `t`, then the next `RULE`/`DEFINE` or the end — is parsed into
    the rule the grammar denotes for the substituted text. -/
theorem aliased_rule_parsed_as_denoted (cfg : Cfg) (s : PS) (hf : Flat s.aliases) (name cat : String)
    (cutoffKb nbhKb : Nat) (t : OrE) (w k cons : List Tok) (rules : List Rule)
    (hs : strip s = ofStream (hdrToks name cat cutoffKb nbhKb ++ w ++ k) cons rules)
    (hw : w.map Tok.key = (ppOr t).map Tok.key)
    (hcat : cfg.cats.contains cat = true) (ht : okTop t = true) (hpos : positive (shapeTop t) = true)
    (hk : headType k = none ∨ headType k = some .rule ∨ headType k = some .define) :
    ∃ r' s', parseRule cfg s = .ok (r', s') ∧ r'.name = name ∧ r'.category = cat ∧
      r'.cutoff = cutoffKb * 1000 ∧ r'.neighbourhood = nbhKb * 1000 ∧ r'.conditions = shapeTop t ∧
      strip s' = ofStream k ((hdrToks name cat cutoffKb nbhKb ++ w).reverse ++ cons) rules := by
  have h := parseRule_rel hf cfg
  have ht' := ht
  simp only [okTop, Bool.and_eq_true, Bool.not_eq_true'] at ht'
  have g := okOr_goods false t ht'.1.1 ht'.1.2
  rw [hs, parseRule_keys cfg name cat cutoffKb nbhKb (shapeOr t) w k cons rules hcat (shapeOr_ne_nil t)
    g.shape g.norep ht'.2 (by rw [hw, ppOr_keys]) hpos hk] at h
  cases hp : parseRule cfg s with
  | error e => rw [hp] at h; exact h.elim
  | ok v =>
    obtain ⟨r', s'⟩ := v
    rw [hp] at h
    obtain ⟨⟨h1, h2, h3, h4, h5, _⟩, hst⟩ := h
    exact ⟨r', s', rfl, h1.symm, h2.symm, h3.symm, h4.symm, h5.symm, hst.symm⟩

/-- non-vacuity: `DEFINE x AS a or b` in force, the text `… CONDITIONS x and c` reads after
    substitution like `a or b and c` = `a or (b and c)` -/
example :
    let x : List Tok := [⟨"a", .identifier, true⟩, ⟨"or", .orOp, true⟩, ⟨"b", .identifier, true⟩]
    let s : PS := { cur := some (kw "RULE" .rule),
                    rest := (hdrToks "r" "cat" 20 5).tail ++ [tId "x", kw "and" .andOp, tId "c"],
                    aliases := [("x", x)], rules := [] }
    strip s = ofStream (hdrToks "r" "cat" 20 5 ++ (x ++ [kw "and" .andOp, tId "c"]) ++ []) [] [] ∧
    (x ++ [kw "and" .andOp, tId "c"]).map Tok.key =
      (ppOr (.or (.one (.id false "a")) (.one (.and (.id false "b") (.one (.id false "c")))))).map Tok.key := by
  intro x s
  exact ⟨by rfl, by decide +kernel⟩

/-- what `strip` is on the state a `Parser` starts a rule in: no aliases, input `t :: subst A rest` -/
example (t : Tok) (rest : List Tok) (A : Aliases) (rules : List Rule) :
    strip { cur := some t, rest := rest, aliases := A, rules := rules } =
      { cur := some t, rest := subst A rest, aliases := [], rules := rules } := rfl

example : Flat [] := ⟨by simp, by simp, by simp⟩

/-! ### "scaled by the multipliers": rulesets handed to detection runs (`get_ruleset`, its cache,
    `Ruleset.__post_init__` rescaling rule objects in place, `copy_with_replacements` sharing them) -/

/-- Whatever sequence of rulesets one process asks for (any strictness, taxon, multipliers, rule or
    category restriction, repetitions), every ruleset handed out — read *after the last request* —
    holds exactly the rules of its strictness that its restriction wants, each distance being the
    parsed one (kilobases × 1000, `distances_scaled`) scaled once by the multipliers of the request
    it was built for: no later request rescales or compounds it (the rule objects of different cached
    rulesets are never shared).  `parsed` = what `create_rules` returns for a strictness. -/
theorem rulesets_scaled_once (parsed : String → Except Err (List Rule)) (reqs : List Rulesets.Req)
    (out : List Rulesets.RS) (st : Rulesets.State) (h : Rulesets.run parsed reqs {} = .ok (out, st)) :
    out.length = reqs.length ∧
    ∀ rs ∈ out, ∃ k rules, (k, rs) ∈ st.cache ∧ parsed k.strictness = .ok rules ∧
      rs.read st.heap = Rulesets.wanted rules k.names k.cats k.mul ∧ rs.mul = k.mul := by
  obtain ⟨inv, _, hlen, hout⟩ := Rulesets.run_inv parsed reqs {} st out h (fun p hp => by cases hp)
  refine ⟨hlen, fun rs hrs => ?_⟩
  obtain ⟨k, hk⟩ := hout rs hrs
  obtain ⟨_, rules, hp, hr, hm⟩ := inv (k, rs) hk
  exact ⟨k, rules, hk, hp, hr, hm⟩

/-- one `get_ruleset` call in any reachable state: the ruleset returned is stored under the key of
    the request (its strictness, its restriction as sets, the multipliers of the options for fungi,
    `Multipliers()` otherwise), it reads as the spec says, and everything cached before still does -/
theorem ruleset_of_request (parsed : String → Except Err (List Rule)) (q : Rulesets.Req) (st st' : Rulesets.State)
    (rs : Rulesets.RS) (h : Rulesets.getRuleset parsed q st = .ok (rs, st')) (inv : Rulesets.Inv parsed st) :
    Rulesets.Inv parsed st' ∧
    ∃ k rules, (k, rs) ∈ st'.cache ∧ k.strictness = q.strictness ∧ k.names = sortDedupStr q.names ∧
      k.cats = sortDedupStr q.cats ∧ Rulesets.reqMul q = .ok k.mul ∧ parsed q.strictness = .ok rules ∧
      rs.read st'.heap = Rulesets.wanted rules k.names k.cats k.mul := by
  obtain ⟨inv', ⟨k, hk, h1, h2, h3, h4, h5⟩, _⟩ := Rulesets.getRuleset_inv parsed q st st' rs h inv
  obtain ⟨_, rules, hp, hr, _⟩ := inv' (k, rs) hk
  refine ⟨inv', k, rules, hk, h1, h2, h3, ?_, by rw [← h1]; exact hp, hr⟩
  unfold Rulesets.reqMul
  cases hf : q.fungi with
  | false => simp [h4 hf]
  | true => simp [h5 hf]

/-- `Ruleset.from_files(…, multipliers)` (as repaired by fixes/D201): scaled once -/
theorem from_files_scaled_once (rules : List Rule) (m : Rulesets.Mul) (h : Rulesets.Heap) :
    (Rulesets.fromFiles rules m h).1.read (Rulesets.fromFiles rules m h).2 = Rulesets.wanted rules [] [] m :=
  Rulesets.fromFiles_read rules m h

/-- fungi ×2/×1.5, then bacteria, then fungi ×1/×3 limited to one rule: nothing compounds -/
example :
    let parsed : String → Except Err (List Rule) := fun _ =>
      .ok [{ name := "a", category := "c", cutoff := 10000, neighbourhood := 5000, conditions := .single false "x" },
           { name := "b", category := "d", cutoff := 20000, neighbourhood := 3000, conditions := .single false "y" }]
    (match Rulesets.run parsed
        [⟨"relaxed", [], [], true, (2, 1), (3, 2)⟩, ⟨"relaxed", [], [], false, (1, 1), (1, 1)⟩,
         ⟨"relaxed", ["b"], [], true, (1, 1), (3, 1)⟩] {} with
      | .ok (out, st) => out.map fun rs => (rs.read st.heap).map fun r => (r.name, r.cutoff, r.neighbourhood)
      | .error _ => []) =
    [[("a", 20000, 7500), ("b", 40000, 4500)], [("a", 10000, 5000), ("b", 20000, 3000)], [("b", 20000, 9000)]] := by
  decide +kernel

/-- the option handling in front of it (`check_options`, run before any analysis): when it reports no
    issue, the fungal multipliers are positive, every requested rule name is a rule of the requested
    strictness and every requested category is known; the ruleset has been built and cached, it is
    the one `get_ruleset` hands to the analysis afterwards (a cache hit, state unchanged), and it
    reads as the spec says.  (When an issue is reported nothing was cached: `checkOptions_bad`.) -/
theorem options_checked_then_ruleset (parsed : String → Except Err (List Rule)) (allCats : List String)
    (q : Rulesets.Req) (st st' : Rulesets.State) (inv : Rulesets.Inv parsed st)
    (h : Rulesets.checkOptions parsed allCats q st = .ok (true, st')) :
    ∃ rs rules m, Rulesets.getRuleset parsed q st' = .ok (rs, st') ∧ Rulesets.Inv parsed st' ∧
      parsed q.strictness = .ok rules ∧ Rulesets.reqMul q = .ok m ∧ 0 < q.cmul.1 ∧ 0 < q.nmul.1 ∧
      (∀ n ∈ q.names, ∃ r ∈ rules, r.name = n) ∧ (∀ c ∈ q.cats, c ∈ allCats) ∧
      rs.read st'.heap = Rulesets.wanted rules (sortDedupStr q.names) (sortDedupStr q.cats) m := by
  obtain ⟨rs, rules, hg, hg2, hp, hc, hn, hnames, hcats⟩ := Rulesets.checkOptions_ok parsed allCats q st st' h
  obtain ⟨inv', k, rules', _, _, h2, h3, h4, h5, h6⟩ := ruleset_of_request parsed q st st' rs hg inv
  rw [hp] at h5
  cases h5
  exact ⟨rs, rules, k.mul, hg2, inv', hp, h4, hc, hn, hnames, hcats, by rw [h6, h2, h3]⟩

example :
    let parsed : String → Except Err (List Rule) := fun _ =>
      .ok [{ name := "a", category := "c", cutoff := 10000, neighbourhood := 5000, conditions := .single false "x" },
           { name := "b", category := "d", cutoff := 20000, neighbourhood := 3000, conditions := .single false "y" }]
    ((Rulesets.checkOptions parsed ["c", "d"] ⟨"strict", ["b"], ["d"], true, (1, 2), (3, 2)⟩ {}).toOption.map (·.1),
     (Rulesets.checkOptions parsed ["c", "d"] ⟨"strict", ["zz"], [], true, (1, 2), (3, 2)⟩ {}).toOption.map (·.1),
     (Rulesets.checkOptions parsed ["c", "d"] ⟨"strict", [], [], false, (0, 1), (3, 2)⟩ {}).toOption.map (·.1))
    = (some true, some false, some false) := by
  decide +kernel

/-- `ruleset_of_request` with its invariant hypothesis discharged: after **any** history of requests
    in the process (from the empty cache), the next `get_ruleset` call returns a ruleset that reads as
    the spec says for this request -/
theorem ruleset_after_any_history (parsed : String → Except Err (List Rule)) (hist : List Rulesets.Req)
    (out : List Rulesets.RS) (st st' : Rulesets.State) (q : Rulesets.Req) (rs : Rulesets.RS)
    (hh : Rulesets.run parsed hist {} = .ok (out, st)) (h : Rulesets.getRuleset parsed q st = .ok (rs, st')) :
    ∃ rules m, parsed q.strictness = .ok rules ∧ Rulesets.reqMul q = .ok m ∧
      rs.read st'.heap = Rulesets.wanted rules (sortDedupStr q.names) (sortDedupStr q.cats) m := by
  obtain ⟨inv, _⟩ := Rulesets.run_inv parsed hist {} st out hh (fun p hp => by cases hp)
  obtain ⟨_, k, rules, _, _, h2, h3, h4, h5, h6⟩ := ruleset_of_request parsed q st st' rs h inv
  exact ⟨rules, k.mul, h5, h4, by rw [h6, h2, h3]⟩

/-- `options_checked_then_ruleset` with its invariant hypothesis discharged likewise -/
theorem options_checked_after_any_history (parsed : String → Except Err (List Rule)) (allCats : List String)
    (hist : List Rulesets.Req) (out : List Rulesets.RS) (st st' : Rulesets.State) (q : Rulesets.Req)
    (hh : Rulesets.run parsed hist {} = .ok (out, st))
    (h : Rulesets.checkOptions parsed allCats q st = .ok (true, st')) :
    ∃ rs rules m, Rulesets.getRuleset parsed q st' = .ok (rs, st') ∧ parsed q.strictness = .ok rules ∧
      Rulesets.reqMul q = .ok m ∧ 0 < q.cmul.1 ∧ 0 < q.nmul.1 ∧
      (∀ n ∈ q.names, ∃ r ∈ rules, r.name = n) ∧ (∀ c ∈ q.cats, c ∈ allCats) ∧
      rs.read st'.heap = Rulesets.wanted rules (sortDedupStr q.names) (sortDedupStr q.cats) m := by
  obtain ⟨inv, _⟩ := Rulesets.run_inv parsed hist {} st out hh (fun p hp => by cases hp)
  obtain ⟨rs, rules, m, h1, _, h3, h4, h5, h6, h7, h8, h9⟩ :=
    options_checked_then_ruleset parsed allCats q st st' inv h
  exact ⟨rs, rules, m, h1, h3, h4, h5, h6, h7, h8, h9⟩

/-! ### strictness levels: `_get_rule_files_for_strictness` is cumulative, parsing only appends -/

/-- parsing more text never touches the rules already there: whatever `create_rules` returns starts
    with the rules it was given (earlier files), unchanged and in place -/
theorem earlier_rules_kept (cfg : Cfg) (files : List String) (rules out : List Rule) (aliases : Aliases)
    (h : createRules cfg files rules aliases = .ok out) : rules <+: out :=
  createRules_rules_prefix cfg files rules out aliases h

/-- the same for one `Parser(text, …, existing_rules, existing_aliases)`: its `.rules` start with the
    rules it was given -/
theorem continuation_extends_given (cfg : Cfg) (given rules : List Rule) (aliases al : Aliases) (text : String)
    (h : parseText cfg given aliases text = .ok (rules, al)) : given <+: rules :=
  parseText_rules_prefix h

/-- for any table of levels with their files (`_STRICTNESS_LEVELS`), any two levels `a`, `b`: the file
    lists `_get_rule_files_for_strictness` returns are one the front of the other, and if the longer
    one parses, so does the shorter, to a front part of the same rules — every rule of the stricter
    level is a rule of the looser one, unchanged and at the same position; looser levels only add -/
theorem stricter_level_rules_kept (cfg : Cfg) (levels : List (String × String)) (a b : String)
    (fa fb : List String) (ha : Rulesets.ruleFilesFor levels a = some fa)
    (hb : Rulesets.ruleFilesFor levels b = some fb) :
    (fa <+: fb ∨ fb <+: fa) ∧
    ∀ rb, fa <+: fb → createRules cfg fb [] [] = .ok rb → ∃ ra, createRules cfg fa [] [] = .ok ra ∧ ra <+: rb := by
  refine ⟨Rulesets.ruleFilesFor_chain levels a b fa fb ha hb, ?_⟩
  rintro rb ⟨t, rfl⟩ h
  exact createRules_append_prefix cfg fa t [] rb [] h

example : Rulesets.ruleFilesFor [("strict", "s"), ("relaxed", "r"), ("loose", "l")] "relaxed" = some ["s", "r"] ∧
    Rulesets.ruleFilesFor [("strict", "s"), ("relaxed", "r"), ("loose", "l")] "loose" = some ["s", "r", "l"] ∧
    Rulesets.ruleFilesFor [("strict", "s"), ("relaxed", "r"), ("loose", "l")] "lax" = none := by decide

/-! ### the regenerated text parses back (thm 7) -/

/-- thm 7 (`reparse_printed`) for every list `L` of `or`-operands the parser can return (a CONDITIONS
    section, the inside of a group or of `cds(...)`: documented shape `shapeOks`, no repeated operand,
    profile names that are identifiers — exactly what `conditions_accepts_only_grammar` guarantees
    for parser output): the text `__str__` prints for it (after the D17/D26 print repairs)
    is tokenised without error, and the tokens are parsed — in any alias-free state, followed by
    anything a section may be followed by — into `normL L`: the same operands up to the transparent
    single-operand group the printer drops (`normC`), `minimum` options sorted; `normL L` has the
    same meaning at every gene of every environment (C01 `sem`), prints to the same text, and is
    again legal. -/
theorem reparse_printed (L : List Cond) (allowCds : Bool) (hne : L ≠ []) (hn : NamesOkL L)
    (hs : shapeOks allowCds L = true) (hr : noRepeats L = true) :
    ∃ toks, tokenise (String.ofList (printJoin orSep L)) = .ok toks ∧
      (∀ (fuel : Nat) (isGroup : Bool) (k consumed : List Tok) (rules : List Rule), NotBinop k →
        (∀ c r, endCheck isGroup (ofStream k c r) = .ok ()) → 3 * toks.length + 2 ≤ fuel →
        parseConditions fuel allowCds isGroup (ofStream (toks ++ k) consumed rules) =
          .ok (normL L, ofStream k (toks.reverse ++ consumed) rules)) ∧
      (∀ e g, semAny e g (normL L) = semAny e g L) ∧
      printConds (normL L) = printConds L ∧ shapeOks allowCds (normL L) = true ∧ noRepeats (normL L) = true :=
  reparse_operands L allowCds hne hn hs hr

/-- thm 7 for a whole rule with the mandatory sections (no DESCRIPTION/EXAMPLE text), distances in
    whole kilobases (the regenerated text prints `cutoff // 1000`; the fresh parser has multipliers 1):
    `reconstruct_rule_text()` is tokenised without error and `_parse_rule` on the tokens returns a
    rule with the same name, category, cutoff and neighbourhood, whose conditions have the same
    meaning at every gene of every environment.  Hypotheses = what `accepted_rules_wellformed` /
    `conditions_accepts_only_grammar` give for a parsed rule, plus: name, category and profile names
    are identifiers for the tokeniser (they came out of it). -/
theorem reparse_printed_rule (cfg : Cfg) (r : Rule) (L : List Cond) (rules : List Rule)
    (hc : r.conditions = .group false L) (hne : L ≠ []) (hn : NamesOkL L) (hs : shapeOks true L = true)
    (hr : noRepeats L = true) (hd : hasDupStr (printConds L) = false)
    (hname : classify r.name = .identifier) (hcat : classify r.category = .identifier)
    (hcats : cfg.cats.contains r.category = true) (hpos : positive r.conditions = true)
    (hdesc : r.description = []) (hex : r.examples = [])
    (hkc : r.cutoff % 1000 = 0) (hkn : r.neighbourhood % 1000 = 0) :
    ∃ toks r', tokenise r.reconstruct = .ok toks ∧
      parseRule cfg (ofStream toks [] rules) = .ok (r', ofStream [] toks.reverse rules) ∧
      r'.name = r.name ∧ r'.category = r.category ∧ r'.cutoff = r.cutoff ∧ r'.neighbourhood = r.neighbourhood ∧
      ∀ e g, sem e g r'.conditions = sem e g r.conditions :=
  reparse_rule cfg r L rules hc hne hn hs hr hd hname hcat hcats hpos hdesc hex hkc hkn

/-- `reparse_printed_rule` without the whole-kilobase hypotheses (rules scaled by multipliers have odd
    distances): `reconstruct_rule_text` prints `cutoff // 1000`, so for **any** distances the
    regenerated text parses back to the same name, category and condition meaning, and to the
    distances rounded down to the kilobase (in particular they differ from the original by less
    than 1000, and are equal exactly for whole kilobases) -/
theorem reparse_printed_rule_any_distance (cfg : Cfg) (r : Rule) (L : List Cond) (rules : List Rule)
    (hc : r.conditions = .group false L) (hne : L ≠ []) (hn : NamesOkL L) (hs : shapeOks true L = true)
    (hr : noRepeats L = true) (hd : hasDupStr (printConds L) = false)
    (hname : classify r.name = .identifier) (hcat : classify r.category = .identifier)
    (hcats : cfg.cats.contains r.category = true) (hpos : positive r.conditions = true)
    (hdesc : r.description = []) (hex : r.examples = []) :
    ∃ toks r', tokenise r.reconstruct = .ok toks ∧
      parseRule cfg (ofStream toks [] rules) = .ok (r', ofStream [] toks.reverse rules) ∧
      r'.name = r.name ∧ r'.category = r.category ∧
      r'.cutoff = r.cutoff / 1000 * 1000 ∧ r'.neighbourhood = r.neighbourhood / 1000 * 1000 ∧
      r'.cutoff ≤ r.cutoff ∧ r.cutoff < r'.cutoff + 1000 ∧
      r'.neighbourhood ≤ r.neighbourhood ∧ r.neighbourhood < r'.neighbourhood + 1000 ∧
      ∀ e g, sem e g r'.conditions = sem e g r.conditions := by
  obtain ⟨toks, r', h1, h2, h3, h4, h5, h6, h7⟩ :=
    reparse_rule_gen cfg r L rules hc hne hn hs hr hd hname hcat hcats hpos hdesc hex
  exact ⟨toks, r', h1, h2, h3, h4, h5, h6, by omega, by omega, by omega, by omega, h7⟩

/-- 22 500 (15 kb × 1.5) comes back as 22 000 -/
example : (match parseText { sigs := ["a"], cats := ["cat"] } [] []
      ({ name := "r", category := "cat", cutoff := 22500, neighbourhood := 999,
         conditions := .group false [.single false "a"] } : Rule).reconstruct with
    | .ok ([r'], _) => some (r'.cutoff, r'.neighbourhood)
    | _ => none) = some (22000, 0) := by decide +kernel

/-- D17 and D26 on the model: `not (not a)` and `cds((a))` print with their parentheses -/
example : printCond (.group true [.group true [.single false "a"]]) = "not (not a)" := by decide +kernel
example : printCond (.cds false [.group false [.single false "a"]]) = "cds((a))" := by decide +kernel

/-! ### the model's fuel is never exhausted (the `fuel` error value is unreachable) -/

/-- more fuel changes nothing but an "out of fuel": if `parseRuleWith n` returns anything else, so
    does every `m ≥ n` (the same holds for every fuel-taking function: `blockMono`, `…_mono`) -/
theorem fuel_irrelevant (n m : Nat) (h : n ≤ m) (cfg : Cfg) (s : PS)
    (hne : parseRuleWith n cfg s ≠ .error .fuel) : parseRuleWith m cfg s = parseRuleWith n cfg s :=
  (parseRuleWith_mono h cfg s).eq_of_ne hne

/-- every recursive call consumes a token first: on an alias-free state with `p` unread tokens the
    condition parser never runs out of fuel `3p + 3` (`blockNF` has the bound of each of the seven
    mutually recursive functions) … -/
theorem fuel_enough_conditions (n : Nat) (allowCds isGroup : Bool) (s : PS) (ha : s.aliases = [])
    (hn : 3 * s.pending + 3 ≤ n) : parseConditions n allowCds isGroup s ≠ .error .fuel :=
  (blockNF n).conds allowCds isGroup s s.pending ⟨ha, Nat.le_refl _⟩ hn

/-- … nor does a whole rule on any state with a flat alias table with the fuel `_parse_rule`'s
    model computes (`PS.budget` ≥ 3 · tokens after substitution + 3) … -/
theorem fuel_enough_rule (cfg : Cfg) (s : PS) (hf : Flat s.aliases) : parseRule cfg s ≠ .error .fuel :=
  parseRule_nf hf

/-- … and so (3): `create_rules` never returns the model's `fuel` error, for any files, signature
    names, categories and multipliers.  (Main loop: every iteration consumes a `RULE` or `DEFINE`
    token, and alias definitions contain none.) -/
theorem fuel_never_exhausted (cfg : Cfg) (files : List String) :
    createRules cfg files [] [] ≠ .error .fuel :=
  createRules_nf cfg files [] [] ⟨by simp, by simp, by simp⟩

/-! non-vacuity of the rejection theorems, each listed class of ill-formed input on a concrete text:
    `Props/C02Examples.lean` (split off to keep this file's build time down) -/

end ASV.C02
