/-
  C02 — Rule text is parsed by the documented grammar, precedence and aliases.
  Property theorems only; helper lemmas live in ASV/Proofs/Parser/*.lean.
  Model: ASV/Model/Parser.lean (tokeniser, parser, printer, create_rules — of the repaired code,
  see fixes/D17, D25, D26).  Spec: ASV/Spec/Grammar.lean.
-/
import ASV.Proofs.Parser.Main
namespace ASV.C02
open ASV ASV.Rules ASV.Parser ASV.Grammar

/-! ### the regenerated tables still say what the model assumes -/

/-- every member named by the regenerated `Tokeniser.mapping` is a token type the model knows -/
theorem mapping_names_known :
    Generated.RuleTokens.mapping.all (fun p => (TT.ofName p.2).isSome) = true := by decide

/-- `is_a_rule_keyword` (`RULE <= value and value != TEXT`) evaluated on the regenerated numeric
    values of `TokenTypes` is the model's `TT.isRuleKeyword`, and every member is modelled -/
theorem keyword_table_agrees :
    Generated.RuleTokens.tokenValues.all (fun p =>
      (TT.ofName p.1).map TT.isRuleKeyword ==
        some (decide ((Generated.RuleTokens.tokenValues.lookup "RULE").getD 0 ≤ p.2) &&
              p.2 != (Generated.RuleTokens.tokenValues.lookup "TEXT").getD 0)) = true := by decide

/-! ### ill-formed input is rejected (thm 6) — stated as: whatever is accepted is well-formed.
    For every list of rule files (any texts whatsoever), every signature set, category set and
    multipliers. -/

/-- `create_rules` only ever returns a well-formed rule set: rule names distinct, categories
    valid, every profile named in a CONDITIONS section a known signature, no condition object
    with a repeated operand (nor `minimum` with a repeated option or a count of 0), a positive
    requirement in the conditions and in the extenders, superiors defined earlier and closed. -/
theorem accepted_rules_wellformed (cfg : Cfg) (files : List String) (rules : List Rule)
    (h : createRules cfg files [] [] = .ok rules) : rulesOk cfg rules = true :=
  createRules_ok cfg files [] [] rules h (by simp [rulesOk, namesDistinct, hasDupStr, supClosed, supClosedFrom])

/-- duplicate rule name ⇒ rejected -/
theorem accepted_names_distinct (cfg : Cfg) (files : List String) (rules : List Rule)
    (h : createRules cfg files [] [] = .ok rules) : (rules.map (·.name)).Nodup := by
  have := (rulesOk_iff.mp (accepted_rules_wellformed cfg files rules h)).1
  simpa [namesDistinct, hasDupStr_false_iff] using this

/-- unknown category, unknown profile, repeated operand, no positive requirement ⇒ rejected -/
theorem accepted_rule_ok (cfg : Cfg) (files : List String) (rules : List Rule)
    (h : createRules cfg files [] [] = .ok rules) (r : Rule) (hr : r ∈ rules) :
    r.category ∈ cfg.cats ∧ (∀ p ∈ r.conditions.profiles, p ∈ cfg.sigs) ∧
      noRepeat r.conditions = true ∧ positive r.conditions = true := by
  have := (rulesOk_iff.mp (accepted_rules_wellformed cfg files rules h)).2.2 r hr
  obtain ⟨⟨h1, h2, h3, _⟩, hp⟩ := ruleOkW_of this
  exact ⟨by simpa using h1, fun p hpm => by simpa using hp p hpm, h2, h3⟩

/-- thm 5: SUPERIORS are rules defined *earlier* (superior not yet defined ⇒ rejected) and are
    closed transitively: the superiors of a superior are superiors -/
theorem superiors_transitive (cfg : Cfg) (files : List String) (rules pre post : List Rule) (r : Rule)
    (h : createRules cfg files [] [] = .ok rules) (hpos : rules = pre ++ r :: post) :
    ∀ m ∈ r.superiors, ∃ q, pre.find? (·.name == m) = some q ∧ ∀ x ∈ q.superiors, x ∈ r.superiors := by
  have hc := (rulesOk_iff.mp (accepted_rules_wellformed cfg files rules h)).2.1
  have := supOk_of_closedFrom [] rules pre r post hc hpos
  simpa using supOk_iff.mp this

/-- missing section / unbalanced group / trailing `not` / `cds` of a single identifier / operator
    without operand ⇒ rejected: the *only* token strings `_parse_conditions` accepts are the
    flattenings (`flatJoin`) of condition objects of the documented shape (`shapeOks`: groups and
    cds non-empty, `and`-chains of ≥ 2 atoms, no `minimum`/`cds` inside `cds`, no lone identifier in
    `cds`), without repeated operands; and it stops where the section may end (`endCheck`). -/
theorem conditions_accepts_only_grammar (fuel : Nat) (allowCds isGroup : Bool) (s s' : PS) (cs : List Cond)
    (h : parseConditions fuel allowCds isGroup s = .ok (cs, s')) :
    ∃ new, s'.consumed = new ++ s.consumed ∧ new.reverse.map Tok.key = flatJoin .orOp cs ∧
      shapeOks allowCds cs = true ∧ noRepeats cs = true ∧ cs ≠ [] ∧ endCheck isGroup s' = .ok () := by
  obtain ⟨new, a, k, g, ne, e⟩ := (blockPost fuel).conds _ _ _ _ _ h
  exact ⟨new, a.consumed, k, g.shape, g.norep, ne, e⟩

/-! ### non-vacuity: each listed class of ill-formed input on a concrete text -/

def exCfg : Cfg := { sigs := ["a", "b", "c"], cats := ["cat"] }
def exHead (name : String) : String := "RULE " ++ name ++ " CATEGORY cat CUTOFF 20 NEIGHBOURHOOD 5 CONDITIONS "
def exErr (files : List String) : Option Err :=
  match createRules exCfg files [] [] with
  | .error e => some e
  | .ok _ => none

example : exErr [exHead "r" ++ "a and (b or not c)"] = none := by decide +kernel
example : exErr [exHead "r" ++ "a and zz"] = some .value := by decide +kernel                      -- unknown profile
example : exErr ["RULE r CATEGORY nope CUTOFF 1 NEIGHBOURHOOD 1 CONDITIONS a"] = some .syntax := by decide +kernel
example : exErr [exHead "r" ++ "a", exHead "r" ++ "b"] = some .value := by decide +kernel          -- duplicate rule, second file
example : exErr ["DEFINE x AS a DEFINE x AS b " ++ exHead "r" ++ "a"] = some .syntax := by decide +kernel  -- duplicate alias
example : exErr ["DEFINE a AS b " ++ exHead "r" ++ "c"] = some .value := by decide +kernel         -- alias = signature
example : exErr ["DEFINE x AS a or x " ++ exHead "r" ++ "x"] = some .value := by decide +kernel    -- D25
example : exErr [exHead "r" ++ "a or (a)"] = some .value := by decide +kernel                      -- repeated operand
example : exErr [exHead "r" ++ "minimum(2, [a, b, a])"] = some .value := by decide +kernel
example : exErr ["RULE r CATEGORY cat NEIGHBOURHOOD 5 CONDITIONS a"] = some .syntax := by decide +kernel
example : exErr [exHead "r" ++ "(a or b"] = some .syntax := by decide +kernel                      -- unbalanced
example : exErr [exHead "r" ++ "cds(a)"] = some .syntax := by decide +kernel
example : exErr [exHead "r" ++ "a and not"] = some .syntax := by decide +kernel
example : exErr [exHead "r" ++ "not a and not (b or c)"] = some .value := by decide +kernel        -- nothing positive
example : exErr ["RULE r CATEGORY cat SUPERIORS s CUTOFF 1 NEIGHBOURHOOD 1 CONDITIONS a " ++ exHead "s" ++ "b"]
    = some .value := by decide +kernel                                                              -- superior defined later
example : exErr [exHead "s" ++ "b", "RULE r CATEGORY cat SUPERIORS s, s CUTOFF 1 NEIGHBOURHOOD 1 CONDITIONS a"]
    = some .value := by decide +kernel

end ASV.C02
