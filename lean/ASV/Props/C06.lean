/-
  C06 — Regions are the disjoint connected components of overlapping areas; numbering; parent links.
  Property theorems only; helper lemmas in ASV/Proofs/{Sweep,SweepRegions,RegionsSort,RegionsLine,
  RegionsComponents,…}.lean.  Model: ASV/Model/Regions.lean; spec: ASV/Spec/Components.lean.
-/
import ASV.Proofs.RegionsComponents
namespace ASV.C06
open ASV ASV.Regions ASV.Components

/-! ### regions are the connected components (linear records) -/

/-- On a linear record whose candidate clusters and subregions are non-empty single spans inside the
    record (any number, any arrangement: disjoint, nested, chained, touching, covering everything),
    `create_regions` **succeeds**, leaves the areas untouched and adds one region per connected
    component of the "share a base" relation:
    * `IsComponents`: every area lies in exactly one group, the members of a group are linked by
      chains of overlapping areas, and no member of one group shares a base with a member of another
      (so two areas are in the same region **iff** a chain of overlapping areas links them, see
      `same_region_iff_linked`);
    * the regions are, in order, exactly one per group: location = the hull `[min start, max end)`
      of the group, children = the group's candidate clusters and subregions;
    * no two regions share a base. -/
theorem regions_are_components_linear (s : State) (h : LinearOK s) :
    ∃ (s' : State) (groups : List (List Feat)), createRegions s = .ok s' ∧
      s'.cands = s.cands ∧ s'.subs = s.subs ∧ s'.protos = s.protos ∧
      IsComponents (areasOf s) (groups.map (·.map toArea)) ∧
      s'.regions.map view = groups.map expectedRegion ∧
      s'.regions.Pairwise (fun r r' => ¬ r.loc.SharesBase r'.loc) :=
  createRegions_linear_components s h

/-- the property's wording, for any family of groups that `IsComponents`: two areas are in the same
    group iff a chain of areas, each sharing a base with the next, links them -/
theorem same_region_iff_linked {areas : List Area} {groups : List (List Area)} (h : IsComponents areas groups)
    {a b : Area} {g : List Area} (hg : g ∈ groups) (ha : a ∈ g) : b ∈ g ↔ Linked areas a b :=
  h.same_iff_linked hg ha

/-- the generic sweep lemma (shared shape with C03): for spans sorted by start, comparing each span
    with the running hull yields groups that concatenate to the input, are separated (a closed group
    ends before any later group starts), whose hull is exact, and in which every member but the first
    overlaps an earlier member -/
theorem sweep_components_generic {α : Type} (lo hi : α → Int) (x : α) (xs : List α)
    (hsorted : (x :: xs).Pairwise (fun a b => lo a ≤ lo b)) (hwf : ∀ y ∈ x :: xs, lo y < hi y) :
    SweepG.GoSpec lo hi ⟨lo x, hi x, [x]⟩ xs (SweepG.sweep lo hi (x :: xs)) :=
  SweepG.sweep_spec lo hi x xs hsorted hwf

/-! ### non-vacuity -/

/-- three subregions and a candidate cluster on a linear record of 100: [10,30) ∪ [20,40) chain,
    [40,50) touches but shares no base, [60,70) ⊃ [62,65) nested -/
def demo : State :=
  { len := 100, circular := false,
    cands := [⟨4, .cand, .simple ⟨60, 70, .fwd⟩, [9], [], []⟩],
    subs := [⟨0, .sub, .simple ⟨10, 30, .fwd⟩, [], [], []⟩, ⟨1, .sub, .simple ⟨20, 40, .fwd⟩, [], [], []⟩,
             ⟨2, .sub, .simple ⟨40, 50, .fwd⟩, [], [], []⟩, ⟨3, .sub, .simple ⟨62, 65, .fwd⟩, [], [], []⟩] }

example : LinearOK demo := by
  refine ⟨rfl, ?_, rfl⟩
  intro f hf
  simp only [demo, List.cons_append, List.nil_append, List.mem_cons, List.not_mem_nil, or_false] at hf
  rcases hf with rfl | rfl | rfl | rfl | rfl <;> exact ⟨_, rfl, by decide, by decide, by decide⟩

example : (createRegions demo).toOption.map (fun s => s.regions.map view) =
    some [(.simple ⟨10, 40, .fwd⟩, [], [0, 1]), (.simple ⟨40, 50, .fwd⟩, [], [2]), (.simple ⟨60, 70, .fwd⟩, [4], [3])] := by
  decide +kernel

end ASV.C06
