import ASV.Model.Regions
import ASV.Spec.Components
namespace ASV.C06
open ASV ASV.Regions

theorem clearRegions_empty (s : State) : (clearRegions s).regions = [] := rfl

end ASV.C06
