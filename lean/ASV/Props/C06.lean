/-
  C06 — Regions are the disjoint connected components of overlapping areas; numbering; parent links.
  Property theorems only; helper lemmas in ASV/Proofs/{Sweep,SweepRegions,RegionsSort,RegionsLine,
  RegionsComponents,…}.lean.  Model: ASV/Model/Regions.lean; spec: ASV/Spec/Components.lean.
-/
import ASV.Proofs.RegionsComponents
import ASV.Proofs.RegionsInv
import ASV.Proofs.RegionsOrder
import ASV.Proofs.RegionsHeld
import ASV.Proofs.RegionsReload
import ASV.Proofs.RegionsRing
import ASV.Proofs.RegionsRingShort
import ASV.Proofs.RegionsGiven
import ASV.Proofs.RegionsRingOne
import ASV.Proofs.RegionsRingNear
import ASV.Proofs.RegionsRingUnion
import ASV.Proofs.RegionsRingOrder
import ASV.Proofs.RegionsRingInit
import ASV.Proofs.RegionsRingSections
namespace ASV.C06
open ASV ASV.Regions ASV.Components

/-! ### regions are the connected components (linear records) -/

/-- On a linear record whose candidate clusters and subregions are non-empty single spans inside the
    record (any number, any arrangement: disjoint, nested, chained, touching, covering everything),
    `create_regions` **succeeds**, leaves the areas untouched and adds one region per connected
    component of the "share a base" relation:
    * `IsComponents`: every area lies in exactly one group, the members of a group are linked by
      chains of overlapping areas, and no member of one group shares a base with a member of another
      (so two areas are in the same region **iff** a chain of overlapping areas links them, see
      `same_region_iff_linked`);
    * the regions are, in order, exactly one per group: location = the hull `[min start, max end)`
      of the group, children = the group's candidate clusters and subregions;
    * no two regions share a base. -/
theorem regions_are_components_linear (s : State) (h : LinearOK s) :
    ∃ (s' : State) (groups : List (List Feat)), createRegions s = .ok s' ∧
      s'.cands = s.cands ∧ s'.subs = s.subs ∧ s'.protos = s.protos ∧
      IsComponents (areasOf s) (groups.map (·.map toArea)) ∧
      s'.regions.map view = groups.map expectedRegion ∧
      s'.regions.Pairwise (fun r r' => ¬ r.loc.SharesBase r'.loc) :=
  createRegions_linear_components s h.noSpan

/-- **Circular records too**, as long as no candidate cluster or subregion spans the origin: the same
    statement, with `connect_locations` called with the record length as wrap point throughout the sweep
    (it returns the line hull for two overlapping spans: `connect_ring_overlap`, from the closed form
    `connect_ring_closed` of C04). -/
theorem regions_are_components_no_origin_span (s : State) (h : NoSpanOK s) :
    ∃ (s' : State) (groups : List (List Feat)), createRegions s = .ok s' ∧
      s'.cands = s.cands ∧ s'.subs = s.subs ∧ s'.protos = s.protos ∧
      IsComponents (areasOf s) (groups.map (·.map toArea)) ∧
      s'.regions.map view = groups.map expectedRegion ∧
      s'.regions.Pairwise (fun r r' => ¬ r.loc.SharesBase r'.loc) :=
  createRegions_linear_components s h

/-- the property's wording, for any family of groups that `IsComponents`: two areas are in the same
    group iff a chain of areas, each sharing a base with the next, links them -/
theorem same_region_iff_linked {areas : List Area} {groups : List (List Area)} (h : IsComponents areas groups)
    {a b : Area} {g : List Area} (hg : g ∈ groups) (ha : a ∈ g) : b ∈ g ↔ Linked areas a b :=
  h.same_iff_linked hg ha

/-- the generic sweep lemma (shared shape with C03): for spans sorted by start, comparing each span
    with the running hull yields groups that concatenate to the input, are separated (a closed group
    ends before any later group starts), whose hull is exact, and in which every member but the first
    overlaps an earlier member -/
theorem sweep_components_generic {α : Type} (lo hi : α → Int) (x : α) (xs : List α)
    (hsorted : (x :: xs).Pairwise (fun a b => lo a ≤ lo b)) (hwf : ∀ y ∈ x :: xs, lo y < hi y) :
    SweepG.GoSpec lo hi ⟨lo x, hi x, [x]⟩ xs (SweepG.sweep lo hi (x :: xs)) :=
  SweepG.sweep_spec lo hi x xs hsorted hwf

/-! ### the invariant of the bookkeeping, for every history (linear and circular records alike) -/

/-- `Inv` (see `ASV/Proofs/RegionsInv0.lean`) holds after **every** sequence of add / construct / clear /
    create operations that runs without an exception, started from an empty record of any length and
    topology with any genes.  `Inv` says: object ids are distinct; in each of the four lists
    `number x = index x + 1`; regions pairwise do not overlap; a candidate's / subregion's parent is a
    region *of the record* that lists it as a child; a protocluster's parent is a candidate cluster of the
    record (or one constructed and not yet added) that lists it; `cds.region` points at a region of the
    record that lists the gene. -/
theorem invariant_all_histories (len : Int) (circ : Bool) (cds : List Loc) (ops : List Op) (s : State)
    (h : run { len := len, circular := circ, cds := cds } ops = .ok s) : Inv s :=
  run_inv ops (init_inv len circ cds) h

/-- one step: whatever the operation, the invariant is kept -/
theorem invariant_step (s s' : State) (op : Op) (hi : Inv s) (h : step s op = .ok s') : Inv s' :=
  step_inv op hi h

/-- numbers are 1..n in list order: the `j`-th protocluster / candidate cluster / subregion / region
    (0-based) is numbered `j + 1` -/
theorem numbers_are_positions (s : State) (hi : Inv s) (j : Nat) (f : Feat) :
    (s.protos[j]? = some f → numberOf s.numP f = some (j + 1)) ∧
    (s.cands[j]? = some f → numberOf s.numC f = some (j + 1)) ∧
    (s.subs[j]? = some f → numberOf s.numS f = some (j + 1)) ∧
    (s.regions[j]? = some f → numberOf s.numR f = some (j + 1)) :=
  ⟨hi.numP j f, hi.numC j f, hi.numS j f, hi.numR j f⟩

/-- the number shown on a feature identifies that same feature: `get_X(get_X_number(x)) is x` -/
theorem number_identifies_feature (s : State) (hi : Inv s) (f : Feat) (n : Nat) :
    (f ∈ s.protos → numberOf s.numP f = some n → 1 ≤ n ∧ s.protos[n - 1]? = some f) ∧
    (f ∈ s.cands → numberOf s.numC f = some n → 1 ≤ n ∧ s.cands[n - 1]? = some f) ∧
    (f ∈ s.subs → numberOf s.numS f = some n → 1 ≤ n ∧ s.subs[n - 1]? = some f) ∧
    (f ∈ s.regions → numberOf s.numR f = some n → 1 ≤ n ∧ s.regions[n - 1]? = some f) := by
  have hnp := nodup_parts hi
  exact ⟨fun hf hn => numbered_lookup hi.numP hnp.1 hf hn, fun hf hn => numbered_lookup hi.numC hnp.2.1 hf hn,
    fun hf hn => numbered_lookup hi.numS hnp.2.2.1 hf hn, fun hf hn => numbered_lookup hi.numR hi.nodupR hf hn⟩

/-- regions of the record never overlap one another — after any history, on linear and circular
    records (this relies on the D39 repair of `add_region`) -/
theorem regions_never_overlap (s : State) (hi : Inv s) :
    s.regions.Pairwise (fun r r' => locationsOverlap r.loc r'.loc = false) := hi.disjointR

/-- no stale links, after any history: a parent link of a candidate cluster / subregion names a
    region of the record holding it, a protocluster's names a constructed candidate cluster holding
    it, a gene's `region` names a region of the record holding the gene -/
theorem no_stale_links (s : State) (hi : Inv s) :
    (∀ f ∈ s.cands ++ s.subs, ∀ p, s.parentOf f.id = some p → ∃ r ∈ s.regions, r.id = p ∧ f.id ∈ r.kids ++ r.subs) ∧
    (∀ f ∈ s.protos, ∀ c, s.parentOf f.id = some c → ∃ c' ∈ s.cands ++ s.pool, c'.id = c ∧ f.id ∈ c'.kids) ∧
    (∀ i p, s.regionOfCds i = some p → ∃ r ∈ s.regions, r.id = p ∧ i ∈ r.cdses) :=
  ⟨hi.parentA, hi.parentP, hi.cdsLink⟩

/-! ### no stale parent link on any object, held references included -/

/-- After **every** history (adds, constructions, `create_regions()` and `create_regions(candidate_clusters=[…],
    subregions=[…])` with explicitly passed lists, the four `clear_*`, in any order, linear or circular record),
    every parent link of every object that was ever constructed — whether it is still in the record's lists or
    only referenced from outside after a `clear_*` — names a region of the record that lists the object, or a
    candidate cluster (of the record, or constructed and deliberately not stored) that lists it.  No link
    points at a region or candidate cluster that is gone.  (`parentOf k` is the `_parent` slot of object `k`;
    the parent dictionary of the model is never pruned, so removed objects are covered.) -/
theorem no_stale_parent_after_any_history (len : Int) (circ : Bool) (cds : List Loc) (ops : List Op) (s : State)
    (h : run { len := len, circular := circ, cds := cds } ops = .ok s) : ParentsLive s :=
  run_live ops (init_inv len circ cds) (init_live len circ cds) h

/-- one step, from any state satisfying the invariants -/
theorem no_stale_parent_step (s s' : State) (op : Op) (hi : Inv s) (hp : ParentsLive s) (h : step s op = .ok s') :
    ParentsLive s' :=
  step_live op hi hp h

/-! ### the numbers written on features identify the same features after reading the record back -/

/-- `Record.from_biopython` adds protoclusters and subregions again in the order they were written
    (`bisect_right`: after equal coordinates) and candidate clusters from the last written to the first
    (`bisect_left`: before equal coordinates).  On a linear record whose lists are in location order — which
    `numbered_in_location_order_linear` gives for every history — this reproduces each list exactly, also when
    several areas share their coordinates; with `numbers_are_positions` every feature gets the number that was
    written on it. -/
theorem reload_keeps_written_order_linear (s : State) (hl : LineSorted s) :
    readdInOrder [] s.protos = .ok s.protos ∧ readdInOrder [] s.subs = .ok s.subs ∧
    readdFromLast [] s.cands.reverse = .ok s.cands := by
  refine ⟨?_, ?_, ?_⟩
  · simpa using readdInOrder_same (len := s.len) [] s.protos (by simpa using hl.sP)
      (fun y hy => hl.locs y (mem5.2 (Or.inl (by simpa using hy))))
  · simpa using readdInOrder_same (len := s.len) [] s.subs (by simpa using hl.sS)
      (fun y hy => hl.locs y (mem5.2 (Or.inr (Or.inr (Or.inl (by simpa using hy))))))
  · simpa using readdFromLast_same (len := s.len) [] s.cands.reverse (by simpa using hl.sC)
      (fun y hy => hl.locs y (mem5.2 (Or.inr (Or.inl (by simpa using hy)))))

/-! ### numbered in location order (linear records) -/

/-- On a linear record, after **every** history whose added areas are non-empty single spans inside
    the record, each of the four lists is sorted by location — by start, the longer first on equal
    starts (`lineKey`) — so with `numbers_are_positions` the features are numbered 1..n in location
    order.  (`bisect_left` is modelled as the binary search it is, the scan of `add_region` as written;
    candidate clusters and regions get the hull `connect_locations` returns on a line.) -/
theorem numbered_in_location_order_linear (len : Int) (cds : List Loc) (ops : List Op) (s : State)
    (hops : ∀ op ∈ ops, OpLine len op)
    (h : run { len := len, circular := false, cds := cds } ops = .ok s) :
    SortedBy lkey s.protos ∧ SortedBy lkey s.cands ∧ SortedBy lkey s.subs ∧ SortedBy lkey s.regions := by
  have := run_sorted ops (init_inv len false cds) (init_sorted len cds) hops h
  exact ⟨this.sP, this.sC, this.sS, this.sR⟩

/-- the sort key of the model is the spec's "location order" key on such spans -/
theorem spec_order_key_agrees (L len : Int) (l : Loc) (h : LineArea len l) : orderKey L l = lineKey l := by
  obtain ⟨p, rfl, _⟩ := h
  simp [orderKey, firstBase, lineKey, Loc.parts]

/-  On a circular record the same statement is **false** in general (`full_record_order_witness`,
    KF-C06-full-record-order) and is not proved under the exclusion either; the executable
    `sortedByKey` check runs on every dump of the correspondence.
    `def numbered_in_location_order_ring : Prop := ∀ history on a ring without a full-record single-part
       span next to an origin-spanning one, every list is sorted by `orderKey L`` -/

/-! ### region creation, any record (circular included), when it succeeds -/

/-- Whenever `create_regions` returns on a record without regions — linear or circular, whatever
    `connect_locations` did — every candidate cluster and subregion lies in **exactly one** region
    (the regions' children, concatenated, are a rearrangement of the record's areas) and its parent
    link is the region holding it. -/
theorem create_regions_covers_each_area_once (s s' : State) (hi : Inv s) (hreg : s.regions = [])
    (h : createRegions s = .ok s') : RegionsCoverAreas s' :=
  createRegions_covers hi hreg h

/-- `clear_protoclusters / clear_candidate_clusters / clear_subregions` on a record with regions leave
    no stale parent links: the regions are re-created for the remaining areas, each remaining area lies
    in exactly one of them and points at it -/
theorem clear_then_create_no_stale_links (s s' : State) (op : Op)
    (hop : op = .clearProtos ∨ op = .clearCands ∨ op = .clearSubs)
    (hi : Inv s) (hreg : s.regions ≠ []) (h : step s op = .ok s') : RegionsCoverAreas s' ∧ Inv s' :=
  ⟨clear_recreates op hop hi hreg h, step_inv op hi h⟩

/-- … and `clear_regions` resets every parent link of an area and every gene's region -/
theorem clear_regions_resets_links (s : State) (hi : Inv s) :
    (∀ f ∈ s.cands ++ s.subs, (clearRegions s).parentOf f.id = none) ∧
    (∀ i, (clearRegions s).regionOfCds i = none) := by
  have hi' := clearRegions_inv hi
  constructor
  · intro f hf
    cases hp : (clearRegions s).parentOf f.id with
    | none => rfl
    | some p =>
      obtain ⟨r, hr, _⟩ := hi'.parentA f hf p hp
      simp [clearRegions] at hr
  · intro i
    cases hp : (clearRegions s).regionOfCds i with
    | none => rfl
    | some p =>
      obtain ⟨r, hr, _⟩ := hi'.cdsLink i p hp
      simp [clearRegions] at hr

/-- **Circular record, origin-spanning areas included**: whenever `create_regions` returns on a region-less
    record whose candidate clusters and subregions are well-formed spans of the ring (`RingArea`: a single part
    inside the record, or `[x, L) + [0, y)` with `0 < y ≤ x < L`), two areas linked by a chain of overlapping areas
    — around the origin too — are in the same region: no connected component is split over two regions.
    Together with `create_regions_covers_each_area_once` (each area in exactly one region) and
    `regions_never_overlap`, every region is a union of whole components.  Ingredients: the region covers every
    base of its children (`connect_ring_closed`, `connR_covers`, `connR_wf` of C04 with the wrap point
    `Region.__init__` infers, `regionWrap_ring`), and `add_region` refuses overlapping regions. -/
theorem ring_components_never_split (s s' : State) (hL : 0 < s.len) (hi : Inv s) (hreg : s.regions = [])
    (hring : ∀ f ∈ s.cands ++ s.subs, RingArea s.len f.loc) (h : createRegions s = .ok s')
    (a b : Feat) (ha : a ∈ s.cands ++ s.subs) (hl : Linked (areasOf s) (toArea a) (toArea b)) :
    ∀ r ∈ s'.regions, a.id ∈ memberIds r → b.id ∈ memberIds r :=
  ring_components_not_split s s' hL hi hreg hring h a b ha hl

/-- **Circular record**: after `create_regions`, a region that lists an origin-spanning area is the **shortest
    covering arc** of the areas it lists — it is no longer than, and lies inside, every well-formed span `c` that
    covers them, whenever such a span shorter than half the record exists (`connect_ring_shortest` of C04 applied
    to `Region.__init__`, whose inferred wrap point is the record length); a region listing no origin-spanning
    area is the line hull of the areas it lists. -/
theorem ring_region_is_shortest_cover (s s' : State) (hL : 0 < s.len) (hi : Inv s) (hreg : s.regions = [])
    (hring : ∀ f ∈ s.cands ++ s.subs, RingArea s.len f.loc) (h : createRegions s = .ok s') :
    RegionsShortest s.len s' :=
  createRegions_shortest s s' hL hi hreg hring h

/-- **Circular record with origin-spanning areas — a region lists only one component** (`_partial`).
    Hypothesis `ArcUnions`: the union of every family of areas grown by joining overlapping families is a
    well-formed span of the ring shorter than half the record (the set-of-bases reading of "every component is
    shorter than half the record"; it is not derived here from the executable `halfRecordComponent = false`).
    Conditional on `create_regions` returning (success on such rings is still open).  Then any two areas a region
    lists are linked by a chain of overlapping areas: the sweep's running location is always exactly the union of
    the section's members (`connect_ring_exact`, from `connect_ring_closed` / `connR_covers` / `connR_shortest` of
    C04), an area joins a section only if it shares a base with that union, and the first/last merge joins two
    sections only if their unions share a base. -/
theorem ring_region_lists_one_component_partial (s s' : State) (hcirc : s.circular = true) (hL : 0 < s.len)
    (hi : Inv s) (hreg : s.regions = []) (hring : ∀ f ∈ s.cands ++ s.subs, RingArea s.len f.loc)
    (harc : ArcUnions s.len (s.cands ++ s.subs)) (h : createRegions s = .ok s') :
    ∀ r ∈ s'.regions, ∀ a ∈ s.cands ++ s.subs, ∀ b ∈ s.cands ++ s.subs,
      a.id ∈ memberIds r → b.id ∈ memberIds r → Linked (areasOf s) (toArea a) (toArea b) :=
  ring_region_one_component s s' hcirc hL hi hreg hring harc h

/-- … hence, with `ring_components_never_split`: under the same hypotheses two areas of the record are listed by
    the same region **iff** a chain of overlapping areas links them — the regions' member sets are exactly the
    connected components, around the origin too. -/
theorem ring_same_region_iff_linked_partial (s s' : State) (hcirc : s.circular = true) (hL : 0 < s.len)
    (hi : Inv s) (hreg : s.regions = []) (hring : ∀ f ∈ s.cands ++ s.subs, RingArea s.len f.loc)
    (harc : ArcUnions s.len (s.cands ++ s.subs)) (h : createRegions s = .ok s')
    (a b : Feat) (ha : a ∈ s.cands ++ s.subs) (hb : b ∈ s.cands ++ s.subs)
    (r : Feat) (hr : r ∈ s'.regions) (hma : a.id ∈ memberIds r) :
    b.id ∈ memberIds r ↔ Linked (areasOf s) (toArea a) (toArea b) :=
  ⟨fun hmb => ring_region_one_component s s' hcirc hL hi hreg hring harc h r hr a ha b hb hma hmb,
   fun hl => ring_components_not_split s s' hL hi hreg hring h a b ha hl r hr hma⟩

/-- **Around the origin, no extra hypothesis on unions**: on a circular record of length `L` whose candidate
    clusters and subregions all lie within `W` bases of the origin, `4 W < L` — single spans ending before `W`,
    single spans starting after `L - W`, and origin-spanning spans `[x, L) + [0, y)` with `L - W ≤ x`, `y ≤ W`, any
    number of them, overlapping in any way — whenever `create_regions` returns, two areas are listed by the same
    region **iff** a chain of overlapping areas links them (`ArcUnions` is proved for such layouts:
    `arcUnions_near_origin`, unions of joined families are intervals in coordinates unrolled at the origin).
    This widens `regions_are_components_no_origin_span` to layouts with any number of origin-spanning areas, up
    to success of the call. -/
theorem ring_regions_are_components_near_origin (s s' : State) (W : Int) (hcirc : s.circular = true)
    (hW : 0 < W) (hWL : 4 * W < s.len) (hi : Inv s) (hreg : s.regions = [])
    (hnear : ∀ f ∈ s.cands ++ s.subs, NearOrigin W s.len f.loc) (h : createRegions s = .ok s')
    (a b : Feat) (ha : a ∈ s.cands ++ s.subs) (hb : b ∈ s.cands ++ s.subs)
    (r : Feat) (hr : r ∈ s'.regions) (hma : a.id ∈ memberIds r) :
    b.id ∈ memberIds r ↔ Linked (areasOf s) (toArea a) (toArea b) :=
  ring_same_region_iff_linked_partial s s' hcirc (by omega) hi hreg
    (fun f hf => (hnear f hf).ringArea hW hWL) (arcUnions_near_origin hW hWL hnear) h a b ha hb r hr hma

/-- non-vacuity: ring of 1000, `W = 100`: subregions join{[950,1000),[0,30)}, [20,60), [900,960), [70,90) and a
    second origin-spanning one join{[990,1000),[0,10)}: all near the origin; `create_regions` returns two regions,
    join{[900,1000),[0,60)} holding four of them and [70,90) -/
def nearDemo : State :=
  { len := 1000, circular := true,
    subs := [⟨0, .sub, areaTwo 950 30 1000 .fwd, [], [], []⟩, ⟨4, .sub, areaTwo 990 10 1000 .fwd, [], [], []⟩,
             ⟨1, .sub, .simple ⟨20, 60, .fwd⟩, [], [], []⟩, ⟨3, .sub, .simple ⟨70, 90, .fwd⟩, [], [], []⟩,
             ⟨2, .sub, .simple ⟨900, 960, .fwd⟩, [], [], []⟩], nextId := 5 }

example : ∀ f ∈ nearDemo.cands ++ nearDemo.subs, NearOrigin 100 nearDemo.len f.loc := by
  intro f hf
  simp only [nearDemo, List.nil_append, List.mem_cons, List.not_mem_nil, or_false] at hf
  rcases hf with rfl | rfl | rfl | rfl | rfl
  · exact Or.inr (Or.inr ⟨950, 30, rfl, by decide, by decide, by decide, by decide⟩)
  · exact Or.inr (Or.inr ⟨990, 10, rfl, by decide, by decide, by decide, by decide⟩)
  · exact Or.inl ⟨_, rfl, by decide, by decide, by decide⟩
  · exact Or.inl ⟨_, rfl, by decide, by decide, by decide⟩
  · exact Or.inr (Or.inl ⟨_, rfl, by decide, by decide, by decide⟩)

example : (createRegions nearDemo).toOption.map (fun s => s.regions.map view) =
    some [(.compound [⟨900, 1000, .fwd⟩, ⟨0, 60, .fwd⟩], [], [0, 4, 1, 2]), (.simple ⟨70, 90, .fwd⟩, [], [3])] := by
  decide +kernel

/-- **Region location on a ring = exactly the union of its members** (`_partial`: hypothesis `ArcUnions`,
    conditional on `create_regions` returning): base `i` lies in a region's location iff it lies in one of the areas
    the region lists — not merely "shortest covering arc".  With an origin-spanning member this is
    `connect_ring_exact` applied to `Region.__init__`'s own `connect_locations` call (wrap point = record length,
    `regionWrap_ring`); without one the location is the line hull, which is the union because the members were
    grown by joining overlapping families (`joined_line_union`). -/
theorem ring_region_location_is_union_partial (s s' : State) (hcirc : s.circular = true) (hL : 0 < s.len)
    (hi : Inv s) (hreg : s.regions = []) (hring : ∀ f ∈ s.cands ++ s.subs, RingArea s.len f.loc)
    (harc : ArcUnions s.len (s.cands ++ s.subs)) (h : createRegions s = .ok s') :
    ∀ r ∈ s'.regions, ∀ i, r.loc.mem i = true ↔
      ∃ f ∈ s.cands ++ s.subs, f.id ∈ memberIds r ∧ f.loc.mem i = true :=
  ring_region_union s s' hcirc hL hi hreg hring harc h

/-- … without the hypothesis on unions for layouts in the near-origin window (`4 W < L`) -/
theorem ring_region_location_is_union_near_origin (s s' : State) (W : Int) (hcirc : s.circular = true)
    (hW : 0 < W) (hWL : 4 * W < s.len) (hi : Inv s) (hreg : s.regions = [])
    (hnear : ∀ f ∈ s.cands ++ s.subs, NearOrigin W s.len f.loc) (h : createRegions s = .ok s') :
    ∀ r ∈ s'.regions, ∀ i, r.loc.mem i = true ↔
      ∃ f ∈ s.cands ++ s.subs, f.id ∈ memberIds r ∧ f.loc.mem i = true :=
  ring_region_union s s' hcirc (by omega) hi hreg (fun f hf => (hnear f hf).ringArea hW hWL)
    (arcUnions_near_origin hW hWL hnear) h

/-- **The comparison of areas on a ring** (first of the three pieces missing for success of `create_regions` with
    origin-spanning areas): for well-formed areas of a ring — single parts inside the record and origin-spanning
    `[x, L) + [0, y)` — `CDSCollection.__lt__` never raises (`split_origin_bridging_location` succeeds) and is
    exactly the strict lexicographic order of the spec's `orderKey` (first base going round from the origin, an
    origin-spanning area starting before it; longer first), **unless** the left operand is a single part covering
    the whole record — the recorded class `KF-C06-full-record-order`, for which `full_record_order_witness` shows
    the statement false. -/
theorem collectionLt_is_key_order_on_ring_areas (L : Int) (a b : Loc) (ha : RingArea L a) (hb : RingArea L b)
    (hfull : ∀ p, a = .simple p → ¬ (p.lo = 0 ∧ p.hi = L)) :
    collectionLt a b = .ok (keyLt (orderKey L a) (orderKey L b)) :=
  collectionLt_ring ha hb hfull

/-- … so `areas.sort()` of `create_regions` never raises on such areas and is the stable insertion sort by that key -/
theorem ring_sort_succeeds (L : Int) (l : List Feat) (hring : ∀ f ∈ l, RingArea L f.loc)
    (hfull : ∀ f ∈ l, ∀ p, f.loc = .simple p → ¬ (p.lo = 0 ∧ p.hi = L)) :
    sortAreas l = .ok (sortP (fun y x => keyLt (orderKey L y.loc) (orderKey L x.loc)) l) :=
  sortAreas_eq _ l (fun x hx y hy => collectionLt_ring (hring y hy) (hring x hx) (hfull y hy))

/-- non-vacuity: an origin-spanning area sorts before a single part, the longer origin-spanning one first -/
example : (collectionLt (areaTwo 950 30 1000 .fwd) (.simple ⟨20, 60, .fwd⟩)).toOption = some true ∧
    (collectionLt (areaTwo 950 30 1000 .fwd) (areaTwo 990 10 1000 .fwd)).toOption = some true ∧
    RingArea 1000 (areaTwo 950 30 1000 .fwd) ∧ RingArea 1000 (.simple ⟨20, 60, .fwd⟩) := by
  refine ⟨by decide, by decide, Or.inr ⟨950, 30, rfl, by decide, by decide, by decide⟩,
    Or.inl ⟨_, rfl, by decide, by decide, by decide⟩⟩

/-- **The containment check of the `parent` setter on a ring** (second of the pieces missing for success): a
    well-formed area all of whose bases lie in a well-formed span that does not cover the whole record is contained
    in it part by part — `location_contains_other(region, child)` holds, also when the region has two parts
    (`[a, L) + [0, b)`): a single-part child cannot straddle the gap, an origin-spanning child has `a ≤ x`, `y ≤ b`. -/
theorem parent_check_passes_on_ring (L : Int) (r child : Loc) (hr : RingArea L r) (hc : RingArea L child)
    (hsub : ∀ i, child.mem i = true → r.mem i = true) (hmiss : ∃ i, 0 ≤ i ∧ i < L ∧ r.mem i = false) :
    locationContainsOther r child = true :=
  parent_check_passes hr hc hsub hmiss

/-- **`Region(candidates, subregions)` never raises on a ring** (`_partial`: hypothesis `ArcUnions`) for the areas of
    a family grown by joining overlapping families — what every section of `create_regions` is (`SecOK.joined`):
    the wrap point is inferred, `connect_locations` returns, the `CDSCollection` / `Feature` constructor checks pass,
    the `parent` setter accepts every child, and the region's location has exactly the children's bases.
    Remaining for success of `create_regions` itself: `add_region`'s overlap rejection must not fire, i.e. sections
    of different components have disjoint locations (not proved). -/
theorem region_constructor_succeeds_on_ring_partial (L : Int) (hL : 0 < L) (all : List Feat)
    (hring : ∀ f ∈ all, RingArea L f.loc) (harc : ArcUnions L all) (s : State) (cands subs fam : List Feat)
    (hj : Joined all fam) (hmem : ∀ f, f ∈ subs ++ cands ↔ f ∈ fam) :
    ∃ s1 r, mkRegion s cands subs = .ok (s1, r) ∧ RingArea L r.loc ∧
      ∀ i, r.loc.mem i = true ↔ ∃ f ∈ fam, f.loc.mem i = true :=
  mkRegion_ring_ok hL hring harc s cands subs fam hj hmem

/-- … without the hypothesis on unions in the near-origin window -/
theorem region_constructor_succeeds_near_origin (W L : Int) (hW : 0 < W) (hWL : 4 * W < L) (all : List Feat)
    (hnear : ∀ f ∈ all, NearOrigin W L f.loc) (s : State) (cands subs fam : List Feat)
    (hj : Joined all fam) (hmem : ∀ f, f ∈ subs ++ cands ↔ f ∈ fam) :
    ∃ s1 r, mkRegion s cands subs = .ok (s1, r) ∧ RingArea L r.loc ∧
      ∀ i, r.loc.mem i = true ↔ ∃ f ∈ fam, f.loc.mem i = true :=
  mkRegion_ring_ok (by omega) (fun f hf => (hnear f hf).ringArea hW hWL) (arcUnions_near_origin hW hWL hnear)
    s cands subs fam hj hmem

/-- non-vacuity: children of the two-part region of `nearDemo` pass the setter's check; a child straddling the gap
    of a span covering the whole record would not -/
example : locationContainsOther (areaTwo 900 60 1000 .fwd) (.simple ⟨20, 60, .fwd⟩) = true ∧
    locationContainsOther (areaTwo 900 60 1000 .fwd) (areaTwo 950 30 1000 .fwd) = true ∧
    locationContainsOther (areaTwo 500 500 1000 .fwd) (.simple ⟨400, 600, .fwd⟩) = false := by decide

/-- **Forming the sections never raises on a ring** (`_partial`: hypothesis `ArcUnions`; no single part covering the
    whole record = outside `KF-C06-full-record-order`): for well-formed areas of a circular record, `areas.sort()`,
    the sweep — every `connect_locations([area, location], wrap_point=L)` call — and the first/last merge loop of
    `create_regions` all return; every section is a family of linked areas grown by joining overlapping families,
    located exactly at the union of its members, and the sections hold every area exactly once.  With
    `region_constructor_succeeds_on_ring_partial` the only step of `create_regions` not shown to return is
    `add_region`'s overlap rejection (sections of different components must have disjoint locations). -/
theorem ring_sections_succeed_partial (L : Int) (hL : 0 < L) (cands subs : List Feat)
    (hring : ∀ f ∈ cands ++ subs, RingArea L f.loc)
    (hfull : ∀ f ∈ cands ++ subs, ∀ p, f.loc = .simple p → ¬ (p.lo = 0 ∧ p.hi = L))
    (harc : ArcUnions L (cands ++ subs)) (hnd : (ids (cands ++ subs)).Nodup) :
    ∃ secs, sectionsOf (some L) cands subs = .ok secs ∧ (∀ sec ∈ secs, SecOK L (cands ++ subs) sec) ∧
      ((secs.map (·.2)).flatten).Perm (cands ++ subs) :=
  sectionsOf_total hL hring hfull harc hnd

/-- … in the near-origin window (`4 W < L`) without any hypothesis on unions or on full-record parts -/
theorem ring_sections_succeed_near_origin (W L : Int) (hW : 0 < W) (hWL : 4 * W < L) (cands subs : List Feat)
    (hnear : ∀ f ∈ cands ++ subs, NearOrigin W L f.loc) (hnd : (ids (cands ++ subs)).Nodup) :
    ∃ secs, sectionsOf (some L) cands subs = .ok secs ∧ (∀ sec ∈ secs, SecOK L (cands ++ subs) sec) ∧
      ((secs.map (·.2)).flatten).Perm (cands ++ subs) := by
  refine sectionsOf_total (by omega) (fun f hf => (hnear f hf).ringArea hW hWL) ?_ (arcUnions_near_origin hW hWL hnear) hnd
  intro f hf p hp
  rcases hnear f hf with ⟨q, hq, _, _, h3⟩ | ⟨q, hq, h1, _, _⟩ | ⟨x, y, hxy, _⟩
  · rw [hp] at hq; cases hq; omega
  · rw [hp] at hq; cases hq; omega
  · rw [hp] at hxy; simp [areaTwo] at hxy

/-- non-vacuity: the sections of `nearDemo` (two origin-spanning and three single-part subregions near the origin) -/
example : (sectionsOf (some 1000) nearDemo.cands nearDemo.subs).toOption.map (fun secs => secs.map (fun x => (x.1, x.2.map (·.id)))) =
    some [(.compound [⟨900, 1000, .fwd⟩, ⟨0, 60, .fwd⟩], [0, 4, 1, 2]), (.simple ⟨70, 90, .fwd⟩, [3])] := by
  decide +kernel

/-! ### `create_regions(candidate_clusters=…, subregions=…)`: regions are built from exactly the given areas -/

/-- On a record without regions, linear or circular, whatever the locations: after
    `create_regions(candidate_clusters=cs, subregions=ss)` the regions' children, concatenated, are a rearrangement
    of exactly the ids that were passed — an area of the record that was not passed is in no region (also when one
    of the two lists is explicitly EMPTY: it is not replaced by the record's own areas), every passed area is in
    exactly one. -/
theorem explicit_lists_regions_hold_exactly_the_given_areas (s s' : State) (cs ss : List Nat) (hreg : s.regions = [])
    (h : step s (.createRegionsWith cs ss) = .ok s') :
    ((s'.regions.map memberIds).flatten).Perm (cs ++ ss) :=
  createRegionsWith_members_given hreg h

/-- … and (given areas = non-empty single spans inside the record, none spanning the origin; linear or circular
    record) the call **succeeds** and the regions are the connected components of the GIVEN areas only: two given
    candidate clusters with no chain of given areas between them stay in two regions even if a subregion of the
    record bridges them.  (`createRegionsOf s cands subs` is the body of the op; `createRegionsOf_eq`: it behaves
    like `create_regions()` on a record holding just those areas.) -/
theorem explicit_lists_regions_are_components_of_the_given_areas (s : State) (cands subs : List Feat)
    (hreg : s.regions = []) (hareas : ∀ f ∈ cands ++ subs, LineArea s.len f.loc) :
    ∃ (s' : State) (groups : List (List Feat)), createRegionsOf s cands subs = .ok s' ∧
      IsComponents ((cands ++ subs).map toArea) (groups.map (·.map toArea)) ∧
      s'.regions.map view = groups.map expectedRegion ∧
      s'.regions.Pairwise (fun r r' => ¬ r.loc.SharesBase r'.loc) :=
  createRegionsOf_components s cands subs hreg hareas

/-- non-vacuity, the seeded layout: candidate clusters [100,200) and [300,400) given with `subregions=[]` while the
    record holds the bridging subregion [150,350): two regions, the subregion in neither -/
example :
    (step { len := 1000, circular := false,
            cands := [⟨3, .cand, .simple ⟨100, 200, .fwd⟩, [0], [], []⟩, ⟨4, .cand, .simple ⟨300, 400, .fwd⟩, [1], [], []⟩],
            subs := [⟨2, .sub, .simple ⟨150, 350, .fwd⟩, [], [], []⟩], nextId := 5 }
        (.createRegionsWith [3, 4] [])).toOption.map (fun s => s.regions.map view) =
      some [(.simple ⟨100, 200, .fwd⟩, [3], []), (.simple ⟨300, 400, .fwd⟩, [4], [])] := by
  decide +kernel

/-! ### what is *not* proved for circular records (left to the executable spec + correspondence)

  `def regions_are_components_ring : Prop :=
     ∀ s, RingOK s → ¬ halfRecordComponent … → ¬ fullRecordClash … →
       ∃ s' groups, createRegions s = .ok s' ∧ IsComponents (areasOf s) groups ∧ (one region per group)`
  for records **with** origin-spanning areas: proved are the case without origin-spanning areas
  (`regions_are_components_no_origin_span`, full statement incl. success) and, with them, the direction
  "components are never split" (`ring_components_never_split`) and "a region is the shortest covering arc of
  what it lists" (`ring_region_is_shortest_cover`) and "a region lists only one component"
  (`ring_region_lists_one_component_partial`, hypothesis `ArcUnions`); open are success of `create_regions`
  (sections of different components must be shown disjoint: the separation half of the sweep in unrolled
  coordinates, plus `collectionLt` on origin-spanning locations) and deriving `ArcUnions` from
  `halfRecordComponent = false`; the component statement is
  **false** without the two exclusions (witnesses below, `KF-C06-half-record-component`,
  `KF-C06-full-record-order`).  What holds on a ring without any hypothesis is stated above:
  `create_regions_covers_each_area_once`, `regions_never_overlap`, `invariant_all_histories`. -/

/-- negation witness (KF-C06-half-record-component): ring of 12, subregions [4,6), join{[4,12),[0,2)},
    [2,3): one region [0,12) swallowing all three although [2,3) shares no base with the others -/
def halfWitness : State :=
  { len := 12, circular := true,
    subs := [⟨1, .sub, .compound [⟨4, 12, .fwd⟩, ⟨0, 2, .fwd⟩], [], [], []⟩,
             ⟨2, .sub, .simple ⟨2, 3, .fwd⟩, [], [], []⟩, ⟨0, .sub, .simple ⟨4, 6, .fwd⟩, [], [], []⟩] }

theorem half_record_component_witness :
    (createRegions halfWitness).toOption.map (fun s => s.regions.map view) =
      some [(.simple ⟨0, 12, .fwd⟩, [], [1, 0, 2])] ∧
    halfRecordComponent 12 (areasOf halfWitness) = true ∧
    classIds (areasOf halfWitness) = [[0, 1], [2]] := by
  decide +kernel

/-- negation witness (KF-C06-full-record-order): on a ring the comparison of [0,12) and
    join{[4,12),[0,4)} holds in both directions -/
theorem full_record_order_witness :
    (collectionLt (.simple ⟨0, 12, .fwd⟩) (.compound [⟨4, 12, .fwd⟩, ⟨0, 4, .fwd⟩])).toOption = some true ∧
    (collectionLt (.compound [⟨4, 12, .fwd⟩, ⟨0, 4, .fwd⟩]) (.simple ⟨0, 12, .fwd⟩)).toOption = some true ∧
    fullRecordClash 12 [.simple ⟨0, 12, .fwd⟩, .compound [⟨4, 12, .fwd⟩, ⟨0, 4, .fwd⟩]] = true := by
  decide +kernel

/-! ### non-vacuity -/

/-- three subregions and a candidate cluster on a linear record of 100: [10,30) ∪ [20,40) chain,
    [40,50) touches but shares no base, [60,70) ⊃ [62,65) nested -/
def demo : State :=
  { len := 100, circular := false,
    cands := [⟨4, .cand, .simple ⟨60, 70, .fwd⟩, [9], [], []⟩],
    subs := [⟨0, .sub, .simple ⟨10, 30, .fwd⟩, [], [], []⟩, ⟨1, .sub, .simple ⟨20, 40, .fwd⟩, [], [], []⟩,
             ⟨2, .sub, .simple ⟨40, 50, .fwd⟩, [], [], []⟩, ⟨3, .sub, .simple ⟨62, 65, .fwd⟩, [], [], []⟩] }

example : LinearOK demo := by
  refine ⟨rfl, ?_, rfl⟩
  intro f hf
  simp only [demo, List.cons_append, List.nil_append, List.mem_cons, List.not_mem_nil, or_false] at hf
  rcases hf with rfl | rfl | rfl | rfl | rfl <;> exact ⟨_, rfl, by decide, by decide, by decide⟩

example : (createRegions demo).toOption.map (fun s => s.regions.map view) =
    some [(.simple ⟨10, 40, .fwd⟩, [], [0, 1]), (.simple ⟨40, 50, .fwd⟩, [], [2]), (.simple ⟨60, 70, .fwd⟩, [4], [3])] := by
  decide +kernel


/-- a history on a circular record with a gene: the invariant's hypotheses are met by `run` itself -/
example : (run { len := 100, circular := true, cds := [.simple ⟨12, 18, .fwd⟩] }
      [.addSub (.compound [⟨90, 100, .fwd⟩, ⟨0, 20, .fwd⟩]), .addProto (.simple ⟨40, 60, .fwd⟩), .mkCand [1], .addCand 2,
       .addSub (.simple ⟨55, 70, .fwd⟩), .createRegions, .clearSubs]).toOption.map
      (fun s => (s.regions.map view, s.regions.map (·.cdses), s.parentOf 2)) =
    some ([(.simple ⟨40, 60, .fwd⟩, [2], [])], [[]], some 2) := by
  decide +kernel

end ASV.C06
