/-
C02 — non-vacuity examples for `superiors_list_checked` (`Props/C02.lean`) and the spec
`supListsDistinct`: repeated names in SUPERIORS lists below a chain of rules.  No theorems here.
-/
import ASV.Props.C02Examples

namespace ASV.C02
open ASV ASV.Rules ASV.Parser ASV.Grammar

/-- a repeated name in SUPERIORS is rejected also when the named rule inherits further superiors
    (chain top ← mid ← low); the same list without the repeat is accepted with the closed set -/
def exChain (sup : String) : List String :=
  [exHead "top" ++ "a " ++ "RULE mid CATEGORY cat SUPERIORS top CUTOFF 1 NEIGHBOURHOOD 1 CONDITIONS b " ++
   "RULE low CATEGORY cat SUPERIORS " ++ sup ++ " CUTOFF 1 NEIGHBOURHOOD 1 CONDITIONS c"]
example : exErr (exChain "mid, mid") = some .value := by decide +kernel
example : exErr (exChain "mid, top, mid") = some .value := by decide +kernel
example : (match createRules exCfg (exChain "mid") [] [] with
    | .ok rules => rules.map (·.superiors)
    | .error _ => []) = [[], ["top"], ["mid", "top"]] := by decide +kernel
example : (match tokenise "RULE low SUPERIORS mid, top, mid CUTOFF" with
    | .ok toks => supListsDistinct toks
    | .error _ => true) = false := by decide +kernel
/-- base, then base + `extra`, then base + a rule below `extra`: the last is rejected (superior not
    defined in the files given), the base list still has one rule -/
example :
    let base := exHead "base" ++ "a"
    let x := exHead "extra" ++ "b"
    let y := "RULE other CATEGORY cat SUPERIORS extra CUTOFF 1 NEIGHBOURHOOD 1 CONDITIONS c"
    let r := Continuations.run exCfg [(none, base), (some 0, x), (some 0, y)] []
    (r.1.map fun o => (Continuations.outcome r.2 o).toOption.map fun l => l.map (·.name),
     r.2.map fun l => l.map (·.name)) =
    ([some ["base"], some ["base", "extra"], none], [["base"], ["base", "extra"]]) := by decide +kernel
end ASV.C02
