/-
  C19 — region overview layout data is complete, non-overlapping and in range.
  Property theorems only; helper lemmas live in ASV/Proofs/Packing*.lean.

  All statements are for every region: any number and nesting of protoclusters, candidate
  clusters and subregions *in any order*, on a linear record, inside a circular record, across
  the origin, or covering a whole circular record; every record length.  The hypotheses
  (`inputOK`, `viewOK`: Spec/Layout.lean) say only what the secmet constructors and region
  formation guarantee: areas are one part or `[s, L) + [0, e)` with `e ≤ s`, lie inside the
  region, a protocluster's core lies inside the protocluster.  The model is the code with the
  repairs D24, D30, D31, D70-C19, D72-C19 (fixes/) applied; without them 3, 5, 6 are false (corpus/C19).
-/
import ASV.Proofs.PackingBuild
import ASV.Proofs.PackingGenes
import ASV.Proofs.PackingRegion
import ASV.Proofs.PackingJson
namespace ASV.C19
open ASV ASV.Packing ASV.Packing.Spec

/-! ### pack -/

/-- `pack` neither loses nor duplicates an area: the rows' contents, concatenated, are a
    permutation of the input (any `length` argument, any input order, no well-formedness needed) -/
theorem pack_is_partition (areas : List Feat) (length : Int) (rows : List Row)
    (h : pack areas length = some rows) : (rows.flatMap (·.contents)).Perm areas :=
  pack_perm areas length rows h

/-- `pack` never raises "cannot fit area into row" on well-formed areas -/
theorem pack_total (L : Int) (areas : List Feat) (length : Int)
    (hwf : ∀ a ∈ areas, collOK L a.loc = true) : ∃ rows, pack areas length = some rows :=
  pack_isSome areas length fun a ha => collOK_start_nonneg (hwf a ha)

/-- no two areas of one row share a base of the record — for every input order (sortedness is
    only needed for compactness), every `length`, including rows closed by an origin-spanning
    area.  Unconditional since `can_fit` tests an origin-spanning area against the whole row (D24). -/
theorem rows_disjoint (L : Int) (areas : List Feat) (length : Int) (rows : List Row)
    (hwf : ∀ a ∈ areas, collOK L a.loc = true) (h : pack areas length = some rows) :
    ∀ r ∈ rows, r.contents.Pairwise fun a b => ¬ SharesBase a.loc b.loc := by
  intro r hr
  exact (pack_inv areas length rows hwf h r hr).apart.imp fun hab => hab.not_sharesBase

/-! ### build_area_rows -/

/-- `build_area_rows` never trips an assertion / ValueError on a well-formed region -/
theorem build_total (c : Ctx) (r : RegionIn) (hin : inputOK c r = true) :
    ∃ out, buildAreaRows c r = some out := by
  obtain ⟨_, out, _, _, h, _⟩ := build_total' hin
  exact ⟨out, h⟩

/-- every emitted area lies in the announced range, its core inside its extent, nothing
    inverted: `lo ≤ neighbouring_start ≤ start ≤ end ≤ neighbouring_end ≤ hi` (all five branches
    of `adjust_cross_origin_area`, both halves of a split, the shifted post-origin areas) -/
theorem areas_in_range (c : Ctx) (r : RegionIn) (out : List Area) (hin : inputOK c r = true)
    (h : buildAreaRows c r = some out) : areasInRange c out = true := by
  obtain ⟨_, out', _, _, h', bok, _⟩ := build_total' hin
  obtain rfl : out' = out := by rw [h'] at h; exact Option.some.inj h
  simp only [areasInRange, List.all_eq_true]
  exact bok.range

/-- no two areas placed on the same row (= drawn at the same height) overlap in their full
    extents, in the coordinates actually emitted (after shifting / splitting) -/
theorem same_row_disjoint (c : Ctx) (r : RegionIn) (out : List Area) (hin : inputOK c r = true)
    (h : buildAreaRows c r = some out) : RowsDisjoint out := by
  obtain ⟨seq, out', hseq, hconv, h', _, hok⟩ := build_total' hin
  obtain rfl : out' = out := by rw [h'] at h; exact Option.some.inj h
  exact convertAll_sep (inputOK_parts hin).1 seq 0 out' (emission_feats hin hseq) hok hconv

/-- every protocluster, shown candidate cluster and subregion is drawn exactly once — as one
    area, or as two adjacent halves with the same non-zero group id, the first ending at the
    record end and the second starting at the origin — nothing else is drawn, folding the drawn
    coordinates back onto the record gives exactly the feature's extent (and core, for
    protoclusters), and different split features have different group ids -/
theorem drawn_exactly_once (c : Ctx) (r : RegionIn) (out : List Area) (hin : inputOK c r = true)
    (h : buildAreaRows c r = some out) : Complete c.L r out := by
  obtain ⟨seq, out', hseq, _, h', bok, _⟩ := build_total' hin
  obtain rfl : out' = out := by rw [h'] at h; exact Option.some.inj h
  obtain ⟨ds, hp, hs, hlt, _⟩ := bok.parse
  refine ⟨ds, hp, ⟨_, hs, ?_⟩, hlt.imp fun hab => Int.ne_of_lt hab⟩
  have := (emission_perm hseq).map expectedShown
  simpa [List.map_map, Function.comp_def] using this

/-- the executable form used by the driver is the same statement -/
theorem completeB_iff (L : Int) (r : RegionIn) (out : List Area) :
    completeB L r out = true ↔ Complete L r out := by
  unfold completeB Complete
  cases hp : parse out with
  | none => simp
  | some ds =>
    simp only [Option.some.injEq, exists_eq_left', Bool.and_eq_true, decide_eq_true_eq]
    cases hs : ds.mapM (Drawn.shown L) with
    | none => simp
    | some ss => simp [List.isPerm_iff]

/-- order along the drawing equals order along the genome: an area drawn whole starts at the
    region's first base plus the distance travelled along the genome (through the origin if need
    be) to the feature's start, and is as long as the feature -/
theorem areas_order_preserved (c : Ctx) (r : RegionIn) (out : List Area) (hin : inputOK c r = true)
    (h : buildAreaRows c r = some out) :
    ∀ a ∈ out, a.group = 0 → ∃ f ∈ toDraw r, a.kind = f.kind ∧
      a.nstart = (drawRange c).1 + ringOffset c.L (drawRange c).1 f.start ∧
      a.nend = a.nstart + f.loc.len := by
  obtain ⟨seq, out', hseq, _, h', bok, _⟩ := build_total' hin
  obtain rfl : out' = out := by rw [h'] at h; exact Option.some.inj h
  intro a ha hg
  obtain ⟨x, hx, gid, as, hgid, good, hm⟩ := bok.src a ha
  have hfm : x.1 ∈ toDraw r := (emission_perm hseq).subset (List.mem_map_of_mem hx)
  rcases good.drawn with ⟨a', rfl, _, hsh⟩ | ⟨a', b', rfl, hga, hgb, _⟩
  · simp only [List.mem_singleton] at hm
    subst hm
    refine ⟨x.1, hfm, ?_, good.placed a rfl⟩
    simp only [Drawn.shown, Option.some.injEq] at hsh
    have := congrArg Shown.kind hsh
    simp only [expectedShown] at this
    split at this <;> simp_all
  · simp only [List.mem_cons, List.not_mem_nil, or_false] at hm
    rcases hm with rfl | rfl <;> omega

/-- `to_minimal_json` loses nothing: reading the written object back (missing neighbouring
    coordinate = the core's, missing string = empty, missing group = 0) gives the area again —
    in particular a height of 0, a start of 0 and an end of 0 are always written -/
theorem minimal_json_roundtrip (a : Area) : readArea a.toMinimalJson = some a :=
  minimal_json_lossless a

/-- in a region that spans the origin — including one that also tiles the whole record,
    `[s, L) + [0, s)` — no area is ever split at the origin: every area is drawn whole, continuing
    past the record length (splitting is for the whole-record region `[0, L)` only; deciding it by
    "the region covers the record" instead of "the region does not span the origin" falsifies this
    and `areas_in_range`) -/
theorem origin_spanning_region_never_splits (c : Ctx) (r : RegionIn) (out : List Area)
    (hin : inputOK c r = true) (hx : c.regionCrosses = true) (h : buildAreaRows c r = some out) :
    ∀ a ∈ out, a.group = 0 := by
  obtain ⟨seq, out', hseq, _, h', bok, _⟩ := build_total' hin
  obtain rfl : out' = out := by rw [h'] at h; exact Option.some.inj h
  -- the range starts after position 0
  have hlo : 0 < (drawRange c).1 := by
    obtain ⟨region, L, circ⟩ := c
    have hc := (inputOK_parts hin).1
    simp only [regionOK, Bool.and_eq_true] at hc
    rcases collOK_cases hc.1 with ⟨R, rfl, _⟩ | ⟨S, E, rfl, h1, h2, h3⟩
    · simp [Ctx.regionCrosses, Loc.parts] at hx
    · simp only [drawRange]; omega
  intro a ha
  obtain ⟨x, _, gid, as, _, good, hm⟩ := bok.src a ha
  rcases good.drawn with ⟨a', rfl, hg, _⟩ | ⟨a', b', rfl, _, _, hsh, _⟩
  · simp only [List.mem_singleton] at hm
    subst hm; exact hg
  · -- a second half would start at 0, before the range
    exfalso
    have hb := (areaInRange_iff _ _ _).1 (good.range b' (by simp))
    have h0 : b'.nstart = 0 := by
      simp only [Drawn.shown] at hsh
      split at hsh
      · rename_i hcond
        simp only [Bool.and_eq_true, beq_iff_eq] at hcond
        exact hcond.1.1.2
      · simp at hsh
    omega

/-- a protocluster drawn whole shows exactly as many core positions as its core has bases — in
    particular never an empty core, also when the core tiles the whole record from a position back
    to itself (`core_start == core_end`; D72-C19).  For split protoclusters the same count over
    both halves is part of `drawn_exactly_once` (`Shown.coreLen`). -/
theorem cores_drawn_in_full (c : Ctx) (r : RegionIn) (out : List Area) (hin : inputOK c r = true)
    (h : buildAreaRows c r = some out) :
    ∀ a ∈ out, a.group = 0 → a.kind = .proto →
      ∃ f ∈ toDraw r, f.kind = .proto ∧ a.end - a.start = f.core.len ∧ 0 < f.core.len := by
  obtain ⟨seq, out', hseq, _, h', bok, _⟩ := build_total' hin
  obtain rfl : out' = out := by rw [h'] at h; exact Option.some.inj h
  intro a ha hg hk
  obtain ⟨x, hx, gid, as, hgid, good, hm⟩ := bok.src a ha
  have hfm : x.1 ∈ toDraw r := (emission_perm hseq).subset (List.mem_map_of_mem hx)
  have hfeat := emission_feats hin hseq x hx
  rcases good.drawn with ⟨a', rfl, _, hsh⟩ | ⟨a', b', rfl, hga, hgb, _⟩
  · simp only [List.mem_singleton] at hm
    subst hm
    simp only [Drawn.shown, Option.some.injEq] at hsh
    have hkind := congrArg Shown.kind hsh
    have hlen := congrArg Shown.coreLen hsh
    simp only [expectedShown] at hkind hlen
    have hxk : x.1.kind = .proto := by
      split at hkind <;> simp_all
    simp only [hxk] at hlen
    refine ⟨x.1, hfm, hxk, hlen, ?_⟩
    obtain ⟨_, k1, _, _⟩ := proto_core hfeat hxk
    rcases collOK_cases k1 with ⟨q, hq, _, h2, _⟩ | ⟨s, e, hq, h1, h2, h3⟩
    · rw [hq]; simp [Loc.len, Loc.parts, Part.len]; omega
    · rw [hq]; simp [Loc.len, Loc.parts, Part.len]; omega
  · simp only [List.mem_cons, List.not_mem_nil, or_false] at hm
    rcases hm with rfl | rfl <;> omega

/-! ### get_unique_protoclusters: from the region's children to the drawing -/

/-- `region.get_unique_protoclusters()` delivers exactly the protoclusters of the region's
    candidate clusters: every object once however many candidates share it, and every *distinct*
    object — two protoclusters that agree in extent and product (a detected cluster and a
    sideloaded annotation of it, two clusters of one product with different cores) are both
    there.  (Gathering them under their sort key instead of by identity falsifies this.) -/
theorem unique_protoclusters_complete (c : Ctx) (cands : List Cand)
    (hid : idsConsistent (cands.flatMap (·.members)) = true) :
    (uniqueProtoclusters c cands).Perm (regionProtos cands) :=
  uniqueProtoclusters_perm c cands hid

/-- the executable form the driver evaluates on the delivered list -/
theorem unique_protoclusters_delivered (c : Ctx) (cands : List Cand)
    (hid : idsConsistent (cands.flatMap (·.members)) = true) :
    deliveredOk cands (uniqueProtoclusters c cands) = true := by
  simp only [deliveredOk, List.isPerm_iff]
  exact (uniqueProtoclusters_perm c cands hid).map _

/-- … in non-decreasing order of `(start [+ L after the origin], -length, product)` -/
theorem unique_protoclusters_sorted (c : Ctx) (cands : List Cand) :
    sortedByKey c ((uniqueProtoclusters c cands).map (·.feat)) = true :=
  sortByKey_sorted c _

/-- every protocluster of the region's candidate clusters (by identity), every shown candidate
    and every subregion is drawn exactly once, whatever order the protoclusters are delivered in
    (CPython's set order decides between protoclusters with equal keys) -/
theorem drawn_exactly_once_any_order (c : Ctx) (subs : List Feat) (cands : List Cand)
    (delivered : List PObj) (out : List Area) (hp : delivered.Perm (regionProtos cands))
    (hin : inputOK c (regionSpecIn subs cands) = true)
    (h : buildAreaRows c ⟨subs, cands.map (·.feat), delivered.map (·.feat)⟩ = some out) :
    Complete c.L (regionSpecIn subs cands) out :=
  complete_of_perm (hp.map _)
    (drawn_exactly_once c _ out (inputOK_of_perm (hp.map _) hin) h)

/-- the property's first clause from the region's children: `build_area_rows` of a region draws
    every protocluster of its candidate clusters, every shown candidate and every subregion
    exactly once (or as two linked halves) -/
theorem every_protocluster_drawn_once (c : Ctx) (subs : List Feat) (cands : List Cand)
    (out : List Area) (hid : idsConsistent (cands.flatMap (·.members)) = true)
    (hin : inputOK c (regionSpecIn subs cands) = true) (h : buildRegion c subs cands = some out) :
    Complete c.L (regionSpecIn subs cands) out :=
  drawn_exactly_once_any_order c subs cands _ out (uniqueProtoclusters_perm c cands hid) hin h

/-- … and never refuses such a region -/
theorem build_region_total (c : Ctx) (subs : List Feat) (cands : List Cand)
    (hid : idsConsistent (cands.flatMap (·.members)) = true)
    (hin : inputOK c (regionSpecIn subs cands) = true) : ∃ out, buildRegion c subs cands = some out :=
  build_total c _ (inputOK_of_perm ((uniqueProtoclusters_perm c cands hid).map _) hin)

/-! ### convert_regions / convert_cds_features -/

/-- the `start`/`end` numbers written for a region describe its drawing range: from the region's
    first base, as long as the region, i.e. up to `L + parts[1].end` for an origin-spanning one -/
theorem announced_range (c : Ctx) (h : regionOK c = true) : announcedOk c (announced c) = true :=
  announced_ok c h

/-- every drawn gene (both halves of a split one) lies within the announced range -/
theorem genes_in_range (c : Ctx) (views : List GeneView) (hc : regionOK c = true)
    (hv : ∀ v ∈ views, viewOK c v = true) : orfsInRange c (convertCds c views) = true := by
  simp only [orfsInRange, List.all_eq_true, convertCds]
  intro o ho
  obtain ⟨v, hvm, gid, hm⟩ := convertCdsFrom_mem views 0 o ho
  exact (convertOne_good hc (hv v hvm) gid).range o hm

/-- every gene is drawn exactly once, in the order given — whole, or (origin-spanning gene in a
    whole-record region) as two linked halves `[start, L]` + `[1, end]` of which the one without
    the arrow head is strand-less — with exactly its own coordinates once folded back -/
theorem genes_exactly_once (c : Ctx) (views : List GeneView) (hc : regionOK c = true)
    (hv : ∀ v ∈ views, viewOK c v = true) : orfsCompleteB c.L views (convertCds c views) = true :=
  convertCds_complete hc views hv

/-- order along the drawing equals order along the genome: a gene drawn whole sits at the
    region's first base plus the distance travelled along the genome to the gene's start (so
    genes after the origin are shifted by exactly the record length) -/
theorem order_preserved (c : Ctx) (v : GeneView) (gid : Int) (hc : regionOK c = true)
    (hv : viewOK c v = true) :
    ∀ o, convertOne c v gid = [o] → orfPlaced c v o = true := by
  intro o ho
  rcases (convertOne_good hc hv gid).drawn with ⟨o', ho', _, _, hpl⟩ | ⟨a, b, hab, _⟩
  · rw [ho] at ho'
    simp only [List.cons.injEq, and_true] at ho'
    subst ho'; exact hpl
  · rw [ho] at hab
    simp at hab

/-- the three gene statements with the hypothesis on the *locations*: for genes of one or two
    exons (incl. forward and reverse genes running over the origin) well-formedness of the
    location inside the region is all that is needed — `Feature.start/end`, `crosses_origin` and
    `is_contained_by(region.location.parts[-1])` are computed by the model from the location -/
theorem genes_drawn_from_locations (c : Ctx) (genes : List Loc) (hc : regionOK c = true)
    (hg : ∀ g ∈ genes, geneOK c g = true) :
    orfsInRange c (convertCds c (genes.map (geneView c))) = true ∧
    orfsCompleteB c.L (genes.map (geneView c)) (convertCds c (genes.map (geneView c))) = true ∧
    ∀ g ∈ genes, ∀ gid o, convertOne c (geneView c g) gid = [o] → orfPlaced c (geneView c g) o = true := by
  have hv : ∀ v ∈ genes.map (geneView c), viewOK c v = true := by
    intro v hv
    simp only [List.mem_map] at hv
    obtain ⟨g, hgm, rfl⟩ := hv
    exact geneView_ok hc (hg g hgm)
  exact ⟨genes_in_range c _ hc hv, genes_exactly_once c _ hc hv,
    fun g hgm gid o ho => order_preserved c _ gid hc (geneView_ok hc (hg g hgm)) o ho⟩

/-! ### the constructors behind the hypotheses -/

/-- every well-formed location is accepted by `CDSCollection.__init__` / `Feature.__init__`:
    the hypotheses of the theorems above describe constructible objects -/
theorem wellformed_is_constructible (L : Int) (l : Loc) (h : collOK L l = true) :
    collectionInit l = .ok := by
  rcases collOK_cases h with ⟨p, rfl, h1, h2, h3⟩ | ⟨s, e, rfl, h1, h2, h3⟩
  · have : ¬ (p.lo > p.hi) := by omega
    have h0 : ¬ (p.lo < 0) := by omega
    simp [collectionInit, Loc.parts, Loc.start, Loc.end, this, h0]
  · have a1 : ¬ (min s 0 > max L e) := by omega
    have a2 : ¬ (min s 0 < 0) := by omega
    have a3 : ¬ (e = L) := by omega
    simp [collectionInit, Loc.parts, Loc.start, Loc.end, Loc.strand, sharedEnds, minList, maxList, a1, a2, a3]

/-- what the constructors establish and what they leave open (one part): an accepted
    single-part location is well-formed as soon as it is non-empty and ends inside the record —
    the constructor checks the sign of the start, not emptiness -/
theorem constructed_simple_wellformed (L : Int) (p : Part) (h : collectionInit (.simple p) = .ok)
    (hne : p.lo < p.hi) (hin : p.hi ≤ L) : collOK L (.simple p) = true := by
  have h0 : ¬ (p.lo < 0) := by
    intro hneg
    have : ¬ (p.lo > p.hi) := by omega
    simp [collectionInit, Loc.parts, Loc.start, Loc.end, this, hneg] at h
  simp only [collOK, Bool.and_eq_true, decide_eq_true_eq]
  omega

/-- … and two parts: the constructors force the second part to start at 0 and both parts onto
    the forward strand; non-emptiness, "the first part ends the record" and `e ≤ s` are what the
    theorems' hypothesis `collOK` adds ("overlapping exons" only compares end coordinates) -/
theorem constructed_pair_wellformed (L : Int) (p q : Part) (h : collectionInit (.compound [p, q]) = .ok)
    (hp : p.lo < p.hi) (hq : q.lo < q.hi) (hend : p.hi = L) (hsep : q.hi ≤ p.lo) :
    collOK L (.compound [p, q]) = true := by
  obtain ⟨plo, phi, pst⟩ := p
  obtain ⟨qlo, qhi, qst⟩ := q
  simp only at hp hq hend hsep
  have hz : qlo = 0 := by
    by_cases hz : qlo = 0
    · exact hz
    · exfalso; simp [collectionInit, Loc.parts, hz] at h
  subst hz
  have hst : qst = pst := by
    by_cases hne : qst = pst
    · exact hne
    · exfalso; simp [collectionInit, Loc.parts, hne] at h
  subst hst
  have hf : qst = .fwd := by
    by_cases hne : qst = .fwd
    · exact hne
    exfalso
    have a1 : ¬ (min plo 0 > max phi qhi) := by omega
    have a2 : ¬ (min plo 0 < 0) := by omega
    have a3 : ¬ (qhi = phi) := by omega
    simp [collectionInit, Loc.parts, Loc.strand, sharedEnds, Loc.start, Loc.end, minList, maxList, a1, a2, a3, hne] at h
  subst hf hend
  simp only [collOK, Bool.and_eq_true, decide_eq_true_eq, beq_iff_eq]
  simp; omega

/-! ### non-vacuity: the hypotheses hold on concrete layouts that reach every branch -/

private def sl (a b : Int) : Loc := .simple ⟨a, b, .fwd⟩
private def xl (s L e : Int) : Loc := .compound [⟨s, L, .fwd⟩, ⟨0, e, .fwd⟩]

/-- the D24 layout and more: origin-spanning region `[800,1000) + [0,90)`; protoclusters before
    the origin (a1, b, a2), with the right neighbourhood across it (x), the core across it (y),
    after it (z) and with the left neighbourhood across it (w); an origin-spanning candidate
    cluster whose collective core does not span the origin (D30) and an origin-spanning subregion -/
def exCross : Ctx := ⟨xl 800 1000 90, 1000, true⟩
def exCrossIn : RegionIn :=
  { subregions := [⟨xl 900 1000 50, .sub, default, false, "s"⟩],
    candidates := [⟨xl 800 1000 90, .cand, sl 810 960, false, "CC"⟩],
    protos := [⟨sl 800 850, .proto, sl 810 820, false, "a1"⟩, ⟨sl 840 870, .proto, sl 845 850, false, "b"⟩,
               ⟨sl 860 900, .proto, sl 870 880, false, "a2"⟩, ⟨xl 880 1000 90, .proto, sl 950 960, false, "x"⟩,
               ⟨xl 990 1000 80, .proto, xl 995 1000 5, false, "y"⟩, ⟨sl 10 60, .proto, sl 20 30, false, "z"⟩,
               ⟨xl 950 1000 85, .proto, sl 20 40, false, "w"⟩] }

example : inputOK exCross exCrossIn = true := by decide
/-- (extent start, core start, core end, extent end, height): a1, a2 and y share the first
    protocluster row; x is tested against a2 as well and goes to b's row -/
example : (buildAreaRows exCross exCrossIn).map
      (·.map fun a => (a.nstart, a.start, a.end, a.nend, a.height)) =
    some [(800, 800, 1090, 1090, 0), (900, 900, 1050, 1050, 2),
          (800, 810, 820, 850, 4), (860, 870, 880, 900, 4), (990, 995, 1005, 1080, 4),
          (840, 845, 850, 870, 6), (880, 950, 960, 1090, 6),
          (1010, 1020, 1030, 1060, 8), (950, 1020, 1040, 1085, 10)] := by decide

/-- whole circular record `[0,1000)`: the origin-spanning protocluster covering 90 % of the
    record with its core before the origin but in the lower half (D31) is split into linked
    halves, the first carrying the core, the second an empty core at 0 -/
def exWhole : Ctx := ⟨sl 0 1000, 1000, true⟩
def exWholeIn : RegionIn :=
  { subregions := [],
    candidates := [⟨xl 300 1000 200, .cand, sl 350 400, true, "CC 1"⟩, ⟨sl 0 1000, .cand, sl 500 600, true, "CC 2"⟩],
    protos := [⟨xl 300 1000 200, .proto, sl 350 400, false, "a"⟩, ⟨sl 0 1000, .proto, sl 500 600, false, "b"⟩] }

example : inputOK exWhole exWholeIn = true := by decide
example : (buildAreaRows exWhole exWholeIn).map
      (·.map fun a => ((a.nstart, a.start, a.end, a.nend), (a.height, a.group))) =
    some [((300, 350, 400, 1000), (1, 1)), ((0, 0, 0, 200), (1, 1)), ((0, 500, 600, 1000), (3, 0))] := by
  decide

/-- genes: before the origin, across it (forward and reverse), after it; and split in a
    whole-record region -/
def exGenes : List GeneView :=
  [⟨960, 980, false, false, -1⟩, ⟨990, 12, true, false, 1⟩, ⟨985, 7, true, false, -1⟩, ⟨10, 40, false, true, 1⟩]
example : regionOK exCross = true ∧ exGenes.all (viewOK exCross) = true := by decide
example : (convertCds exCross exGenes).map (fun o => (o.start, o.end, o.strand)) =
    [(961, 980, -1), (991, 1012, 1), (986, 1007, -1), (1011, 1040, 1)] := by decide
example : (convertCds exWhole [⟨990, 12, true, true, 1⟩, ⟨985, 7, true, true, -1⟩]).map
      (fun o => ((o.start, o.end, o.strand), (o.split, o.group))) =
    [((991, 1000, 0), (false, 1)), ((1, 12, 1), (true, 1)), ((986, 1000, -1), (false, 2)),
     ((1, 7, 0), (true, 2))] := by
  decide

/-- a detected T1PKS protocluster, a sideloaded annotation of it on the same coordinates (other
    core), and an NRPS one; the T1PKS pair is shared by two candidate clusters.  All three are
    delivered (the shared ones once) and drawn. -/
def exTwins : List Cand :=
  let det : PObj := ⟨0, ⟨sl 500 1500, .proto, sl 800 1200, false, "T1PKS"⟩⟩
  let side : PObj := ⟨1, ⟨sl 500 1500, .proto, sl 900 1100, false, "T1PKS"⟩⟩
  let other : PObj := ⟨2, ⟨sl 1300 2200, .proto, sl 1600 1900, false, "NRPS"⟩⟩
  [⟨⟨sl 500 2200, .cand, sl 800 1900, false, "CC 1"⟩, [det, side, other]⟩,
   ⟨⟨sl 500 1500, .cand, sl 800 1200, false, "CC 2"⟩, [det, side]⟩,
   ⟨⟨sl 1300 2200, .cand, sl 1600 1900, true, "CC 3"⟩, [other]⟩]
def exTwinsCtx : Ctx := ⟨sl 500 2200, 3000, false⟩

example : idsConsistent (exTwins.flatMap (·.members)) = true ∧
    inputOK exTwinsCtx (regionSpecIn [] exTwins) = true := by decide
example : (uniqueProtoclusters exTwinsCtx exTwins).map (·.id) = [0, 1, 2] := by decide
example : ((buildRegion exTwinsCtx [] exTwins).map
      (·.map fun a => (a.kind, a.start, a.end, a.height))) =
    some [(.cand, 500, 2200, 0), (.cand, 500, 1500, 2),
          (.proto, 800, 1200, 4), (.proto, 900, 1100, 6), (.proto, 1600, 1900, 8)] := by decide

/-- genes as locations: forward and reverse genes over the origin, a two-exon reverse gene -/
def exGeneLocs : List Loc :=
  [.simple ⟨960, 980, .rev⟩, .compound [⟨990, 1000, .fwd⟩, ⟨0, 12, .fwd⟩],
   .compound [⟨0, 7, .rev⟩, ⟨985, 1000, .rev⟩], .compound [⟨30, 40, .rev⟩, ⟨10, 20, .rev⟩]]
example : exGeneLocs.all (geneOK exCross) = true ∧ exGeneLocs.all (geneOK exWhole) = true := by decide
example : exGeneLocs.map (geneView exCross) =
    [⟨960, 980, false, false, -1⟩, ⟨990, 12, true, false, 1⟩, ⟨985, 7, true, false, -1⟩,
     ⟨10, 40, false, true, -1⟩] := by decide

/-- a region that spans the origin *and* tiles the record, `[700,1000) + [0,700)`: the
    origin-spanning protocluster and candidate continue past 1000, nothing is split; and a child
    that itself tiles the record from 600 back to 600 (D70-C19) -/
def exTile : Ctx := ⟨xl 700 1000 700, 1000, true⟩
def exTileIn : RegionIn :=
  { subregions := [⟨sl 150 700, .sub, default, false, "s"⟩],
    candidates := [⟨xl 700 1000 200, .cand, xl 900 1000 50, true, "CC 1"⟩],
    protos := [⟨xl 700 1000 200, .proto, xl 900 1000 50, false, "a"⟩] }
example : inputOK exTile exTileIn = true ∧ exTile.regionCrosses = true := by decide
example : (buildAreaRows exTile exTileIn).map
      (·.map fun a => ((a.nstart, a.start, a.end, a.nend), (a.height, a.group))) =
    some [((700, 700, 1200, 1200), (0, 0)), ((1150, 1150, 1700, 1700), (2, 0)),
          ((700, 900, 1050, 1200), (4, 0))] := by decide
example : inputOK ⟨xl 600 1000 600, 1000, true⟩ ⟨[⟨xl 600 1000 600, .sub, default, false, "x"⟩], [], []⟩ = true ∧
    (buildAreaRows ⟨xl 600 1000 600, 1000, true⟩ ⟨[⟨xl 600 1000 600, .sub, default, false, "x"⟩], [], []⟩).map
      (·.map fun a => (a.nstart, a.nend, a.group)) = some [(600, 1600, 0)] := by decide

/-- a protocluster whose core tiles the record from 600 back to 600, in the origin-spanning region
    `[600,1000) + [0,600)` and in the whole-record region: the core is drawn in full (D72-C19) -/
example : inputOK ⟨xl 600 1000 600, 1000, true⟩
      ⟨[], [⟨xl 600 1000 600, .cand, xl 600 1000 600, true, "CC"⟩], [⟨xl 600 1000 600, .proto, xl 600 1000 600, false, "a"⟩]⟩ = true ∧
    (buildAreaRows ⟨xl 600 1000 600, 1000, true⟩
      ⟨[], [⟨xl 600 1000 600, .cand, xl 600 1000 600, true, "CC"⟩], [⟨xl 600 1000 600, .proto, xl 600 1000 600, false, "a"⟩]⟩).map
      (·.map fun a => (a.nstart, a.start, a.end, a.nend)) = some [(600, 600, 1600, 1600)] := by decide
example : (buildAreaRows exWhole
      ⟨[⟨sl 0 1000, .sub, default, false, "y"⟩], [], [⟨xl 600 1000 600, .proto, xl 600 1000 600, false, "a"⟩]⟩).map
      (·.map fun a => ((a.nstart, a.start, a.end, a.nend), a.group)) =
    some [((0, 0, 1000, 1000), 0), ((600, 600, 1000, 1000), 2), ((0, 0, 600, 600), 2)] := by decide

/-- the constructors accept `[800,1000) + [0,900)` (halves overlapping on 800..900: only equal
    *ends* count as overlapping exons), which is not well-formed; and refuse what they check -/
example : collectionInit (xl 800 1000 900) = .ok ∧ collOK 1000 (xl 800 1000 900) = false ∧
    collectionInit (xl 800 1000 90) = .ok ∧ collOK 1000 (xl 800 1000 90) = true ∧
    collectionInit (.compound [⟨800, 1000, .fwd⟩, ⟨5, 90, .fwd⟩]) = .valueError ∧
    collectionInit (.compound [⟨800, 1000, .rev⟩, ⟨0, 90, .rev⟩]) = .valueError ∧
    collectionInit (.compound [⟨800, 1000, .fwd⟩, ⟨0, 90, .rev⟩]) = .assertion ∧
    collectionInit (.simple ⟨-1, 5, .fwd⟩) = .valueError := by decide

end ASV.C19
