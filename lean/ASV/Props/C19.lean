/-
  C19 — region overview layout data is complete, non-overlapping and in range.
  Property theorems only; helper lemmas live in ASV/Proofs/Packing*.lean.
-/
import ASV.Proofs.PackingBase
namespace ASV.C19
open ASV ASV.Packing ASV.Packing.Spec

/-- the `start`/`end` numbers written for a region describe its drawing range -/
theorem announced_range (c : Ctx) (h : regionOK c = true) : announcedOk c (announced c) = true :=
  announced_ok c h

end ASV.C19
