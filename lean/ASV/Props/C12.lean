/-
  C12 — per-region GenBank files are faithful, self-consistent extracts.
  Property theorems only; helper lemmas in ASV/Proofs/RegionExtract*.lean.
-/
import ASV.Spec.RegionExtract
namespace ASV.C12
open ASV ASV.RegionExtract

/-- the annotations record where the region came from -/
theorem annotations_record_origin (rd : RegionData) :
    (buildAnnotations rd).origStart = toString rd.start ∧ (buildAnnotations rd).origEnd = toString rd.end := by
  simp [buildAnnotations]

end ASV.C12
