/-
  C12 — per-region GenBank files are faithful, self-consistent extracts.
  Property theorems only; helper lemmas in ASV/Proofs/RegionExtract*.lean.

  `writeToGenbank rd rec = .ok w` : the model of `write_to_genbank(region, record, handle)` (the code
  with fixes D10, D21, D21b–e and D58 applied) wrote the record `w.extract` and left the full record's
  features as `w.parentAfter`.  `rec.length` is the record length `L`; position `i` of the file is
  position `toRecord L rd i` of the record (`start + i`, modulo `L` over the origin).

  Proved for all inputs (no size bounds):
    parent_restored              writing leaves every feature of the full record as it was
    annotations_parent_unchanged … and every (nested) dict of its annotations
    cross_origin_sequence        the file's sequence is `seq[start:] ++ seq[:end]` (or `seq[start:end]`)
    sequence_is_region_sequence  … i.e. nucleotide `i` of the file is nucleotide `toRecord i` of the record
    renumber_consistent          every cross reference by number is sent through ONE renumbering per
                                 kind, and each renumbering is a bijection of the region's areas onto
                                 1..n that follows their position in the file
    annotations_record_origin    `Orig. start` / `Orig. end`
  Proved under input well-formedness (`wfInput`, and `consistent` for the last two):
    shift_same_bases_partial     every written feature covers exactly the bases of its original — any number
                                 of exons, regions over the origin and all the way round, features running over
                                 the origin with any number of exons
    inside_kept_partial          every feature inside the region is written (origin-spanning ones: one part on
                                 each side of the origin, or any number per side in transcription order)
    extract_reloads              the executable `selfConsistent` in full: the file is numbered as a record loading
                                 it numbers it (1..n per kind, each number once, in load order), every reference by
                                 number resolves, there is one region feature spanning the file, `core_location`
                                 texts read back to the canonical form of the `proto_core` features (also
                                 `regionFeatureOK`)
    write_succeeds_partial       (also `writable`) `write_to_genbank` does not raise
    motif_locations_partial      leader/tail texts of any number of parts are rewritten part by part to the text
                                 of the moved parts, which reads back and covers the same bases
    references_resolve_partial   the written feature a rewritten reference points at is the image of the
                                 original referent
  Left to the executable spec on the real output (correspondence): `Record.from_genbank` itself (executed, not
  modelled) showing one region with the same content; leader/tail texts.
-/
import ASV.Proofs.RegionExtractRegion
import ASV.Proofs.RegionAnnotations
import ASV.Proofs.RegionExtractMotif
import ASV.Proofs.RegionOutputs
import ASV.Proofs.RegionExtractKeptMulti
import ASV.Proofs.RegionExtractCores
import ASV.Proofs.RegionAnnotationsRead
import ASV.Proofs.RegionExtractMotifOrder
import ASV.Proofs.RegionExtractTies
import ASV.Proofs.RegionExtractTiesCross
namespace ASV.C12
open ASV ASV.RegionExtract

/-- the annotations record where the region came from -/
theorem annotations_record_origin (rd : RegionData) :
    (buildAnnotations rd).origStart = toString rd.start ∧ (buildAnnotations rd).origEnd = toString rd.end ∧
    (buildAnnotations rd).crossNote = rd.crossesOrigin := by
  simp [buildAnnotations]

/-- Writing a region file leaves the full record unchanged: whatever was reassigned on the way
    (locations of origin-spanning features, their qualifiers), every feature has its location and
    qualifiers back afterwards. -/
theorem parent_restored (rd : RegionData) (rec : BioRecord) (w : Written)
    (h : writeToGenbank rd rec = .ok w) : w.parentAfter = rec.features :=
  writeToGenbank_parent rd rec w h

/-- … and so do its annotations, nested dicts included.  The annotation dicts live in a heap of objects referring
    to each other by address (`AHeap`); `_build_annotations` (deep copy, `setdefault` twice, three item
    assignments — `buildAnnotationsHeap`) changes no object that existed before the call, so the full record's
    annotations dict, read with all references resolved (`readTop`), says afterwards what it said before —
    whether or not it already carried a structured comment or the antiSMASH-Data entry. -/
theorem annotations_parent_unchanged (h : AHeap) (parent : Nat) (rd : RegionData) (h' : AHeap) (a : Nat)
    (hb : buildAnnotationsHeap h parent rd = some (h', a)) :
    (∀ i, i < h.length → h'[i]? = h[i]?) ∧ ∃ t, readTop h parent = some t ∧ readTop h' parent = some t :=
  buildAnnotations_keeps_parent h parent rd h' a hb

def exLaterRd : RegionData := { start := 13, «end» := 15, cands := [], subs := [⟨2, .simple ⟨13, 15, .fwd⟩⟩] }

/-- a full record carrying the comment `main.add_antismash_comments` adds: top dict at address 2 -/
def exHeap : AHeap :=
  [.data [("Version", "7.1"), ("Run date", "2000-01-01")], .comments [("antiSMASH-Data", 0)],
   .top [("topology", "circular")] (some 1)]

/-- the code: the region file gets NOTE / Orig. start / Orig. end, the full record keeps its comment … -/
example : (buildAnnotationsHeap exHeap 2 exLaterRd).map (fun r => (readTop r.1 r.2, readTop r.1 2)) =
    some (some ⟨[("topology", "circular")], some [("antiSMASH-Data", [("Version", "7.1"), ("Run date", "2000-01-01"),
            ("NOTE", notePlain), ("Orig. start", "13"), ("Orig. end", "15")])]⟩,
          readTop exHeap 2) := by decide
/-- … which is what the spec expects of the file -/
example : (buildAnnotationsHeap exHeap 2 exLaterRd).map (fun r => readTop r.1 r.2) =
    (readTop exHeap 2).map (fun t => some (expectedAnn t exLaterRd)) := by decide
/-- the variant with one-level copies (`dict(annotations)`, `dict(structured_comment)`) shares the antiSMASH-Data
    dict with the full record and writes the region's NOTE into it: the theorem is false for it -/
example : (buildAnnotationsShallow exHeap 2 exLaterRd).map (fun r => decide (readTop r.1 2 = readTop exHeap 2)) = some false := by
  decide

/-- The annotations of the region file: `_build_annotations` (`buildAnnotationsHeap`) succeeds on every annotations
    dict it can read, and the dict it returns for the file, read with all references resolved, says exactly what the
    full record's says plus NOTE (plain or cross-origin), `Orig. start` and `Orig. end` in the antiSMASH-Data comment —
    that comment updated in place (its other entries and its position among the comments kept) when the full record
    has it, created after the other comments when it has not, the structured comment itself created when the full
    record has none (`expectedAnn`).  Hypothesis: the names of the full record's structured comments are distinct —
    they are the keys of a Python dict.  Together with `annotations_parent_unchanged`: the file gets the notes, the
    full record does not. -/
theorem annotations_file_expected (h : AHeap) (parent : Nat) (rd : RegionData) (t : AnnTree)
    (ht : readTop h parent = some t) (hnd : ((t.sc.getD []).map (·.1)).Nodup) :
    ∃ h' a, buildAnnotationsHeap h parent rd = some (h', a) ∧ readTop h' a = some (expectedAnn t rd) :=
  buildAnnotations_reads h parent rd t ht hnd

/-- Not vacuous: `exHeap` reads, its one comment name is distinct (see the examples above for the value); and a
    full record with two other comments and none from antiSMASH gets the antiSMASH-Data comment after them -/
example : (readTop exHeap 2).map (fun t => decide ((t.sc.getD []).map (·.1)).Nodup) = some true := by decide
example : (buildAnnotationsHeap
      [.data [("Assembly Method", "SPAdes")], .data [("Annotation Provider", "someone")],
       .comments [("Genome-Assembly-Data", 0), ("Genome-Annotation-Data", 1)], .top [] (some 2)] 3 exLaterRd).map
      (fun r => readTop r.1 r.2) =
    some (some ⟨[], some [("Genome-Assembly-Data", [("Assembly Method", "SPAdes")]),
      ("Genome-Annotation-Data", [("Annotation Provider", "someone")]),
      ("antiSMASH-Data", [("NOTE", notePlain), ("Orig. start", "13"), ("Orig. end", "15")])]⟩) := by decide

/-- The file's sequence: the part before the origin followed by the part after it for a region
    running over the origin, the plain slice otherwise. -/
theorem cross_origin_sequence (rd : RegionData) (rec : BioRecord) (w : Written)
    (h : writeToGenbank rd rec = .ok w) :
    w.extract.seq =
      if rd.crossesOrigin then (rec.seq.take rec.seq.length).drop rd.start.toNat ++ rec.seq.take rd.end.toNat
      else (rec.seq.take rd.end.toNat).drop rd.start.toNat := by
  rw [writeToGenbank_seq rd rec w h]
  simp [sliceSeq, BioRecord.length]

/-- … which is, nucleotide by nucleotide, the region's sequence: position `i` of the file carries
    the nucleotide at position `toRecord i` of the record, for `regionLen` positions.  The region lies
    inside the record (`0 ≤ start < end ≤ L`, or `0 < end ≤ start < L` over the origin). -/
theorem sequence_is_region_sequence (rd : RegionData) (rec : BioRecord) (w : Written)
    (h : writeToGenbank rd rec = .ok w)
    (hin : (0 ≤ rd.start ∧ rd.start < rd.end ∧ rd.end ≤ rec.length) ∨
           (0 < rd.end ∧ rd.end ≤ rd.start ∧ rd.start < rec.length)) :
    w.extract.seq = expectedSeq rec.length rd rec.seq := by
  rw [writeToGenbank_seq rd rec w h]
  rcases hin with ⟨h0, h1, h2⟩ | ⟨h0, h1, h2⟩
  · have hc : rd.crossesOrigin = false := by simp [RegionData.crossesOrigin]; omega
    simp only [hc, Bool.false_eq_true, if_false]
    exact sliceSeq_plain_spec rec.seq rd h0 h1 h2
  · have hc : rd.crossesOrigin = true := by simp [RegionData.crossesOrigin]; omega
    simp only [hc, if_true]
    exact sliceSeq_wrap_spec rec.seq rd h0 h1 h2

/-- The full statement: every written feature comes from a feature of the full record (same type,
    same untouched qualifiers) and covers exactly the same bases. -/
def ShiftSameBases (rd : RegionData) (rec : BioRecord) (w : Written) : Prop :=
  ∀ g ∈ w.extract.features, ∃ f ∈ rec.features, g.tag = f.tag ∧ g.type = f.type ∧
    SameBases rec.length rd f.loc g.loc

/-- Proved under `wfInput rd rec`: the record is not empty; the region lies in it (`0 ≤ start < end ≤ L`, or
    `0 < end ≤ start < L` over the origin, `start = end` being a region all the way round); every feature has
    non-empty parts inside the record; and, only for a region over the origin, where `offset_location` is at
    work: a feature running over the origin has one part on each side, or is shorter than the record with all
    parts on one strand (`oneStrand`: abutting pieces of different strands make `offset_location` raise); any
    other feature is not as long as the record and has all parts on one strand.  Nothing else is assumed: any
    number of exons, abutting exons in runs of any length (after the repair D58), both strands. -/
theorem shift_same_bases_partial (rd : RegionData) (rec : BioRecord) (w : Written)
    (h : writeToGenbank rd rec = .ok w) (hwf : wfInput rd rec = true) : ShiftSameBases rd rec w :=
  fun g hg => written_sameBases rd rec w h hwf g hg

/-- Nothing inside the region is left out: a feature of the full record that lies inside the region
    (`insideRegion`: all parts between the region's start and end; over the origin: all before it, all after it,
    or — for a feature that itself runs over the origin — each part on its side) is written.
    For a feature running over the origin inside a region over the origin: it has one part on each side of the
    origin (`twoPart`, also when it goes all the way round), or **any number of exons on each side** in transcription
    order (`ringOrdered`: forward strand — those before the origin ascending, then those after it ascending; reverse
    strand — those after the origin descending, then those before it descending; none empty, none reaching into
    another) and is not as long as the record.  The order is needed, not a gap of the proof: the loop keeps an
    origin-spanning feature only if, moved into file coordinates, it no longer looks origin-spanning
    (`location_bridges_origin`), and exons in another order still do — such a feature is not a gene lying over the
    origin but a scrambled location, and the code drops it. -/
theorem inside_kept_partial (rd : RegionData) (rec : BioRecord) (w : Written)
    (h : writeToGenbank rd rec = .ok w)
    (hreg : rd.crossesOrigin = true → 0 < rd.end ∧ rd.start < rec.length)
    (f : BioFeature) (hf : f ∈ rec.features) (hne : f.loc.parts ≠ [])
    (hin : insideRegion rec.length rd f.loc = true)
    (hord : rd.crossesOrigin = true → bridgesOrigin f.loc = true →
      twoPart rec.length f.loc = true ∨ (ringOrdered rec.length rd f.loc = true ∧ f.loc.len ≠ rec.length)) :
    ∃ g ∈ w.extract.features, g.tag = f.tag :=
  written_contains_inside_multi rd rec w h hreg f hf hne hin hord

/-- Not vacuous: genes with two exons on each side of the origin, one per strand, inside the region `[16:20]+[0:6]`
    of a record of 20 bases: in transcription order, not `twoPart`, and written as one run each (abutting pieces
    joined where `offset_location` joins them: in ascending order) -/
def exMultiRd : RegionData := { start := 16, «end» := 6, cands := [], subs := [] }
def exMultiRec : BioRecord :=
  { seq := "ACGTACGTACGTACGTACGT".toList,
    features := [
      ⟨0, "CDS", .compound [⟨16, 17, .fwd⟩, ⟨18, 20, .fwd⟩, ⟨0, 2, .fwd⟩, ⟨3, 5, .fwd⟩], {}⟩,
      ⟨1, "CDS", .compound [⟨4, 6, .rev⟩, ⟨0, 1, .rev⟩, ⟨19, 20, .rev⟩, ⟨16, 18, .rev⟩], {}⟩] }

example : exMultiRec.features.all (fun f => bridgesOrigin f.loc && ringOrdered 20 exMultiRd f.loc &&
    !twoPart 20 f.loc && insideRegion 20 exMultiRd f.loc) = true := by decide
example : (writeToGenbank exMultiRd exMultiRec).toOption.map (fun w => w.extract.features.map fun f => (f.tag, f.loc)) =
    some [(0, .compound [⟨0, 1, .fwd⟩, ⟨2, 6, .fwd⟩, ⟨7, 9, .fwd⟩]),
          (1, .compound [⟨8, 10, .rev⟩, ⟨4, 5, .rev⟩, ⟨3, 4, .rev⟩, ⟨0, 2, .rev⟩])] := by decide
/-- … and the same exons in another order are still origin-spanning after the move, so the code leaves the feature out -/
example : (writeToGenbank exMultiRd
      { exMultiRec with features := [⟨0, "CDS", .compound [⟨18, 20, .fwd⟩, ⟨16, 17, .fwd⟩, ⟨0, 2, .fwd⟩], {}⟩] }).toOption.map
      (fun w => w.extract.features.length) = some 0 := by decide

/-- Renumbering is consistent: there is one renumbering per kind of area (protoclusters, candidate
    clusters, subregions) such that every written feature's references — the region's candidate and
    subregion numbers, a candidate's own number and its protocluster numbers, the number of a
    protocluster and of its core feature, a subregion's number — are its original's references sent
    through it; and each renumbering is a bijection from the region's areas onto `1..n` in which an
    area has the smaller number iff it comes first in the region file (position, then larger first).
    Ties (`TiesByRecordNumber`): areas of one kind at the same position with the same size are numbered in the
    order of their record-wide numbers — which is the order in which their features stand in the file, hence
    the order in which a record loading the file numbers them — whatever the order in which the region's
    candidate clusters list them (the order of the dictionaries `_number_by_position` is handed). -/
theorem renumber_consistent (rd : RegionData) (rec : BioRecord) (w : Written)
    (h : writeToGenbank rd rec = .ok w) :
    (∀ g ∈ w.extract.features, ∃ f ∈ rec.features, g.tag = f.tag ∧ g.type = f.type ∧
      RefsThrough (renumbering rd rec.length) f.type f.q g.q) ∧
    (GoodNumbering rd rec.length ((protoDict rd).map fun kv => (kv.1, kv.2.loc)) (renumbering rd rec.length).protos ∧
     GoodNumbering rd rec.length (candDict rd) (renumbering rd rec.length).cands ∧
     GoodNumbering rd rec.length (subDict rd) (renumbering rd rec.length).subs) ∧
    (TiesByRecordNumber rd rec.length ((protoDict rd).map fun kv => (kv.1, kv.2.loc)) (renumbering rd rec.length).protos ∧
     TiesByRecordNumber rd rec.length (candDict rd) (renumbering rd rec.length).cands ∧
     TiesByRecordNumber rd rec.length (subDict rd) (renumbering rd rec.length).subs) :=
  ⟨fun g hg => written_refs rd rec w h g hg, renumbering_good rd rec.length, renumbering_ties rd rec.length⟩

/-- Not vacuous: a region `[1000:1500]` of a record of 2000 bases with two protoclusters (record-wide numbers 2
    and 3) on the same coordinates, each in its own candidate cluster (numbers 3 and 2, same coordinates again);
    the region lists the candidate of protocluster 3 first, so the dictionary of protoclusters has 3 before 2. -/
def exTie : RegionData :=
  { start := 1000, «end» := 1500, subs := [],
    cands := [⟨2, .simple ⟨1000, 1500, .fwd⟩, [⟨3, .simple ⟨1000, 1500, .fwd⟩, .simple ⟨1200, 1300, .fwd⟩⟩]⟩,
              ⟨3, .simple ⟨1000, 1500, .fwd⟩, [⟨2, .simple ⟨1000, 1500, .fwd⟩, .simple ⟨1200, 1300, .fwd⟩⟩]⟩] }

example : (protoDict exTie).map (·.1) = [3, 2] := by decide
/-- the tied protoclusters are numbered by record-wide number (2 ↦ 1, 3 ↦ 2), not in dictionary order -/
example : (dictGet (renumbering exTie 2000).protos 2).toOption = some 1 ∧
    (dictGet (renumbering exTie 2000).protos 3).toOption = some 2 ∧
    (dictGet (renumbering exTie 2000).cands 2).toOption = some 1 ∧
    (dictGet (renumbering exTie 2000).cands 3).toOption = some 2 := by decide
/-- numbering the tied areas in dictionary order instead (what a stable sort on position and size alone gives:
    3 ↦ 1, 2 ↦ 2) breaks the tie rule -/
example : ¬ TiesByRecordNumber exTie 2000 ((protoDict exTie).map fun kv => (kv.1, kv.2.loc)) [(3, 1), (2, 2)] := by
  intro h
  have := h 3 2 (.simple ⟨1000, 1500, .fwd⟩) (.simple ⟨1000, 1500, .fwd⟩) 1 2 (by decide) (by decide) rfl rfl
    (by decide) (by decide)
  omega

/-- Ties in file order, for a region that does not run over the origin: written protoclusters (and subregions) that
    a loading record cannot tell apart by position and size — which it therefore numbers in the order in which they
    stand in the file (`Record.add_protocluster` / `add_subregion` insert behind equals) — carry their numbers in
    that order (`tiesInFileOrder`, until now only evaluated on each written file).  Three facts meet: the file keeps
    the record's order (`plain_tags_sublist`: a slice), the record lists the areas of a kind in the order of their
    numbers (hypothesis `InNumberOrder`, what `Record.to_biopython` does for protoclusters and subregions), and
    `_number_by_position` breaks ties by record-wide number (`TiesByRecordNumber`).  Falsified by the round-4
    seeded change C12_1 (sort key without the number).  Missing part: regions over the origin, where the file is
    put together from three groups of features (before / over / after the origin) and it remains to show that tied
    areas fall into the same group. -/
theorem ties_in_file_order_partial (rd : RegionData) (rec : BioRecord) (w : Written)
    (h : writeToGenbank rd rec = .ok w) (hwf : wfInput rd rec = true) (hcons : consistent rd rec = true)
    (hplain : rd.crossesOrigin = false)
    (hP : InNumberOrder "protocluster" (·.q.protoNumber) rec.features)
    (hS : InNumberOrder "subregion" (·.q.subNumber) rec.features) :
    tiesInFileOrder (·.q.protoNumber) (ofType "protocluster" w.extract.features) = true ∧
    tiesInFileOrder (·.q.subNumber) (ofType "subregion" w.extract.features) = true :=
  written_ties rd rec w h hwf hcons hplain hP hS

/-- The same for every region, over the origin or not.  The file of a region over the origin is put together from
    three groups of features — before the origin, over it, after it —, each in the record's order; areas with the
    same position and size in the file have the same location (`area_posPair_inj`: one forward part, or a forward
    pair over the origin), so they fall into the same group and keep the record's order (`cross_file_order`). -/
theorem ties_in_file_order (rd : RegionData) (rec : BioRecord) (w : Written)
    (h : writeToGenbank rd rec = .ok w) (hwf : wfInput rd rec = true) (hcons : consistent rd rec = true)
    (hP : InNumberOrder "protocluster" (·.q.protoNumber) rec.features)
    (hS : InNumberOrder "subregion" (·.q.subNumber) rec.features) :
    tiesInFileOrder (·.q.protoNumber) (ofType "protocluster" w.extract.features) = true ∧
    tiesInFileOrder (·.q.subNumber) (ofType "subregion" w.extract.features) = true := by
  cases hc : rd.crossesOrigin with
  | false => exact written_ties rd rec w h hwf hcons hc hP hS
  | true => exact written_ties_cross rd rec w h hwf hcons hc hP hS

/-- Not vacuous: two subregions (record-wide numbers 2 and 3) on the same coordinates behind another one; the region
    lists number 3 first -/
def exTieRec : BioRecord :=
  { seq := "ACGTACGTACGTACGTACGT".toList,
    features := [
      ⟨0, "subregion", .simple ⟨1, 3, .fwd⟩, { subNumber := some 1 }⟩,
      ⟨1, "region", .simple ⟨1, 3, .fwd⟩, { subNumbers := [1] }⟩,
      ⟨2, "subregion", .simple ⟨8, 14, .fwd⟩, { subNumber := some 2 }⟩,
      ⟨3, "subregion", .simple ⟨8, 14, .fwd⟩, { subNumber := some 3 }⟩,
      ⟨4, "region", .simple ⟨8, 14, .fwd⟩, { subNumbers := [2, 3] }⟩] }
def exTieSubs : RegionData :=
  { start := 8, «end» := 14, cands := [], subs := [⟨3, .simple ⟨8, 14, .fwd⟩⟩, ⟨2, .simple ⟨8, 14, .fwd⟩⟩] }

example : wfInput exTieSubs exTieRec = true ∧ consistent exTieSubs exTieRec = true ∧
    exTieSubs.crossesOrigin = false := by decide
example : InNumberOrder "subregion" (·.q.subNumber) exTieRec.features ∧
    InNumberOrder "protocluster" (·.q.protoNumber) exTieRec.features :=
  ⟨inNumberOrder_of_B _ _ _ (by decide), inNumberOrder_of_B _ _ _ (by decide)⟩
/-- the two tied subregions are written as 1 and 2 in file order (the region feature refers to both) -/
example : (writeToGenbank exTieSubs exTieRec).toOption.map (fun w =>
      (w.extract.features.map fun f => (f.tag, f.q.subNumber, f.q.subNumbers),
       tiesInFileOrder (·.q.subNumber) (ofType "subregion" w.extract.features))) =
    some ([(2, some 1, []), (3, some 2, []), (4, none, [1, 2])], true) := by decide

/-- … and over the origin: two subregions `[16:20]+[0:6]` (numbers 1 and 2 of the record), listed 2, 1 by the region -/
def exTieCrossRec : BioRecord :=
  { seq := "ACGTACGTACGTACGTACGT".toList,
    features := [
      ⟨0, "subregion", .compound [⟨16, 20, .fwd⟩, ⟨0, 6, .fwd⟩], { subNumber := some 1 }⟩,
      ⟨1, "subregion", .compound [⟨16, 20, .fwd⟩, ⟨0, 6, .fwd⟩], { subNumber := some 2 }⟩,
      ⟨2, "region", .compound [⟨16, 20, .fwd⟩, ⟨0, 6, .fwd⟩], { subNumbers := [1, 2] }⟩] }
def exTieCross : RegionData :=
  { start := 16, «end» := 6, cands := [],
    subs := [⟨2, .compound [⟨16, 20, .fwd⟩, ⟨0, 6, .fwd⟩]⟩, ⟨1, .compound [⟨16, 20, .fwd⟩, ⟨0, 6, .fwd⟩]⟩] }
example : wfInput exTieCross exTieCrossRec = true ∧ consistent exTieCross exTieCrossRec = true ∧
    exTieCross.crossesOrigin = true := by decide
example : (writeToGenbank exTieCross exTieCrossRec).toOption.map (fun w =>
      (w.extract.features.map fun f => (f.tag, f.q.subNumber, f.q.subNumbers),
       tiesInFileOrder (·.q.subNumber) (ofType "subregion" w.extract.features))) =
    some ([(0, some 1, []), (1, some 2, []), (2, none, [1, 2])], true) := by decide

/-- The full statement: the file, taken on its own, is what a record that loads it expects — areas of
    each kind numbered `1..n` in load order, every reference by number resolving, `core_location`
    texts denoting the core features, exactly one region over the whole file (all executable; the
    correspondence evaluates it on every file the real code writes). -/
def ExtractReloads (rd : RegionData) (rec : BioRecord) (w : Written) : Prop :=
  selfConsistent rec.length rd w.extract.features = true

/-- Proved: `ExtractReloads`, the executable `selfConsistent` in full —
    * `numberedAsLoaded` for protoclusters, candidate clusters and subregions: all written features of the kind
      carry a number, the numbers are `1..n` each exactly once (`n` = how many are written = how many areas the
      region has), and a feature that a loading record (`CDSCollection.__lt__`) orders strictly before another
      carries the smaller number;
    * `refsInRange`: every reference by number (region → candidates, subregions; candidate → protoclusters;
      core → protocluster) is the number of a feature present in the file;
    * `oneRegion`: the file has exactly one region feature and it spans the whole file;
    * `coresAgree`: the `core_location` text of each written protocluster reads back through
      `location_from_string` (shared `string_roundtrip`) to a location with the same canonical interval list as
      the written `proto_core` feature of the same number — from the pointwise `CoresAgree` (same bases) because
      the canonical form is determined by the set of bases (`sep_unique`, `canon_eq_of_mem`, on shared `canon_spec`).
    Hypotheses (what is handed to `write_to_genbank` is well-formed): `wfInput`; `consistent` — the record's features
    and `RegionData` describe the same areas (number ↦ location, one feature per area and kind, distinct numbers
    per kind, areas and cores inside the region, one forward part or a forward pair over the origin), features are
    told apart by `tag`, and a feature running over the origin reaches from the record's first to its last base;
    `regionFeatureOK` — exactly one `region` feature can reach the file and it has the region's location. -/
theorem extract_reloads (rd : RegionData) (rec : BioRecord) (w : Written)
    (h : writeToGenbank rd rec = .ok w) (hwf : wfInput rd rec = true) (hcons : consistent rd rec = true)
    (hreg : regionFeatureOK rd rec = true) :
    ExtractReloads rd rec w ∧ CoresAgree w.extract.features := by
  obtain ⟨h1, h2, h3, h4, h5⟩ := written_selfconsistent rd rec w h hwf hcons
  obtain ⟨htags, hspan, _⟩ := consistent_unpack rd rec hcons
  refine ⟨?_, h5⟩
  unfold ExtractReloads selfConsistent
  simp only [h1, h2, h3, h4, coresAgree_of_CoresAgree _ h5, written_oneRegion rd rec w h hwf htags hspan hreg,
    Bool.and_self]

/-- Leader and tail locations of precursor peptides (`_adjust_motif`): a `leader_location` / `tail_location`
    text naming any number of parts is rewritten part by part — each part by itself is moved into file coordinates,
    behind the stretch of the file that comes from before the origin if (and only if) that part lies after the
    origin, so a leader or tail with the origin inside it comes out in one piece —, abutting parts are joined
    (`build_location_from_others`), the new text reads back (`location_from_string`) and covers exactly the same
    bases.  Hypotheses: every part lies inside the region on one side of the origin; the moved parts are in
    ascending order (forward strand) or in descending order (reverse strand), none empty.
    Falsified by seeded change C12_3 (one decision per location, taken from its minimum coordinate). -/
theorem motif_locations_partial (t : String) (l : Loc) (rd : RegionData) (L : Int) (hL : 0 < L)
    (ht : locFromString t = some l) (hne : l.parts ≠ [])
    (hmono : AscParts (l.parts.map (motifPart rd L)) ∨ DescParts (l.parts.map (motifPart rd L)))
    (hplain : rd.crossesOrigin = false → ∀ p ∈ l.parts, rd.start ≤ p.lo ∧ p.hi ≤ rd.end)
    (hcross : rd.crossesOrigin = true → 0 < rd.end ∧ rd.end ≤ rd.start ∧ rd.start < L ∧
      ∀ p ∈ l.parts, (rd.start ≤ p.lo ∧ p.hi ≤ L) ∨ (0 ≤ p.lo ∧ p.hi ≤ rd.end ∧ p.lo < p.hi)) :
    ∃ l', adjustMotifLoc t rd L = .ok (locToString l') ∧ locFromString (locToString l') = some l' ∧
      SameBases L rd l l' :=
  adjustMotifLoc_parts t l rd L hL ht hne hmono hplain hcross

/-- the region `[800:200)` of a circular record of 1000 bases -/
def exOver : RegionData := { start := 800, «end» := 200, cands := [], subs := [] }
/-- a leader with the origin inside it, `join{[988:1000](+), [0:18](+)}`, comes out in one piece … -/
example : (adjustMotifLoc "join{[988:1000](+), [0:18](+)}" exOver 1000).toOption = some "[188:218](+)" := by decide
/-- … on the reverse strand as two parts in transcription order -/
example : (adjustMotifLoc "join{[0:12](-), [982:1000](-)}" exOver 1000).toOption = some "join{[200:212](-), [182:200](-)}" := by decide

/-- The same with the hypotheses on the ORIGINAL leader / tail location only, one executable condition
    (`motifOrdered`): no part empty, every part inside the region, parts in transcription order — ascending or
    descending when the region does not run over the origin or all parts lie on one side of it; with the origin
    inside the leader / tail (`ringOrdered`): forward strand — the parts before the origin ascending, then those
    after it ascending; reverse strand — those after the origin descending, then those before it descending; any
    number of parts on each side.  That the moved parts come out in one ascending or descending run
    (`motif_locations_partial`'s hypothesis) is now proved (`mono_ring`, `mono_same_shift`). -/
theorem motif_locations_ordered (t : String) (l : Loc) (rd : RegionData) (L : Int) (hL : 0 < L)
    (ht : locFromString t = some l) (hne : l.parts ≠ []) (hord : motifOrdered L rd l = true) :
    ∃ l', adjustMotifLoc t rd L = .ok (locToString l') ∧ locFromString (locToString l') = some l' ∧
      SameBases L rd l l' :=
  adjustMotifLoc_ordered t l rd L hL ht hne hord

/-- Not vacuous: a leader of four parts with the origin inside it, on either strand; a three-part tail after the
    origin; and the same parts out of order are not `motifOrdered` -/
example : motifOrdered 1000 exOver (.compound [⟨980, 985, .fwd⟩, ⟨988, 1000, .fwd⟩, ⟨0, 18, .fwd⟩, ⟨20, 30, .fwd⟩]) = true ∧
    motifOrdered 1000 exOver (.compound [⟨20, 30, .rev⟩, ⟨0, 18, .rev⟩, ⟨988, 1000, .rev⟩, ⟨980, 985, .rev⟩]) = true ∧
    motifOrdered 1000 exOver (.compound [⟨5, 10, .fwd⟩, ⟨20, 30, .fwd⟩, ⟨40, 50, .fwd⟩]) = true ∧
    motifOrdered 1000 exOver (.compound [⟨0, 18, .fwd⟩, ⟨988, 1000, .fwd⟩]) = false := by decide
example : (adjustMotifLoc "join{[980:985](+), [988:1000](+), [0:18](+), [20:30](+)}" exOver 1000).toOption =
    some "join{[180:185](+), [188:218](+), [220:230](+)}" := by decide

/-- The write does not raise: under `wfInput` every `offset_location` call of the extraction succeeds (features
    after the origin, features over the origin, core locations), and with every dictionary lookup of
    `_adjust_features` finding its key and the motif texts reading back (`writable`) `write_to_genbank` returns.
    Remaining hypothesis: `writable` (a `KeyError` for a feature whose number is not one of the region's is the
    code's behaviour) and `consistent` (used for the core locations). -/
theorem write_succeeds_partial (rd : RegionData) (rec : BioRecord) (hwf : wfInput rd rec = true)
    (hcons : consistent rd rec = true) (hwr : writable rd rec = true) : ∃ w, writeToGenbank rd rec = .ok w :=
  write_ok rd rec hwf hcons hwr

/-- The written cross references resolve to the images of the original referents: for every area of the region
    (number `n` in the record, of any of the three kinds) the record's feature of that kind carrying `n` has an
    image in the file (same `tag`), and this image carries the number `ν n` to which `renumber_consistent`
    says every reference to `n` was rewritten; by `extract_reloads` no other written feature of the kind
    carries `ν n`, and `ν n` is the number a loading record gives it.  Same hypotheses. -/
theorem references_resolve_partial (rd : RegionData) (rec : BioRecord) (w : Written)
    (h : writeToGenbank rd rec = .ok w) (hwf : wfInput rd rec = true) (hcons : consistent rd rec = true) :
    (∀ a ∈ protoAreas rd, ∃ f ∈ rec.features, f.type = "protocluster" ∧ f.q.protoNumber = some a.1 ∧ f.loc = a.2 ∧
      ∃ g ∈ w.extract.features, g.tag = f.tag ∧ g.type = "protocluster" ∧
        ∃ m, g.q.protoNumber = some m ∧ dictGet (renumbering rd rec.length).protos a.1 = .ok m) ∧
    (∀ a ∈ candDict rd, ∃ f ∈ rec.features, f.type = "cand_cluster" ∧ f.q.candNumber = some a.1 ∧ f.loc = a.2 ∧
      ∃ g ∈ w.extract.features, g.tag = f.tag ∧ g.type = "cand_cluster" ∧
        ∃ m, g.q.candNumber = some m ∧ dictGet (renumbering rd rec.length).cands a.1 = .ok m) ∧
    (∀ a ∈ subDict rd, ∃ f ∈ rec.features, f.type = "subregion" ∧ f.q.subNumber = some a.1 ∧ f.loc = a.2 ∧
      ∃ g ∈ w.extract.features, g.tag = f.tag ∧ g.type = "subregion" ∧
        ∃ m, g.q.subNumber = some m ∧ dictGet (renumbering rd rec.length).subs a.1 = .ok m) :=
  written_images rd rec w h hwf hcons

/-! ### non-vacuity: a concrete record on which every hypothesis holds and every branch is taken -/

/-- a circular record of 20 bases: an origin-spanning protocluster (neighbourhood `[16,20)+[0,6)`, core
    `[18,20)+[0,2)`) with its candidate cluster and region, a gene before and a gene after the origin,
    and two mid-record regions made of one subregion each (`[8,12)` and `[13,15)`) -/
def exRec : BioRecord :=
  { seq := "ACGTACGTACGTACGTACGT".toList,
    features := [
      ⟨0, "CDS", .simple ⟨1, 4, .rev⟩, {}⟩,
      ⟨1, "CDS", .simple ⟨16, 19, .fwd⟩, {}⟩,
      ⟨2, "protocluster", .compound [⟨16, 20, .fwd⟩, ⟨0, 6, .fwd⟩],
        { protoNumber := some 1, coreLoc := some "join{[18:20](+), [0:2](+)}" }⟩,
      ⟨3, "proto_core", .compound [⟨18, 20, .fwd⟩, ⟨0, 2, .fwd⟩], { protoNumber := some 1 }⟩,
      ⟨4, "cand_cluster", .compound [⟨16, 20, .fwd⟩, ⟨0, 6, .fwd⟩], { candNumber := some 1, protoNumbers := some [1] }⟩,
      ⟨5, "region", .compound [⟨16, 20, .fwd⟩, ⟨0, 6, .fwd⟩], { candNumbers := [1] }⟩,
      ⟨6, "subregion", .simple ⟨8, 12, .fwd⟩, { subNumber := some 1 }⟩,
      ⟨7, "region", .simple ⟨8, 12, .fwd⟩, { subNumbers := [1] }⟩,
      ⟨8, "subregion", .simple ⟨13, 15, .fwd⟩, { subNumber := some 2 }⟩,
      ⟨9, "region", .simple ⟨13, 15, .fwd⟩, { subNumbers := [2] }⟩] }

/-- the region over the origin -/
def exCross : RegionData :=
  { start := 16, «end» := 6,
    cands := [⟨1, .compound [⟨16, 20, .fwd⟩, ⟨0, 6, .fwd⟩],
               [⟨1, .compound [⟨16, 20, .fwd⟩, ⟨0, 6, .fwd⟩], .compound [⟨18, 20, .fwd⟩, ⟨0, 2, .fwd⟩]⟩]⟩],
    subs := [] }

/-- the last region, whose only subregion is number 2 of the record -/
def exLater : RegionData := { start := 13, «end» := 15, cands := [], subs := [⟨2, .simple ⟨13, 15, .fwd⟩⟩] }

example : wfInput exCross exRec = true ∧ wfInput exLater exRec = true := by decide
example : consistent exCross exRec = true ∧ consistent exLater exRec = true := by decide
example : regionFeatureOK exCross exRec = true ∧ regionFeatureOK exLater exRec = true := by decide
example : writable exCross exRec = true ∧ writable exLater exRec = true := by decide
/-- on the example the numbering part of the full statement holds too -/
example : (writeToGenbank exCross exRec).toOption.map (fun w =>
      numberedAsLoaded (·.q.protoNumber) (ofType "protocluster" w.extract.features) &&
      numberedAsLoaded (·.q.candNumber) (ofType "cand_cluster" w.extract.features) &&
      refsInRange w.extract.features) = some true := by decide

/-- the file of the origin-spanning region: 10 bases; the gene before the origin first, then the areas
    (now `[0,10)`, core `[2,6)`), then the gene after the origin at `[5,8)` -/
example : (writeToGenbank exCross exRec).toOption.map (fun w =>
      (String.ofList w.extract.seq, w.extract.features.map fun f => (f.tag, f.loc, f.q.coreLoc))) =
    some ("ACGTACGTAC", [(1, .simple ⟨0, 3, .fwd⟩, none), (2, .simple ⟨0, 10, .fwd⟩, some "[2:6](+)"),
      (3, .simple ⟨2, 6, .fwd⟩, none), (4, .simple ⟨0, 10, .fwd⟩, none), (5, .simple ⟨0, 10, .fwd⟩, none),
      (0, .simple ⟨5, 8, .rev⟩, none)]) := by decide

/-- the restore loop matters: before it the full record's origin-spanning features had been changed -/
example : (writeToGenbank exCross exRec).toOption.map (fun w =>
      (decide (w.parentBeforeRestore = exRec.features), decide (w.parentAfter = exRec.features))) =
    some (false, true) := by decide

/-- the later region: subregion 2 of the record is subregion 1 of the file, in the region feature too (D10) -/
example : (writeToGenbank exLater exRec).toOption.map (fun w =>
      w.extract.features.map fun f => (f.tag, f.loc, f.q.subNumber, f.q.subNumbers)) =
    some [(8, .simple ⟨0, 2, .fwd⟩, some 1, []), (9, .simple ⟨0, 2, .fwd⟩, none, [1])] := by decide

/-! ### the caller: `main.write_outputs` writes every region file from its own record -/

/-- `main.write_outputs` (the part writing region files: records converted with `to_biopython`, every record of the
    results zipped with its own converted record, every region of it written from that): the files written are
    exactly one per region of every record, in the order of the records and of their regions, named by the record's
    id and the region's number (`expectedFiles`) — records without regions, wherever they stand in the input, add
    no file and shift nothing —; and every file `<id>.region<n>.gbk` is what `write_to_genbank` makes of region `n`
    of a record `r` with that id and of THAT record's converted record `r.bio` — so everything the other theorems
    say about a `Written` holds for it relative to its own record; in particular its sequence is the region's
    sequence in its own record (`sequence_is_region_sequence`). -/
theorem outputs_region_files_own_record (records : List AnalysedRecord) (files : List RegionFile)
    (h : writeRegionFiles records = .ok files) :
    files.map (fun f => (f.id, f.number)) = expectedFiles records ∧
    ∀ f ∈ files, ∃ r ∈ records, f.id = r.id ∧ 1 ≤ f.number ∧
      ∃ rd, r.regions[f.number - 1]? = some rd ∧ writeToGenbank rd r.bio = .ok f.written ∧
        (((0 ≤ rd.start ∧ rd.start < rd.end ∧ rd.end ≤ r.bio.length) ∨
          (0 < rd.end ∧ rd.end ≤ rd.start ∧ rd.start < r.bio.length)) →
          f.written.extract.seq = expectedSeq r.bio.length rd r.bio.seq) := by
  obtain ⟨hn, hall⟩ := writeRegionFiles_own records files h
  refine ⟨hn, fun f hf => ?_⟩
  obtain ⟨r, hr, h1, h2, rd, h3, h4⟩ := hall f hf
  exact ⟨r, hr, h1, h2, rd, h3, h4, fun hin => sequence_is_region_sequence rd r.bio f.written h4 hin⟩

/-- a record without regions (one gene on twenty T's) -/
def exPlain : AnalysedRecord :=
  { id := "recA", bio := { seq := "TTTTTTTTTTTTTTTTTTTT".toList, features := [⟨0, "CDS", .simple ⟨1, 4, .fwd⟩, {}⟩] },
    regions := [] }
/-- `exRec` with its three regions -/
def exWith : AnalysedRecord :=
  { id := "recB", bio := exRec,
    regions := [exCross, { start := 8, «end» := 12, cands := [], subs := [⟨1, .simple ⟨8, 12, .fwd⟩⟩] }, exLater] }

/-- Not vacuous: records without regions before, between and after a record with regions; three files, all
    from `recB`'s own sequence -/
example : (writeRegionFiles [exPlain, exWith, exPlain, exWith, exPlain]).toOption.map
      (fun fs => fs.map fun f => (f.id, f.number, String.ofList f.written.extract.seq)) =
    some [("recB", 1, "ACGTACGTAC"), ("recB", 2, "ACGT"), ("recB", 3, "CG"),
          ("recB", 1, "ACGTACGTAC"), ("recB", 2, "ACGT"), ("recB", 3, "CG")] := by decide

/-- seeded change C12_2 (round 5): the records are filtered to those with regions and zipped with the UNFILTERED
    list of converted records -/
def writeRegionFilesFiltered (records : List AnalysedRecord) : E (List RegionFile) :=
  writePairs ((records.filter fun r => !r.regions.isEmpty).zip (records.map (·.bio)))

/-- … then `recB`'s regions are cut out of `recA`'s converted record (T's, no region feature), which the theorem
    excludes for `writeRegionFiles` -/
example : (writeRegionFilesFiltered [exPlain, exWith]).toOption.map
      (fun fs => fs.map fun f => (f.id, f.number, String.ofList f.written.extract.seq,
        (f.written.extract.features.filter (·.type == "region")).length)) =
    some [("recB", 1, "TTTTTTTTTT", 0), ("recB", 2, "TTTT", 0), ("recB", 3, "TT", 0)] := by decide

end ASV.C12
