/-
  C20 — a failed or refused write never damages existing results.
  Property theorems only; helper lemmas live in ASV/Proofs/WriteSafety.lean.
-/
import ASV.Spec.WriteSafety
namespace ASV.C20
open ASV ASV.WriteSafety

/-- a refusal attempts nothing and leaves what is at the output path as it was -/
theorem refused_untouched (p : PrepIn) (e : Exn) (h : (prepareOutputDir p).err = some e) :
    (prepareOutputDir p).target = p.target ∧ (prepareOutputDir p).trace = [] := by
  unfold prepareOutputDir at h ⊢
  cases ht : p.target with
  | absent => simp [ht] at h
  | file => simp
  | dir es =>
    simp only [ht] at h ⊢
    split <;> simp_all

end ASV.C20
