/-
  C20 — a failed or refused write never damages existing results.
  Property theorems only; helper lemmas live in ASV/Proofs/WriteSafety.lean and OutputDir.lean.

  Every statement is for all numbers of records and modules, all nestings of values, all fault
  positions and kinds (any subset of positions may be faulty at once), all handles, all directory
  listings, all log-file configurations and both run modes.  `Dir` is the explicit file-system
  state: names *and* contents, so `dir = d` is "byte for byte".
-/
import ASV.Proofs.Full
namespace ASV.C20
open ASV ASV.WriteSafety

/-! ## part 1 — a failed conversion -/

/-- `json.dumps` with `_base_convertor` fails exactly on values that contain something without a
    JSON form, wherever it sits; otherwise it produces the documented text -/
theorem dumps_fails_iff_faulty (v : PyVal) : encode v = none ↔ v.faulty = true := by
  rw [encode_spec]; cases v.faulty <;> simp

theorem dumps_text (v : PyVal) (h : v.faulty = false) : encode v = some (denote v) := by
  rw [encode_spec, h]; rfl

/-- **the property, first half** (`AntismashResults.write_to_file`): if anything anywhere in the
    results cannot be converted — whichever record, module, nesting depth or kind of failure, and
    however many of them — the caller gets an exception, the directory (every name, every content,
    the target included) is exactly what it was, and neither `open` nor `write` was attempted -/
theorem failed_conversion_preserves_file (r : Results) (h : Handle) (d : Dir) (hf : r.hasFault = true) :
    (∃ e, (writeToFile r h d).err = some e) ∧ (writeToFile r h d).dir = d ∧
      (∀ n, (writeToFile r h d).dir.contentOf n = d.contentOf n) ∧
      (writeToFile r h d).trace.any Ev.touchesFiles = false := by
  obtain ⟨h1, h2, h3⟩ := writeToFile_fault r h d hf
  exact ⟨Option.isSome_iff_exists.1 h1, h2, fun n => by rw [h2], quiet_trace _ h3⟩

/-- the same for `dump_records` (with `handle=None` nothing is serialised, so only raising
    conversions count as faults there) -/
theorem dump_records_same (rs : List RecSpec) (ress : List ModDict) (h : Handle) (d : Dir)
    (hf : dumpFault rs ress h = true) :
    (∃ e, (dumpRecords rs ress h d).err = some e) ∧ (dumpRecords rs ress h d).dir = d ∧
      (dumpRecords rs ress h d).trace.any Ev.touchesFiles = false := by
  obtain ⟨h1, h2, h3⟩ := dumpRecords_fault rs ress h d hf
  exact ⟨Option.isSome_iff_exists.1 h1, h2, quiet_trace _ h3⟩

/-- every position is a fault position: replacing the `j`-th module of the `i`-th record of *any*
    results by a failing conversion (raising, wrong type, or unserialisable value) gives an input
    the two theorems above apply to -/
theorem every_fault_position (r : Results) (i j : Nat) (f : ModSpec) (hf : f.faulty = true)
    (hi : i < r.records.length) (hi' : i < r.results.length) (hj : j < r.results[i].length) :
    ({ r with results := injectAt r.results i j f } : Results).hasFault = true := by
  simp [Results.hasFault, injectAt_fault f hf r.records r.results i j hi hi' hj]

theorem fault_at_any_position_preserves_file (r : Results) (i j : Nat) (f : ModSpec) (hf : f.faulty = true)
    (hi : i < r.records.length) (hi' : i < r.results.length) (hj : j < r.results[i].length)
    (h : Handle) (d : Dir) :
    let out := writeToFile { r with results := injectAt r.results i j f } h d
    out.err.isSome = true ∧ out.dir = d := by
  obtain ⟨⟨e, he⟩, h2, _⟩ :=
    failed_conversion_preserves_file _ h d (every_fault_position r i j f hf hi hi' hj)
  exact ⟨by simp [he], h2⟩

/-- the skip test of `dump_records` is identity with `None`: nothing else is passed over -/
theorem skipped_iff_none (m : ModSpec) : m.isNone = true ↔ m = .none := by
  cases m <;> simp [ModSpec.isNone]

/-- a results entry of the wrong type stops the conversion with `TypeError` **whatever its value** —
    empty dict, empty list, empty string, `0` and `False` exactly like a non-empty dict — at whatever
    position it is met, before anything of it or after it is converted -/
theorem wrong_type_raises_whatever_its_value (i j : Nat) (k : String) (raw : Raw) (rest : ModDict) :
    convertModules i j ((k, .invalid raw) :: rest) = ⟨[], .error typeError⟩ := by
  simp [convertModules, ModSpec.isNone]

/-- … and a `ModuleResults` object is converted whatever its truthiness (results classes with
    `__len__` are falsy when empty) -/
theorem module_results_converted_whatever_their_truthiness (i j : Nat) (k : String) (t : Bool) (v : PyVal)
    (rest : ModDict) :
    (convertModules i j ((k, .mod t v) :: rest)).trace = .modConv i j :: (convertModules i (j + 1) rest).trace ∧
    modsDoc ((k, .mod t v) :: rest) = .key k :: denote v ++ modsDoc rest := by
  simp [convertModules, ModSpec.isNone, modsDoc]

/-- the first half of the property for wrong-type entries, with no condition on their value: at every
    position of every results structure, the write fails, reports, and leaves the directory alone -/
theorem wrong_type_at_any_position_preserves_file (r : Results) (i j : Nat) (raw : Raw)
    (hi : i < r.records.length) (hi' : i < r.results.length) (hj : j < r.results[i].length)
    (h : Handle) (d : Dir) :
    let out := writeToFile { r with results := injectAt r.results i j (.invalid raw) } h d
    out.err.isSome = true ∧ out.dir = d ∧ out.trace.any Ev.touchesFiles = false := by
  have hf := every_fault_position r i j (.invalid raw) rfl hi hi' hj
  obtain ⟨⟨e, he⟩, h2, _, h4⟩ := failed_conversion_preserves_file _ h d hf
  exact ⟨by simp [he], h2, h4⟩

/-- "do the JSON conversions before overwriting the previous file", for every run, failing or not:
    no conversion event follows the first file effect -/
theorem conversions_before_open (r : Results) (h : Handle) (d : Dir) :
    convertThenTouch (writeToFile r h d).trace = true := by
  cases hf : r.hasFault with
  | true =>
    obtain ⟨_, _, h3⟩ := writeToFile_fault r h d hf
    exact convertThenTouch_quiet _ (quiet_trace _ h3)
  | false =>
    rw [writeToFile_clean r h d hf]
    rw [convertThenTouch_append _ _ (quiet_trace _ fun ev hev =>
      Or.inl (convertRecords_trace 0 r.records r.results ev hev))]
    exact convertThenTouch_emit h d _

/-- without a fault the target ends up holding exactly the documented document (an existing file
    is replaced, a missing one created, an open stream appended to) and nothing else changes -/
theorem clean_write_complete (r : Results) (h : Handle) (d : Dir) (hf : r.hasFault = false) :
    (writeToFile r h d).err = none ∧ (writeToFile r h d).dir = expectedAfter h d (expectedFull r) := by
  rw [writeToFile_clean r h d hf]; exact ⟨rfl, rfl⟩

/-- the executable spec (the one the driver evaluates on the real code's behaviour) holds of the
    model on every input -/
theorem write_to_file_meets_spec (r : Results) (h : Handle) (d : Dir) :
    specWriteToFile r h d (writeToFile r h d) = true := by
  unfold specWriteToFile
  rw [conversions_before_open, Bool.true_and]
  cases hf : r.hasFault with
  | true =>
    obtain ⟨h1, h2, h3⟩ := writeToFile_fault r h d hf
    simp [failSafe, h1, h2, quiet_trace _ h3]
  | false =>
    obtain ⟨h1, h2⟩ := clean_write_complete r h d hf
    simp [written, h1, h2]

theorem dump_records_meets_spec (rs : List RecSpec) (ress : List ModDict) (h : Handle) (d : Dir) :
    specDumpRecords rs ress h d (dumpRecords rs ress h d) = true := by
  have conv : convertThenTouch (dumpRecords rs ress h d).trace = true := by
    cases hf : dumpFault rs ress h with
    | true =>
      obtain ⟨_, _, h3⟩ := dumpRecords_fault rs ress h d hf
      exact convertThenTouch_quiet _ (quiet_trace _ h3)
    | false =>
      have hq := quiet_trace _ fun ev hev => Or.inl (convertRecords_trace 0 rs ress ev hev)
      rw [dumpRecords_clean rs ress h d hf]
      cases h with
      | absent => exact convertThenTouch_quiet _ hq
      | path n => simp only []; rw [convertThenTouch_append _ _ hq]; exact convertThenTouch_emit _ d _
      | io n => simp only []; rw [convertThenTouch_append _ _ hq]; exact convertThenTouch_emit _ d _
  unfold specDumpRecords
  rw [conv, Bool.true_and]
  cases hf : dumpFault rs ress h with
  | true =>
    obtain ⟨h1, h2, h3⟩ := dumpRecords_fault rs ress h d hf
    have hs : failSafe d (dumpRecords rs ress h d) = true := by simp [failSafe, h1, h2, quiet_trace _ h3]
    cases h with
    | absent => have hf' : callFault rs ress = true := hf; simp [hf', hs]
    | path n => have hf' : conversionFault rs ress = true := hf; simp [hf', hs]
    | io n => have hf' : conversionFault rs ress = true := hf; simp [hf', hs]
  | false =>
    have hc := dumpRecords_clean rs ress h d hf
    cases h with
    | absent => have hf' : callFault rs ress = false := hf; simp [hf', hc, written, expectedAfter]
    | path n => have hf' : conversionFault rs ress = false := hf; simp [hf', hc, written]
    | io n => have hf' : conversionFault rs ress = false := hf; simp [hf', hc, written]

/-! ## part 2 — the output directory -/

/-- the decision is exactly the documented one: a path that does not exist; an existing directory
    holding nothing but the `input` directory and/or the configured log file (in particular an empty
    one); or any existing directory when results are being reused.  A plain file is never accepted. -/
theorem accept_cases (p : PrepIn) (wf : p.WF = true) :
    (prepareOutputDir p).err = none ↔ specAccepts p = true :=
  prepare_accepts_iff p wf

/-- **the property, second half**: with a fresh input, a directory containing anything other than
    the input copy and the log file is refused; nothing is attempted and the listing — names and
    contents — is what it was -/
theorem refusal_preserves_dir (p : PrepIn) (wf : p.WF = true) (es : Dir) (ht : p.target = .dir es)
    (fresh : reuseMode p = false) (x : Entry) (hx : x ∈ es) (hother : allowed p x = false) :
    prepareOutputDir p = ⟨[], some inputError, .dir es⟩ := by
  have : specAccepts p = false := by
    simp only [specAccepts, ht, fresh, Bool.false_or]
    rw [List.all_eq_false]
    exact ⟨x, hx, by simp [hother]⟩
  rw [prepare_refused p wf this, ht]

/-- **which entry is "the log file"**: with the log file directly inside the output directory under
    the name `m`, an entry is exempt from the emptiness test exactly when it is the directory `input`
    or its name *is* `m`.  A file or directory whose name is merely the beginning of the log file's
    name (`run` beside `run.log`, `antismash` beside `antismash.log`) is a foreign entry. -/
theorem allowed_iff_input_or_log (p : PrepIn) (wf : p.WF = true) (es : Dir) (ht : p.target = .dir es)
    (x : Entry) (hx : x ∈ es) (m : PosixPath.Path) (hm : PosixPath.Plain m)
    (hl : p.logfile.toList = PosixPath.join p.name.toList m) :
    allowed p x = true ↔ (x.name = "input" ∧ x.isDir = true) ∨ x.name.toList = m := by
  obtain ⟨hcwd, hname, hpl⟩ := wf_unpack p wf
  have := isLogFile_sibling p x m hcwd hname (hpl es ht x hx) hm hl
  simp only [allowed, Bool.or_eq_true, Bool.and_eq_true, beq_iff_eq, this]

/-- … so a fresh run into a directory holding such an entry is refused and the directory untouched -/
theorem similar_name_refused (p : PrepIn) (wf : p.WF = true) (es : Dir) (ht : p.target = .dir es)
    (fresh : reuseMode p = false) (x : Entry) (hx : x ∈ es) (m : PosixPath.Path) (hm : PosixPath.Plain m)
    (hl : p.logfile.toList = PosixPath.join p.name.toList m)
    (hnot_input : ¬ (x.name = "input" ∧ x.isDir = true)) (hnot_log : x.name.toList ≠ m) :
    prepareOutputDir p = ⟨[], some inputError, .dir es⟩ := by
  apply refusal_preserves_dir p wf es ht fresh x hx
  cases h : allowed p x with
  | false => rfl
  | true =>
    rcases (allowed_iff_input_or_log p wf es ht x hx m hm hl).1 h with h1 | h1
    · exact absurd h1 hnot_input
    · exact absurd h1 hnot_log

/-- the directory that holds the log file (the one logging creates for `--logfile out/logs/run.log`)
    is itself a foreign entry of the output directory: only the log *file* is exempt -/
theorem directory_above_log_refused (p : PrepIn) (wf : p.WF = true) (es : Dir) (ht : p.target = .dir es)
    (fresh : reuseMode p = false) (x : Entry) (hx : x ∈ es) (m : PosixPath.Path) (hm : PosixPath.Plain m)
    (hl : p.logfile.toList = PosixPath.join (entryPath p x) m)
    (hnot_input : ¬ (x.name = "input" ∧ x.isDir = true)) :
    prepareOutputDir p = ⟨[], some inputError, .dir es⟩ := by
  obtain ⟨hcwd, hname, hpl⟩ := wf_unpack p wf
  apply refusal_preserves_dir p wf es ht fresh x hx
  have h2 := isLogFile_above p x m hcwd hname (hpl es ht x hx) hm hl
  cases h : allowed p x with
  | false => rfl
  | true =>
    simp only [allowed, h2, Bool.or_false, Bool.and_eq_true, beq_iff_eq] at h
    exact absurd h hnot_input

/-- without `--logfile` nothing is exempt as "the log file" (in particular not the working directory,
    to which an empty path resolves) -/
theorem no_logfile_exempts_nothing (p : PrepIn) (h : p.logfile = "") (e : Entry) :
    allowed p e = (e.name == "input" && e.isDir) := by
  simp [allowed, isLogFile, h]

/-- every refusal, of whatever kind (not a directory / other files), attempts nothing and leaves
    what is at the output path as it was -/
theorem refused_untouched (p : PrepIn) (e : Exn) (h : (prepareOutputDir p).err = some e) :
    e = inputError ∧ (prepareOutputDir p).target = p.target ∧ (prepareOutputDir p).trace = [] := by
  unfold prepareOutputDir at h ⊢
  cases ht : p.target with
  | absent => simp [ht] at h
  | file => simp only [ht] at h ⊢; simp_all
  | dir es =>
    simp only [ht] at h ⊢
    split <;> simp_all

/-- `*.region???.gbk` on a file name means what it says -/
theorem region_pattern (n : String) : isRegionGbk n = true ↔ RegionGbkName n := isRegionGbk_iff n

/-- an acceptance creates a missing directory; in an existing one it removes the stale region
    GenBank files and nothing else: every other entry is still there with its content, nothing is
    added, and the `remove` effects are exactly those files -/
theorem accepted_cleanup (p : PrepIn) (wf : p.WF = true) (h : specAccepts p = true) :
    (prepareOutputDir p).err = none ∧
    match p.target with
    | .absent => prepareOutputDir p = ⟨[.mkdir], none, .dir []⟩
    | .file => False
    | .dir es => ∃ es', (prepareOutputDir p).target = .dir es' ∧
        (∀ e, e ∈ es' ↔ e ∈ es ∧ ¬ RegionGbkName e.name) ∧
        (∀ n, Ev.remove n ∈ (prepareOutputDir p).trace ↔ ∃ e ∈ es, e.name = n ∧ RegionGbkName n) ∧
        (∀ ev ∈ (prepareOutputDir p).trace, ∃ n, ev = .remove n) := by
  refine ⟨(prepare_accepts_iff p wf).2 h, ?_⟩
  cases ht : p.target with
  | absent => simp [prepareOutputDir, ht]
  | file => simp [specAccepts, ht] at h
  | dir es =>
    simp only [specAccepts, ht] at h
    rw [prepare_dir p wf es ht]
    simp only [h, if_true]
    refine ⟨_, rfl, ?_, ?_, ?_⟩
    · intro e
      simp only [List.mem_filter, Bool.not_eq_true', ← isRegionGbk_iff]
      cases isRegionGbk e.name <;> simp
    · intro n
      simp only [List.mem_map, List.mem_filter, Ev.remove.injEq, ← isRegionGbk_iff]
      constructor
      · rintro ⟨e, ⟨he, hr⟩, rfl⟩; exact ⟨e, he, rfl, hr⟩
      · rintro ⟨e, he, rfl, hr⟩; exact ⟨e, ⟨he, hr⟩, rfl⟩
    · intro ev hev
      simp only [List.mem_map] at hev
      obtain ⟨e, _, rfl⟩ := hev
      exact ⟨e.name, rfl⟩

theorem prepare_meets_spec (p : PrepIn) (wf : p.WF = true) : specPrepare p (prepareOutputDir p) = true :=
  WriteSafety.prepare_meets_spec p wf

/-! ## the run as a whole (`_run_antismash` from `prepare_output_directory` on) -/

/-- a refused directory: the run ends there, with no effect of any kind -/
theorem pipeline_refusal_touches_nothing (p : PipeIn) (wf : p.prep.WF = true) (h : specAccepts p.prep = false) :
    runPipeline p = ⟨[], some inputError, p.prep.target⟩ :=
  pipeline_refused p wf h

/-- the branch of `runPipeline` for "accepted, but not a directory" is dead code -/
theorem accepted_is_directory (p : PrepIn) (h : (prepareOutputDir p).err = none) :
    (prepareOutputDir p).target = .dir (preparedDir p) := by
  unfold prepareOutputDir at h ⊢
  cases ht : p.target with
  | absent => simp [preparedDir, ht]
  | file => simp [ht] at h
  | dir es =>
    simp only [ht] at h ⊢
    split <;> simp_all [preparedDir]

/-- a conversion fault in an accepted directory: reported; the directory stays as
    `prepare_output_directory` left it — in particular every file that is not a stale region
    GenBank file, such as the previous results JSON, keeps its content — and neither
    `annotate_records` nor `write_outputs` runs -/
theorem pipeline_failed_write_keeps_results (p : PipeIn) (wf : p.prep.WF = true) (es : Dir)
    (ht : p.prep.target = .dir es) (ha : specAccepts p.prep = true) (hf : p.results.hasFault = true) :
    (∃ e, (runPipeline p).err = some e) ∧
    (∃ es', (runPipeline p).target = .dir es' ∧
      ∀ n, isRegionGbk n = false → Dir.contentOf es' n = Dir.contentOf es n) ∧
    Ev.annotated ∉ (runPipeline p).trace ∧ Ev.outputsWritten ∉ (runPipeline p).trace := by
  obtain ⟨e, he⟩ := pipeline_fault p wf ha hf
  obtain ⟨_, _, hp⟩ := prepare_accepted p.prep wf ha
  obtain ⟨_, _, hw⟩ := writeToFile_fault p.results (.path p.jsonName) (preparedDir p.prep) hf
  rw [he]
  refine ⟨⟨e, rfl⟩, ⟨_, rfl, ?_⟩, ?_, ?_⟩
  · intro n hn
    simp only [preparedDir, ht]
    apply contentOf_filter
    intro x _ hx
    simp [hx, hn]
  all_goals
    intro hmem
    simp only [List.mem_append, List.mem_cons] at hmem
    rcases hmem with hmem | hmem | hmem
    · rcases hp _ hmem with h1 | ⟨n, h1⟩ <;> cases h1
    · cases hmem
    · rcases hw _ hmem with h1 | h1
      · simp [Ev.isConversion] at h1
      · cases h1

/-- the results JSON is never mistaken for a stale region file -/
theorem json_is_not_a_region_file (n : String) (pre : List Char) (h : n.toList = pre ++ ".json".toList) :
    isRegionGbk n = false :=
  json_not_region n pre h

/-- `annotate_records` / `write_outputs` only ever run after the results JSON has been written
    completely: whenever either appears in a run's trace, the run is the fault-free accepted one, its
    trace ends `open json, write json, annotate, write_outputs` with neither of the two earlier, and
    the file holds the whole document -/
theorem json_before_annotation (p : PipeIn) (wf : p.prep.WF = true)
    (h : Ev.annotated ∈ (runPipeline p).trace ∨ Ev.outputsWritten ∈ (runPipeline p).trace) :
    (runPipeline p).err = none ∧
    (∃ es', (runPipeline p).target = .dir es' ∧ Dir.contentOf es' p.jsonName = some (expectedFull p.results)) ∧
    ∃ pre, (runPipeline p).trace = pre ++ [.openW p.jsonName, .write p.jsonName, .annotated, .outputsWritten]
      ∧ Ev.annotated ∉ pre ∧ Ev.outputsWritten ∉ pre := by
  cases ha : specAccepts p.prep with
  | false => rw [pipeline_refused p wf ha] at h; simp at h
  | true =>
    have hpre : ∀ (tr : List Ev), (∀ ev ∈ tr, ev.isConversion = true ∨ ev = .logErr) → ∀ ev,
        ev ∈ (prepareOutputDir p.prep).trace ++ Ev.prepared :: tr → ev ≠ .annotated ∧ ev ≠ .outputsWritten :=
      fun tr htr ev hev => ⟨(pipeline_prefix_events p wf ha tr htr ev hev).1,
                            (pipeline_prefix_events p wf ha tr htr ev hev).2.1⟩
    cases hf : p.results.hasFault with
    | true =>
      obtain ⟨e, he⟩ := pipeline_fault p wf ha hf
      obtain ⟨_, _, hw⟩ := writeToFile_fault p.results (.path p.jsonName) (preparedDir p.prep) hf
      rw [he] at h
      rcases h with h | h
      · exact absurd rfl (hpre _ hw _ h).1
      · exact absurd rfl (hpre _ hw _ h).2
    | false =>
      rw [pipeline_clean p wf ha hf]
      refine ⟨rfl, ⟨_, rfl, contentOf_withFile _ _ _⟩,
        (prepareOutputDir p.prep).trace ++
          .prepared :: (convertRecords 0 p.results.records p.results.results).trace, ?_, ?_, ?_⟩
      · simp
      all_goals
        intro hmem
        have := hpre _ (fun ev hev => Or.inl (convertRecords_trace 0 _ _ ev hev)) _ hmem
        simp at this

theorem pipeline_meets_spec (p : PipeIn) (wf : p.prep.WF = true) : specPipeline p (runPipeline p) = true :=
  pipeline_meets_spec' p wf

/-! ## results that come back from `--reuse-results` -/

/-- **the realistic source of wrong-type entries.**  A run reuses a results file written from `r` and
    regenerates nothing (skipped records, modules no longer run).  If any module of any record had been
    written as anything but `null` — `{}` and `[]` included — the results now hold its raw JSON, the
    write fails, and the reused file (like everything else in the directory) stays as it is. -/
theorem reloaded_results_fail_safe (r : Results) (i : Nat) (hi : i < r.records.length) (hi' : i < r.results.length)
    (k : String) (t : Bool) (v : PyVal) (hk : (k, ModSpec.mod t v) ∈ r.results[i]) (hv : jsonShape v ≠ .none)
    (h : Handle) (d : Dir) :
    (∃ e, (writeToFile (reload r) h d).err = some e) ∧ (writeToFile (reload r) h d).dir = d ∧
      (writeToFile (reload r) h d).trace.any Ev.touchesFiles = false := by
  obtain ⟨h1, h2, _, h4⟩ :=
    failed_conversion_preserves_file (reload r) h d (reload_hasFault r i hi hi' k t v hk hv)
  exact ⟨h1, h2, h4⟩

/-! ## the names the run derives -/

/-- the results file the run writes is never one of the stale region files it deletes — no
    assumption on input names or options: its name is `<base>.json` by construction -/
theorem results_file_is_never_cleaned_up (r : RunIn) : isRegionGbk r.jsonName = false := by
  obtain ⟨pre, h⟩ := jsonName_shape r
  exact json_not_region _ pre h

/-- an empty `--output-dir` becomes an absolute, hence non-empty, path and is stored in the options:
    the guard `if not name` discharges the "directory name is not empty" invariant by itself -/
theorem empty_output_dir_is_derived (c : CallIn) (h : c.nameArg = "") (hcwd : PosixPath.isabs c.cwd.toList = true) :
    (effective c).1.name.toList ≠ [] ∧ PosixPath.isabs (effective c).1.name.toList = true ∧
      (effective c).2.outputDir = (effective c).1.name :=
  effective_empty_name c h hcwd

/-- … and a given one is used as it is -/
theorem given_output_dir_is_used (c : CallIn) (h : c.nameArg ≠ "") :
    (effective c).1.name = c.nameArg ∧ (effective c).2.outputDir = c.opts.outputDir :=
  effective_given_name c h

/-- an explicit `--output-basename` names the results file whatever the input is called -/
theorem output_basename_option_wins (r : RunIn) (h : r.call.opts.outputBasename ≠ "")
    (hp : PosixPath.Plain r.call.opts.outputBasename.toList) :
    r.jsonName = r.call.opts.outputBasename ++ ".json" := by
  have h1 := option_basename_kept r.call.inputFile "" r.call.opts h
  have ho : (effective r.call).2.outputBasename = r.call.opts.outputBasename := by
    unfold effective
    rw [h1]
    split <;> rfl
  have h2 := option_basename_kept r.resultsInputFile (effective r.call).2.outputDir (effective r.call).2
    (by rw [ho]; exact h)
  unfold RunIn.jsonName
  simp only []
  rw [h2]
  simp only [String.toList_ofList, ho, basename_join_plain _ _ hp, String.ofList_toList]

/-- the whole tail of the run, names derived by the code's own rules, meets the spec -/
theorem run_tail_meets_spec (r : RunIn) (wf : (effective r.call).1.WF = true) :
    specPipeline r.toPipe (runTail r) = true :=
  pipeline_meets_spec r.toPipe wf

/-! ## `run_antismash` as a whole: the log file is created before the directory is looked at -/

/-- the entry that logging itself creates (or appends to) inside the output directory is exactly the
    one the emptiness test exempts as "the log file" -/
theorem own_log_of_the_run_is_exempt (p : PrepIn) (wf : p.WF = true) (m : String) (h : logPlace p = .entry m)
    (e : Entry) (he : e.name = m) : allowed (afterLogging p) e = true := by
  obtain ⟨hcwd, hname, _⟩ := wf_unpack p wf
  have := isLogFile_of_logPlace p m h hcwd hname e he
  simp only [allowed, Bool.or_eq_true]
  exact Or.inr this

/-- so a fresh run into a directory that does not exist yet, logging into that directory, is not
    stopped by its own log file -/
theorem new_directory_with_own_log_accepted (p : PrepIn) (wf : p.WF = true) (m : String)
    (h : logPlace p = .entry m) (ht : p.target = .absent) : specAccepts (afterLogging p) = true := by
  have hallow := own_log_of_the_run_is_exempt p wf m h ⟨m, false, [logText]⟩ rfl
  have hallow' : allowed (afterLogging p) ⟨m, false, [logText]⟩ = true := hallow
  simp only [specAccepts, afterLogging, h, ht, setupLogging, List.all_cons, List.all_nil, Bool.and_true,
    Bool.or_eq_true]
  exact Or.inr (by simpa [afterLogging, h, ht, setupLogging] using hallow')

/-- what "leaving that directory's contents untouched" means when the log file lives inside it:
    logging's set-up keeps every other entry of an existing directory as it is -/
theorem logging_keeps_everything_else (place : LogPlace) (es : Dir) :
    ∃ es', (setupLogging place (.dir es)).1 = .dir es' ∧
      ∀ e ∈ es, (∀ m, place = .entry m → e.name ≠ m) → e ∈ es' :=
  setupLogging_keeps place es

/-- the whole of `run_antismash` meets the executable spec: after logging's own effects — the same
    whether the run is accepted or refused — it is the run of `pipeline_meets_spec` on the directory
    logging left, and a refusal is additionally logged -/
theorem run_antismash_meets_spec (r : RunIn) (wf : (effective r.call).1.WF = true) :
    specRun r (runAntismash r) = true :=
  run_meets_spec r wf

/-- a refused `run_antismash`: besides the log set-up and the logged message nothing is attempted, and
    the directory is exactly what logging left -/
theorem refused_run_touches_only_its_log (r : RunIn) (wf : (effective r.call).1.WF = true)
    (h : specAccepts (afterLogging (effective r.call).1) = false) :
    runAntismash r =
      ⟨(setupLogging (logPlace (effective r.call).1) (effective r.call).1.target).2 ++ [.logErr],
       some inputError, (afterLogging (effective r.call).1).target⟩ := by
  rw [runAntismash_eq]
  have := pipeline_refused ⟨afterLogging (effective r.call).1, r.results, r.jsonName⟩
    (afterLogging_wf _ wf) h
  simp [this]

/-! ## how a failure is reported

The property's "the failure is reported" is the exception reaching the caller (`∃ e, err = some e` in
`failed_conversion_preserves_file`; an uncaught exception ends `antismash` with a traceback and a
non-zero exit).  What `write_to_file` does *in addition* — log an error and re-raise with a message —
it does for `TypeError` only, wherever it arises; the theorems below pin that behaviour down in the model
(the correspondence compares the `logErr` event on every case), without making it part of the property:
the unchanged code itself lets a `ValueError`/`KeyError` from a module's `to_json()` pass unlogged. -/

/-- a `TypeError` raised while the JSON object is built (a module's `to_json()`, a result of the wrong
    type) is logged and re-raised as `TypeError`, exactly like one raised by `json.dumps` -/
theorem type_error_while_building_is_logged (r : Results) (h : Handle) (d : Dir)
    (hc : (convertRecords 0 r.records r.results).out = .error typeError) :
    writeToFile r h d = ⟨(convertRecords 0 r.records r.results).trace ++ [.logErr], some typeError, d⟩ := by
  simp [writeToFile, hc]

/-- any other exception passes through as it is, unlogged -/
theorem other_error_passes_through (r : Results) (h : Handle) (d : Dir) (e : Exn)
    (hc : (convertRecords 0 r.records r.results).out = .error e) (hne : e ≠ typeError) :
    writeToFile r h d = ⟨(convertRecords 0 r.records r.results).trace, some e, d⟩ := by
  have : (e == typeError) = false := by simpa using hne
  simp [writeToFile, hc, this]

/-- the error log is written exactly for the failures that surface as `TypeError` -/
theorem logged_iff_type_error (r : Results) (h : Handle) (d : Dir) :
    Ev.logErr ∈ (writeToFile r h d).trace ↔ (writeToFile r h d).err = some typeError := by
  have hconv : Ev.logErr ∉ (convertRecords 0 r.records r.results).trace := fun hm => by
    have := convertRecords_trace 0 r.records r.results _ hm
    simp [Ev.isConversion] at this
  cases hf : r.hasFault with
  | false =>
    rw [writeToFile_clean r h d hf]
    have hemit : Ev.logErr ∉ (emit h d (expectedFull r)).1 := by cases h <;> simp [emit]
    simp [hconv, hemit]
  | true =>
    cases hc : (convertRecords 0 r.records r.results).out with
    | error e =>
      by_cases hte : e = typeError
      · subst hte
        rw [type_error_while_building_is_logged r h d hc]; simp
      · rw [other_error_passes_through r h d e hc hte]
        simp [hconv, hte]
    | ok mods =>
      -- the conversion calls went through, so the fault is one `json.dumps` finds: logged `TypeError`
      have hw : writeToFile r h d =
          ⟨(convertRecords 0 r.records r.results).trace ++ [.logErr], some typeError, d⟩ := by
        have hnc : callFault r.records r.results = false := by
          cases hcf : callFault r.records r.results with
          | false => rfl
          | true => obtain ⟨e, he⟩ := convertRecords_err 0 _ _ hcf; rw [hc] at he; cases he
        have hok := convertRecords_ok 0 _ _ hnc
        unfold Results.hasFault at hf
        rw [conversionFault_split, hnc, Bool.false_or] at hf
        by_cases hv : valueFaults r.records r.results = true
        · have : (List.take r.records.length r.results).any valueFault = true := hv
          simp only [writeToFile, hok, encodeRecords_spec, this, if_true]
        · have hv' : (List.take r.records.length r.results).any valueFault = false := by
            simpa [valueFaults] using hv
          have ht : r.timings.faulty = true := by simpa [hv] using hf
          simp only [writeToFile, hok, encodeRecords_spec, hv', encode_spec, ht, if_true]
          simp
      rw [hw]; simp

/-! ## text → bytes: nothing can fail once the target has been opened -/

/-- the codec the code names, UTF-8, encodes every document `json.dumps` can produce -/
theorem named_codec_encodes_everything (env : Env) (text : Bytes) : encodable (fileCodec env) text = true :=
  utf8_encodes_everything text

/-- `write_to_file` / `dump_records` do not depend on the locale: with `encoding="utf-8"` named at the
    `open`, the environment's default codec is never consulted -/
theorem write_is_locale_independent (env env' : Env) (r : Results) (h : Handle) (d : Dir) :
    writeToFileIn env r h d = writeToFileIn env' r h d ∧
    dumpRecordsIn env r.records r.results h d = dumpRecordsIn env' r.records r.results h d := by
  simp only [writeToFileIn_eq, dumpRecordsIn_eq, and_self]

/-- **every failure precedes the `open`**, in every environment and whatever characters the results
    contain: if `write_to_file` raises — for whatever reason — no file was opened or written and the
    directory is byte for byte what it was.  The encoding of the text to bytes, the one step that runs
    after the truncation, cannot be that reason. -/
theorem nothing_fails_after_open (env : Env) (r : Results) (h : Handle) (d : Dir) (e : Exn)
    (he : (writeToFileIn env r h d).err = some e) :
    (writeToFileIn env r h d).dir = d ∧ (writeToFileIn env r h d).trace.any Ev.touchesFiles = false ∧
      r.hasFault = true := by
  rw [writeToFileIn_eq] at he ⊢
  cases hf : r.hasFault with
  | false =>
    have := (clean_write_complete r h d hf).1
    rw [this] at he; cases he
  | true =>
    obtain ⟨_, h2, _, h4⟩ := failed_conversion_preserves_file r h d hf
    exact ⟨h2, h4, rfl⟩

theorem nothing_fails_after_open_dump (env : Env) (rs : List RecSpec) (ress : List ModDict) (h : Handle) (d : Dir)
    (e : Exn) (he : (dumpRecordsIn env rs ress h d).err = some e) :
    (dumpRecordsIn env rs ress h d).dir = d ∧ (dumpRecordsIn env rs ress h d).trace.any Ev.touchesFiles = false := by
  rw [dumpRecordsIn_eq] at he ⊢
  cases hf : dumpFault rs ress h with
  | false =>
    have := dumpRecords_clean rs ress h d hf
    cases h <;> simp_all
  | true =>
    obtain ⟨_, h2, h3⟩ := dump_records_same rs ress h d hf
    exact ⟨h2, h3⟩

/-- the executable spec holds of the model in every environment -/
theorem write_to_file_meets_spec_in (env : Env) (r : Results) (h : Handle) (d : Dir) :
    specWriteToFile r h d (writeToFileIn env r h d) = true := by
  rw [writeToFileIn_eq]; exact write_to_file_meets_spec r h d

/-! ## a directory at the target path -/

/-- the target path names a directory: whatever the results and the environment, `write_to_file`
    fails, the directory listing — the directory at the target included — is what it was, and nothing
    is written: a conversion fault is reported before any `open`, otherwise the failed `open` is the
    only file event -/
theorem directory_target_untouched (env : Env) (r : Results) (n : String) (d : Dir)
    (hd : targetIsDir (.path n) d = true) :
    (∃ e, (writeToFileAt env r (.path n) d).err = some e) ∧ (writeToFileAt env r (.path n) d).dir = d ∧
    (r.hasFault = true → (writeToFileAt env r (.path n) d).trace.any Ev.touchesFiles = false) ∧
    (r.hasFault = false → (writeToFileAt env r (.path n) d) =
      ⟨(convertRecords 0 r.records r.results).trace ++ [.openW n], some "IsADirectoryError", d⟩) := by
  cases hf : r.hasFault with
  | true =>
    obtain ⟨⟨e, he⟩, h2, _, h4⟩ := failed_conversion_preserves_file r (.path n) d hf
    have hw : writeToFileAt env r (.path n) d = writeToFile r (.path n) d := by
      simp [writeToFileAt, writeToFileIn_eq, hd, he]
    rw [hw]
    refine ⟨⟨e, he⟩, h2, fun _ => h4, ?_⟩
    intro h; simp at h
  | false =>
    obtain ⟨h1, _⟩ := clean_write_complete r (.path n) d hf
    have hw : writeToFileAt env r (.path n) d =
        ⟨(convertRecords 0 r.records r.results).trace ++ [.openW n], some "IsADirectoryError", d⟩ := by
      simp [writeToFileAt, writeToFileIn_eq, hd, h1]
    rw [hw]
    refine ⟨⟨_, rfl⟩, rfl, ?_, ?_⟩
    · intro h; simp at h
    · intro _; rfl

/-- when the target is not a directory, `writeToFileAt` is `write_to_file` as analysed above -/
theorem write_at_plain_target (env : Env) (r : Results) (h : Handle) (d : Dir) (hd : targetIsDir h d = false) :
    writeToFileAt env r h d = writeToFile r h d := by
  simp [writeToFileAt, hd, writeToFileIn_eq]

/-- the executable spec for both situations holds of the model -/
theorem write_at_meets_spec (env : Env) (r : Results) (h : Handle) (d : Dir) :
    specWriteAt r h d (writeToFileAt env r h d) = true := by
  unfold specWriteAt
  cases hd : targetIsDir h d with
  | false =>
    rw [write_at_plain_target env r h d hd]
    simpa using write_to_file_meets_spec r h d
  | true =>
    cases h with
    | absent => simp [targetIsDir] at hd
    | io n => simp [targetIsDir] at hd
    | path n =>
      obtain ⟨⟨e, he⟩, h2, h3, h4⟩ := directory_target_untouched env r n d hd
      simp only [if_true, he, h2, Option.isSome_some, decide_true, Bool.and_true]
      cases hf : r.hasFault with
      | true =>
        have hq := h3 hf
        have hnw : (writeToFileAt env r (.path n) d).trace.any
            Ev.writesOrRemoves = false := by
          rw [List.any_eq_false] at hq ⊢
          intro x hx
          have := hq x hx
          cases x <;> simp_all [Ev.touchesFiles, Ev.writesOrRemoves]
        simp [convertThenTouch_quiet _ hq, hq, hnw]
      | false =>
        rw [h4 hf]
        have hq := quiet_trace _ fun ev hev =>
          Or.inl (convertRecords_trace 0 r.records r.results ev hev)
        have hnw : ((convertRecords 0 r.records r.results).trace ++ [Ev.openW n]).any
            Ev.writesOrRemoves = false := by
          rw [List.any_eq_false] at hq ⊢
          intro x hx
          rcases List.mem_append.1 hx with hx | hx
          · have := hq x hx
            cases x <;> simp_all [Ev.touchesFiles, Ev.writesOrRemoves]
          · simp only [List.mem_singleton] at hx; subst hx; simp [Ev.writesOrRemoves]
        rw [convertThenTouch_append _ _ hq]
        simp [convertThenTouch, Ev.touchesFiles, hnw]

/-! ## `run_antismash` under every option it reads -/

/-- **a refused output directory is untouched, whatever the options**: for every combination of
    `--profiling`, `--debug`, `--verbose`, `--list-plugins`, `--check-prereqs`, satisfied or failing
    prerequisites, valid or invalid options, enabled modules or none — if the directory (as logging
    left it) holds a foreign entry and the run is fresh, the directory stays exactly what logging left,
    and after logging's set-up no event touches a file: no profiling results, no results file, nothing -/
theorem refused_run_touches_only_its_log_any_options (o : RunOpts) (r : RunIn) (wf : (effective r.call).1.WF = true)
    (h : specAccepts (afterLogging (effective r.call).1) = false) :
    (runFull o r).out.target = (afterLogging (effective r.call).1).target ∧
    ∃ tail, (runFull o r).out.trace =
        (setupLogging (logPlace (effective r.call).1) (effective r.call).1.target).2 ++ tail ∧
      tail.any Ev.touchesFiles = false := by
  cases he : stopsEarly o with
  | true => rw [runFull_early o r he]; exact ⟨rfl, [], by simp, rfl⟩
  | false => rw [runFull_refused o r wf he h]; exact ⟨rfl, [.logErr], rfl, by simp [Ev.touchesFiles]⟩

/-- the exact shape of a refused run that got as far as the directory test, for every option set -/
theorem refused_run_any_options (o : RunOpts) (r : RunIn) (wf : (effective r.call).1.WF = true)
    (he : stopsEarly o = false) (h : specAccepts (afterLogging (effective r.call).1) = false) :
    runFull o r =
      ⟨⟨(setupLogging (logPlace (effective r.call).1) (effective r.call).1.target).2 ++ [.logErr],
        some inputError, (afterLogging (effective r.call).1).target⟩, none⟩ :=
  runFull_refused o r wf he h

/-- the early exits (`--list-plugins`, `--check-prereqs`, failing prerequisites, invalid options, no
    module enabled) never reach the output directory: logging's set-up is all that happens -/
theorem early_exit_touches_only_its_log (o : RunOpts) (r : RunIn) (he : stopsEarly o = true) :
    (runFull o r).out.trace = (setupLogging (logPlace (effective r.call).1) (effective r.call).1.target).2 ∧
    (runFull o r).out.target = (setupLogging (logPlace (effective r.call).1) (effective r.call).1.target).1 := by
  rw [runFull_early o r he]; exact ⟨rfl, rfl⟩

/-- profiling results are written only by a run that completed: `--profiling` was given, no early
    exit, the directory was accepted, every conversion succeeded, the return code is 0, and the
    profiling events are the very last ones — after the results file, `annotate_records` and
    `write_outputs` -/
theorem profiling_only_after_complete_run (o : RunOpts) (r : RunIn) (wf : (effective r.call).1.WF = true)
    (ev : Ev) (hev : ev ∈ (runFull o r).out.trace) (hp : ev.isProfiling = true) :
    o.profile = true ∧ stopsEarly o = false ∧ specAccepts (afterLogging (effective r.call).1) = true ∧
      r.results.hasFault = false ∧ (runFull o r).out.err = none ∧ (runFull o r).code = some 0 ∧
      ∃ before, (runFull o r).out.trace =
        before ++ [.outputsWritten, .openW profBinName, .write profBinName, .openW profTxtName, .write profTxtName] := by
  have hspec := full_meets_spec o r wf
  have hsetup : ∀ x ∈ (setupLogging (logPlace (effective r.call).1) (effective r.call).1.target).2,
      x.isProfiling = false := by
    intro x hx
    unfold setupLogging at hx
    split at hx <;> (try split at hx) <;> simp at hx <;> (try rcases hx with rfl | rfl) <;>
      (try subst hx) <;> simp [Ev.isProfiling]
  cases he : stopsEarly o with
  | true =>
    rw [runFull_early o r he] at hev
    rw [hsetup ev hev] at hp; cases hp
  | false =>
    cases ha : specAccepts (afterLogging (effective r.call).1) with
    | false =>
      rw [runFull_refused o r wf he ha] at hev
      rcases List.mem_append.1 hev with h1 | h1
      · rw [hsetup ev h1] at hp; cases hp
      · simp only [List.mem_singleton] at h1; subst h1; simp [Ev.isProfiling] at hp
    | true =>
      cases hf : r.results.hasFault with
      | true =>
        -- the executable spec says: no profiling event on this path
        obtain ⟨e, hx⟩ := runFull_fault o r wf he ha hf
        simp only [specFull, he, ha, hf, Bool.not_true, Bool.and_false, Bool.false_eq_true, if_false,
          Bool.and_eq_true, Bool.not_eq_true', List.any_eq_false] at hspec
        have hdrop := hspec.2.1.1
        rw [hx] at hev hdrop
        simp only [List.append_assoc] at hev hdrop
        rw [List.drop_left'] at hdrop
        · rcases List.mem_append.1 hev with h1 | h1
          · rw [hsetup ev h1] at hp; cases hp
          · have := hdrop ev h1
            simp [hp] at this
        · rfl
      | false =>
        have hx := runFull_clean o r wf he ha hf
        simp only [] at hx
        cases hprof : o.profile with
        | false =>
          rw [hx, hprof] at hev
          simp only [Bool.false_eq_true, if_false] at hev
          obtain ⟨hj1, hj2⟩ := jsonName_not_profiling r
          have hall := pipeline_prefix_events ⟨afterLogging (effective r.call).1, r.results, r.jsonName⟩
            (afterLogging_wf _ wf) ha _
            (fun ev hev => Or.inl (convertRecords_trace 0 r.results.records r.results.results ev hev))
          rcases List.mem_append.1 hev with h1 | h1
          · rw [hsetup ev h1] at hp; cases hp
          · have hassoc : (prepareOutputDir (afterLogging (effective r.call).1)).trace ++ Ev.prepared ::
                (convertRecords 0 r.results.records r.results.results).trace ++
                [Ev.openW r.jsonName, Ev.write r.jsonName, Ev.annotated, Ev.outputsWritten] =
                ((prepareOutputDir (afterLogging (effective r.call).1)).trace ++ Ev.prepared ::
                (convertRecords 0 r.results.records r.results.results).trace) ++
                [Ev.openW r.jsonName, Ev.write r.jsonName, Ev.annotated, Ev.outputsWritten] := by simp
            rw [hassoc] at h1
            rcases List.mem_append.1 h1 with h2 | h2
            · have := hall ev h2
              rw [not_profiling_of_not_file ev ⟨this.2.2.1, this.2.2.2⟩] at hp; cases hp
            · simp only [List.mem_cons, List.not_mem_nil, or_false] at h2
              rcases h2 with rfl | rfl | rfl | rfl <;> simp [Ev.isProfiling, hj1, hj2] at hp
        | true =>
          refine ⟨rfl, rfl, rfl, rfl, ?_, ?_, ?_⟩
          · rw [hx, hprof]; rfl
          · rw [hx, hprof]; rfl
          · rw [hx, hprof]
            exact ⟨(setupLogging (logPlace (effective r.call).1) (effective r.call).1.target).2 ++
              ((prepareOutputDir (afterLogging (effective r.call).1)).trace ++ Ev.prepared ::
                (convertRecords 0 r.results.records r.results.results).trace ++
                [Ev.openW r.jsonName, Ev.write r.jsonName, Ev.annotated]), by simp [List.append_assoc]⟩

/-- the executable spec of the whole run holds of the model for every option set -/
theorem run_antismash_any_options_meets_spec (o : RunOpts) (r : RunIn) (wf : (effective r.call).1.WF = true) :
    specFull o r (runFull o r) = true :=
  full_meets_spec o r wf

/-! ## `read_data` comes before the output directory -/

/-- the schema test of `AntismashResults.from_file`: exactly versions 1 to 4 are read -/
theorem schema_accepted_iff (n : Nat) : schemaAccepted n = true ↔ 1 ≤ n ∧ n ≤ 4 := by
  simp only [schemaAccepted, schemaVersion, compatibleSchemas, Bool.or_eq_true, beq_iff_eq,
    List.contains_eq_any_beq, List.any_cons, List.any_nil, Bool.or_false]
  omega

/-- which reuse files load: a results document whose schema (1 when the key is missing) is 1–4 -/
theorem reuse_file_loads_iff (f : ReuseFile) :
    readReuse f = none ↔ ∃ s, f = .doc s ∧ 1 ≤ s.getD 1 ∧ s.getD 1 ≤ 4 := by
  cases f with
  | empty => simp [readReuse]
  | notJson => simp [readReuse]
  | doc s =>
    have := schema_accepted_iff (s.getD 1)
    cases h : schemaAccepted (s.getD 1) <;> simp_all [readReuse]

/-- an input that cannot be read (no input at all, an empty or non-JSON reuse file, a results file of
    an unknown schema) ends the run before `prepare_output_directory`: logging's set-up is all that
    happens, whatever the other options and whatever the directory holds -/
theorem unreadable_input_never_reaches_the_directory (o : RunOpts) (r : RunIn) (e : Exn)
    (h : readData o.input = some e) :
    (runFull o r).out.trace = (setupLogging (logPlace (effective r.call).1) (effective r.call).1.target).2 ∧
    (runFull o r).out.target = (setupLogging (logPlace (effective r.call).1) (effective r.call).1.target).1 ∧
    (runFull o r).out.err.isSome = true ∨ (runFull o r).code.isSome = true := by
  have he : stopsEarly o = true := by simp [stopsEarly, h]
  rw [runFull_early o r he]
  by_cases hc : ((earlyResult o).2).isSome = true
  · exact Or.inr hc
  · refine Or.inl ⟨rfl, rfl, ?_⟩
    unfold earlyResult at hc ⊢
    split <;> simp_all
    split <;> simp_all
    split <;> simp_all
    split <;> simp_all
    split <;> simp_all

/-! ## the directory theorems with the operating system's guarantees as only hypotheses -/

/-- `PrepIn.WF` holds at every call of `prepare_output_directory` that the operating system can
    produce: absolute working directory, plain listing names.  The "directory name is not empty"
    conjunct needs no assumption — an empty argument is replaced by an absolute path, a non-empty one
    is used as it is. -/
theorem call_invariants_hold (c : CallIn) (h : c.envOk = true) : (effective c).1.WF = true :=
  effective_wf c h

/-- `accept_cases` at the call, for any `name` argument including the empty one -/
theorem accept_cases_at_call (c : CallIn) (h : c.envOk = true) :
    (prepareCall c).1.err = none ↔ specAccepts (effective c).1 = true :=
  accept_cases (effective c).1 (effective_wf c h)

/-- the refusal theorem of the whole run over all option sets, hypotheses reduced to `envOk` -/
theorem refused_run_touches_only_its_log_env (o : RunOpts) (r : RunIn) (h : r.call.envOk = true)
    (hr : specAccepts (afterLogging (effective r.call).1) = false) :
    (runFull o r).out.target = (afterLogging (effective r.call).1).target ∧
    ∃ tail, (runFull o r).out.trace =
        (setupLogging (logPlace (effective r.call).1) (effective r.call).1.target).2 ++ tail ∧
      tail.any Ev.touchesFiles = false :=
  refused_run_touches_only_its_log_any_options o r (effective_wf r.call h) hr

/-- … and the executable spec of the whole run -/
theorem run_antismash_meets_spec_env (o : RunOpts) (r : RunIn) (h : r.call.envOk = true) :
    specFull o r (runFull o r) = true :=
  full_meets_spec o r (effective_wf r.call h)

/-! ## non-vacuity: concrete runs on which the interesting branches fire -/

/-- two records, two modules each; the existing target holds old bytes, a bystander file exists -/
def exDir : Dir := [⟨"keep.txt", false, [.raw "bystander"]⟩, ⟨"res.json", false, [.raw "OLD"]⟩]
def exGood : PyVal := .dict [("score", .int 7), ("seq", .seq "ACGT")]
def exResults (m10 : ModSpec) : Results :=
  ⟨[⟨none⟩, ⟨none⟩], [[("a", .mod true exGood), ("b", .none)], [("a", m10), ("b", .mod true (.conv (.list [.opaque])))]],
   .dict []⟩

/-- a `ValueError` at position (1,0): conversions stop there, nothing is opened, old bytes remain -/
example : writeToFile (exResults (.raises true "ValueError")) (.path "res.json") exDir =
    ⟨[.recConv 0, .modConv 0 0, .recConv 1, .modConv 1 0], some "ValueError", exDir⟩ := by decide
/-- a `TypeError` is intercepted, logged and re-raised -/
example : writeToFile (exResults (.raises true "TypeError")) (.path "res.json") exDir =
    ⟨[.recConv 0, .modConv 0 0, .recConv 1, .modConv 1 0, .logErr], some "TypeError", exDir⟩ := by decide
/-- all `to_json` calls succeed, but (1,1) returned an object with a nested unserialisable value:
    `dumps` fails after every conversion ran; still nothing is opened -/
example : writeToFile (exResults (.mod true exGood)) (.path "res.json") exDir =
    ⟨[.recConv 0, .modConv 0 0, .recConv 1, .modConv 1 0, .modConv 1 1, .logErr], some "TypeError", exDir⟩ := by
  decide
example : (exResults (.mod true exGood)).hasFault = true := by decide
/-- the hypothesis of `clean_write_complete` is satisfiable, and then the old bytes are replaced -/
def exClean : Results := ⟨[⟨none⟩], [[("a", .mod true exGood), ("b", .none)]], .dict []⟩
example : exClean.hasFault = false := by decide
example : (writeToFile exClean (.path "res.json") exDir).dir =
    [⟨"keep.txt", false, [.raw "bystander"]⟩,
     ⟨"res.json", false, [.lbrace, .key "records", .lbrack, .lbrace, .key "a", .lbrace, .key "score", .int 7,
        .key "seq", .str "ACGT", .rbrace, .rbrace, .rbrack, .key "timings", .lbrace, .rbrace, .rbrace]⟩] := by
  decide
/-- a wrong-type entry that is falsy (`{}`) at position (1,0): `TypeError`, logged, old bytes remain;
    and an empty (falsy) `ModuleResults` is written like any other -/
example : (Raw.dict 0).truthy = false ∧ (Raw.str "").truthy = false ∧ (Raw.int 0).truthy = false := by decide
example : writeToFile (exResults (.invalid (.dict 0))) (.path "res.json") exDir =
    ⟨[.recConv 0, .modConv 0 0, .recConv 1, .logErr], some "TypeError", exDir⟩ := by decide
example : (writeToFile ⟨[⟨none⟩], [[("a", .mod false (.dict []))]], .dict []⟩ (.path "res.json") exDir).dir =
    [⟨"keep.txt", false, [.raw "bystander"]⟩,
     ⟨"res.json", false, [.lbrace, .key "records", .lbrack, .lbrace, .key "a", .lbrace, .rbrace, .rbrace,
        .rbrack, .key "timings", .lbrace, .rbrace, .rbrace]⟩] := by decide
/-- reloading: a module written as `{}` comes back as a falsy wrong-type value, `null` as `None` -/
example : jsonShape (.conv (.dict [])) = .invalid (.dict 0) ∧ jsonShape (.dunder .none) = .none := ⟨rfl, rfl⟩
example : (reload ⟨[⟨none⟩], [[("a", .mod true (.dict []))]], .dict []⟩).hasFault = true := by decide
example : (reload ⟨[⟨none⟩], [[("a", .mod true .none), ("b", .none)]], .dict []⟩).hasFault = false := by decide
/-- derived names: compressed input loses two extensions, the reused file names itself, an empty
    output directory is derived from the input, the option wins -/
def exCall (input name : String) (base : String := "") : CallIn :=
  ⟨.absent, input, "/home/u", name, ⟨base, name, ""⟩⟩
example : (RunIn.jsonName ⟨exCall "/data/genome.fa.GZ" "out", default, "genome.fa.GZ"⟩) = "genome.json" := by decide
example : (RunIn.jsonName ⟨exCall "/old/run1/base.json" "/old/run1", default, "seq.gbk"⟩) = "base.json" := by decide
example : (effective (exCall "/data/genome.gbk" "")).1.name = "/home/u/genome" := by decide
example : (RunIn.jsonName ⟨exCall "/data/genome.gbk" "out" "mine", default, "x.gbk"⟩) = "mine.json" := by decide
example : (RunIn.jsonName ⟨exCall "/data/.hidden" "out", default, "x"⟩) = ".hidden.json" := by decide
/-- `run_antismash` with the log inside a new directory: created, logged to, accepted; with the log
    one level further down the directory logging created makes the run refuse its own new directory -/
def exRun (target : Target) (logfile : String) : RunIn :=
  ⟨⟨target, "/data/g.gbk", "/w", "/w/out", ⟨"", "/w/out", logfile⟩⟩, exClean, "g.gbk"⟩
example : logPlace (effective (exRun .absent "/w/out/run.log").call).1 = .entry "run.log" := by decide
example : logPlace (effective (exRun .absent "/w/out/logs/x/run.log").call).1 = .below "logs" := by decide
example : (runAntismash (exRun .absent "/w/out/run.log")).err = none := by decide
example : runAntismash (exRun .absent "/w/out/logs/run.log") =
    ⟨[.mkdir, .mkdirSub "logs", .logErr], some "AntismashInputError", .dir [⟨"logs", true, []⟩]⟩ := by decide
example : runAntismash (exRun (.dir [⟨"run", false, [.raw "x"]⟩]) "/w/out/run.log") =
    ⟨[.logErr], some "AntismashInputError", .dir [⟨"run", false, [.raw "x"]⟩, ⟨"run.log", false, [logText]⟩]⟩ := by
  decide
/-- `--profiling` on a refused directory that even holds a file called `profiling_results`: only the
    log grows; on a completed run the two profiling files are the last thing written -/
def exProf : RunOpts := ⟨false, false, true, true, true, true, false, false, .sequence⟩
example : stopsEarly exProf = false := by decide
example : runFull exProf (exRun (.dir [⟨"profiling_results", false, [.raw "mine"]⟩]) "/w/out/run.log") =
    ⟨⟨[.logErr], some "AntismashInputError",
      .dir [⟨"profiling_results", false, [.raw "mine"]⟩, ⟨"run.log", false, [logText]⟩]⟩, none⟩ := by decide
example : (runFull exProf (exRun .absent "/w/out/run.log")).out.trace =
    [.mkdir, .prepared, .recConv 0, .modConv 0 0, .openW "g.json", .write "g.json", .annotated, .outputsWritten,
     .openW "profiling_results.bin", .write "profiling_results.bin", .openW "profiling_results",
     .write "profiling_results"] := by decide
example : runFull { exProf with listPlugins := true } (exRun .absent "/w/elsewhere.log") =
    ⟨⟨[], none, .absent⟩, some 0⟩ := by decide
/-- the hazard is real: were the file opened with the *locale's* codec, one non-ASCII character under
    `LC_ALL=C` would raise after the truncation and leave the old results empty; with the codec the code
    names the same text is written -/
example : emitWith .ascii (.path "res.json") exDir [.str "β-lactone"] =
    ([.openW "res.json", .write "res.json"],
     [⟨"keep.txt", false, [.raw "bystander"]⟩, ⟨"res.json", false, []⟩], some "UnicodeEncodeError") := by decide
example : (emitWith (fileCodec ⟨.ascii⟩) (.path "res.json") exDir [.str "β-lactone"]).2.2 = none := by decide
example : (writeToFileIn ⟨.ascii⟩ ⟨[⟨none⟩], [[("a", .mod true (.str "Müller β"))]], .dict []⟩ (.path "res.json") exDir).err
    = none := by decide
/-- reporting: a `TypeError` from a module's `to_json()` is logged, a `ValueError` is not; both reach the caller -/
example : Ev.logErr ∈ (writeToFile (exResults (.raises true "TypeError")) (.path "res.json") exDir).trace := by decide
example : Ev.logErr ∉ (writeToFile (exResults (.raises true "ValueError")) (.path "res.json") exDir).trace := by decide
/-- a reuse file of schema 5, an empty one, and one without a schema key -/
example : readData (.reuse (.doc (some 5))) = some "ValueError" ∧ readData (.reuse .empty) = some "ValueError"
    ∧ readData (.reuse (.doc none)) = none ∧ readData (.reuse (.doc (some 0))) = some "ValueError" := by decide
example : runFull { exProf with input := .reuse (.doc (some 9)) }
      (exRun (.dir [⟨"base.json", false, [.raw "j"]⟩]) "/w/elsewhere.log") =
    ⟨⟨[], some "ValueError", .dir [⟨"base.json", false, [.raw "j"]⟩]⟩, none⟩ := by decide
/-- `envOk` says nothing about the `name` argument: it holds for the empty one -/
example : (exCall "/data/genome.gbk" "").envOk = true ∧ (exCall "/data/genome.gbk" "").nameArg = "" := by decide
/-- a directory where the results file should go: the conversion runs, `open` fails, nothing changes -/
example : writeToFileAt ⟨.utf8⟩ exClean (.path "res.json") [⟨"res.json", true, []⟩, ⟨"keep.txt", false, [.raw "k"]⟩] =
    ⟨[.recConv 0, .modConv 0 0, .openW "res.json"], some "IsADirectoryError",
     [⟨"res.json", true, []⟩, ⟨"keep.txt", false, [.raw "k"]⟩]⟩ := by decide
/-- orjson's integer range is a fault boundary -/
example : (PyVal.int 18446744073709551615).faulty = false ∧ (PyVal.int 18446744073709551616).faulty = true := by
  decide
/-- directory decisions -/
def exOut (es : Dir) (input : String) : PrepIn := ⟨.dir es, input, "/home/u", "out", "/home/u/out/run.log"⟩
example : specAccepts (exOut [⟨"input", true, []⟩, ⟨"run.log", false, [.raw "l"]⟩] "seq.gbk") = true := by decide
example : specAccepts (exOut [⟨"input", true, []⟩, ⟨".hidden", false, []⟩] "seq.gbk") = false := by decide
example : specAccepts (exOut [⟨"input", false, [.raw "a file called input"]⟩] "seq.gbk") = false := by decide
example : prepareOutputDir (exOut [⟨"a.region001.gbk", false, [.raw "g"]⟩, ⟨"base.json", false, [.raw "j"]⟩,
      ⟨"a.region01.gbk", false, []⟩] "base.json") =
    ⟨[.remove "a.region001.gbk"], none, .dir [⟨"base.json", false, [.raw "j"]⟩, ⟨"a.region01.gbk", false, []⟩]⟩ := by
  decide
/-- `run` beside `run.log`, `antismash` (a directory) beside `antismash.log`, the directory holding the
    log file, an odd spelling of the log path, no log file with the cwd inside the output directory -/
example : (exOut [⟨"run.log", false, []⟩, ⟨"run", false, [.raw "x"]⟩] "seq.gbk").WF = true := by decide
example : specAccepts (exOut [⟨"run.log", false, []⟩, ⟨"run", false, [.raw "x"]⟩] "seq.gbk") = false := by decide
example : specAccepts (exOut [⟨"run.log", false, []⟩] "seq.gbk") = true := by decide
example : specAccepts ⟨.dir [⟨"antismash", true, []⟩], "g.gbk", "/w", "/w/out", "/w/out/antismash.log"⟩ = false := by
  decide
example : specAccepts ⟨.dir [⟨"logs", true, []⟩], "g.gbk", "/w", "/w/out", "/w/out/logs/run.log"⟩ = false := by
  decide
example : specAccepts ⟨.dir [⟨"run.log", false, []⟩], "g.gbk", "/w/x", "../out", "/w/out/./sub/..//run.log"⟩ = true := by
  decide
example : specAccepts ⟨.dir [⟨"work", true, []⟩], "g.gbk", "/w/out/work", "..", ""⟩ = false := by decide
example : isRegionGbk ".region001.gbk" = false ∧ isRegionGbk "x.regionabc.gbk" = true
    ∧ isRegionGbk "x.region0001.gbk" = false := by decide

end ASV.C20
