/-
  C05 — candidate clusters group protoclusters by the documented kinds.
  Property theorems only; helper lemmas in ASV/Proofs/{MergeSets,Candidates,Coverage,Members,SpecBridge,NoDup,Passes,Total,HybridWindow,PermInvariant,RingFacts,RingInterleaved,NoDupRing,RingHybrid,SortModel,SortLinear,Definition,TableDesc,Refines}.lean.

  Model: ASV/Model/Candidates.lean (formation.py after the repairs D16, D19, D501–D507).
  `formation ps wrap` is `create_candidates_from_protoclusters(protoclusters, circular_wrap_point)`;
  `wrap = none` is a linear record.  Protoclusters carry their index in the input as identity, so the
  only hypothesis on the input is `ps.Nodup` (no protocluster object supplied twice), and only where
  counting is involved.  Every theorem holds for all inputs, linear and circular, of any size.
-/
import ASV.Proofs.Refines
import ASV.Proofs.SpecClasses
import ASV.Proofs.SpecAddGroups
import ASV.Proofs.KeysAgree
namespace ASV.C05
open ASV ASV.CC ASV.CC.Spec

/-! ### 1. `_merge_sets` computes the partition into chain classes (generic) -/

/-- The sets returned by `_merge_sets` are pairwise disjoint and non-empty, their union is the union
    of the inputs, and two elements lie in one returned set iff a chain of input sets links them
    (consecutive sets of the chain share an element).  Unconditional after fix D16. -/
theorem mergeSets_is_partition {α : Type} [DecidableEq α] (key : List α → Int) (G : List (List α)) :
    DisjointSets (mergeSetsCore key G) ∧
    (∀ r, r ∈ mergeSetsCore key G → r ≠ [] ∧ r.Nodup) ∧
    (∀ x, (∃ r, r ∈ mergeSetsCore key G ∧ x ∈ r) ↔ ∃ g, g ∈ G ∧ x ∈ g) ∧
    (∀ a b, (∃ r, r ∈ mergeSetsCore key G ∧ a ∈ r ∧ b ∈ r) ↔ Linked G a b) :=
  ⟨(mergeSetsCore_spec key G).1,
   fun r hr => ⟨(mergeSetsCore_spec key G).2.1 r hr, mergeSetsCore_nodup key G r hr⟩,
   mergeSetsCore_union key G,
   (mergeSetsCore_spec key G).2.2⟩

/-- the same for groups of protoclusters as formation uses them (each group additionally sorted) -/
theorem mergeSets_protoclusters (G : List (List Proto)) :
    (∀ x, (∃ r, r ∈ mergeSets G ∧ x ∈ r) ↔ ∃ g, g ∈ G ∧ x ∈ g) ∧
    (∀ a b, (∃ r, r ∈ mergeSets G ∧ a ∈ r ∧ b ∈ r) ↔ Linked G a b) := by
  refine ⟨mergeSets_union G, ?_⟩
  intro a b
  rw [← (mergeSetsCore_spec groupKey G).2.2 a b]
  constructor
  · rintro ⟨r, hr, ha, hb⟩
    obtain ⟨r0, h0, e⟩ := mem_mergeSets.1 hr
    subst e
    exact ⟨r0, h0, mem_sortProtos.1 ha, mem_sortProtos.1 hb⟩
  · rintro ⟨r0, h0, ha, hb⟩
    exact ⟨sortProtos r0, mem_mergeSets.2 ⟨r0, h0, rfl⟩, mem_sortProtos.2 ha, mem_sortProtos.2 hb⟩

/-- D16 on the code before the fix (`singlePassMerge`: one forward pass) against the repaired loop -/
theorem D16_single_pass_not_transitive :
    singlePassMerge [[1, 5], [2, 3], [3, 5]] = [[1, 5, 3], [2, 3]] ∧
    mergeSetsCore (fun g => minList (g.map Int.ofNat)) [[1, 5], [2, 3], [3, 5]] = [[1, 5, 3, 2]] := by
  decide

/-! ### 2. every protocluster lies in a candidate; the final sanity check cannot fire -/

/-- every protocluster supplied is a member of at least one returned candidate -/
theorem every_protocluster_in_a_candidate (ps : List Proto) (wrap : Option Int) (cs : List Cand)
    (h : formation ps wrap = .ok cs) : coversAll ps cs = true := by
  obtain ⟨cs0, h0, e⟩ := formation_ok_core h
  subst e
  apply coversAll_iff.2
  intro p hp
  obtain ⟨c, hc, hpc⟩ := formationCore_cover h0 p hp
  exact ⟨c, mem_sortCands.2 hc, hpc⟩

/-- … and this is not owed to the final `assert len(assigned) == len(protoclusters)`: whenever the
    body of the function completes, the assertion holds and the result is the sorted list built
    (errors of the body are passed on unchanged) -/
theorem final_sanity_check_never_fires (ps : List Proto) (wrap : Option Int) (hn : ps.Nodup) :
    (∀ cs0, formationCore ps wrap = .ok cs0 → formation ps wrap = .ok (sortCands cs0)) ∧
    (∀ e, formationCore ps wrap = .error e → formation ps wrap = .error e) :=
  ⟨fun _ h => formation_eq_core h hn, fun _ h => formation_error_core h⟩

/-- on a linear record with well-formed protoclusters (extent and core single parts, extent not
    negative) nothing is raised at all — no constructor guard, no `assert`, no `ValueError` — so the
    coverage above is never vacuous there -/
theorem formation_succeeds_on_line (ps : List Proto) (hn : ps.Nodup)
    (hps : ∀ p, p ∈ ps → (∃ q, p.loc = .simple q ∧ 0 ≤ q.lo ∧ q.lo ≤ q.hi) ∧ ∃ r, p.core = .simple r) :
    ∃ cs, formation ps none = .ok cs ∧ coversAll ps cs = true := by
  obtain ⟨cs, h⟩ := formation_total_linear hn hps
  exact ⟨cs, h, every_protocluster_in_a_candidate ps none cs h⟩

/-! ### 3. a candidate's location is the connected span of its members -/

/-- every returned candidate's location is `connect_locations` of its members' locations and
    contains each member's location; members are protoclusters of the input, none twice; singles have
    one member, all other kinds at least two -/
theorem candidate_location_covers_members (ps : List Proto) (wrap : Option Int) (cs : List Cand)
    (hn : ps.Nodup) (h : formation ps wrap = .ok cs) :
    locationsOK wrap cs = true ∧ membersOK ps cs = true ∧ sizesOK cs = true := by
  obtain ⟨cs0, h0, e⟩ := formation_ok_core h
  subst e
  have hwf := formationCore_wf h0 hn
  refine ⟨locationsOK_iff.2 ?_, membersOK_iff.2 ?_, sizesOK_iff.2 ?_⟩
  · intro c hc
    have := hwf c (mem_sortCands.1 hc)
    exact ⟨this.ok.loc_eq, this.ok.contains⟩
  · intro c hc
    have := hwf c (mem_sortCands.1 hc)
    exact ⟨this.ok.nonempty, this.fromInput, this.nodup⟩
  · intro c hc
    exact (hwf c (mem_sortCands.1 hc)).size

/-- on a linear record the location is exactly the hull: from the smallest start to the largest end
    of the members (C04 `connect_line_is_hull`) -/
theorem candidate_location_exact_on_line (ps : List Proto) (cs : List Cand) (hn : ps.Nodup)
    (hlin : ∀ p, p ∈ ps → p.loc.parts ≠ [] ∧ bridgesOrigin p.loc = false)
    (h : formation ps none = .ok cs) :
    ∀ c, c ∈ cs → c.loc = .simple ⟨minList (c.members.map (·.loc.start)), maxList (c.members.map (·.loc.end)),
                                   commonStrand (c.members.map (·.loc))⟩ := by
  obtain ⟨cs0, h0, e⟩ := formation_ok_core h
  subst e
  intro c hc
  have hwf := formationCore_wf h0 hn c (mem_sortCands.1 hc)
  have hline : ∀ l, l ∈ c.members.map (·.loc) → l.parts ≠ [] ∧ bridgesOrigin l = false := by
    intro l hl
    obtain ⟨m, hm, e⟩ := List.mem_map.1 hl
    subst e
    exact hlin m (hwf.fromInput m hm)
  have := connect_line (c.members.map (·.loc)) (by simpa using hwf.ok.nonempty) hline
  rw [hwf.ok.loc_eq] at this
  injection this with this
  rw [this]
  simp [List.map_map, Function.comp_def]

/-! ### 4. no two candidates with the same coordinates and the same members -/

/-- on a linear record: distinct non-single candidates have distinct coordinates (the table key,
    both ends of the hull, determines the hull), singles are for distinct protoclusters, and a
    single never has the members of a larger candidate -/
theorem no_duplicate_candidates_partial (ps : List Proto) (cs : List Cand) (hn : ps.Nodup)
    (hlin : ∀ p, p ∈ ps → p.loc.parts ≠ [] ∧ bridgesOrigin p.loc = false)
    (h : formation ps none = .ok cs) : noDuplicates cs = true :=
  formation_noDuplicates_linear hn hlin h

/-- Full statement (any record).  On a circular record the table key of a *replacement* candidate
    (promotion) is the key of the group that triggered it; that the merged span has the same two ends
    is proved below when all protoclusters fit into less than half the record
    (`no_duplicate_candidates_ring_partial`); for larger spreads `connect_locations` is not the shortest
    arc and the executable `noDuplicates` is evaluated on every implementation output instead. -/
def NoDuplicateCandidates : Prop :=
  ∀ (ps : List Proto) (wrap : Option Int) (cs : List Cand), ps.Nodup → formation ps wrap = .ok cs → noDuplicates cs = true

/-- Circular record of length `L`, H: every protocluster's extent is a single part or an
    origin-spanning span of the record, and **one span shorter than half the record covers all
    protoclusters** (`HalfRing`).  Then every candidate's span is the unique shortest arc covering its
    members (C04 `connect_ring_shortest`), promotion keeps the table key, and no two candidates have the
    same coordinates and members. -/
theorem no_duplicate_candidates_ring_partial (L : Int) (ps : List Proto) (cs : List Cand) (hn : ps.Nodup)
    (hL : 0 < L) (hv : ∀ p, p ∈ ps → RingInStrict L p.loc)
    (hhalf : ∃ c, areaWF L L c = true ∧ 2 * c.len < L ∧ ∀ p, p ∈ ps → ∀ i, p.loc.mem i = true → c.mem i = true)
    (h : formation ps (some L) = .ok cs) : noDuplicates cs = true :=
  formation_noDuplicates_ring hn ⟨hL, hv, hhalf⟩ h

/-! ### 5. the kinds: what each pass groups -/

/-- The defining genes are those of the `definition_cdses` property as the classes define it:
    `mkProto` models `Record.add_protocluster` → `Protocluster.add_cds` (the CDSs within the extent that
    lie inside the core and carry a CORE gene function of the protocluster's product are stored — for a
    sideloaded protocluster too) and the property (the stored set for `Protocluster`, **always empty
    for `SideloadedProtocluster`**).  So a sideloaded protocluster shares a defining gene with nobody,
    whatever CORE genes its core contains and whatever its product is called … -/
theorem sideloaded_shares_no_defining_gene (id : Nat) (loc core : Loc) (product : String) (genes : List Gene) (q : Proto) :
    (mkProto id loc core product true genes).defs = [] ∧
    shares (mkProto id loc core product true genes) q = false ∧
    shares q (mkProto id loc core product true genes) = false :=
  ⟨rfl, shares_nil_left rfl, shares_nil_right rfl⟩

/-- … a rule-detected one has exactly the CORE genes of its own product inside its core and extent … -/
theorem detected_defining_genes (id : Nat) (loc core : Loc) (product : String) (genes : List Gene) (g : Nat) :
    g ∈ (mkProto id loc core product false genes).defs ↔
      ∃ x, x ∈ genes ∧ x.id = g ∧ locationContainsOther loc x.loc = true ∧ locationContainsOther core x.loc = true ∧
        product ∈ x.coreProducts :=
  mem_mkProto_defs

/-- … where "of its own product" is **equality of product names** (`core.product == self.product`),
    not containment of one name in the other: a CDS none of whose CORE gene functions carries exactly
    the protocluster's product is not one of its defining genes, and two protoclusters whose only
    common CORE gene belongs to the product of one of them do not share a defining gene … -/
theorem defining_gene_needs_the_exact_product (id : Nat) (loc core : Loc) (product : String) (sideloaded : Bool)
    (genes : List Gene) (x : Gene) (hx : ∀ q, q ∈ x.coreProducts → q ≠ product)
    (hid : ∀ y, y ∈ genes → y.id = x.id → y = x) :
    x.id ∉ (mkProto id loc core product sideloaded genes).defs := by
  cases sideloaded
  · intro h
    obtain ⟨y, hy, e, _, _, hp⟩ := mem_mkProto_defs.1 h
    rw [hid y hy e] at hp
    exact hx product hp rfl
  · simp [mkProto, definitionCdses]

/-- the seeded layout: an `NRPS` protocluster and an `NRPS-like` one with overlapping cores; the `NRPS`
    core gene lies inside both cores but defines only the `NRPS` protocluster, the `NRPS-like` gene lies
    only in the second core: no shared defining gene, one INTERLEAVED candidate -/
example :
    let genes : List Gene := [⟨0, .simple ⟨1000, 1300, .fwd⟩, ["NRPS"]⟩, ⟨1, .simple ⟨1500, 1800, .fwd⟩, ["NRPS-like"]⟩]
    let a := mkProto 0 (.simple ⟨500, 1900, .fwd⟩) (.simple ⟨1000, 1400, .fwd⟩) "NRPS" false genes
    let b := mkProto 1 (.simple ⟨400, 2300, .fwd⟩) (.simple ⟨900, 1800, .fwd⟩) "NRPS-like" false genes
    a.defs = [0] ∧ b.defs = [1] ∧ shares a b = false ∧
    summary (formation [a, b] none) = some [(.interleaved, [1, 0])] := by decide +kernel

/-- … and "inside its core" is containment in the core **location** (`cds.is_contained_by(core_location)`:
    inside one of its parts), not a comparison with the core's smallest and largest coordinate: a CDS
    that lies in no part of the core is not a defining gene — for an origin-spanning core
    `[a, L) + [0, b)` in particular none of the genes between `b` and `a` is … -/
theorem defining_gene_lies_inside_the_core (id : Nat) (loc core : Loc) (product : String) (sideloaded : Bool)
    (genes : List Gene) (g : Nat) (h : g ∈ (mkProto id loc core product sideloaded genes).defs) :
    ∃ x, x ∈ genes ∧ x.id = g ∧ locationContainsOther core x.loc = true ∧ locationContainsOther loc x.loc = true := by
  cases sideloaded
  · obtain ⟨x, hx, e, h1, h2, _⟩ := mem_mkProto_defs.1 h
    exact ⟨x, hx, e, h2, h1⟩
  · simp [mkProto, definitionCdses] at h

/-- the seeded layout on a circular record of length 1000: an `NRPS` protocluster whose core
    `[950, 1000) + [0, 50)` spans the origin (two core genes) and an `NRPS` protocluster at `[95, 135)`
    whose core gene `[100, 130)` lies in the first one's neighbourhood but not in its core: no shared
    defining gene; the extents overlap, so one NEIGHBOURING candidate and two singles -/
example :
    let genes : List Gene := [⟨0, .simple ⟨960, 990, .fwd⟩, ["NRPS"]⟩, ⟨1, .simple ⟨10, 40, .fwd⟩, ["NRPS"]⟩,
                              ⟨2, .simple ⟨100, 130, .fwd⟩, ["NRPS"]⟩]
    let a := mkProto 0 (.compound [⟨850, 1000, .fwd⟩, ⟨0, 150, .fwd⟩]) (.compound [⟨950, 1000, .fwd⟩, ⟨0, 50, .fwd⟩]) "NRPS" false genes
    let b := mkProto 1 (.simple ⟨75, 155, .fwd⟩) (.simple ⟨95, 135, .fwd⟩) "NRPS" false genes
    a.defs = [0, 1] ∧ b.defs = [2] ∧ shares a b = false ∧
    summary (formation [a, b] (some 1000)) = some [(.neighbouring, [0, 1]), (.single, [0]), (.single, [1])] := by decide +kernel

/-- … and a protocluster without defining genes (every sideloaded one) is in a chemical hybrid only
    as a protocluster whose core lies inside the connected core of a gene-sharing class it does not
    belong to — never through a "shared gene" (any record).  This is what reading the stored set
    instead of the property falsifies. -/
theorem protocluster_without_defining_genes_joins_hybrids_only_by_containment (clusters : List Proto)
    (wrap : Option Int) (hg : List (List Proto)) (un : List Proto) (hn : clusters.Nodup)
    (h : findHybrids clusters wrap = .ok (hg, un)) (p : Proto) (hp : p.defs = []) :
    ∀ g, g ∈ hg → p ∈ g → ∃ (m : List Proto) (core : Loc), p ∉ m ∧ 2 ≤ m.length ∧ (∀ x, x ∈ m → x ∈ g) ∧
      (∀ a b, a ∈ m → b ∈ m → Linked (shareGroups clusters) a b) ∧
      connect (m.map (·.core)) wrap = .ok core ∧ locationContainsOther core p.core = true :=
  no_defs_only_contained h hn hp

/-- the layout of the seeded change: a rule-detected `NRPS` protocluster with two CORE genes and a
    sideloaded annotation called `NRPS` whose core contains the first of them: the sideloaded one has no
    defining genes, the two form one INTERLEAVED candidate (their cores overlap), no chemical hybrid -/
example :
    let genes : List Gene := [⟨0, .simple ⟨1000, 1600, .fwd⟩, ["NRPS"]⟩, ⟨1, .simple ⟨2000, 2600, .fwd⟩, ["NRPS"]⟩]
    let detected := mkProto 0 (.simple ⟨0, 3600, .fwd⟩) (.simple ⟨1000, 2600, .fwd⟩) "NRPS" false genes
    let sideloaded := mkProto 1 (.simple ⟨400, 2200, .fwd⟩) (.simple ⟨900, 1700, .fwd⟩) "NRPS" true genes
    detected.defs = [0, 1] ∧ sideloaded.defs = [] ∧
    storedDefs (.simple ⟨400, 2200, .fwd⟩) (.simple ⟨900, 1700, .fwd⟩) "NRPS" genes = [0] ∧
    summary (formation [detected, sideloaded] none) = some [(.interleaved, [0, 1])] := by decide +kernel

/-- Chemical hybrids (any record).  (1) protoclusters linked by a chain of shared defining genes end up
    in one hybrid group; (2) every hybrid group is one such chain class `m` (≥ 2 protoclusters) plus
    protoclusters that share no gene with any other protocluster and whose core lies inside the
    connected core of `m`.  (That *every* such contained protocluster is picked up by the bisect
    window: `hybrid_groups_exact_partial` below for linear records, the correspondence for circular ones.) -/
theorem hybrid_groups_are_sharing_classes (clusters : List Proto) (wrap : Option Int) (hg : List (List Proto))
    (un : List Proto) (hn : clusters.Nodup) (h : findHybrids clusters wrap = .ok (hg, un)) :
    (∀ a b, Linked (shareGroups clusters) a b → ∃ g, g ∈ hg ∧ a ∈ g ∧ b ∈ g) ∧
    (∀ g, g ∈ hg → ∃ (m : List Proto) (core : Loc), (∀ x, x ∈ m → x ∈ g) ∧ 2 ≤ m.length ∧
        (∀ a b, a ∈ m → b ∈ m → Linked (shareGroups clusters) a b) ∧
        connect (m.map (·.core)) wrap = .ok core ∧
        ∀ p, p ∈ g → p ∈ m ∨ (p ∈ clusters ∧ (∀ q, q ∈ clusters → q ≠ p → shares p q = false) ∧
          locationContainsOther core p.core = true)) := by
  obtain ⟨h1, h2⟩ := findHybrids_classes h hn
  refine ⟨h1, ?_⟩
  intro g hg'
  obtain ⟨m, core, a, b, c, d, e⟩ := h2 g hg'
  exact ⟨m, core, a, two_le_length b, c, d, e⟩

/-- Full statement (any record): a hybrid group is a sharing class plus exactly the unshared
    protoclusters whose core lies inside the class's connected core.  Proved below for linear records
    (H: `wrap = none`, cores non-empty single parts inside their extents) and for circular records when the
    unshared protoclusters have single-part cores (`hybrid_groups_exact_ring_partial`); with an unshared
    origin-spanning core the window works on `core_start`, which is not the sort key — correspondence. -/
def HybridGroupsExact : Prop :=
  ∀ (clusters : List Proto) (wrap : Option Int) (hg : List (List Proto)) (un : List Proto), clusters.Nodup →
    findHybrids clusters wrap = .ok (hg, un) →
    ∀ g, g ∈ hg → ∃ (m : List Proto) (core : Loc), (∀ x, x ∈ m → x ∈ g) ∧ 2 ≤ m.length ∧
        (∀ a b, a ∈ m → b ∈ m → Linked (shareGroups clusters) a b) ∧
        connect (m.map (·.core)) wrap = .ok core ∧
        ∀ p, p ∈ clusters → (∀ q, q ∈ clusters → q ≠ p → shares p q = false) →
          (p ∈ g ↔ locationContainsOther core p.core = true)

/-- Chemical hybrids on a linear record, exact: every hybrid group is one sharing class `m` plus
    **exactly** the protoclusters that share with nobody and whose core lies inside the connected core
    of `m` — the `bisect − 1` window and the early `break` lose none (cores non-empty single parts
    inside their extents, the list sorted by core start). -/
theorem hybrid_groups_exact_partial (clusters : List Proto) (hg : List (List Proto)) (un : List Proto)
    (hn : clusters.Nodup)
    (hv : ∀ p, p ∈ clusters → ∃ r, p.core = .simple r ∧ r.lo < r.hi ∧ p.loc.start ≤ r.lo)
    (h : findHybrids clusters none = .ok (hg, un)) :
    ∀ g, g ∈ hg → ∃ (m : List Proto) (core : Loc), (∀ x, x ∈ m → x ∈ g) ∧ 2 ≤ m.length ∧
        (∀ a b, a ∈ m → b ∈ m → Linked (shareGroups clusters) a b) ∧
        connect (m.map (·.core)) none = .ok core ∧
        ∀ p, p ∈ clusters → (∀ q, q ∈ clusters → q ≠ p → shares p q = false) →
          (p ∈ g ↔ locationContainsOther core p.core = true) :=
  findHybrids_complete_linear h hn hv

/-- Chemical hybrids on a circular record of length `L`, exact, H: the protoclusters that share a gene
    with nobody have single-part cores inside their extents (`hv2`; the members of the hybrid groups
    may have origin-spanning cores, and a group's combined core may span the origin — then the scan
    starts at the front, never breaks, and is followed by the second scan). -/
theorem hybrid_groups_exact_ring_partial (L : Int) (hL : 0 < L) (clusters : List Proto) (hg : List (List Proto))
    (un : List Proto) (hn : clusters.Nodup) (hv1 : ∀ p, p ∈ clusters → RingIn L p.core)
    (hv2 : ∀ p, p ∈ clusters → (∀ q, q ∈ clusters → q ≠ p → shares p q = false) →
      ∃ r, p.core = .simple r ∧ r.lo < r.hi ∧ p.loc.start ≤ r.lo)
    (h : findHybrids clusters (some L) = .ok (hg, un)) :
    ∀ g, g ∈ hg → ∃ (m : List Proto) (core : Loc), (∀ x, x ∈ m → x ∈ g) ∧ 2 ≤ m.length ∧
        (∀ a b, a ∈ m → b ∈ m → Linked (shareGroups clusters) a b) ∧
        connect (m.map (·.core)) (some L) = .ok core ∧
        ∀ p, p ∈ clusters → (∀ q, q ∈ clusters → q ≠ p → shares p q = false) →
          (p ∈ g ↔ locationContainsOther core p.core = true) :=
  findHybrids_complete_ring hL h hn hv1 hv2

/-- Interleaved, completeness (any record): two protoclusters linked by a chain of units (hybrid
    candidates with their combined cores `cc`, unabsorbed protoclusters) with overlapping cores are in
    one interleaved group — the sorted scan with its early `break` loses no pair. -/
theorem interleaved_pairs_complete (clusters : List Proto) (cands : List Cand) (wrap : Option Int) (cc : List CandC)
    (ig : List (List Proto)) (un : List Proto) (hn : clusters.Nodup)
    (hne : ∀ p, p ∈ clusters → p.core.PartsNonEmpty)
    (hcc : withCores wrap cands = .ok cc) (h : findInterleaved clusters cands wrap = .ok (ig, un)) :
    ∀ a b, Linked (overlapGroups (interleaveUnits clusters cc)) a b → ∃ r, r ∈ ig ∧ a ∈ r ∧ b ∈ r := by
  obtain ⟨G, hG, h1, _⟩ := findInterleaved_groups h hcc hn hne
  intro a b hl
  rw [hG]
  exact (mergeSets_linked G a b).2 (linked_of_cover h1 hl)

/-- Interleaved on a linear record: exactly the chain classes of "cores overlap" -/
theorem interleaved_groups_are_classes_linear (clusters : List Proto) (cands : List Cand)
    (cc : List CandC) (ig : List (List Proto)) (un : List Proto) (hn : clusters.Nodup)
    (hne : ∀ p, p ∈ clusters → p.core.PartsNonEmpty)
    (hcc : withCores none cands = .ok cc) (h : findInterleaved clusters cands none = .ok (ig, un)) :
    ∀ a b, (∃ r, r ∈ ig ∧ a ∈ r ∧ b ∈ r) ↔ Linked (overlapGroups (interleaveUnits clusters cc)) a b := by
  obtain ⟨G, hG, h1, h2⟩ := findInterleaved_groups h hcc hn hne
  intro a b
  rw [hG, mergeSets_linked]
  refine ⟨linked_of_conn ?_, linked_of_cover h1⟩
  intro g hg x y hx hy
  rcases h2 g hg with ⟨g', hg', hsub⟩ | hcross
  · exact Linked.base hg' (hsub x hx) (hsub y hy)
  · exact (crossGroup_none (withCores_none_simple hcc) hcross).elim

/-- Interleaved on a circular record of length `L`: also exactly those chain classes.  The group
    the origin-crossing step adds (`core_group`: members of candidates whose combined core spans the
    origin, and protoclusters whose core overlaps the connected span of those cores) is chain-connected:
    by the C04 closed form of `connect_locations` on a ring, the connected span of origin-spanning
    spans is the union of their bases, so a protocluster overlapping it overlaps one of the candidates,
    and any two origin-spanning cores overlap each other.  Hypotheses: the candidates have members
    whose cores are locations of the record (`RingIn`: parts non-empty, inside `[0, L]`). -/
theorem interleaved_groups_are_classes_ring (L : Int) (hL : 0 < L) (clusters : List Proto) (cands : List Cand)
    (cc : List CandC) (ig : List (List Proto)) (un : List Proto) (hn : clusters.Nodup)
    (hne : ∀ p, p ∈ clusters → p.core.PartsNonEmpty)
    (hcv : ∀ c, c ∈ cands → c.members ≠ [] ∧ ∀ m, m ∈ c.members → RingIn L m.core)
    (hcc : withCores (some L) cands = .ok cc) (h : findInterleaved clusters cands (some L) = .ok (ig, un)) :
    ∀ a b, (∃ r, r ∈ ig ∧ a ∈ r ∧ b ∈ r) ↔ Linked (overlapGroups (interleaveUnits clusters cc)) a b :=
  findInterleaved_classes_ring hL h hcc hn hne hcv

/-- Neighbouring (any record, unconditional after fixes D501/D502): two protoclusters are in one
    neighbouring group iff a chain of units (candidates so far, remaining protoclusters) with
    overlapping extents leads from one to the other -/
theorem neighbouring_groups_are_overlap_classes (singles : List Proto) (cands : List Cand) (a b : Proto) :
    (∃ r, r ∈ findNeighbouring singles cands ∧ a ∈ r ∧ b ∈ r) ↔
      Linked (overlapGroups (neighbourUnits singles cands)) a b :=
  findNeighbouring_classes singles cands a b

/-! ### 6. the result does not depend on the order in which the protoclusters are supplied -/

/-- `create_candidates_from_protoclusters` returns the **same ordered list** — same candidates in the
    same order, members in the same order, same locations; or the same error — for every permutation
    of its input, on linear and circular records alike.  After fix D507 the function starts with
    `_sorted_protoclusters(protoclusters)`, whose pre-sort by `(product, core start, core end)` is a
    strict total order when no two protoclusters have the same product and the same core
    (`DistinctKeys`; in the pipeline one rule never yields two protoclusters with the same core), so
    the list everything else is computed from is already independent of the input order. -/
theorem formation_perm_invariant (ps qs : List Proto) (wrap : Option Int) (hn : ps.Nodup)
    (hk : ∀ a b, a ∈ ps → b ∈ ps → a ≠ b → (a.product, a.core.start, a.core.end) ≠ (b.product, b.core.start, b.core.end))
    (hp : ps.Perm qs) : formation ps wrap = formation qs wrap :=
  formation_perm wrap hn hk hp

/-- … in the weaker form of the property text (the outcome as a set of candidates) -/
theorem formation_is_order_independent (ps qs : List Proto) (wrap : Option Int) (cs ds : List Cand) (hn : ps.Nodup)
    (hk : ∀ a b, a ∈ ps → b ∈ ps → a ≠ b → (a.product, a.core.start, a.core.end) ≠ (b.product, b.core.start, b.core.end))
    (hp : ps.Perm qs) (h1 : formation ps wrap = .ok cs) (h2 : formation qs wrap = .ok ds) :
    ∀ c, c ∈ cs → ∃ d, d ∈ ds ∧ d.kind = c.kind ∧ d.loc = c.loc ∧ d.members = c.members := by
  rw [formation_perm_invariant ps qs wrap hn hk hp, h2] at h1
  injection h1 with h1
  subst h1
  intro c hc
  exact ⟨c, hc, rfl, rfl, rfl⟩

/-- the hypothesis cannot be dropped: two protoclusters with identical coordinates, identical core and
    the same product are told apart by nothing, and the order of the members follows the input -/
theorem formation_perm_needs_distinct_keys :
    summary (formation [⟨0, .simple ⟨80, 130, .fwd⟩, .simple ⟨90, 120, .fwd⟩, [1], "a"⟩,
                        ⟨1, .simple ⟨80, 130, .fwd⟩, .simple ⟨90, 120, .fwd⟩, [1], "a"⟩] none) =
      some [(.hybrid, [0, 1])] ∧
    summary (formation [⟨1, .simple ⟨80, 130, .fwd⟩, .simple ⟨90, 120, .fwd⟩, [1], "a"⟩,
                        ⟨0, .simple ⟨80, 130, .fwd⟩, .simple ⟨90, 120, .fwd⟩, [1], "a"⟩] none) =
      some [(.hybrid, [1, 0])] := by decide +kernel

/-! ### 7. the sorting the model performs -/

/-- `pySort` (CPython's `list.sort` for short lists: `count_run`, then binary insertion — what the
    model uses wherever the code sorts with `CDSCollection.__lt__`) returns exactly the stable
    insertion sort whenever `<` is a strict weak order: for consistent comparisons nothing depends on
    the algorithm or on the 64-element limit of the modelled variant. -/
theorem sort_model_is_the_stable_sort {α : Type} [DecidableEq α] (lt : α → α → Bool) (w : WeakOrder lt)
    (l : List α) (hn : l.Nodup) : pySort lt l = sortBy lt l :=
  pySort_eq_sortBy w hn

/-- on a linear record (single-part extents) `CDSCollection.__lt__` *is* such an order — start
    ascending, then longer first — so `sorted(candidates)` and `_sorted_protoclusters` are the plain
    stable sorts by that key (the latter of the list pre-sorted by product and core) -/
theorem sorting_on_a_line_is_by_start_then_length :
    (∀ (cs : List Cand), cs.Nodup → (∀ c, c ∈ cs → ∃ p, c.loc = .simple p ∧ p.lo ≤ p.hi) →
      sortCands cs = sortBy (fun a b => locKeyLt a.loc b.loc) cs) ∧
    (∀ (ps : List Proto), ps.Nodup → (∀ p, p ∈ ps → ∃ q, p.loc = .simple q ∧ q.lo ≤ q.hi) →
      sortProtos ps = sortBy (fun a b => locKeyLt a.loc b.loc) (sortBy tieLt ps)) :=
  ⟨fun cs hn hs => sortCands_linear hn hs, fun ps hn hs => sortProtos_linear hn hs⟩

/-- … whereas on a circular record it is not: a whole-record extent and an origin-spanning one are
    each "smaller" than the other, which is why the algorithm itself is modelled -/
theorem collection_order_inconsistent_on_a_ring :
    locLt (.simple ⟨0, 100, .fwd⟩) (.compound [⟨90, 100, .fwd⟩, ⟨0, 10, .fwd⟩]) = true ∧
    locLt (.compound [⟨90, 100, .fwd⟩, ⟨0, 10, .fwd⟩]) (.simple ⟨0, 100, .fwd⟩) = true := by decide

/-! ### 8. the table step without the order of the groups, and the whole run stage by stage -/

/-- `build_candidates(groups, kind)` said without the order of the groups (any record): per
    coordinate key, the members of all groups with that key are added to the candidate stored under it
    (a new candidate of the pass's kind when there was none); a protocluster added to a candidate of
    ANOTHER kind that did not contain it becomes a promoted single, and nothing else does; keys stay
    distinct.  This is the "promotion" rule of the reference (`Spec.addGroups`) as a theorem about the
    sequential, table-mutating loop. -/
theorem build_candidates_is_order_free (wrap : Option Int) (kind : Kind) (t t' : Table) (gs : List (List Proto))
    (hn : (keys t.existing).Nodup) (h : buildCandidates wrap kind t gs = .ok t') : PassDesc wrap kind t t' gs :=
  buildCandidates_desc h hn

/-- The run on a linear record refines the documented description, stage by stage (`RefinesLinear`):
    hybrid groups = one gene-sharing chain class plus exactly the contained unshared protoclusters;
    table step; interleaved groups = chain classes of "cores overlap" over hybrid candidates and
    unabsorbed protoclusters; table step; neighbouring groups = chain classes of "extents overlap" over
    all candidates and remaining protoclusters; table step; singles for the remaining and the promoted
    protoclusters unless the candidate with the same coordinates contains them; the result is a
    permutation of table values ++ singles.  Hypotheses: no protocluster supplied twice, extents and
    cores single parts with the core non-empty inside the extent (what a linear record guarantees).
    What separates this from equality with the executable `Spec.reference` is listed at
    `FormationRefinesReference` below. -/
theorem formation_refines_reference_linear (ps : List Proto) (cs : List Cand) (hn : ps.Nodup) (hne : ps ≠ [])
    (hv : ∀ p, p ∈ ps → ((∃ q, p.loc = .simple q ∧ 0 ≤ q.lo ∧ q.lo ≤ q.hi) ∧ ∃ r, p.core = .simple r) ∧
      ∃ r, p.core = .simple r ∧ r.lo < r.hi ∧ p.loc.start ≤ r.lo)
    (h : formation ps none = .ok cs) : RefinesLinear ps cs :=
  formation_refines_linear hn hne hv h

/-- The class computation of the executable reference (`Spec.classesOf`: grow a class by fixpoint union,
    take it out, repeat) returns the connected components of the relation read in both directions:
    classes are non-empty parts of the input, every element is in a class, and for `x` in a class `c`,
    `y ∈ c` exactly when a chain of related elements of the input leads from `x` to `y`. -/
theorem reference_classes_are_connected_components {α : Type} [DecidableEq α] (rel : α → α → Bool) (l : List α) :
    (∀ c, c ∈ classesOf rel l → c ≠ [] ∧ ∀ x, x ∈ c → x ∈ l) ∧
    (∀ u, u ∈ l → ∃ c, c ∈ classesOf rel l ∧ u ∈ c) ∧
    (∀ c, c ∈ classesOf rel l → ∀ x, x ∈ c → ∀ y, (y ∈ c ↔ Walk rel l x y)) :=
  classesOf_components rel l

example : classesOf (fun (a b : Nat) => a + 1 == b) [5, 1, 7, 2, 4] = [[5, 4], [1, 2], [7]] := by decide +kernel

/-- The hybrid classes the executable reference starts from (`hclasses` in `Spec.reference`: classes of
    "share a defining gene" with at least two protoclusters) are exactly the `Linked` chain classes of
    `shareGroups`, the notion `hybrid_groups_are_sharing_classes` and `RefinesLinear` are stated in. -/
theorem reference_hybrid_classes_are_chain_classes (ps : List Proto) (hn : ps.Nodup) (a b : Proto) :
    (∃ c, c ∈ (classesOf shareGene ps).filter (fun c => c.length ≥ 2) ∧ a ∈ c ∧ b ∈ c) ↔
      Linked (shareGroups ps) a b :=
  reference_hybrid_classes ps hn a b

/-- The model's hybrid pass against the executable reference's `hclasses` (any record): two
    protoclusters of one reference class end up in one hybrid group of the model, and every hybrid group
    of the model contains a set `m` of ≥ 2 protoclusters any two of which lie in one reference class
    (the rest of the group: `hybrid_groups_are_sharing_classes`).  The reference computes its classes on
    the input order, the model on its sorted order; the classes are the same (`reference_hybrid_classes_sorted`). -/
theorem hybrid_groups_match_reference_classes (ps : List Proto) (wrap : Option Int) (hg : List (List Proto))
    (un : List Proto) (hn : ps.Nodup) (h : findHybrids (sortProtos ps) wrap = .ok (hg, un)) :
    (∀ c, c ∈ (classesOf shareGene ps).filter (fun c => c.length ≥ 2) → ∀ a b, a ∈ c → b ∈ c →
      ∃ g, g ∈ hg ∧ a ∈ g ∧ b ∈ g) ∧
    (∀ g, g ∈ hg → ∃ m : List Proto, (∀ x, x ∈ m → x ∈ g) ∧ 2 ≤ m.length ∧
      ∀ a b, a ∈ m → b ∈ m → ∃ c, c ∈ (classesOf shareGene ps).filter (fun c => c.length ≥ 2) ∧ a ∈ c ∧ b ∈ c) := by
  obtain ⟨h1, h2⟩ := hybrid_groups_are_sharing_classes (sortProtos ps) wrap hg un (nodup_sortProtos hn) h
  refine ⟨?_, ?_⟩
  · intro c hc a b ha hb
    exact h1 a b ((reference_hybrid_classes_sorted ps hn a b).1 ⟨c, hc, ha, hb⟩)
  · intro g hg'
    obtain ⟨m, _, hm1, hm2, hm3, _⟩ := h2 g hg'
    exact ⟨m, hm1, hm2, fun a b ha hb => (reference_hybrid_classes_sorted ps hn a b).2 (hm3 a b ha hb)⟩

/-- The interleaved / neighbouring groups of the executable reference (`igroups` / `ngroups` in
    `Spec.reference`: unit classes of "spans overlap" with at least two units, then the union of the
    members) are exactly the `Linked` chain classes of `overlapGroups`, the notion the stage theorems and
    `RefinesLinear` are stated in.  Hypotheses on the units (each is needed): none listed twice, none
    empty, two units with a common protocluster are the same unit or overlap. -/
theorem reference_overlap_groups_are_chain_classes (us : List U) (hn : us.Nodup) (hne : ∀ u, u ∈ us → u.members ≠ [])
    (hshare : ∀ u v p, u ∈ us → v ∈ us → p ∈ u.members → p ∈ v.members →
      u = v ∨ locationsOverlap u.span v.span = true) (a b : Proto) :
    (∃ g, g ∈ (bigClasses us).map (fun c => c.foldl (fun acc u => Spec.union acc u.members) []) ∧ a ∈ g ∧ b ∈ g) ↔
      Linked (overlapGroups us) a b :=
  reference_overlap_classes us hn hne hshare a b

/-- the hypotheses hold for three units in a chain and a fourth apart, and the reference forms the
    group of the first three -/
example :
    let p : Nat → Proto := fun i => ⟨i, .simple ⟨0, 1, .fwd⟩, .simple ⟨0, 1, .fwd⟩, [], ""⟩
    let us : List U := [⟨[p 0, p 1], .simple ⟨10, 30, .fwd⟩⟩, ⟨[p 2], .simple ⟨50, 70, .fwd⟩⟩,
                        ⟨[p 3], .simple ⟨25, 55, .fwd⟩⟩, ⟨[p 4], .simple ⟨80, 90, .fwd⟩⟩]
    us.Nodup ∧ (∀ u, u ∈ us → u.members ≠ []) ∧
    (∀ u, u ∈ us → ∀ v, v ∈ us → ∀ q, q ∈ u.members → q ∈ v.members → u = v ∨ locationsOverlap u.span v.span = true) ∧
    (bigClasses us).map (fun c => (c.foldl (fun acc u => Spec.union acc u.members) []).map (·.id)) = [[0, 1, 3, 2]] := by
  decide +kernel

/-- The table step of the executable reference (`Spec.addGroups`) satisfies the order-free description
    that `build_candidates_is_order_free` proves for the model's sequential, mutating loop — the same five
    clauses (`SpecPassDesc` = `PassDesc` read on the reference's state, with the reference's coordinate
    key `skey`): per key the members of all groups with that key are added to the entry stored under it
    (a new entry of the pass's kind when there was none); a protocluster added to an entry of another
    kind that did not contain it becomes a promoted single, nothing else does; keys stay distinct. -/
theorem reference_table_step_is_order_free (wrap : Option Int) (kind : Kind) (st st' : State)
    (gs : List (List Proto)) (hn : (sKeys st).Nodup) (h : addGroups wrap kind st gs = .ok st') :
    SpecPassDesc wrap kind st st' gs :=
  addGroups_desc h hn

/-- a step that succeeds: an interleaved group with the coordinates of a stored hybrid entry is merged
    into it and its new member is promoted to a single -/
example :
    let p : Nat → Int → Int → Proto := fun i lo hi => ⟨i, .simple ⟨lo, hi, .fwd⟩, .simple ⟨lo, hi, .fwd⟩, [], ""⟩
    (match addGroups none .interleaved ⟨[⟨[(10, 30)], .hybrid, [p 0 10 20, p 1 12 18]⟩], []⟩
        [[p 0 10 20, p 2 15 30], [p 3 40 50, p 4 45 60]] with
      | .ok st => st.entries.map (fun e => (e.key, e.members.map (·.id))) == [([(10, 30)], [0, 1, 2]), ([(40, 60)], [3, 4])]
          && st.singles.map (·.id) == [2]
      | .error _ => false) = true := by decide +kernel

/-- The key of the model (`gkey`: `locKey` of the candidate built from the group in collection order)
    and the key of the reference (`skey`: `coords` of the span of the group sorted by id) agree on a
    linear record — `connect` does not depend on the order of its arguments (C04 `connect_line_perm`):
    the model's key `k` is the reference's key `[k]`, so two groups share a slot of the model's table
    exactly when they share an entry of the reference. -/
theorem reference_and_model_keys_agree_on_line (kind : Kind) (g1 g2 : List Proto) (k1 k2 : Int × Int)
    (h1 : LineGroup g1) (h2 : LineGroup g2) (hk1 : gkey none kind g1 = some k1) (hk2 : gkey none kind g2 = some k2) :
    skey none g1 = some [k1] ∧ skey none g2 = some [k2] ∧
    (gkey none kind g1 = gkey none kind g2 ↔ skey none g1 = skey none g2) :=
  ⟨keys_agree_line h1 hk1, keys_agree_line h2 hk2, same_slot_iff_same_entry_line h1 h2 hk1 hk2⟩

/-- On a circular record (every extent a valid feature location of the record) the two keys are read
    off one and the same location (C04 `connect_ring_perm`). -/
theorem reference_and_model_keys_from_one_location_on_ring (L : Int) (kind : Kind) (g : List Proto) (k : Int × Int)
    (hL : 0 < L) (hne : g ≠ []) (hin : ∀ p, p ∈ g → RingIn L p.loc) (hk : gkey (some L) kind g = some k) :
    ∃ l, skey (some L) g = some (coords l) ∧ k = locKey l :=
  keys_agree_ring hL hne hin hk

/-- This connects `build_candidates_is_order_free` (model) with `reference_table_step_is_order_free`
    (reference): on a linear record one table step of each with the same groups keeps the two tables in
    step — if slot `k` of the model and entry `[k]` of the reference had the same members, the same
    kinds and the same key sets before the step, they have them after it.  (The promoted singles are not
    part of this statement: they need the entry-wise relation, not the three per-key ones.) -/
theorem table_steps_stay_in_step_on_line (kind : Kind) (t t' : Table) (st st' : State) (gs : List (List Proto))
    (hg : ∀ g, g ∈ gs → LineGroup g ∧ ∃ k, gkey none kind g = some k)
    (hM : PassDesc none kind t t' gs) (hS : SpecPassDesc none kind st st' gs)
    (hmem : ∀ k x, memOf t k x ↔ sMem st [k] x) (hkind : ∀ k kd, kindOf t k kd ↔ sKind st [k] kd)
    (hkeys : ∀ k, k ∈ keys t.existing ↔ [k] ∈ sKeys st) :
    (∀ k x, memOf t' k x ↔ sMem st' [k] x) ∧ (∀ k kd, kindOf t' k kd ↔ sKind st' [k] kd) ∧
    (∀ k, k ∈ keys t'.existing ↔ [k] ∈ sKeys st') :=
  table_steps_agree_line hg hM hS hmem hkind hkeys

/-- a group whose id order differs from its collection order: both keys are defined and agree -/
example :
    let g : List Proto := [⟨0, .simple ⟨15, 30, .fwd⟩, .simple ⟨15, 30, .fwd⟩, [], ""⟩,
                           ⟨1, .simple ⟨10, 20, .fwd⟩, .simple ⟨10, 20, .fwd⟩, [], ""⟩]
    gkey none .interleaved g = some (10, 30) ∧ skey none g = some [(10, 30)] ∧
    (sortById g).map (·.id) = [0, 1] ∧ (sortProtos g).map (·.id) = [1, 0] := by decide +kernel

/-- Still not proved: equality with the *executable* `Spec.reference` (the correspondence compares every
    implementation output with it).  `formation_refines_reference_linear` gives the run stage by stage in
    the reference's own notions, and `reference_hybrid_classes_are_chain_classes` /
    `reference_overlap_groups_are_chain_classes` show that the class computations of the executable
    reference produce exactly those notions (item (1) of the earlier list, now proved).  What is still
    missing for the equality is
    (2) (`Spec.addGroups` satisfies the five clauses of `PassDesc`: `reference_table_step_is_order_free`, now
        proved, and the keys agree: `reference_and_model_keys_agree_on_line`, `table_steps_stay_in_step_on_line`;
        open: the same step relation for the promoted singles) the unit
        hypotheses of `reference_overlap_groups_are_chain_classes` for the reference's own units
        (`unitsOf`: entries have distinct keys and disjoint or nested members), and the unfolding of the
        monadic `reference` into its six stages,
    (3) circular records. -/
def FormationRefinesReference : Prop :=
  ∀ (ps : List Proto) (wrap : Option Int) (cs : List Cand) (es : List (Kind × List Proto)), ps.Nodup →
    formation ps wrap = .ok cs → reference ps wrap = .ok es →
    (∀ c, c ∈ cs → ∃ e, e ∈ es ∧ e.1 = c.kind ∧ sameMembers c.members e.2 = true) ∧
    (∀ e, e ∈ es → ∃ c, c ∈ cs ∧ e.1 = c.kind ∧ sameMembers c.members e.2 = true)

/-! ### non-vacuity -/

/-- D19's layout on the repaired code: the origin-spanning protocluster is de-duplicated against
    the neighbouring candidate with the same coordinates, `single{B}` stays -/
example :
    summary (formation [⟨0, .compound [⟨850, 1000, .fwd⟩, ⟨0, 150, .fwd⟩], .compound [⟨950, 1000, .fwd⟩, ⟨0, 50, .fwd⟩], [], "a"⟩,
                ⟨1, .simple ⟨90, 130, .fwd⟩, .simple ⟨100, 120, .fwd⟩, [], "b"⟩] (some 1000)) =
    some [(.neighbouring, [0, 1]), (.single, [1])] := by decide +kernel

/-- a linear record with a hybrid pair, a single chained to it through another single (D501) -/
example :
    summary (formation [⟨0, .simple ⟨280, 310, .fwd⟩, .simple ⟨280, 310, .fwd⟩, [1], "a"⟩,
                ⟨1, .simple ⟨380, 440, .fwd⟩, .simple ⟨400, 420, .fwd⟩, [], "b"⟩,
                ⟨2, .simple ⟨320, 390, .fwd⟩, .simple ⟨340, 370, .fwd⟩, [1], "c"⟩,
                ⟨3, .simple ⟨430, 490, .fwd⟩, .simple ⟨450, 470, .fwd⟩, [], "d"⟩] none) =
    some [(.neighbouring, [0, 2, 1, 3]), (.hybrid, [0, 2]), (.single, [1]), (.single, [3])] := by decide +kernel

/-- D507 on the repaired code: members with identical coordinates come in a fixed order (by product),
    whatever the order of the input -/
example :
    summary (formation [⟨0, .simple ⟨80, 130, .fwd⟩, .simple ⟨90, 120, .fwd⟩, [1], "c"⟩,
                        ⟨1, .simple ⟨80, 130, .fwd⟩, .simple ⟨90, 120, .fwd⟩, [1], "a"⟩,
                        ⟨2, .simple ⟨80, 130, .fwd⟩, .simple ⟨90, 120, .fwd⟩, [1], "b"⟩] none) =
      some [(.hybrid, [1, 2, 0])] ∧
    summary (formation [⟨2, .simple ⟨80, 130, .fwd⟩, .simple ⟨90, 120, .fwd⟩, [1], "b"⟩,
                        ⟨0, .simple ⟨80, 130, .fwd⟩, .simple ⟨90, 120, .fwd⟩, [1], "c"⟩,
                        ⟨1, .simple ⟨80, 130, .fwd⟩, .simple ⟨90, 120, .fwd⟩, [1], "a"⟩] none) =
      some [(.hybrid, [1, 2, 0])] := by decide +kernel

/-- circular record of length 12: the hybrid {0, 2} has a combined core spanning the origin although
    no member's core does (D505's layout); protocluster 1 overlaps it, the origin-crossing step groups
    them — the situation of `interleaved_groups_are_classes_ring` -/
example :
    summary (formation [⟨0, .simple ⟨0, 3, .fwd⟩, .simple ⟨0, 3, .fwd⟩, [1], "a"⟩,
                        ⟨1, .simple ⟨2, 5, .fwd⟩, .simple ⟨2, 5, .fwd⟩, [], "b"⟩,
                        ⟨2, .simple ⟨10, 12, .fwd⟩, .simple ⟨10, 12, .fwd⟩, [1], "c"⟩,
                        ⟨3, .simple ⟨6, 8, .fwd⟩, .simple ⟨6, 8, .fwd⟩, [], "d"⟩] (some 12)) =
    some [(.interleaved, [0, 1, 2]), (.hybrid, [0, 2]), (.single, [3])] := by decide +kernel

/-- … and the hypotheses of `interleaved_groups_are_classes_ring` hold at that point of the run: the
    hybrid candidate {2, 0} with its combined core `[10, 12) + [0, 3)`, the unabsorbed protoclusters 1, 3 -/
example :
    let p0 : Proto := ⟨0, .simple ⟨0, 3, .fwd⟩, .simple ⟨0, 3, .fwd⟩, [1], "a"⟩
    let p1 : Proto := ⟨1, .simple ⟨2, 5, .fwd⟩, .simple ⟨2, 5, .fwd⟩, [], "b"⟩
    let p2 : Proto := ⟨2, .simple ⟨10, 12, .fwd⟩, .simple ⟨10, 12, .fwd⟩, [1], "c"⟩
    let p3 : Proto := ⟨3, .simple ⟨6, 8, .fwd⟩, .simple ⟨6, 8, .fwd⟩, [], "d"⟩
    let hyb : Cand := ⟨.hybrid, [p2, p0], .compound [⟨10, 12, .fwd⟩, ⟨0, 3, .fwd⟩]⟩
    (match withCores (some 12) [hyb] with
      | .ok cc => cc == [(hyb, .compound [⟨10, 12, .fwd⟩, ⟨0, 3, .fwd⟩])]
      | .error _ => false) = true ∧
    (match findInterleaved [p1, p3] [hyb] (some 12) with
      | .ok r => r == ([[p0, p1, p2]], [p3])
      | .error _ => false) = true ∧
    [p1, p3].Nodup ∧ (∀ p, p ∈ [p1, p3] → p.core.PartsNonEmpty) ∧
    (∀ c, c ∈ [hyb] → c.members ≠ [] ∧ ∀ m, m ∈ c.members → RingIn 12 m.core) := by
  intro p0 p1 p2 p3 hyb
  refine ⟨by decide +kernel, by decide +kernel, by decide, ?_, ?_⟩
  · intro p hp q hq
    simp only [List.mem_cons, List.mem_nil_iff, or_false] at hp
    rcases hp with rfl | rfl <;> (simp only [p1, p3, Loc.parts, List.mem_singleton] at hq; subst hq; decide)
  · intro c hc
    simp only [List.mem_singleton] at hc
    subst hc
    refine ⟨by simp [hyb], ?_⟩
    intro m hm
    simp only [hyb, List.mem_cons, List.mem_nil_iff, or_false] at hm
    rcases hm with rfl | rfl <;> exact RingInStrict.ringIn (Or.inl ⟨_, rfl, by decide, by decide, by decide⟩)

/-- circular record of length 100: the hybrid {0, 1} spans the origin, the unshared protoclusters 2 and 3
    lie inside its combined core on either side of the origin and are picked up by the two scans, 4 is
    not; the hypotheses of `hybrid_groups_exact_ring_partial` and of `no_duplicate_candidates_ring_partial`
    (all extents inside the span `[90, 100) + [0, 9)`… here even `[40, 50)` is outside, so only the
    former) hold for this input -/
example :
    let ps : List Proto := [⟨0, .simple ⟨90, 96, .fwd⟩, .simple ⟨90, 96, .fwd⟩, [1], "a"⟩,
                            ⟨1, .simple ⟨4, 9, .fwd⟩, .simple ⟨4, 9, .fwd⟩, [1], "b"⟩,
                            ⟨2, .simple ⟨97, 99, .fwd⟩, .simple ⟨97, 99, .fwd⟩, [], "c"⟩,
                            ⟨3, .simple ⟨1, 3, .fwd⟩, .simple ⟨1, 3, .fwd⟩, [], "d"⟩,
                            ⟨4, .simple ⟨40, 50, .fwd⟩, .simple ⟨40, 50, .fwd⟩, [], "e"⟩]
    summary (formation ps (some 100)) = some [(.hybrid, [3, 1, 0, 2]), (.single, [4])] ∧
    (∀ p, p ∈ ps → RingIn 100 p.core) ∧
    (∀ p, p ∈ ps → ∃ r, p.core = .simple r ∧ r.lo < r.hi ∧ p.loc.start ≤ r.lo) := by
  intro ps
  refine ⟨by decide +kernel, ?_, ?_⟩
  · intro p hp
    simp only [ps, List.mem_cons, List.mem_nil_iff, or_false] at hp
    rcases hp with rfl | rfl | rfl | rfl | rfl <;>
      exact RingInStrict.ringIn (Or.inl ⟨_, rfl, by decide, by decide, by decide⟩)
  · intro p hp
    simp only [ps, List.mem_cons, List.mem_nil_iff, or_false] at hp
    rcases hp with rfl | rfl | rfl | rfl | rfl <;> exact ⟨_, rfl, by decide, by decide⟩

/-- a circular record whose protoclusters fit into less than half of it (`[88, 100) + [0, 12)` of 100):
    the hypotheses of `no_duplicate_candidates_ring_partial` -/
example :
    let ps : List Proto := [⟨0, .compound [⟨95, 100, .fwd⟩, ⟨0, 5, .fwd⟩], .compound [⟨97, 100, .fwd⟩, ⟨0, 2, .fwd⟩], [], "a"⟩,
                            ⟨1, .simple ⟨3, 12, .fwd⟩, .simple ⟨6, 9, .fwd⟩, [], "b"⟩,
                            ⟨2, .simple ⟨88, 96, .fwd⟩, .simple ⟨90, 93, .fwd⟩, [], "c"⟩]
    summary (formation ps (some 100)) = some [(.neighbouring, [0, 1, 2]), (.single, [0]), (.single, [1]), (.single, [2])] ∧
    (∀ p, p ∈ ps → RingInStrict 100 p.loc) ∧
    (∃ c, areaWF 100 100 c = true ∧ 2 * c.len < 100 ∧ ∀ p, p ∈ ps → ∀ i, p.loc.mem i = true → c.mem i = true) := by
  intro ps
  refine ⟨by decide +kernel, ?_, ⟨.compound [⟨88, 100, .fwd⟩, ⟨0, 12, .fwd⟩], by decide, by decide, ?_⟩⟩
  · intro p hp
    simp only [ps, List.mem_cons, List.mem_nil_iff, or_false] at hp
    rcases hp with rfl | rfl | rfl
    · exact Or.inr (Or.inl ⟨95, 5, .fwd, by decide, rfl, by decide, by decide, by decide⟩)
    · exact Or.inl ⟨_, rfl, by decide, by decide, by decide⟩
    · exact Or.inl ⟨_, rfl, by decide, by decide, by decide⟩
  · intro p hp i hi
    simp only [ps, List.mem_cons, List.mem_nil_iff, or_false] at hp
    rw [mem_two]
    rcases hp with rfl | rfl | rfl
    · rw [mem_two] at hi; simp only at hi ⊢; omega
    · rw [mem_simple] at hi; simp only at hi ⊢; omega
    · rw [mem_simple] at hi; simp only at hi ⊢; omega

/-- the hypotheses of the linear theorems (`formation_succeeds_on_line`, `hybrid_groups_exact_partial`,
    `no_duplicate_candidates_partial`) hold for that input -/
example :
    let ps : List Proto := [⟨0, .simple ⟨280, 310, .fwd⟩, .simple ⟨280, 310, .fwd⟩, [1], "a"⟩,
                            ⟨1, .simple ⟨380, 440, .fwd⟩, .simple ⟨400, 420, .fwd⟩, [], "b"⟩,
                            ⟨2, .simple ⟨320, 390, .fwd⟩, .simple ⟨340, 370, .fwd⟩, [1], "c"⟩,
                            ⟨3, .simple ⟨430, 490, .fwd⟩, .simple ⟨450, 470, .fwd⟩, [], "d"⟩]
    ps.Nodup ∧
    (∀ p, p ∈ ps → (∃ q, p.loc = .simple q ∧ 0 ≤ q.lo ∧ q.lo ≤ q.hi) ∧ ∃ r, p.core = .simple r) ∧
    (∀ p, p ∈ ps → ∃ r, p.core = .simple r ∧ r.lo < r.hi ∧ p.loc.start ≤ r.lo) ∧
    (∀ p, p ∈ ps → p.loc.parts ≠ [] ∧ bridgesOrigin p.loc = false) := by
  intro ps
  refine ⟨by decide, ?_, ?_, ?_⟩
  · intro p hp
    simp only [ps, List.mem_cons, List.mem_nil_iff, or_false] at hp
    rcases hp with rfl | rfl | rfl | rfl <;> exact ⟨⟨_, rfl, by decide, by decide⟩, ⟨_, rfl⟩⟩
  · intro p hp
    simp only [ps, List.mem_cons, List.mem_nil_iff, or_false] at hp
    rcases hp with rfl | rfl | rfl | rfl <;> exact ⟨_, rfl, by decide, by decide⟩
  · intro p hp
    simp only [ps, List.mem_cons, List.mem_nil_iff, or_false] at hp
    rcases hp with rfl | rfl | rfl | rfl <;> exact ⟨by decide, by decide⟩

end ASV.C05
