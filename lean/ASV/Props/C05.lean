/-
  C05 — candidate clusters group protoclusters by the documented kinds.
  Property theorems only; helper lemmas in ASV/Proofs/{MergeSets,Candidates,Coverage,Members,SpecBridge}.lean.

  Model: ASV/Model/Candidates.lean (formation.py after the repairs D16, D19, D501–D506).
  `formation ps wrap` is `create_candidates_from_protoclusters(protoclusters, circular_wrap_point)`;
  `wrap = none` is a linear record.  Protoclusters carry their index in the input as identity, so the
  only hypothesis on the input is `ps.Nodup` (no protocluster object supplied twice), and only where
  counting is involved.  Every theorem holds for all inputs, linear and circular, of any size.
-/
import ASV.Proofs.SpecBridge
namespace ASV.C05
open ASV ASV.CC ASV.CC.Spec

/-! ### 1. `_merge_sets` computes the partition into chain classes (generic) -/

/-- The sets returned by `_merge_sets` are pairwise disjoint and non-empty, their union is the union
    of the inputs, and two elements lie in one returned set iff a chain of input sets links them
    (consecutive sets of the chain share an element).  Unconditional after fix D16. -/
theorem mergeSets_is_partition {α : Type} [DecidableEq α] (key : List α → Int) (G : List (List α)) :
    DisjointSets (mergeSetsCore key G) ∧
    (∀ r, r ∈ mergeSetsCore key G → r ≠ [] ∧ r.Nodup) ∧
    (∀ x, (∃ r, r ∈ mergeSetsCore key G ∧ x ∈ r) ↔ ∃ g, g ∈ G ∧ x ∈ g) ∧
    (∀ a b, (∃ r, r ∈ mergeSetsCore key G ∧ a ∈ r ∧ b ∈ r) ↔ Linked G a b) :=
  ⟨(mergeSetsCore_spec key G).1,
   fun r hr => ⟨(mergeSetsCore_spec key G).2.1 r hr, mergeSetsCore_nodup key G r hr⟩,
   mergeSetsCore_union key G,
   (mergeSetsCore_spec key G).2.2⟩

/-- the same for groups of protoclusters as formation uses them (each group additionally sorted) -/
theorem mergeSets_protoclusters (G : List (List Proto)) :
    (∀ x, (∃ r, r ∈ mergeSets G ∧ x ∈ r) ↔ ∃ g, g ∈ G ∧ x ∈ g) ∧
    (∀ a b, (∃ r, r ∈ mergeSets G ∧ a ∈ r ∧ b ∈ r) ↔ Linked G a b) := by
  refine ⟨mergeSets_union G, ?_⟩
  intro a b
  rw [← (mergeSetsCore_spec groupKey G).2.2 a b]
  constructor
  · rintro ⟨r, hr, ha, hb⟩
    obtain ⟨r0, h0, e⟩ := mem_mergeSets.1 hr
    subst e
    exact ⟨r0, h0, mem_sortProtos.1 ha, mem_sortProtos.1 hb⟩
  · rintro ⟨r0, h0, ha, hb⟩
    exact ⟨sortProtos r0, mem_mergeSets.2 ⟨r0, h0, rfl⟩, mem_sortProtos.2 ha, mem_sortProtos.2 hb⟩

/-- D16 on the code before the fix: one forward pass leaves `{2,3}` apart from `{1,3,5}` -/
def singlePassMerge (groups : List (List Nat)) : List (List Nat) :=
  let rec go : Nat → List (List Nat) → List (List Nat)
    | 0, l => l
    | _, [] => []
    | n + 1, first :: rest =>
      if first.isEmpty then first :: go n rest
      else let p := absorbPass first rest; p.1 :: go n p.2.1
  (go groups.length groups).filter fun g => !g.isEmpty

theorem D16_single_pass_not_transitive :
    singlePassMerge [[1, 5], [2, 3], [3, 5]] = [[1, 5, 3], [2, 3]] ∧
    mergeSetsCore (fun g => minList (g.map Int.ofNat)) [[1, 5], [2, 3], [3, 5]] = [[1, 5, 3, 2]] := by
  decide

/-! ### 2. every protocluster lies in a candidate; the final sanity check cannot fire -/

/-- every protocluster supplied is a member of at least one returned candidate -/
theorem every_protocluster_in_a_candidate (ps : List Proto) (wrap : Option Int) (cs : List Cand)
    (h : formation ps wrap = .ok cs) : coversAll ps cs = true := by
  obtain ⟨cs0, h0, e⟩ := formation_ok_core h
  subst e
  apply coversAll_iff.2
  intro p hp
  obtain ⟨c, hc, hpc⟩ := formationCore_cover h0 p hp
  exact ⟨c, mem_sortCands.2 hc, hpc⟩

/-- … and this is not owed to the final `assert len(assigned) == len(protoclusters)`: whenever the
    body of the function completes, the assertion holds and the result is the sorted list built
    (errors of the body are passed on unchanged) -/
theorem final_sanity_check_never_fires (ps : List Proto) (wrap : Option Int) (hn : ps.Nodup) :
    (∀ cs0, formationCore ps wrap = .ok cs0 → formation ps wrap = .ok (sortCands cs0)) ∧
    (∀ e, formationCore ps wrap = .error e → formation ps wrap = .error e) :=
  ⟨fun _ h => formation_eq_core h hn, fun _ h => formation_error_core h⟩

/-! ### 3. a candidate's location is the connected span of its members -/

/-- every returned candidate's location is `connect_locations` of its members' locations and
    contains each member's location; members are protoclusters of the input, none twice; singles have
    one member, all other kinds at least two -/
theorem candidate_location_covers_members (ps : List Proto) (wrap : Option Int) (cs : List Cand)
    (hn : ps.Nodup) (h : formation ps wrap = .ok cs) :
    locationsOK wrap cs = true ∧ membersOK ps cs = true ∧ sizesOK cs = true := by
  obtain ⟨cs0, h0, e⟩ := formation_ok_core h
  subst e
  have hwf := formationCore_wf h0 hn
  refine ⟨locationsOK_iff.2 ?_, membersOK_iff.2 ?_, sizesOK_iff.2 ?_⟩
  · intro c hc
    have := hwf c (mem_sortCands.1 hc)
    exact ⟨this.ok.loc_eq, this.ok.contains⟩
  · intro c hc
    have := hwf c (mem_sortCands.1 hc)
    exact ⟨this.ok.nonempty, this.fromInput, this.nodup⟩
  · intro c hc
    exact (hwf c (mem_sortCands.1 hc)).size

/-- on a linear record the location is exactly the hull: from the smallest start to the largest end
    of the members (C04 `connect_line_is_hull`) -/
theorem candidate_location_exact_on_line (ps : List Proto) (cs : List Cand) (hn : ps.Nodup)
    (hlin : ∀ p, p ∈ ps → p.loc.parts ≠ [] ∧ bridgesOrigin p.loc = false)
    (h : formation ps none = .ok cs) :
    ∀ c, c ∈ cs → c.loc = .simple ⟨minList (c.members.map (·.loc.start)), maxList (c.members.map (·.loc.end)),
                                   commonStrand (c.members.map (·.loc))⟩ := by
  obtain ⟨cs0, h0, e⟩ := formation_ok_core h
  subst e
  intro c hc
  have hwf := formationCore_wf h0 hn c (mem_sortCands.1 hc)
  have hline : ∀ l, l ∈ c.members.map (·.loc) → l.parts ≠ [] ∧ bridgesOrigin l = false := by
    intro l hl
    obtain ⟨m, hm, e⟩ := List.mem_map.1 hl
    subst e
    exact hlin m (hwf.fromInput m hm)
  have := connect_line (c.members.map (·.loc)) (by simpa using hwf.ok.nonempty) hline
  rw [hwf.ok.loc_eq] at this
  injection this with this
  rw [this]
  simp [List.map_map, Function.comp_def]

/-! ### non-vacuity -/

/-- D19's layout on the repaired code: the origin-spanning protocluster is de-duplicated against
    the neighbouring candidate with the same coordinates, `single{B}` stays -/
example :
    summary (formation [⟨0, .compound [⟨850, 1000, .fwd⟩, ⟨0, 150, .fwd⟩], .compound [⟨950, 1000, .fwd⟩, ⟨0, 50, .fwd⟩], []⟩,
                ⟨1, .simple ⟨90, 130, .fwd⟩, .simple ⟨100, 120, .fwd⟩, []⟩] (some 1000)) =
    some [(.neighbouring, [0, 1]), (.single, [1])] := by decide +kernel

/-- a linear record with a hybrid pair, a single chained to it through another single (D501) -/
example :
    summary (formation [⟨0, .simple ⟨280, 310, .fwd⟩, .simple ⟨280, 310, .fwd⟩, [1]⟩,
                ⟨1, .simple ⟨380, 440, .fwd⟩, .simple ⟨400, 420, .fwd⟩, []⟩,
                ⟨2, .simple ⟨320, 390, .fwd⟩, .simple ⟨340, 370, .fwd⟩, [1]⟩,
                ⟨3, .simple ⟨430, 490, .fwd⟩, .simple ⟨450, 470, .fwd⟩, []⟩] none) =
    some [(.neighbouring, [0, 2, 1, 3]), (.hybrid, [0, 2]), (.single, [1]), (.single, [3])] := by decide +kernel

end ASV.C05
