/-
  C05 — candidate clusters group protoclusters by the documented kinds (property theorems only).
-/
import ASV.Model.Candidates
import ASV.Spec.Candidates
namespace ASV.C05
open ASV ASV.CC

/-- no protoclusters, no candidates -/
theorem formation_empty (wrap : Option Int) : formation [] wrap = .ok [] := by
  rfl

end ASV.C05
