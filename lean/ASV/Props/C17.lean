/-
  C17 — same input, same output: results do not depend on the process or hash seed.
  Property theorems only; helper lemmas live in ASV/Proofs/Determinism{Sort,Stages}.lean.

  How the property is stated.  A Python `set` shows itself to the program through *some*
  enumeration of its members, chosen by `PYTHONHASHSEED` (string members) or by object addresses
  (identity-hashed members).  Every modelled stage takes that enumeration as an explicit argument;
  "the same result in every process" is then `stage l₁ = stage l₂` for every two enumerations
  `l₁ ~ l₂` of the same container — a statement over ALL seeds and layouts, for all inputs, in
  particular inputs full of ties (equal starts, equal scores, equal coordinates).

  The model is the code with the fixes D11, D26 (C13), 9b15a948 (sorted definition domains: D51,
  D51b) and D53–D55 (this property's patches) applied; the `…Old` definitions are the code
  before those fixes and carry the negation witnesses.
  Stages owned by other properties (C03 find_protoclusters / apply_cluster_rules, C05 candidate
  formation, C06 create_regions) are not modelled here, see design/C17.md.
-/
import ASV.Props.C13
import ASV.Proofs.DeterminismStages
namespace ASV.C17
open ASV ASV.Refine ASV.HitFilter ASV.Determinism

/-! ## the generic argument: sort with a separating key, then do anything -/

/-- two duplicate-free enumerations of the same set are permutations of each other (so "for all
    permutations" below covers every pair of iteration orders of one `set`) -/
theorem set_enumerations_are_permutations {α : Type} (l₁ l₂ : List α) (n₁ : l₁.Nodup) (n₂ : l₂.Nodup)
    (h : ∀ x, x ∈ l₁ ↔ x ∈ l₂) : l₁.Perm l₂ :=
  perm_of_same_set n₁ n₂ h

/-- uniqueness of sorted permutations: for a total, transitive comparison that is antisymmetric on
    the members, `sorted(container)` is the same list for every enumeration of the container -/
theorem sorted_enumeration_unique {α : Type} (le : α → α → Bool)
    (total : ∀ a b, le a b = true ∨ le b a = true)
    (trans : ∀ a b c, le a b = true → le b c = true → le a c = true) :
    EnumerationInvariantOn (fun l => ∀ a ∈ l, ∀ b ∈ l, le a b = true → le b a = true → a = b) (sortBy le) :=
  fun _ _ antisymm h => sortBy_eq_of_perm_on total trans antisymm h

/-- `sorted(container, key=key)` with linearly ordered keys: one result for all enumerations as soon
    as no two members share a key -/
theorem sorted_by_injective_key_unique {α κ : Type} (key : α → κ) (leK : κ → κ → Bool)
    (total : ∀ a b, leK a b = true ∨ leK b a = true)
    (trans : ∀ a b c, leK a b = true → leK b c = true → leK a c = true)
    (antisymm : ∀ a b, leK a b = true → leK b a = true → a = b) :
    EnumerationInvariantOn (fun l => ∀ a ∈ l, ∀ b ∈ l, key a = key b → a = b)
      (sortBy (fun a b => leK (key a) (key b))) :=
  fun _ _ inj h => sortBy_key_eq_of_perm key total trans antisymm inj h

/-- … and then any loop over the sorted container is enumeration independent -/
theorem fold_after_sort_enumeration_independent {α β : Type} (le : α → α → Bool)
    (total : ∀ a b, le a b = true ∨ le b a = true)
    (trans : ∀ a b c, le a b = true → le b c = true → le a c = true) (f : β → α → β) (init : β) :
    EnumerationInvariantOn (fun l => ∀ a ∈ l, ∀ b ∈ l, le a b = true → le b a = true → a = b)
      (foldSorted le f init) :=
  fun _ _ antisymm h => foldSorted_perm total trans f init antisymm h

/-- the executable spec pins the output down: a listing of the members in non-decreasing key
    order is *the* keyed sort of every enumeration (keys separating the members) -/
theorem canonical_listing_unique {α : Type} [DecidableEq α] (key : α → Int × Int × Int) (members out : List α)
    (inj : ∀ a ∈ members, ∀ b ∈ members, key a = key b → a = b)
    (h : canonicalBy key tripleLt members out = true) :
    out = sortBy (fun a b => keyLe (key a) (key b)) members :=
  canonical_unique key tripleLt keyLe tripleLt_false_iff keyLe_total keyLe_trans keyLe_antisymm inj h

/-! ## stage `refine` (hmmscan_refinement.refine_hmmscan_results; = C13, fix D11) -/

/-- per gene: any two enumerations of the gene's hit set give the same refined hits, both modes -/
theorem refine_perm_invariant (env : Env) (nb : Bool) : EnumerationInvariant (refine env nb) :=
  fun l₁ l₂ h => C13.refine_perm_invariant env nb l₁ l₂ h

/-- … even enumerations with repeats: only the *set* of raw hits matters -/
theorem refine_enumeration_invariant (env : Env) (nb : Bool) (l₁ l₂ : List Hit) (h : ∀ x, x ∈ l₁ ↔ x ∈ l₂) :
    refine env nb l₁ = refine env nb l₂ :=
  C13.refine_enumeration_invariant env nb l₁ l₂ h

/-- the whole function: the dict of genes (insertion ordered) with every gene's set enumerated
    independently and arbitrarily -/
theorem refineAll_invariant (env : Env) (nb : Bool) (g₁ g₂ : List (Int × List Hit)) (h : SameDictOfSets g₁ g₂) :
    refineAll env nb g₁ = refineAll env nb g₂ :=
  refineAll_same env nb h

/-- `hmmer.remove_overlapping` (fix D26): the order of the input list is irrelevant -/
theorem hmmer_perm_invariant (cut : Int → Option Int) (limit : Int) (l₁ l₂ out : List HHit) (hp : l₁.Perm l₂)
    (h : HitFilter.removeOverlapping cut limit l₁ = .ok out) : HitFilter.removeOverlapping cut limit l₂ = .ok out :=
  C13.hmmer_perm_invariant cut limit l₁ l₂ out hp h

/-! ## stage `uniqueProtoclusters` (Region.get_unique_protoclusters, fix D54) -/

/-- the full sentence -/
def UniqueProtoclustersInvariant : Prop :=
  ∀ (cross : Bool) (L : Int), EnumerationInvariant (uniqueProtoclusters cross L)

/-- it is false when two *different* member protoclusters agree on `(start, −len, product)`: the
    stable sort leaves them in enumeration order -/
theorem uniqueProtoclusters_key_tie_witness : ¬ UniqueProtoclustersInvariant := by
  intro h
  have := h false 0 [⟨10, 70, 1, 1⟩, ⟨10, 70, 1, 2⟩] [⟨10, 70, 1, 2⟩, ⟨10, 70, 1, 1⟩] (List.Perm.swap _ _ _)
  revert this
  decide

/-- H: no two member protoclusters agree on the key.  Then every enumeration of the set gives the
    same list, for regions on a line and regions spanning the origin alike -/
theorem uniqueProtoclusters_invariant_partial (cross : Bool) (L : Int) :
    EnumerationInvariantOn (KeyInj cross L) (uniqueProtoclusters cross L) :=
  fun _ _ inj h => uniqueProtoclusters_perm inj h

/-- the result is the canonical listing of the members … -/
theorem uniqueProtoclusters_canonical (cross : Bool) (L : Int) (enum : List Proto) :
    canonicalBy (protoKey cross L) tripleLt enum (uniqueProtoclusters cross L enum) = true :=
  sortBy_canonical (protoKey cross L) tripleLt keyLe tripleLt_false_iff keyLe_total keyLe_trans enum

/-- … and under H any output that meets the executable spec *is* the model's output -/
theorem uniqueProtoclusters_spec_determines (cross : Bool) (L : Int) (members out : List Proto)
    (inj : KeyInj cross L members) (h : canonicalBy (protoKey cross L) tripleLt members out = true) :
    out = uniqueProtoclusters cross L members :=
  canonical_listing_unique (protoKey cross L) members out inj h

/-- the scope predicate is decidable: for a duplicate-free enumeration `hasKeyTie = false` is H -/
theorem uniqueProtoclusters_scope_decidable (cross : Bool) (L : Int) (l : List Proto) (hn : l.Nodup) :
    hasKeyTie (protoKey cross L) l = false ↔ KeyInj cross L l :=
  hasKeyTie_false_iff (protoKey cross L) l hn

/-- D54: before the fix a region not spanning the origin sorted by `(start, −len)` only; two
    protoclusters of *different products* on the same coordinates (H holds!) came out in
    enumeration order -/
theorem uniqueProtoclustersOld_not_invariant :
    ∃ l₁ l₂ : List Proto, l₁.Perm l₂ ∧ hasKeyTie (protoKey false 0) l₁ = false ∧
      uniqueProtoclustersOld l₁ ≠ uniqueProtoclustersOld l₂ ∧
      uniqueProtoclusters false 0 l₁ = uniqueProtoclusters false 0 l₂ :=
  ⟨[⟨10, 70, 1, 1⟩, ⟨10, 70, 2, 2⟩], [⟨10, 70, 2, 2⟩, ⟨10, 70, 1, 1⟩], List.Perm.swap _ _ _, by decide, by decide, by decide⟩

/-! ## stages writing out sets of names (fixes D51, D51b, D53) -/

/-- `CDSResults.to_json`: the "definition_domains" lists do not depend on how the sets iterate -/
theorem definitionDomainsJson_invariant (d₁ d₂ : List (Int × List Int)) (h : SameDictOfSets d₁ d₂) :
    definitionDomainsJson d₁ = definitionDomainsJson d₂ :=
  definitionDomainsJson_same h

/-- D51: `list(set)` is the iteration order itself (two-element witness) -/
theorem definitionDomainsJsonOld_not_invariant :
    ∃ d₁ d₂ : List (Int × List Int), SameDictOfSets d₁ d₂ ∧ definitionDomainsJsonOld d₁ ≠ definitionDomainsJsonOld d₂ :=
  ⟨[(0, [1, 2])], [(0, [2, 1])], .cons ⟨rfl, List.Perm.swap _ _ _⟩ .nil, by decide⟩

/-- `CDSResults.annotate`: the gene-function annotations (their order is the order of the
    `gene_functions` qualifier in the GenBank file) do not depend on how the sets iterate -/
theorem annotate_invariant (existing : List GeneFn) (prevIds domains : List Int) (d₁ d₂ : List (Int × List Int))
    (h : SameDictOfSets d₁ d₂) : annotate existing prevIds d₁ domains = annotate existing prevIds d₂ domains :=
  annotate_same existing prevIds domains h

/-- D51b: before the fix the CORE annotations were added in iteration order -/
theorem annotateOld_not_invariant :
    ∃ d₁ d₂ : List (Int × List Int), SameDictOfSets d₁ d₂ ∧ annotateOld [] [] d₁ [1, 2] ≠ annotateOld [] [] d₂ [1, 2] :=
  ⟨[(0, [1, 2])], [(0, [2, 1])], .cons ⟨rfl, List.Perm.swap _ _ _⟩ .nil, by decide⟩

/-- `run_on_record`: "enabled_types" of the module's JSON (D53: it was `list(set)`) -/
theorem enabledTypes_invariant : EnumerationInvariant enabledTypes :=
  fun _ _ h => sortedNames_perm h

/-! ## stage `filterResults` (cluster_prediction.filter_results, fix D55) -/

/-- the best hit of an overlap group does not depend on how the group set iterates (distinct
    objects sit at distinct positions of the gene's hit list) — equal scores included -/
theorem bestOfGroup_invariant :
    EnumerationInvariantOn (fun l => ∀ a ∈ l, ∀ b ∈ l, a.uid = b.uid → a = b) bestOfGroup :=
  fun _ _ inj h => bestOfGroup_perm inj h

/-- the whole function for one gene: whatever order each group set is iterated in (to pick the
    best and to delete the rest), the surviving hits — or the failing assertion — are the same -/
theorem filterResults_enumeration_invariant (e₁ e₂ : List FHit → List FHit) (h₁ : Enumerates e₁) (h₂ : Enumerates e₂)
    (eqs : List (List Int)) (hits : List FHit) (hu : UidInj hits) :
    filterResultsE e₁ eqs hits = filterResultsE e₂ eqs hits := by
  simp only [filterResultsE, foldl_filterPassE_same h₁ h₂ eqs hits hu]

/-- before D55 (`best = list(group)[0]`, first strictly better hit in iteration order):
    H: no two different hits of the group have the same bitscore ⇒ invariant … -/
theorem bestOfGroupOld_invariant_partial : EnumerationInvariantOn NoScoreTies bestOfGroupOld :=
  fun _ _ hn h => groupBest_perm_of_no_ties hn h

/-- … and with a tie the survivor is whichever hit the set yields first -/
theorem bestOfGroupOld_tie_witness : ¬ EnumerationInvariant bestOfGroupOld := by
  intro h
  have := h [⟨0, 0, 0, 100, 300⟩, ⟨1, 1, 10, 110, 300⟩] [⟨1, 1, 10, 110, 300⟩, ⟨0, 0, 0, 100, 300⟩] (List.Perm.swap _ _ _)
  revert this
  decide

/-! ## stage `writeRecord` (Feature.to_biopython + Record.to_biopython → GenBank / JSON) -/

/-- no hash-ordered container reaches the output order: the features are emitted from a stable
    sort of the record's feature lists, every feature's qualifiers sorted by key and its notes
    sorted — so the output is the same however the qualifier dicts were filled and the notes were
    collected -/
theorem writeRecord_invariant (g₁ g₂ : List (List Feat)) (h : Pointwise (Pointwise SameFeature) g₁ g₂) :
    writeRecord g₁ = writeRecord g₂ :=
  writeRecord_same h

/-- what the writer does *not* repair: features with equal `(start, length)` keep the order of the
    record's lists, so those lists themselves must be built deterministically (that is what the
    stage theorems above and those of C03/C05/C06 are for) -/
theorem writeRecord_keeps_list_order_of_ties :
    writeRecord [[⟨0, 9, false, [(1, [1])], []⟩, ⟨0, 9, false, [(1, [2])], []⟩]] ≠
    writeRecord [[⟨0, 9, false, [(1, [2])], []⟩, ⟨0, 9, false, [(1, [1])], []⟩]] := by decide

/-! ## non-vacuity -/

/-- D11's shape through the whole dict: two genes, equal starts and scores, sets enumerated in
    different orders -/
example : refineAll C13.exEnv false [(0, [⟨0, 0, 100, 1, 500⟩, ⟨1, 0, 100, 1, 500⟩, ⟨3, 0, 100, 1, 500⟩]), (1, [⟨1, 0, 50, 1, 500⟩, ⟨0, 0, 50, 1, 500⟩])] =
    [(0, [⟨0, 0, 100, 1, 500⟩]), (1, [⟨0, 0, 50, 1, 500⟩])] ∧
    refineAll C13.exEnv false [(0, [⟨3, 0, 100, 1, 500⟩, ⟨0, 0, 100, 1, 500⟩, ⟨1, 0, 100, 1, 500⟩]), (1, [⟨0, 0, 50, 1, 500⟩, ⟨1, 0, 50, 1, 500⟩])] =
    [(0, [⟨0, 0, 100, 1, 500⟩]), (1, [⟨0, 0, 50, 1, 500⟩])] := by decide
/-- three protoclusters on identical coordinates, products 2, 0, 1: listed by product, whatever
    the enumeration; an origin-spanning region of a 1000-base record lists the pre-origin member first -/
example : uniqueProtoclusters false 0 [⟨10, 70, 2, 0⟩, ⟨10, 70, 0, 1⟩, ⟨10, 70, 1, 2⟩] =
    [⟨10, 70, 0, 1⟩, ⟨10, 70, 1, 2⟩, ⟨10, 70, 2, 0⟩] := by decide
example : uniqueProtoclusters true 1000 [⟨5, 70, 0, 0⟩, ⟨900, 150, 1, 1⟩, ⟨950, 80, 0, 2⟩] =
    [⟨900, 150, 1, 1⟩, ⟨950, 80, 0, 2⟩, ⟨5, 70, 0, 0⟩] := by decide
example : KeyInj false 0 [⟨10, 70, 2, 0⟩, ⟨10, 70, 0, 1⟩, ⟨10, 70, 1, 2⟩] :=
  (hasKeyTie_false_iff _ _ (by decide)).mp (by decide)
/-- two products, sets of two and three names -/
example : definitionDomainsJson [(1, [5, 3]), (0, [2, 9, 4])] = [(1, [3, 5]), (0, [2, 4, 9])] := by decide
/-- CORE annotations per product in name order, an equal existing annotation is not repeated,
    domains that defined nothing become ADDITIONAL -/
example : annotate [⟨true, 3, some 1⟩] [] [(1, [5, 3]), (0, [5])] [3, 5, 7] =
    [⟨true, 3, some 1⟩, ⟨true, 5, some 1⟩, ⟨true, 5, some 0⟩, ⟨false, 7, none⟩] := by decide
/-- three hits with equal scores overlapping pairwise: the first of the gene's list survives,
    whichever way the group set is enumerated -/
example : filterResultsE id [[0, 1]] [⟨0, 0, 0, 100, 300⟩, ⟨1, 1, 10, 110, 300⟩, ⟨2, 3, 20, 120, 300⟩] =
    some [⟨0, 0, 0, 100, 300⟩] ∧
    filterResultsE List.reverse [[0, 1]] [⟨0, 0, 0, 100, 300⟩, ⟨1, 1, 10, 110, 300⟩, ⟨2, 3, 20, 120, 300⟩] =
    some [⟨0, 0, 0, 100, 300⟩] := by decide
example : Enumerates List.reverse := fun g => List.reverse_perm g
/-- a source feature and a gene on the same coordinates, qualifiers filled in different orders -/
example : writeRecord [[⟨0, 9, true, [(3, [1]), (2, [7])], []⟩], [⟨0, 9, false, [(5, [1]), (1, [2])], [4, 3]⟩]] =
    [((0, 9, true), [(2, [7]), (3, [1])]), ((0, 9, false), [(0, [3, 4]), (1, [2]), (5, [1])])] := by decide

end ASV.C17
