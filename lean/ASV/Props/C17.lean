/-
  C17 — same input, same output: results do not depend on the process or hash seed.
  Property theorems only; helper lemmas live in ASV/Proofs/Determinism{Sort,Stages}.lean.

  How the property is stated.  A Python `set` shows itself to the program through *some*
  enumeration of its members, chosen by `PYTHONHASHSEED` (string members) or by object addresses
  (identity-hashed members).  Every modelled stage takes that enumeration as an explicit argument;
  "the same result in every process" is then `stage l₁ = stage l₂` for every two enumerations
  `l₁ ~ l₂` of the same container — a statement over ALL seeds and layouts, for all inputs, in
  particular inputs full of ties (equal starts, equal scores, equal coordinates).

  The model is the code with the fixes D11, D26 (C13), 9b15a948 (sorted definition domains: D51,
  D51b) and D53–D55 (this property's patches) applied; the `…Old` definitions are the code
  before those fixes and carry the negation witnesses.
  Stages owned by other properties (C03 find_protoclusters / apply_cluster_rules, C05 candidate
  formation, C06 create_regions) are not modelled here, see design/C17.md.
-/
import ASV.Props.C13
import ASV.Proofs.DeterminismStages
import ASV.Proofs.DeterminismAreas
namespace ASV.C17
open ASV ASV.Refine ASV.HitFilter ASV.Determinism

/-! ## the generic argument: sort with a separating key, then do anything -/

/-- two duplicate-free enumerations of the same set are permutations of each other (so "for all
    permutations" below covers every pair of iteration orders of one `set`) -/
theorem set_enumerations_are_permutations {α : Type} (l₁ l₂ : List α) (n₁ : l₁.Nodup) (n₂ : l₂.Nodup)
    (h : ∀ x, x ∈ l₁ ↔ x ∈ l₂) : l₁.Perm l₂ :=
  perm_of_same_set n₁ n₂ h

/-- uniqueness of sorted permutations: for a total, transitive comparison that is antisymmetric on
    the members, `sorted(container)` is the same list for every enumeration of the container -/
theorem sorted_enumeration_unique {α : Type} (le : α → α → Bool)
    (total : ∀ a b, le a b = true ∨ le b a = true)
    (trans : ∀ a b c, le a b = true → le b c = true → le a c = true) :
    EnumerationInvariantOn (fun l => ∀ a ∈ l, ∀ b ∈ l, le a b = true → le b a = true → a = b) (sortBy le) :=
  fun _ _ antisymm h => sortBy_eq_of_perm_on total trans antisymm h

/-- `sorted(container, key=key)` with linearly ordered keys: one result for all enumerations as soon
    as no two members share a key -/
theorem sorted_by_injective_key_unique {α κ : Type} (key : α → κ) (leK : κ → κ → Bool)
    (total : ∀ a b, leK a b = true ∨ leK b a = true)
    (trans : ∀ a b c, leK a b = true → leK b c = true → leK a c = true)
    (antisymm : ∀ a b, leK a b = true → leK b a = true → a = b) :
    EnumerationInvariantOn (fun l => ∀ a ∈ l, ∀ b ∈ l, key a = key b → a = b)
      (sortBy (fun a b => leK (key a) (key b))) :=
  fun _ _ inj h => sortBy_key_eq_of_perm key total trans antisymm inj h

/-- … and then any loop over the sorted container is enumeration independent -/
theorem fold_after_sort_enumeration_independent {α β : Type} (le : α → α → Bool)
    (total : ∀ a b, le a b = true ∨ le b a = true)
    (trans : ∀ a b c, le a b = true → le b c = true → le a c = true) (f : β → α → β) (init : β) :
    EnumerationInvariantOn (fun l => ∀ a ∈ l, ∀ b ∈ l, le a b = true → le b a = true → a = b)
      (foldSorted le f init) :=
  fun _ _ antisymm h => foldSorted_perm total trans f init antisymm h

/-- the executable spec pins the output down: a listing of the members in non-decreasing key
    order is *the* keyed sort of every enumeration (keys separating the members) -/
theorem canonical_listing_unique {α : Type} [DecidableEq α] (key : α → Int × Int × Int × Int × Int) (members out : List α)
    (inj : ∀ a ∈ members, ∀ b ∈ members, key a = key b → a = b)
    (h : canonicalBy key tripleLt members out = true) :
    out = sortBy (fun a b => keyLe (key a) (key b)) members :=
  canonical_unique key tripleLt keyLe tripleLt_false_iff keyLe_total keyLe_trans keyLe_antisymm inj h

/-! ## stage `refine` (hmmscan_refinement.refine_hmmscan_results; = C13, fix D11) -/

/-- per gene: any two enumerations of the gene's hit set give the same refined hits, both modes -/
theorem refine_perm_invariant (env : Env) (nb : Bool) : EnumerationInvariant (refine env nb) :=
  fun l₁ l₂ h => C13.refine_perm_invariant env nb l₁ l₂ h

/-- … even enumerations with repeats: only the *set* of raw hits matters -/
theorem refine_enumeration_invariant (env : Env) (nb : Bool) (l₁ l₂ : List Hit) (h : ∀ x, x ∈ l₁ ↔ x ∈ l₂) :
    refine env nb l₁ = refine env nb l₂ :=
  C13.refine_enumeration_invariant env nb l₁ l₂ h

/-- the whole function: the dict of genes (insertion ordered) with every gene's set enumerated
    independently and arbitrarily -/
theorem refineAll_invariant (env : Env) (nb : Bool) (g₁ g₂ : List (Int × List Hit)) (h : SameDictOfSets g₁ g₂) :
    refineAll env nb g₁ = refineAll env nb g₂ :=
  refineAll_same env nb h

/-- `hmmer.remove_overlapping` (fix D26): the order of the input list is irrelevant -/
theorem hmmer_perm_invariant (cut : Int → Option Int) (limit : Int) (l₁ l₂ out : List HHit) (hp : l₁.Perm l₂)
    (h : HitFilter.removeOverlapping cut limit l₁ = .ok out) : HitFilter.removeOverlapping cut limit l₂ = .ok out :=
  C13.hmmer_perm_invariant cut limit l₁ l₂ out hp h

/-! ## stage `refine`, the walk over the profiles in `_merge_domain_list` -/

/-- the code walks the `categories` dict, i.e. the profiles in the order of their first hit in the
    sorted hit list: C13's `mergeDomainList` / default-mode `refine` are the explicit-walk versions
    with the identity enumerator (no set of names is involved) -/
theorem mergeDomainList_walks_first_occurrence_order : mergeDomainListE id = mergeDomainList := rfl

theorem refine_default_walks_first_occurrence_order (env : Env) : refineMergeE id env = refine env false := rfl

/-- H: the merged hits start at pairwise different positions.  Then any walk over the profiles
    (e.g. a set of names under any hash seed) gives the same merged list -/
theorem mergeDomainListE_invariant_partial (e₁ e₂ : List Int → List Int) (h₁ : ∀ l, (e₁ l).Perm l) (h₂ : ∀ l, (e₂ l).Perm l)
    (env : Env) (domains : List Hit)
    (hd : ∀ a ∈ (firstOcc (domains.map (·.prof))).flatMap (mergedOfProfile env domains),
          ∀ b ∈ (firstOcc (domains.map (·.prof))).flatMap (mergedOfProfile env domains), a.qs = b.qs → a = b) :
    mergeDomainListE e₁ env domains = mergeDomainListE e₂ env domains :=
  mergeDomainListE_eq_of_perm h₁ h₂ env domains hd

/-- without H it is false, and it matters: profiles 0 and 3 hit `[0,100)` with the same score,
    profile 0 has a second fragment; walking the profiles as a set keeps a different hit than
    walking them in the other order — the code's walk gives profile 0's hit -/
theorem mergeDomainList_set_walk_witness :
    refineMergeE id C13.exEnv [⟨0, 0, 100, 1, 300⟩, ⟨3, 0, 100, 1, 300⟩, ⟨0, 300, 310, 1, 100⟩] ≠
      refineMergeE List.reverse C13.exEnv [⟨0, 0, 100, 1, 300⟩, ⟨3, 0, 100, 1, 300⟩, ⟨0, 300, 310, 1, 100⟩] ∧
    refine C13.exEnv false [⟨0, 0, 100, 1, 300⟩, ⟨3, 0, 100, 1, 300⟩, ⟨0, 300, 310, 1, 100⟩] = [⟨0, 0, 100, 1, 300⟩] := by
  decide

/-! ## stage `uniqueProtoclusters` (Region.get_unique_protoclusters, fix D54) -/

/-- the full sentence -/
def UniqueProtoclustersInvariant : Prop :=
  ∀ (cross : Bool) (L : Int), EnumerationInvariant (uniqueProtoclusters cross L)

/-- it is false when two *different* member protoclusters agree on `(start, −len, product, core start,
    core end)`: the stable sort leaves them in enumeration order -/
theorem uniqueProtoclusters_key_tie_witness : ¬ UniqueProtoclustersInvariant := by
  intro h
  have := h false 0 [⟨10, 70, 1, 30, 60, 1⟩, ⟨10, 70, 1, 30, 60, 2⟩] [⟨10, 70, 1, 30, 60, 2⟩, ⟨10, 70, 1, 30, 60, 1⟩] (List.Perm.swap _ _ _)
  revert this
  decide

/-- H: no two member protoclusters agree on the key.  Then every enumeration of the set gives the
    same list, for regions on a line and regions spanning the origin alike -/
theorem uniqueProtoclusters_invariant_partial (cross : Bool) (L : Int) :
    EnumerationInvariantOn (KeyInj cross L) (uniqueProtoclusters cross L) :=
  fun _ _ inj h => uniqueProtoclusters_perm inj h

/-- the result is the canonical listing of the members … -/
theorem uniqueProtoclusters_canonical (cross : Bool) (L : Int) (enum : List Proto) :
    canonicalBy (protoKey cross L) tripleLt enum (uniqueProtoclusters cross L enum) = true :=
  sortBy_canonical (protoKey cross L) tripleLt keyLe tripleLt_false_iff keyLe_total keyLe_trans enum

/-- … and under H any output that meets the executable spec *is* the model's output -/
theorem uniqueProtoclusters_spec_determines (cross : Bool) (L : Int) (members out : List Proto)
    (inj : KeyInj cross L members) (h : canonicalBy (protoKey cross L) tripleLt members out = true) :
    out = uniqueProtoclusters cross L members :=
  canonical_listing_unique (protoKey cross L) members out inj h

/-- the scope predicate is decidable: for a duplicate-free enumeration `hasKeyTie = false` is H -/
theorem uniqueProtoclusters_scope_decidable (cross : Bool) (L : Int) (l : List Proto) (hn : l.Nodup) :
    hasKeyTie (protoKey cross L) l = false ↔ KeyInj cross L l :=
  hasKeyTie_false_iff (protoKey cross L) l hn

/-- D54: before the fix a region not spanning the origin sorted by `(start, −len)` only; two
    protoclusters of *different products* on the same coordinates (H holds!) came out in
    enumeration order -/
theorem uniqueProtoclustersOld_not_invariant :
    ∃ l₁ l₂ : List Proto, l₁.Perm l₂ ∧ hasKeyTie (protoKey false 0) l₁ = false ∧
      uniqueProtoclustersOld l₁ ≠ uniqueProtoclustersOld l₂ ∧
      uniqueProtoclusters false 0 l₁ = uniqueProtoclusters false 0 l₂ :=
  ⟨[⟨10, 70, 1, 30, 60, 1⟩, ⟨10, 70, 2, 30, 60, 2⟩], [⟨10, 70, 2, 30, 60, 2⟩, ⟨10, 70, 1, 30, 60, 1⟩], List.Perm.swap _ _ _, by decide, by decide, by decide⟩

/-- H stated on the fields the key reads: no two members agree on start, length, product and core
    (coordinates inside the record for an origin-spanning region) — the shift over the origin never
    merges two keys -/
theorem uniqueProtoclusters_invariant_of_fields_partial (cross : Bool) (L : Int) (l₁ l₂ : List Proto)
    (h : FieldsInj l₁) (hr : cross = true → ∀ p ∈ l₁, 0 ≤ p.start ∧ p.start < L) (hp : l₁.Perm l₂) :
    uniqueProtoclusters cross L l₁ = uniqueProtoclusters cross L l₂ :=
  uniqueProtoclusters_perm (keyInj_of_fieldsInj h hr) hp

/-- the shape the property forbids after the origin of an origin-spanning region: a tie-break
    computed from the protocluster's own extent instead of its core does not separate two
    protoclusters of one product covering the same area — they come out in enumeration order; the
    code's key gives one order -/
theorem uniqueProtoclustersOwnExtent_not_invariant :
    ∃ l₁ l₂ : List Proto, l₁.Perm l₂ ∧ hasKeyTie (protoKey true 1000) l₁ = false ∧
      uniqueProtoclustersOwnExtent true 1000 l₁ ≠ uniqueProtoclustersOwnExtent true 1000 l₂ ∧
      uniqueProtoclusters true 1000 l₁ = uniqueProtoclusters true 1000 l₂ :=
  ⟨[⟨950, 100, 0, 960, 990, 0⟩, ⟨10, 50, 1, 14, 22, 2⟩, ⟨10, 50, 1, 13, 21, 1⟩],
   [⟨950, 100, 0, 960, 990, 0⟩, ⟨10, 50, 1, 13, 21, 1⟩, ⟨10, 50, 1, 14, 22, 2⟩],
   (List.Perm.swap _ _ _).cons _, by decide, by decide, by decide⟩

/-- D64: between D54 and D64 the key stopped at the product; two protoclusters of one product on the
    same coordinates with different cores (sideloaded annotations) came out in enumeration order;
    with the core in the key they do not -/
theorem uniqueProtoclustersNoCore_not_invariant :
    ∃ l₁ l₂ : List Proto, l₁.Perm l₂ ∧ hasKeyTie (protoKey false 0) l₁ = false ∧
      uniqueProtoclustersNoCore l₁ ≠ uniqueProtoclustersNoCore l₂ ∧
      uniqueProtoclusters false 0 l₁ = uniqueProtoclusters false 0 l₂ :=
  ⟨[⟨10, 70, 1, 30, 60, 1⟩, ⟨10, 70, 1, 20, 40, 2⟩], [⟨10, 70, 1, 20, 40, 2⟩, ⟨10, 70, 1, 30, 60, 1⟩],
   List.Perm.swap _ _ _, by decide, by decide, by decide⟩

/-- the numbers under which the `areas` JSON lists a region's protoclusters and under which its
    candidate clusters refer to them ("same numbering") do not depend on how the set iterates -/
theorem areasProtoclusterNumbers_invariant_partial (cross : Bool) (L : Int) (candidates : List (List Proto)) :
    EnumerationInvariantOn (KeyInj cross L) (fun enum => areasProtoclusterNumbers cross L enum candidates) :=
  fun l₁ l₂ inj h => by simp only [areasProtoclusterNumbers, uniqueProtoclusters_perm inj h]

/-! ## stages writing out sets of names (fixes D51, D51b, D53) -/

/-- `CDSResults.to_json`: the "definition_domains" lists do not depend on how the sets iterate -/
theorem definitionDomainsJson_invariant (d₁ d₂ : List (Int × List Int)) (h : SameDictOfSets d₁ d₂) :
    definitionDomainsJson d₁ = definitionDomainsJson d₂ :=
  definitionDomainsJson_same h

/-- D51: `list(set)` is the iteration order itself (two-element witness) -/
theorem definitionDomainsJsonOld_not_invariant :
    ∃ d₁ d₂ : List (Int × List Int), SameDictOfSets d₁ d₂ ∧ definitionDomainsJsonOld d₁ ≠ definitionDomainsJsonOld d₂ :=
  ⟨[(0, [1, 2])], [(0, [2, 1])], .cons ⟨rfl, List.Perm.swap _ _ _⟩ .nil, by decide⟩

/-- `CDSResults.annotate`: the gene-function annotations (their order is the order of the
    `gene_functions` qualifier in the GenBank file) do not depend on how the sets iterate -/
theorem annotate_invariant (existing : List GeneFn) (prevIds domains : List Int) (d₁ d₂ : List (Int × List Int))
    (h : SameDictOfSets d₁ d₂) : annotate existing prevIds d₁ domains = annotate existing prevIds d₂ domains :=
  annotate_same existing prevIds domains h

/-- … from the results' own domain list (`SecMetQualifier.add_domains` included) -/
theorem annotateFull_invariant (existing : List GeneFn) (prevIds newDomains : List Int) (d₁ d₂ : List (Int × List Int))
    (h : SameDictOfSets d₁ d₂) : annotateFull existing prevIds d₁ newDomains = annotateFull existing prevIds d₂ newDomains :=
  annotate_same existing prevIds _ h

/-- D51b: before the fix the CORE annotations were added in iteration order -/
theorem annotateOld_not_invariant :
    ∃ d₁ d₂ : List (Int × List Int), SameDictOfSets d₁ d₂ ∧ annotateOld [] [] d₁ [1, 2] ≠ annotateOld [] [] d₂ [1, 2] :=
  ⟨[(0, [1, 2])], [(0, [2, 1])], .cons ⟨rfl, List.Perm.swap _ _ _⟩ .nil, by decide⟩

/-- `run_on_record`: "enabled_types" of the module's JSON (D53: it was `list(set)`) -/
theorem enabledTypes_invariant : EnumerationInvariant enabledTypes :=
  fun _ _ h => sortedNames_perm h

/-! ## stage `filterResults` (cluster_prediction.filter_results, fix D55) -/

/-- the best hit of an overlap group does not depend on how the group set iterates (distinct
    objects sit at distinct positions of the gene's hit list) — equal scores included -/
theorem bestOfGroup_invariant :
    EnumerationInvariantOn (fun l => ∀ a ∈ l, ∀ b ∈ l, a.uid = b.uid → a = b) bestOfGroup :=
  fun _ _ inj h => bestOfGroup_perm inj h

/-- the whole function for one gene: whatever order each group set is iterated in (to pick the
    best and to delete the rest), the surviving hits — or the failing assertion — are the same -/
theorem filterResults_enumeration_invariant (e₁ e₂ : List FHit → List FHit) (h₁ : Enumerates e₁) (h₂ : Enumerates e₂)
    (eqs : List (List Int)) (hits : List FHit) (hu : UidInj hits) :
    filterResultsE e₁ eqs hits = filterResultsE e₂ eqs hits := by
  simp only [filterResultsE, foldl_filterPassE_same h₁ h₂ eqs hits hu]

/-- before D55 (`best = list(group)[0]`, first strictly better hit in iteration order):
    H: no two different hits of the group have the same bitscore ⇒ invariant … -/
theorem bestOfGroupOld_invariant_partial : EnumerationInvariantOn NoScoreTies bestOfGroupOld :=
  fun _ _ hn h => groupBest_perm_of_no_ties hn h

/-- … and with a tie the survivor is whichever hit the set yields first -/
theorem bestOfGroupOld_tie_witness : ¬ EnumerationInvariant bestOfGroupOld := by
  intro h
  have := h [⟨0, 0, 0, 100, 300⟩, ⟨1, 1, 10, 110, 300⟩] [⟨1, 1, 10, 110, 300⟩, ⟨0, 0, 0, 100, 300⟩] (List.Perm.swap _ _ _)
  revert this
  decide

/-! ## stage `build_results`: genes of pre-existing subregions outside every protocluster -/

/-- `cds_results_outside_clusters` (the "outside_protoclusters" list of the saved JSON) is built by
    walking each subregion's genes in position order; the set `cdses_with_annotations` is only asked
    for membership, so however it iterates — any two enumerations with the same members, repeats
    allowed — the list is the same -/
theorem outsideResults_enumeration_invariant (hasDomains : Int → Bool) (subregions : List (List Int))
    (a₁ a₂ : List Int) (h : ∀ x, x ∈ a₁ ↔ x ∈ a₂) :
    outsideResults hasDomains a₁ subregions = outsideResults hasDomains a₂ subregions :=
  outsideResults_congr hasDomains subregions h

/-- the code is the set-difference loop with the identity enumerator on this layout, and the shape
    the property forbids (`for cds in set(subregion.cds_children).difference(…)`) follows the set's
    iteration order: genes 1, 2, 3 in one subregion, gene 2 already annotated -/
theorem outsideResults_set_walk_witness :
    outsideResultsSetE id (fun _ => true) [2] [[1, 2, 3]] = outsideResults (fun _ => true) [2] [[1, 2, 3]] ∧
    outsideResults (fun _ => true) [2] [[1, 2, 3]] = [1, 3] ∧
    outsideResultsSetE List.reverse (fun _ => true) [2] [[1, 2, 3]] = [3, 1] := by decide

/-! ## stage `sideloadByCds`: `--sideload-by-cds tag,tag,…` -/

/-- the subregions are created in the order of the tags on the command line: the labels of the
    result are exactly the known tags, in input order (repeats kept) — a function of the input LIST,
    no set of names is walked -/
theorem subregionsByCds_follow_the_tag_list (circular : Bool) (L pad : Int) (lookup : Int → Option (Int × Int))
    (markers : List Int) :
    (subregionsByCds circular L pad lookup markers).map (·.2.2) = markers.filter fun n => (lookup n).isSome :=
  subregionsByCds_labels circular L pad lookup markers

/-- walking `set(cds_markers)` instead makes the list follow the string hash: two tags on a 5 kb contig
    with 20 kb padding (both subregions cover the whole contig and tie), in the two possible orders -/
theorem subregionsByCds_set_walk_witness :
    subregionsByCds false 5000 20000 (fun n => if n = 0 then some (1000, 1300) else if n = 1 then some (3000, 3300) else none) [0, 1] =
      [(0, 5000, 0), (0, 5000, 1)] ∧
    subregionsByCds false 5000 20000 (fun n => if n = 0 then some (1000, 1300) else if n = 1 then some (3000, 3300) else none) [1, 0] =
      [(0, 5000, 1), (0, 5000, 0)] := by decide

/-! ## stage `getRuleset`: the rule subset options of hmm_detection -/

/-- `--hmmdetection-limit-to-rule-names / -categories` arrive as sets that are only asked for
    membership: however they iterate (any two enumerations with the same members, repeats allowed —
    i.e. also however the user ordered or repeated the names), the restricted rule list, and with it
    the order in which the rules are applied, is the same -/
theorem restrictRules_enumeration_invariant (rules : List (Int × Int)) (n₁ n₂ c₁ c₂ : List Int)
    (hn : ∀ x, x ∈ n₁ ↔ x ∈ n₂) (hc : ∀ x, x ∈ c₁ ↔ x ∈ c₂) :
    restrictRules rules n₁ c₁ = restrictRules rules n₂ c₂ :=
  restrictRules_congr rules hn hc

/-- the restricted rules keep the order of the rule files -/
theorem restrictRules_keeps_file_order (rules : List (Int × Int)) (n c : List Int) :
    (restrictRules rules n c).Sublist rules :=
  restrictRules_sublist rules n c

/-- … and so is `enabled_types` of the saved results -/
theorem enabledTypesOf_enumeration_invariant (rules : List (Int × Int)) (n₁ n₂ c₁ c₂ : List Int)
    (hn : ∀ x, x ∈ n₁ ↔ x ∈ n₂) (hc : ∀ x, x ∈ c₁ ↔ x ∈ c₂) :
    enabledTypesOf rules n₁ c₁ = enabledTypesOf rules n₂ c₂ := by
  simp only [enabledTypesOf, restrictRules_congr rules hn hc]

/-- five rules in file order; names {4, 1, 3} given in two orders with a repeat, categories {7} -/
example : restrictRules [(3, 7), (1, 7), (5, 8), (4, 9), (2, 7)] [4, 1, 3] [7] = [(3, 7), (1, 7)] ∧
    restrictRules [(3, 7), (1, 7), (5, 8), (4, 9), (2, 7)] [3, 3, 1, 4] [7, 7] = [(3, 7), (1, 7)] ∧
    enabledTypesOf [(3, 7), (1, 7), (5, 8), (4, 9), (2, 7)] [4, 1, 3] [] = [1, 3, 4] := by decide

/-! ## stage `writeRecord` (Feature.to_biopython + Record.to_biopython → GenBank / JSON) -/

/-- no hash-ordered container reaches the output order: the features are emitted from a stable
    sort of the record's feature lists, every feature's qualifiers sorted by key and its notes
    sorted — so the output is the same however the qualifier dicts were filled and the notes were
    collected -/
theorem writeRecord_invariant (g₁ g₂ : List (List Feat)) (h : Pointwise (Pointwise SameFeature) g₁ g₂) :
    writeRecord g₁ = writeRecord g₂ :=
  writeRecord_same h

/-- what the writer does *not* repair: features with equal `(start, length)` keep the order of the
    record's lists, so those lists themselves must be built deterministically (that is what the
    stage theorems above and those of C03/C05/C06 are for) -/
theorem writeRecord_keeps_list_order_of_ties :
    writeRecord [[⟨0, 9, false, [(1, [1])], []⟩, ⟨0, 9, false, [(1, [2])], []⟩]] ≠
    writeRecord [[⟨0, 9, false, [(1, [2])], []⟩, ⟨0, 9, false, [(1, [1])], []⟩]] := by decide

/-! ## non-vacuity -/

/-- D11's shape through the whole dict: two genes, equal starts and scores, sets enumerated in
    different orders -/
example : refineAll C13.exEnv false [(0, [⟨0, 0, 100, 1, 500⟩, ⟨1, 0, 100, 1, 500⟩, ⟨3, 0, 100, 1, 500⟩]), (1, [⟨1, 0, 50, 1, 500⟩, ⟨0, 0, 50, 1, 500⟩])] =
    [(0, [⟨0, 0, 100, 1, 500⟩]), (1, [⟨0, 0, 50, 1, 500⟩])] ∧
    refineAll C13.exEnv false [(0, [⟨3, 0, 100, 1, 500⟩, ⟨0, 0, 100, 1, 500⟩, ⟨1, 0, 100, 1, 500⟩]), (1, [⟨0, 0, 50, 1, 500⟩, ⟨1, 0, 50, 1, 500⟩])] =
    [(0, [⟨0, 0, 100, 1, 500⟩]), (1, [⟨0, 0, 50, 1, 500⟩])] := by decide
/-- three protoclusters on identical coordinates, products 2, 0, 1: listed by product, whatever
    the enumeration; an origin-spanning region of a 1000-base record lists the pre-origin member first -/
example : uniqueProtoclusters false 0 [⟨10, 70, 2, 30, 60, 0⟩, ⟨10, 70, 0, 30, 60, 1⟩, ⟨10, 70, 1, 30, 60, 2⟩] =
    [⟨10, 70, 0, 30, 60, 1⟩, ⟨10, 70, 1, 30, 60, 2⟩, ⟨10, 70, 2, 30, 60, 0⟩] := by decide
example : uniqueProtoclusters true 1000 [⟨5, 70, 0, 25, 55, 0⟩, ⟨900, 150, 1, 920, 950, 1⟩, ⟨950, 80, 0, 970, 1000, 2⟩] =
    [⟨900, 150, 1, 920, 950, 1⟩, ⟨950, 80, 0, 970, 1000, 2⟩, ⟨5, 70, 0, 25, 55, 0⟩] := by decide
/-- twins after the origin of an origin-spanning region (one product, one area): ordered by core -/
example : uniqueProtoclusters true 1000 [⟨10, 50, 1, 14, 22, 2⟩, ⟨950, 100, 0, 960, 990, 0⟩, ⟨10, 50, 1, 13, 21, 1⟩] =
    [⟨950, 100, 0, 960, 990, 0⟩, ⟨10, 50, 1, 13, 21, 1⟩, ⟨10, 50, 1, 14, 22, 2⟩] := by decide
example : KeyInj false 0 [⟨10, 70, 2, 30, 60, 0⟩, ⟨10, 70, 0, 30, 60, 1⟩, ⟨10, 70, 1, 30, 60, 2⟩] :=
  (hasKeyTie_false_iff _ _ (by decide)).mp (by decide)
/-- two products, sets of two and three names -/
example : definitionDomainsJson [(1, [5, 3]), (0, [2, 9, 4])] = [(1, [3, 5]), (0, [2, 4, 9])] := by decide
/-- CORE annotations per product in name order, an equal existing annotation is not repeated,
    domains that defined nothing become ADDITIONAL -/
example : annotate [⟨true, 3, some 1⟩] [] [(1, [5, 3]), (0, [5])] [3, 5, 7] =
    [⟨true, 3, some 1⟩, ⟨true, 5, some 1⟩, ⟨true, 5, some 0⟩, ⟨false, 7, none⟩] := by decide
/-- three hits with equal scores overlapping pairwise: the first of the gene's list survives,
    whichever way the group set is enumerated -/
example : filterResultsE id [[0, 1]] [⟨0, 0, 0, 100, 300⟩, ⟨1, 1, 10, 110, 300⟩, ⟨2, 3, 20, 120, 300⟩] =
    some [⟨0, 0, 0, 100, 300⟩] ∧
    filterResultsE List.reverse [[0, 1]] [⟨0, 0, 0, 100, 300⟩, ⟨1, 1, 10, 110, 300⟩, ⟨2, 3, 20, 120, 300⟩] =
    some [⟨0, 0, 0, 100, 300⟩] := by decide
example : Enumerates List.reverse := fun g => List.reverse_perm g
/-- a source feature and a gene on the same coordinates, qualifiers filled in different orders -/
example : writeRecord [[⟨0, 9, true, [(3, [1]), (2, [7])], []⟩], [⟨0, 9, false, [(5, [1]), (1, [2])], [4, 3]⟩]] =
    [((0, 9, true), [(2, [7]), (3, [1])]), ((0, 9, false), [(0, [3, 4]), (1, [2]), (5, [1])])] := by decide

/-! ## area formation: `create_candidates_from_protoclusters` (C05's model `ASV.CC`) -/
section areas
open ASV.CC

/-- `_sorted_protoclusters` — the function every set of protoclusters in formation.py goes through
    before it is iterated — gives one list for all enumerations of the set.
    H (`TieInj`): no two different members agree on `(product, core start, core end)`. -/
theorem sortedProtoclusters_invariant_partial : EnumerationInvariantOn TieInj sortProtos :=
  fun _ _ inj h => sortProtos_eq_of_perm inj h

/-- the ORDERED result of candidate formation (kinds, members in constructor order, locations, the
    errors too) is a function of the multiset of protoclusters supplied: any permutation of the
    input list gives the identical output list.  H as above. -/
theorem formation_order_is_function_of_multiset_partial (ps qs : List CC.Proto) (wrap : Option Int)
    (inj : TieInj ps) (h : ps.Perm qs) : formation ps wrap = formation qs wrap :=
  formation_eq_of_perm wrap inj h

/-- without H it is false: two protoclusters equal in coordinates, core and product keep the
    order in which they were supplied -/
theorem formation_tie_key_witness :
    ∃ ps qs : List CC.Proto, ps.Perm qs ∧ ps.Nodup ∧
      candSummary (formation ps none) ≠ candSummary (formation qs none) :=
  ⟨[⟨0, .simple ⟨80, 130, .fwd⟩, .simple ⟨90, 120, .fwd⟩, [], "a"⟩, ⟨1, .simple ⟨80, 130, .fwd⟩, .simple ⟨90, 120, .fwd⟩, [], "a"⟩],
   [⟨1, .simple ⟨80, 130, .fwd⟩, .simple ⟨90, 120, .fwd⟩, [], "a"⟩, ⟨0, .simple ⟨80, 130, .fwd⟩, .simple ⟨90, 120, .fwd⟩, [], "a"⟩],
   List.Perm.swap _ _ _, by decide, by decide +kernel⟩

/-- the final loop of the code is the sorted one: C05's `formation` is `formationE` with the
    `singles` set iterated in the model's own (insertion) order -/
theorem formation_final_loop_is_sorted : formationE id = formation := formationE_id

/-- … and however the `singles` set of promoted protoclusters is iterated (any enumerator of sets
    of objects: any memory layout), the candidates, their order and their numbering are the same.
    H: distinct protoclusters, `TieInj`. -/
theorem formation_singles_enumeration_invariant_partial (e₁ e₂ : List CC.Proto → List CC.Proto)
    (h₁ : EnumeratesProtos e₁) (h₂ : EnumeratesProtos e₂) (ps : List CC.Proto) (wrap : Option Int)
    (hn : ps.Nodup) (inj : TieInj ps) : formationE e₁ ps wrap = formationE e₂ ps wrap :=
  formationE_eq h₁ h₂ wrap hn inj

/-- a chemical hybrid (T1PKS + NRPS sharing gene 1) and two protoclusters on identical coordinates
    whose cores overlap the hybrid's core without lying inside it: both are promoted into the hybrid
    and tracked in the `singles` set only -/
def promotedPair : List CC.Proto :=
  [⟨0, .simple ⟨100, 700, .fwd⟩, .simple ⟨300, 500, .fwd⟩, [0, 1], "T1PKS"⟩,
   ⟨1, .simple ⟨200, 1000, .fwd⟩, .simple ⟨400, 800, .fwd⟩, [1, 2], "NRPS"⟩,
   ⟨2, .simple ⟨600, 940, .fwd⟩, .simple ⟨700, 840, .fwd⟩, [], "terpene"⟩,
   ⟨3, .simple ⟨600, 940, .fwd⟩, .simple ⟨720, 820, .fwd⟩, [], "RiPP-like"⟩]

/-- the shape the property forbids (the loop without the re-sort): the order of the SINGLE
    candidates — which becomes candidate 2 and which 3 — follows the iteration order of the set;
    the code's loop gives one answer on the same input -/
theorem formation_unsorted_singles_witness :
    candSummary (formationUnsortedE id promotedPair none) ≠ candSummary (formationUnsortedE List.reverse promotedPair none) ∧
    candSummary (formationE id promotedPair none) = candSummary (formationE List.reverse promotedPair none) ∧
    candSummary (formationE id promotedPair none) =
      some [(.hybrid, [0, 1, 3, 2]), (.single, [3]), (.single, [2])] := by decide +kernel

/-! ## area formation: `Record.create_regions` (C06's model `ASV.Regions`) -/
open ASV.Regions

/-- the merge of the last section into the first over the origin takes the areas in LIST order:
    C06's `sectionsOf` is `sectionsOfE` with the identity enumerator (no set is involved) -/
theorem create_regions_merge_is_list_order (wrap : Option Int) (cands subs : List Regions.Feat) :
    sectionsOfE id wrap cands subs = sectionsOf wrap cands subs :=
  sectionsOf_is_list_order wrap cands subs

/-- the ORDERED sections (= regions, each with its areas in order) are a function of the multiset
    of candidate clusters and subregions.  H (`SeparatingKey`): on these areas `CDSCollection.__lt__`
    is the strict order of a key that separates them. -/
theorem create_regions_order_is_function_of_multiset_partial (wrap : Option Int) (key : Regions.Feat → Int × Int)
    (c₁ s₁ c₂ s₂ : List Regions.Feat) (h : SeparatingKey key (c₁ ++ s₁)) (hp : (c₁ ++ s₁).Perm (c₂ ++ s₂)) :
    sectionsOf wrap c₁ s₁ = sectionsOf wrap c₂ s₂ := by
  rw [← sectionsOf_is_list_order, ← sectionsOf_is_list_order]
  exact sectionsOfE_eq_of_perm id wrap h hp

/-- on a linear record H is "no two areas have the same coordinates" -/
theorem create_regions_order_on_line (len : Int) (c₁ s₁ c₂ s₂ : List Regions.Feat)
    (hl : ∀ a ∈ c₁ ++ s₁, LineArea len a.loc)
    (hd : ∀ a ∈ c₁ ++ s₁, ∀ b ∈ c₁ ++ s₁, lineKey a.loc = lineKey b.loc → a = b)
    (hp : (c₁ ++ s₁).Perm (c₂ ++ s₂)) : sectionsOf none c₁ s₁ = sectionsOf none c₂ s₂ :=
  create_regions_order_is_function_of_multiset_partial none _ c₁ s₁ c₂ s₂ (separatingKey_line hl hd) hp

/-- the same on a CIRCULAR record as long as no area spans the origin (every area one part inside the
    record): `CDSCollection.__lt__` does not look at the wrap point, so H is again "no two areas have the
    same coordinates" — this covers the merge of the last section into the first over the origin -/
theorem create_regions_order_without_origin_spanning_areas_partial (wrap : Option Int) (len : Int)
    (c₁ s₁ c₂ s₂ : List Regions.Feat)
    (hl : ∀ a ∈ c₁ ++ s₁, LineArea len a.loc)
    (hd : ∀ a ∈ c₁ ++ s₁, ∀ b ∈ c₁ ++ s₁, lineKey a.loc = lineKey b.loc → a = b)
    (hp : (c₁ ++ s₁).Perm (c₂ ++ s₂)) : sectionsOf wrap c₁ s₁ = sectionsOf wrap c₂ s₂ :=
  create_regions_order_is_function_of_multiset_partial wrap _ c₁ s₁ c₂ s₂ (separatingKey_line hl hd) hp

/-- a circular record of 1000 bases, three candidates that do not span the origin, supplied in two orders -/
example : sectionIds (sectionsOf (some 1000) [⟨0, .cand, .simple ⟨100, 300, .fwd⟩, [], [], []⟩, ⟨1, .cand, .simple ⟨250, 400, .fwd⟩, [], [], []⟩,
      ⟨2, .cand, .simple ⟨700, 900, .fwd⟩, [], [], []⟩] []) = some [[0, 1], [2]] ∧
    sectionIds (sectionsOf (some 1000) [⟨2, .cand, .simple ⟨700, 900, .fwd⟩, [], [], []⟩, ⟨1, .cand, .simple ⟨250, 400, .fwd⟩, [], [], []⟩,
      ⟨0, .cand, .simple ⟨100, 300, .fwd⟩, [], [], []⟩] []) = some [[0, 1], [2]] := by decide +kernel

/-- **circular records with origin-spanning areas**: all areas well-formed areas of the ring (single parts
    inside the record, or two parts meeting at the origin), none a single part covering the whole record, no two
    with the same (first base counted round from the origin, length).  Then the ORDERED regions — including the
    merge of the last section into the first over the origin — are a function of the multiset of areas. -/
theorem create_regions_order_on_ring_partial (L : Int) (c₁ s₁ c₂ s₂ : List Regions.Feat)
    (hl : ∀ a ∈ c₁ ++ s₁, RingArea L a.loc)
    (hfull : ∀ a ∈ c₁ ++ s₁, ∀ p, a.loc = .simple p → ¬ (p.lo = 0 ∧ p.hi = L))
    (hd : ∀ a ∈ c₁ ++ s₁, ∀ b ∈ c₁ ++ s₁, ringKey L a.loc = ringKey L b.loc → a = b)
    (hp : (c₁ ++ s₁).Perm (c₂ ++ s₂)) : sectionsOf (some L) c₁ s₁ = sectionsOf (some L) c₂ s₂ :=
  create_regions_order_is_function_of_multiset_partial (some L) _ c₁ s₁ c₂ s₂ (separatingKey_ring hl hfull hd) hp

/-- … and so is the record after `create_regions(candidate_clusters, subregions)` -/
theorem create_regions_state_is_function_of_multiset_partial (s : Regions.State) (key : Regions.Feat → Int × Int)
    (c₁ s₁ c₂ s₂ : List Regions.Feat) (h : SeparatingKey key (c₁ ++ s₁)) (hc : c₁.Perm c₂) (hs : s₁.Perm s₂) :
    createRegionsOf s c₁ s₁ = createRegionsOf s c₂ s₂ := by
  have hp : (c₁ ++ s₁).Perm (c₂ ++ s₂) := hc.append hs
  have e1 : c₁.isEmpty = c₂.isEmpty := by
    cases c₁ with
    | nil => rw [hc.symm.eq_nil]
    | cons a t => cases c₂ with
      | nil => exact absurd hc.eq_nil (by simp)
      | cons b u => rfl
  have e2 : s₁.isEmpty = s₂.isEmpty := by
    cases s₁ with
    | nil => rw [hs.symm.eq_nil]
    | cons a t => cases s₂ with
      | nil => exact absurd hs.eq_nil (by simp)
      | cons b u => rfl
  simp only [createRegionsOf, e1, e2,
    create_regions_order_is_function_of_multiset_partial s.wrap key c₁ s₁ c₂ s₂ h hp]

/-- a circular record of 1000 bases: candidate 0 spans the origin, 1 lies far away, 2–4 lie before
    the origin and reach candidate 0 -/
def originMerge : List Regions.Feat :=
  [⟨0, .cand, .compound [⟨970, 1000, .fwd⟩, ⟨0, 30, .fwd⟩], [], [], []⟩,
   ⟨1, .cand, .simple ⟨400, 450, .fwd⟩, [], [], []⟩,
   ⟨2, .cand, .simple ⟨800, 980, .fwd⟩, [], [], []⟩,
   ⟨3, .cand, .simple ⟨845, 985, .fwd⟩, [], [], []⟩,
   ⟨4, .cand, .simple ⟨888, 982, .fwd⟩, [], [], []⟩]

/-- the shape the property forbids (`first_areas.extend(set(last_areas).difference(first_areas))`):
    the order of the candidates inside the merged region follows the set's iteration order; the
    code's list loop gives `[0, 2, 3, 4]` -/
theorem create_regions_set_merge_witness :
    sectionIds (sectionsOfE id (some 1000) originMerge []) ≠ sectionIds (sectionsOfE List.reverse (some 1000) originMerge []) ∧
    sectionIds (sectionsOf (some 1000) originMerge []) = some [[0, 2, 3, 4], [1]] := by decide +kernel

/-- the origin-merge layout (an origin-spanning candidate, one far away, three before the origin reaching it)
    meets the hypotheses -/
example : (∀ a : Regions.Feat, a ∈ originMerge → RingArea 1000 a.loc) ∧
    (∀ a : Regions.Feat, a ∈ originMerge → ∀ p : Part, a.loc = .simple p → ¬ (p.lo = 0 ∧ p.hi = 1000)) ∧
    (∀ a : Regions.Feat, a ∈ originMerge → ∀ b : Regions.Feat, b ∈ originMerge →
      ringKey 1000 a.loc = ringKey 1000 b.loc → a = b) := by
  refine ⟨?_, ?_, ?_⟩
  · intro a ha
    simp only [originMerge, List.mem_cons, List.mem_nil_iff, or_false] at ha
    rcases ha with rfl | rfl | rfl | rfl | rfl
    · exact Or.inr ⟨970, 30, rfl, by omega, by omega, by omega⟩
    all_goals exact Or.inl ⟨_, rfl, by simp, by simp, by simp⟩
  · intro a ha p hp
    simp only [originMerge, List.mem_cons, List.mem_nil_iff, or_false] at ha
    rcases ha with rfl | rfl | rfl | rfl | rfl <;> simp at hp <;> subst hp <;> simp
  · decide

/-- non-vacuity of the hypotheses: the promoted-pair layout has distinct tie keys, and permuting
    it leaves the ordered result alone -/
example : TieInj promotedPair := by
  intro a ha b hb
  simp only [promotedPair, List.mem_cons, List.mem_nil_iff, or_false] at ha hb
  rcases ha with rfl | rfl | rfl | rfl <;> rcases hb with rfl | rfl | rfl | rfl <;> simp [tieKey]
example : candSummary (formation promotedPair.reverse none) = candSummary (formation promotedPair none) := by
  decide +kernel
example : sectionIds (sectionsOf (some 1000) originMerge.reverse []) = some [[0, 2, 3, 4], [1]] := by decide +kernel

end areas

end ASV.C17
