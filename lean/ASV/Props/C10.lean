/-
  C10 — annotated records survive GenBank and JSON round trips unchanged.
  Property theorems only; helper lemmas in ASV/Proofs/Serial*.lean.

  The model (`ASV/Model/Serial.lean`) is the layer antiSMASH owns between secmet objects and Biopython
  `SeqFeature(location, type, qualifiers)` plus the record bookkeeping; the GenBank text layer and orjson
  are Biopython's / orjson's and are exercised by the real round trips of the correspondence.
  "The same" is the view equality of `ASV/Spec/Serial.lean` (`Feat.view`, `Proto.view`, …), the
  definition the driver evaluates on the implementation's re-read records.

  Proved here for all inputs (no size bounds):
    * location text and the JSON form of a feature read back as the same location / feature
    * a codon_start adjustment undone on writing is redone exactly on reading
    * plain features, and the base-class part of genes / CDS / domains: read back with the same view,
      and written again identically (fixed point)
    * protoclusters and subregions: read back with the same view (location, core, product, tool,
      cut-off, neighbourhood, rule, category, notes, free qualifiers)
    * candidate clusters and regions: rebuilt *identically* from a record with the same children
    * record level (`numbering_roundtrip_partial`): the re-read record has the same subregions,
      protoclusters, candidate clusters and regions, in the same numbered order, with the same cross
      references — under `Rec.Scope` (the comparison used by `sorted(all_features)` is a strict weak
      order on the record's features and the area lists are in non-descending order for it; areas not
      sideloaded).  Outside `Rec.Scope` the property is false on the model and on the code
      (`kf_witness_numbers_swap`, known finding KF-C10-inconsistent-area-order).
  Left to the correspondence (see design/C10.md): sideloaded areas, the byte-identical second write of
  whole records (interleaving of classes in the file), the content of CDS / domain / module qualifiers.
-/
import ASV.Proofs.SerialRecord
import ASV.Proofs.SerialPre
import ASV.Proofs.SerialQual
import ASV.Proofs.SerialDom
import ASV.Proofs.SerialPfam
import ASV.Proofs.SerialModule
import ASV.Proofs.SerialCds
namespace ASV.C10
open ASV ASV.Serial

/-! ### text forms -/

/-- `location_from_string(str(location)) == location` (any number of parts, any strands, origin-spanning included) -/
theorem location_text_roundtrip (l : Loc) (h : l.parts ≠ []) : locFromString (locToString l) = some l :=
  locFromString_locToString l h

/-- `feature_from_json(feature_to_json(f)) == f` -/
theorem json_feature_roundtrip (b : Bio) (h : b.loc.parts ≠ []) : featureFromJson (featureToJson b) = some b := by
  simp [featureFromJson, featureToJson, locFromString_locToString b.loc h]

/-- the JSON path of a whole feature list is the identity, so reading a record from its JSON form is
    reading it from the feature list itself -/
theorem json_features_roundtrip (bs : List Bio) (h : ∀ b ∈ bs, b.loc.parts ≠ []) :
    bs.mapM (fun b => featureFromJson (featureToJson b)) = some bs := by
  induction bs with
  | nil => rfl
  | cons b rest ih =>
    simp [List.mapM_cons, json_feature_roundtrip b (h b (by simp)), ih (fun x hx => h x (List.mem_cons_of_mem _ hx))]

/-! ### codon_start -/

/-- the location written for a codon_start-adjusted gene is read back as the adjusted location
    (both strands, multi-exon and origin-spanning genes included); the error branches (codon start
    outside 1..3, a first exon that is not the outermost one of a location not crossing the origin)
    never produce a written feature.  `hbr`: the shift of at most two bases does not change whether
    the exon order reads as "crosses the origin" — true whenever exon starts are more than two bases
    apart -/
theorem codon_start_roundtrip (l l' : Loc) (c : Int) (hwf : ∀ p ∈ l.parts, p.lo ≤ p.hi)
    (hbr : bridgesOrigin l' = bridgesOrigin l)
    (h : frameshift l (c + 1) true = .ok l') : frameshift l' (c + 1) false = .ok l :=
  (frameshift_undo_redo l l' c hwf hbr h).1

/-! ### one feature through `to_biopython` / `from_biopython` -/

/-- a plain feature (`Feature.from_biopython`): same view, and the second write equals the first -/
theorem bio_roundtrip_feature (t : Bool) (f : Feat) (h : f.WF) (b : Bio) (hb : f.toBio = .ok b) :
    ∃ f', Feat.fromBio b = .ok f' ∧ f'.view t = f.view t ∧ f'.toBio = .ok b :=
  ⟨f.norm, fromBio_toBio f h b hb, view_norm t f h, by rw [toBio_norm f h]; exact hb⟩

/-- the base-class part of a feature whose class builds it itself (gene, CDS, domain, motif, module,
    source: the notes stay in the qualifier dictionary): same view, second write equals the first -/
theorem bio_roundtrip_feature_subclass (t : Bool) (f : Feat) (h : f.WF) (b : Bio) (hb : f.toBio = .ok b) (by0 : Bool) :
    ∃ f', Feat.fromBioSub b by0 = .ok f' ∧ f'.view t = f.view t ∧ f'.toBio = .ok b :=
  ⟨f.normSub, fromBioSub_toBio f h b hb by0, view_normSub t f h, by rw [toBio_normSub f h]; exact hb⟩

/-- a subregion, in or out of a record (`num`), with any contig-edge flag -/
theorem bio_roundtrip_subregion (t : Bool) (s : Sub) (h : s.WF) (hside : s.side = none) (num : Option Nat) (ce : Bool)
    (bs : List Bio) (hb : s.toBio num ce = .ok bs) :
    ∃ b, bs = [b] ∧ ∃ s', Sub.fromBio b = .ok s' ∧ s'.view t = s.view t ∧ s'.WF := by
  obtain ⟨b, e, _, _, s', h1, h2, _, h4, _⟩ := sub_roundtrip t s h hside num ce bs hb
  exact ⟨b, e, s', h1, h2, h4⟩

/-- a protocluster: two features are written, the neighbourhood feature alone rebuilds it -/
theorem bio_roundtrip_protocluster (t : Bool) (p : Proto) (h : p.WF) (hside : p.side = none) (num : Option Nat) (ce : Bool)
    (bs : List Bio) (hb : p.toBio num ce = .ok bs) :
    ∃ nb core, bs = [nb, core] ∧ core.type = "proto_core" ∧ core.loc = p.core ∧
      ∃ p', Proto.fromBio nb = .ok p' ∧ p'.view t = p.view t ∧ p'.WF := by
  obtain ⟨nb, e, _, _, p', h1, h2, _, h4, _⟩ := proto_roundtrip t p h hside num ce bs hb
  exact ⟨nb, _, e, rfl, rfl, p', h1, h2, h4⟩

/-- a candidate cluster is rebuilt identically by number from any record with the same protocluster
    locations at the same positions (in particular the re-read one), and keeps its stored number -/
theorem bio_roundtrip_candidate (r r1 : Rec) (c : Cand) (k : Nat) (bs : List Bio) (hwf : c.WF r)
    (hb : c.toBio r (some k) = .ok bs)
    (hlen : r1.len = r.len) (hcirc : r1.circular = r.circular) (hpl : r1.protos.length = r.protos.length)
    (hlocs : ∀ i (hi : i < r.protos.length) (hi' : i < r1.protos.length), r1.protos[i].feat.loc = r.protos[i].feat.loc) :
    ∃ b, bs = [b] ∧ Cand.fromBio r1 b = .ok c ∧ storedNumber b = k := by
  obtain ⟨b, e, hb', _, _⟩ := Cand.toBio_shape r c _ _ hb
  exact ⟨b, e, cand_fromBio r r1 c k b hwf hb' hlen hcirc hpl hlocs⟩

/-- a region is rebuilt identically by number from any record with the same candidate cluster and
    subregion locations at the same positions -/
theorem bio_roundtrip_region (r r1 : Rec) (g : Reg) (k : Nat) (bs : List Bio) (hwf : g.WF r)
    (hb : g.toBio r (some k) = .ok bs)
    (hcl : r1.cands.length = r.cands.length) (hsl : r1.subs.length = r.subs.length)
    (hclocs : ∀ i (hi : i < r.cands.length) (hi' : i < r1.cands.length), r1.cands[i].feat.loc = r.cands[i].feat.loc)
    (hslocs : ∀ i (hi : i < r.subs.length) (hi' : i < r1.subs.length), r1.subs[i].feat.loc = r.subs[i].feat.loc) :
    ∃ b, bs = [b] ∧ Reg.fromBio r1 b = .ok g := by
  obtain ⟨b, e, hb', _, _⟩ := Reg.toBio_shape r g _ _ hb
  exact ⟨b, e, reg_fromBio r r1 g k b hwf hb' hcl hsl hclocs hslocs⟩

/-! ### the record -/

/-- full statement (false as it stands, see `kf_witness_numbers_swap`): for every record the re-read
    record has the same area lists with the same numbering and cross references -/
def NumberingRoundtrip : Prop :=
  ∀ (t : Bool) (r : Rec) (bios : List Bio) (r' : Rec), writeRecord r = .ok bios →
    readRecord r.len r.circular bios = .ok r' →
    r'.subs.map (Sub.view t) = r.subs.map (Sub.view t) ∧ r'.protos.map (Proto.view t) = r.protos.map (Proto.view t) ∧
    r'.cands.map (Cand.view t r') = r.cands.map (Cand.view t r) ∧ r'.regs.map (Reg.view t) = r.regs.map (Reg.view t)

/-- writing a record and reading it back gives the same subregions, protoclusters, candidate clusters
    and regions, each list in the same order (hence the same numbers), with the same children by
    position (hence every cross reference by number resolves to the same feature) — for every record
    in `Rec.Scope`.  Equal coordinates are allowed (D20): the order of equal areas is kept. -/
theorem numbering_roundtrip_partial (t : Bool) (r : Rec) (H : r.Scope) (bios : List Bio) (r' : Rec)
    (hw : writeRecord r = .ok bios) (hr : readRecord r.len r.circular bios = .ok r') :
    r'.subs.map (Sub.view t) = r.subs.map (Sub.view t) ∧ r'.protos.map (Proto.view t) = r.protos.map (Proto.view t) ∧
    r'.cands.map (Cand.view t r') = r.cands.map (Cand.view t r) ∧ r'.regs.map (Reg.view t) = r.regs.map (Reg.view t) := by
  obtain ⟨h1, h2, _, h4, h5⟩ := numbering_main t r H bios r' hw hr
  exact ⟨h1, h2, h4, by rw [h5]⟩

/-- … and through the results JSON as well: the JSON form of the written features reads back as the
    written features, so the same conclusion holds for `record_to_json → record_from_json` -/
theorem numbering_roundtrip_json_partial (t : Bool) (r : Rec) (H : r.Scope) (bios bios' : List Bio) (r' : Rec)
    (hw : writeRecord r = .ok bios) (hne : ∀ b ∈ bios, b.loc.parts ≠ [])
    (hj : bios.mapM (fun b => featureFromJson (featureToJson b)) = some bios')
    (hr : readRecord r.len r.circular bios' = .ok r') :
    r'.subs.map (Sub.view t) = r.subs.map (Sub.view t) ∧ r'.protos.map (Proto.view t) = r.protos.map (Proto.view t) ∧
    r'.cands.map (Cand.view t r') = r.cands.map (Cand.view t r) ∧ r'.regs.map (Reg.view t) = r.regs.map (Reg.view t) := by
  rw [json_features_roundtrip bios hne] at hj
  cases hj
  exact numbering_roundtrip_partial t r H bios r' hw hr

/-- inserting with `bisect_right` an area that is not smaller than any area present appends it: the
    reason equal-coordinate protoclusters keep their numbers (D20) -/
theorem reinsertion_appends (lt : Proto → Proto → Bool) (x : Proto) (l : List Proto) (h : ∀ e ∈ l, lt x e = false) :
    insertAt l (bisectR lt x l) x = l ++ [x] :=
  bisectR_end lt x l h

/-- `sorted(...)` (CPython, fewer than 64 elements) returns a sorted rearrangement that keeps the order
    of elements comparing equal, whenever the comparison is a strict weak order on them -/
theorem sorted_is_stable {α : Type} (lt : α → α → Bool) (l : List α) (h : SWO lt (· ∈ l)) :
    Sorted lt (pySort lt l) ∧ (pySort lt l).Perm l ∧ ∀ a ∈ l, (pySort lt l).filter (eqv lt a) = l.filter (eqv lt a) :=
  pySort_spec l h


/-! ### non-vacuity and witnesses -/

def mkProto (lo hi clo chi : Int) (product : String) : Proto :=
  ⟨⟨.simple ⟨lo, hi, .none⟩, "protocluster", [], [], true, none⟩, .simple ⟨clo, chi, .none⟩,
   "rule-based-clusters", product, 10, 10, "rule " ++ product, "other", none⟩

/-- D20's layout: two protoclusters with identical coordinates, `prodB` numbered 1 and `prodA` numbered 2 -/
def rD20 : Rec := { len := 1000, circular := false, protos := [mkProto 50 900 100 200 "prodB", mkProto 50 900 100 200 "prodA"] }

theorem mkProto_WF (lo hi clo chi : Int) (product : String) (h : lo ≤ hi) : (mkProto lo hi clo chi product).WF := by
  refine ⟨⟨nodupNil, rfl, by simp [mkProto, Q.get?], by simp [mkProto, Q.get?], ?_, fun c l' hc _ => by cases hc⟩, rfl, rfl, rfl, by simp [mkProto, Loc.parts],
    fun _ _ => rfl, by show isExternal "rule-based-clusters" = false; decide⟩
  intro p hp
  simp [mkProto, Loc.parts] at hp
  subst hp; exact h

/-- the hypotheses of `numbering_roundtrip_partial` hold for D20's record … -/
theorem rD20_scope : rD20.Scope := by
  have hall : allEntries rD20 = [.proto 0, .proto 1] := by rfl
  refine ⟨⟨?_, ?_⟩, ?_, by simp [rD20], ?_, by simp [rD20], by simp [rD20], by simp [rD20, Sorted], ?_,
    by simp [rD20, Sorted], by simp [rD20, Sorted], by simp [rD20]⟩
  · intro a b ha hb
    rw [hall] at ha hb
    simp only [List.mem_cons, List.not_mem_nil, or_false] at ha hb
    rcases ha with rfl | rfl <;> rcases hb with rfl | rfl <;> decide
  · intro a b c ha hb hc
    rw [hall] at ha hb hc
    simp only [List.mem_cons, List.not_mem_nil, or_false] at ha hb hc
    rcases ha with rfl | rfl <;> rcases hb with rfl | rfl <;> rcases hc with rfl | rfl <;> decide
  · intro f hf; simp [rD20] at hf
  · intro p hp
    simp only [rD20, List.mem_cons, List.not_mem_nil, or_false] at hp
    rcases hp with rfl | rfl
    · exact ⟨mkProto_WF _ _ _ _ _ (by decide), rfl, by simp [inside, mkProto, Loc.start, Loc.end, Loc.parts, rD20], by simp [mkProto, Loc.parts]⟩
    · exact ⟨mkProto_WF _ _ _ _ _ (by decide), rfl, by simp [inside, mkProto, Loc.start, Loc.end, Loc.parts, rD20], by simp [mkProto, Loc.parts]⟩
  · simp only [rD20, Sorted]
    refine List.Pairwise.cons ?_ (List.Pairwise.cons (by simp) List.Pairwise.nil)
    intro b hb
    simp only [List.mem_cons, List.not_mem_nil, or_false] at hb
    subst hb
    decide

/-- … and the model does keep the numbers (`prodB` first) through the round trip -/
example : (do let bios ← writeRecord rD20; let r' ← readRecord 1000 false bios; pure (r'.protos.map (·.product)) : E (List String))
    = .ok ["prodB", "prodA"] := by rfl



def mkArea (loc core : Loc) (product : String) (nb : Int) : Proto :=
  ⟨⟨loc, "protocluster", [], [], true, none⟩, core, "rule-based-clusters", product, 10, nb, "rule " ++ product, "other", none⟩

def mkCand (loc : Loc) (kind : String) (children : List Nat) (wrap : Option Int) : Cand :=
  ⟨⟨loc, "cand_cluster", [], [], true, none⟩, kind, children, none, none, wrap⟩

/-- the known-finding witness: circular record of 300 bases, a candidate cluster crossing the origin
    (`[120:300]+[0:60]`, number 1) and one covering the whole record (`[0:300]`, number 2) -/
def rKF : Rec :=
  { len := 300, circular := true,
    protos := [mkArea (.compound [⟨240, 300, .fwd⟩, ⟨0, 60, .fwd⟩]) (.compound [⟨270, 300, .fwd⟩, ⟨0, 30, .fwd⟩]) "terpene" 30,
               mkArea (.simple ⟨75, 135, .none⟩) (.simple ⟨75, 135, .none⟩) "lanthipeptide" 0,
               mkArea (.simple ⟨120, 270, .fwd⟩) (.simple ⟨165, 225, .fwd⟩) "terpene" 45],
    cands := [mkCand (.compound [⟨120, 300, .fwd⟩, ⟨0, 60, .fwd⟩]) "chemical_hybrid" [0, 2] (some 300),
              mkCand (.simple ⟨0, 300, .fwd⟩) "interleaved" [0, 1, 2] (some 300)] }


/-- outside `Rec.Scope` the property fails: the two candidate clusters swap their numbers on reload
    (each is "smaller" than the other for `CDSCollection.__lt__`) -/
theorem kf_witness_numbers_swap :
    (do let bios ← writeRecord rKF; let r' ← readRecord 300 true bios; pure (r'.cands.map (·.kind)) : E (List String))
      = .ok ["interleaved", "chemical_hybrid"] ∧ rKF.cands.map (·.kind) = ["chemical_hybrid", "interleaved"] :=
  ⟨by rfl, by rfl⟩

theorem kf_witness_not_in_scope : ¬ rKF.Scope := by
  intro H
  have hs := H.sortedC
  have h1 := (List.pairwise_cons.1 hs).1 (mkCand (.simple ⟨0, 300, .fwd⟩) "interleaved" [0, 1, 2] (some 300)) (by simp [rKF])
  revert h1
  decide

/-! ### the location of a precursor peptide (written as leader / core / tail, rebuilt from them) -/

/-- `Prepeptide.to_biopython` cuts the gene's location into leader, core and tail (C09's
    `prepeptideSections`), writes the core's location and the other two as text;
    `Prepeptide.from_biopython` parses them and combines the three (`_combine_sections`, fixes/D107).
    For every gene location (any number of exons, either strand, origin-spanning or not) and every
    leader / tail length that leaves a core: writing succeeds, reading succeeds, and the rebuilt
    location has exactly the gene's translated bases, in transcription order. -/
theorem prepeptide_location_roundtrip (l : Loc) (hwf : ProtDna.geneWF l = true) (ld tl : Nat)
    (h : (ld : Int) + tl < l.len / 3) :
    ∃ w, preWrite l ld tl = .ok w ∧ ∃ r, preRead w = some r ∧
      ProtDna.bases r = (ProtDna.bases l).take (3 * (l.len / 3).toNat) :=
  preRead_preWrite l hwf ld tl h

/-- comparing locations "whatever the cut into parts" loses no base: the normal form used by the
    harness for the known finding KF-C10-prepeptide-location-parts has the same bases in the same order -/
theorem merge_adjoining_same_bases (l : Loc) (hv : ∀ p ∈ l.parts, p.lo ≤ p.hi) :
    ProtDna.bases (mergeAdjoining l) = ProtDna.bases l :=
  mergeAdjoining_bases l hv

/-- an origin-spanning gene on a circular record of 120 bases -/
def spanGene : Loc := .compound [⟨105, 120, .fwd⟩, ⟨0, 15, .fwd⟩]
def spanGeneRev : Loc := .compound [⟨0, 15, .rev⟩, ⟨105, 120, .rev⟩]

example : ProtDna.geneWF spanGene = true ∧ ProtDna.geneWF spanGeneRev = true := by decide
/-- non-vacuity, and more than the theorem says: here the location itself comes back, on both strands -/
example : (match preWrite spanGene 3 3 with | .ok w => preRead w | _ => none) = some spanGene := by rfl
example : (match preWrite spanGeneRev 2 4 with | .ok w => preRead w | _ => none) = some spanGeneRev := by rfl
example : (match preWrite (.simple ⟨30, 60, .rev⟩) 3 3 with | .ok w => preRead w | _ => none)
    = some (.simple ⟨30, 60, .rev⟩) := by rfl

/-- the seeded change "combine the sections in coordinate order" is refuted by the theorem: for the
    origin-spanning gene the section after the origin sorts first and the bases come out in another order -/
theorem sections_in_coordinate_order_break_it :
    ProtDna.bases (combineSections [.simple ⟨6, 15, .fwd⟩, .simple ⟨105, 114, .fwd⟩,
                                    .compound [⟨114, 120, .fwd⟩, ⟨0, 6, .fwd⟩]])
      ≠ ProtDna.bases spanGene ∧
    ProtDna.bases (combineSections [.simple ⟨105, 114, .fwd⟩, .compound [⟨114, 120, .fwd⟩, ⟨0, 6, .fwd⟩],
                                    .simple ⟨6, 15, .fwd⟩])
      = ProtDna.bases spanGene := by
  constructor
  · decide
  · decide

/-! ### the text inside the class-specific qualifiers (`ASV/Model/SerialQual.lean`) -/

/-- `_parse_format(fmt, fmt.format(*values)) == values`: the backtracking match of the expression built
    from the format string returns exactly the values that were formatted, for every format made of
    `{}` place holders and literal characters and all values that fit it (`fitsFormat`: non-empty, no
    newline, and free of the character — and of a space, if the format has one there — that follows
    the place holder in the format).  Values that do not fit can come back split elsewhere
    (`gene_function_colon_breaks_it`). -/
theorem parse_format_inverts_format (ts : List Tok) (values : Groups) (h : fitsFormat ts values = true) :
    rx ts (render ts values) = some values :=
  rx_render ts values h

/-- the format strings of the code give the item lists used in the model -/
example : fmtToks "{} ({}) {}: {}".toList = some fmt4 ∧ fmtToks "{} ({}) {}".toList = some fmt3 ∧
    fmtToks "{} (E-value: {}, bitscore: {}, seeds: {}, tool: {})".toList = some smFmt ∧
    fmtToks "{} (Da): {:.3f}".toList = some t2WeightFmt := by decide +kernel

/-- `_GeneFunctionAnnotation.from_string(str(a)) == a` for every annotation object (`Annot.wf`: what the
    constructor checks) whose tool has no `)`, whose texts have no newline and whose product has no `:`
    — or, without product, whose tool and description have no `:` (`Annot.textSafe`).
    Partial: a description with a colon and no product is outside (known finding KF-C10-gene-function-colon). -/
theorem gene_function_text_roundtrip_partial (a : Annot) (hw : a.wf = true) (hs : a.textSafe = true) :
    Annot.fromStr a.toStr = .ok a :=
  annot_text_roundtrip a hw hs

/-- the `gene_functions` qualifier of a CDS: `add_from_qualifier` on the written strings rebuilds the same
    annotations in the same order (annotations are distinct: `add` never stores a duplicate), hence the
    same `gene_kind` and the same second write -/
theorem gene_functions_qualifier_roundtrip_partial (l : List Annot) (hd : l.Nodup)
    (h : ∀ a ∈ l, a.wf = true ∧ a.textSafe = true) :
    annFromQualifier [] ((Q.get? (annQuals l) "gene_functions").getD []) = .ok l := by
  cases l with
  | nil => rfl
  | cons a l =>
    have := annFromQualifier_roundtrip (a :: l) [] h (by simpa using hd)
    simpa [annQuals, Q.get?] using this

def smcogAnnotation : Annot := ⟨.other, "smcogs", "SMCOG1000: thing", none⟩
/-- the theorem's colon hypothesis cannot be dropped, on the model as in the code (KF-C10-gene-function-colon):
    an smCOG style description comes back as a product and a shorter description -/
theorem gene_function_colon_breaks_it :
    smcogAnnotation.wf = true ∧
    (Annot.fromStr smcogAnnotation.toStr).toOption = some ⟨.other, "smcogs", "thing", some "SMCOG1000"⟩ := by
  decide +kernel

/-- non-vacuity: with and without product -/
example : (⟨.core, "rule-based-clusters", "biosynthetic (rule-based-clusters) T1PKS: PKS_KS", some "T1PKS"⟩ : Annot).wf = true ∧
    (⟨.core, "rule-based-clusters", "biosynthetic (rule-based-clusters) T1PKS: PKS_KS", some "T1PKS"⟩ : Annot).textSafe = true ∧
    (⟨.transport, "smcogs", "ABC transporter (Score 12.5)", none⟩ : Annot).wf = true ∧
    (⟨.transport, "smcogs", "ABC transporter (Score 12.5)", none⟩ : Annot).textSafe = true := by decide +kernel

/-- `SecMetQualifier.Domain.from_string(str(d)) == d` (numbers as the text Python writes for them) when the
    name has neither space nor `(`, the numbers' texts no `,`, the tool no `)` -/
theorem secmet_domain_text_roundtrip_partial (d : SMDom) (h : d.textSafe = true) : SMDom.fromStr d.toStr = .ok d :=
  smdom_text_roundtrip d h

/-- the `sec_met_domain` qualifier: domains with distinct names (`add_domains` keeps the first of each name) -/
theorem secmet_qualifier_roundtrip_partial (ds : List SMDom) (hn : (ds.map (·.name)).Nodup)
    (h : ∀ d ∈ ds, d.textSafe = true) : smFromQualifier (ds.map SMDom.toStr) = .ok ds := by
  unfold smFromQualifier
  rw [smParseAll_roundtrip ds h]
  simp only [bind, Except.bind, pure, Except.pure]
  rw [smAdd_distinct ds [] (by simpa using hn)]
  simp

example : (⟨"PKS_KS", "1.5e-20", "12.5", "25", "rule-based-clusters"⟩ : SMDom).textSafe = true := by decide +kernel

/-! ### domains and motifs (`AntismashFeature` → `Domain` → `AntismashDomain` / `CDSMotif`) -/

/-- an `aSDomain` (no registered subtype) or `CDS_motif` feature made by antiSMASH: the written feature is
    read back with the same tool, locus tag, protein location, domain name, active-site hits, domain id,
    database, detection, label, e-value and score texts and translation; the base part (location, notes,
    free qualifiers) has the same view; the re-read object satisfies the hypotheses again and writes the
    very same Biopython feature.  `Dom.WF`: what the constructors and setters guarantee, no `codon_start`,
    and free qualifiers that use none of the thirteen keys the classes write. -/
theorem bio_roundtrip_domain (t : Bool) (kind : DomKind) (d : Dom) (h : d.WF kind) (b : Bio) (hb : d.toBio = .ok b) :
    ∃ d', Dom.fromBio kind b = .ok d' ∧ d' = { d with feat := d'.feat } ∧ d'.feat.view t = d.feat.view t ∧
      d'.feat.loc = d.feat.loc ∧ d'.WF kind ∧ d'.toBio = .ok b :=
  dom_roundtrip t kind d h b hb

/-- a domain with every optional attribute set, notes and a free qualifier -/
def sampleDomain : Dom :=
  { feat := ⟨.simple ⟨30, 90, .rev⟩, "aSDomain", ["a note"], [("custom", ["x", "y"])], true, none⟩,
    tool := "nrps_pks_domains", locusTag := "ctg1_5", pStart := 10, pEnd := 30, domain := some "PKS_KS",
    asf := ["hit 1", "hit 2"], domainId := some "nrpspksdomains_ctg1_5_PKS_KS.1", database := some "nrpspksdomains.hmm",
    detection := some "hmmscan", label := some "ctg1_5_KS1", evalue := some "1.50E-20", score := some "12.5",
    translation := "MAGIC" }

/-- non-vacuity: the hypotheses hold for it (`domWFb`, the Boolean form the driver reports as scope, implies
    `Dom.WF`), it is written, and it comes back attribute by attribute -/
theorem sampleDomain_in_scope : sampleDomain.WF .asDomain := Dom.WF_of_b _ _ (by decide +kernel)
example : domWFb .asDomain sampleDomain = true ∧
    (match sampleDomain.toBio with
     | .ok b => (match Dom.fromBio .asDomain b with | .ok d' => d' == { sampleDomain with feat := d'.feat } | _ => false)
     | _ => false) = true := by decide +kernel

/-! ### the type II PKS annotation of a protocluster (`T2PKSQualifier`) -/

/-- `from_biopython_qualifiers(to_biopython_qualifiers(t)) == t`, with nothing left over: starter units always,
    elongations together with their weights or neither, product classes or none — in every combination.
    `T2.wf`: what the constructor checks, distinct weight keys (a dictionary), weight texts that fit
    `"{} (Da): {:.3f}"` (no space or `(` in the starter_elongation key; partial in that respect). -/
theorem t2pks_annotation_roundtrip_partial (t : T2) (h : t.wf = true) : T2.fromQuals t.toQuals = .ok (some t, []) :=
  t2_roundtrip t h

/-- product classes without any elongation prediction: in scope, and they come back -/
def t2ClassesOnly : T2 := ⟨["acetyl-CoA (Score: 0.0; E-value: 0.0)"], [], ["angucycline", "anthracycline"], []⟩
example : t2ClassesOnly.wf = true ∧ (T2.fromQuals t2ClassesOnly.toQuals).toOption = some (some t2ClassesOnly, []) := by
  decide +kernel
example : (⟨["s"], ["7 (Score: 1.0; E-value: 0.5)"], [], [("acetyl-CoA_7", "342.347"), ("acetyl-CoA_8", "384.384")]⟩ : T2).wf = true := by
  decide +kernel

/-! ### Pfam identifier, `db_xref` and gene ontology terms of a `PFAMDomain` -/

/-- the `description`, `db_xref` and `gene_ontologies` qualifiers `PFAMDomain.to_biopython` writes are read back
    as the same description, identifier and version and the same gene ontology terms (in the order of their ids);
    the ids stay behind in `db_xref` in sorted order.  `PfamX.wf`: constructor checks, version not 0, distinct
    ids without `:`, a qualifier object with at least one term. -/
theorem pfam_qualifiers_read_back (p : PfamX) (h : p.wf = true) :
    PfamX.read p.quals = .ok ({ p with go := p.go.map sortGo }, p.leftXref) :=
  pfam_read_quals p h

/-- the first write is a fixed point: the re-read domain writes the same three qualifiers again, in whatever
    order the gene ontology terms were attached to the original (they are written sorted both times) -/
theorem pfam_second_write_identical (p : PfamX) (h : p.wf = true) :
    ({ p with go := p.go.map sortGo } : PfamX).quals = p.quals :=
  pfam_second_write p h

/-- PF00032 with its terms in the order of the pfam2go mapping (not the order of the ids) -/
def pfamMappingOrder : PfamX :=
  ⟨"Cytochrome b(C-terminal)/b6/petD", "PF00032", some 20,
   some [("GO:0009055", "electron transfer activity"), ("GO:0016491", "oxidoreductase activity"), ("GO:0016020", "membrane")]⟩
example : pfamMappingOrder.wf = true ∧
    (Q.get? pfamMappingOrder.quals "db_xref") = some ["PF00032.20", "GO:0009055", "GO:0016020", "GO:0016491"] := by
  decide +kernel

/-! ### a sideloaded area whose tool name itself starts with "externally annotated" (fixes/D68-C10) -/

def sideNamed : Sub :=
  ⟨⟨.simple ⟨150, 210, .none⟩, "subregion", [], [], true, none⟩, "externally annotated regions v2", "x", some [("zz_extra", ["1"])]⟩
/-- the model is the repaired code: the prefix is stripped once and the area is read back (the unrepaired code starts over
    from the original feature for ever) -/
example : (match sideNamed.toBio none false with
    | .ok [b] => (match Sub.fromBio b with | .ok s => s.tool == sideNamed.tool && s.side == sideNamed.side && s.label == "x" | _ => false)
    | _ => false) = true := by decide +kernel

/-! ### the taxon of the run (`Record.from_biopython(seq_record, taxon)`) -/

/-- whether a written record can be read back, and what is read, does not depend on the taxon — bacterial or not —
    as long as no `misc_feature` needs the NCBI clean-up that only bacterial runs apply: in particular the refusal
    of an origin-spanning exon looks at the record's own topology (`linearSpan`), never at the taxon -/
theorem reading_ignores_taxon (bacteria : Bool) (len : Int) (circular : Bool) (bios : List Bio)
    (h : ∀ b ∈ bios, b.type = "misc_feature" → prefilter b = b) :
    readRecordT bacteria len circular bios = readRecord len circular bios :=
  readRecordT_eq bacteria len circular bios fun b hb => by
    by_cases hm : b.type = "misc_feature"
    · exact h b hb hm
    · exact prefilter_id b hm

/-- the numbering theorem for a run of any taxon: a record in `Rec.Scope` — circular ones with origin-spanning
    protoclusters, subregions, candidate clusters and regions included — is read back with the same areas, numbers
    and cross references whether the run is bacterial or fungal.  Partial: `Rec.Scope`, and no written
    `misc_feature` with redundant exons across the origin (those are rewritten by bacterial runs only). -/
theorem numbering_roundtrip_any_taxon_partial (bacteria t : Bool) (r : Rec) (H : r.Scope) (bios : List Bio) (r' : Rec)
    (hw : writeRecord r = .ok bios) (hclean : ∀ b ∈ bios, b.type = "misc_feature" → prefilter b = b)
    (hr : readRecordT bacteria r.len r.circular bios = .ok r') :
    r'.subs.map (Sub.view t) = r.subs.map (Sub.view t) ∧ r'.protos.map (Proto.view t) = r.protos.map (Proto.view t) ∧
    r'.cands.map (Cand.view t r') = r.cands.map (Cand.view t r) ∧ r'.regs.map (Reg.view t) = r.regs.map (Reg.view t) := by
  rw [reading_ignores_taxon bacteria _ _ bios hclean] at hr
  exact numbering_roundtrip_partial t r H bios r' hw hr

/-- a circular record of 300 bases with a protocluster across the origin -/
def rSpan : Rec :=
  { len := 300, circular := true,
    protos := [mkArea (.compound [⟨240, 300, .fwd⟩, ⟨0, 60, .fwd⟩]) (.compound [⟨270, 300, .fwd⟩, ⟨0, 30, .fwd⟩]) "terpene" 30] }
/-- non-vacuity: a non-bacterial run reads it back (the same protocluster, core across the origin), and the same
    features in a record declared linear are refused by both kinds of run -/
example : ((do let bios ← writeRecord rSpan; let r' ← readRecordT false 300 true bios; pure (r'.protos.map (·.core)) : E (List Loc)).toOption
      = some (rSpan.protos.map (·.core))) ∧
    ((do let bios ← writeRecord rSpan; readRecordT false 300 false bios : E Rec).toOption = none) ∧
    ((do let bios ← writeRecord rSpan; readRecordT true 300 false bios : E Rec).toOption = none) := by decide +kernel

/-! ### the clean-up of `misc_feature` locations on reading (`Record.from_biopython`, bacterial runs) -/

/-- whatever the feature, the clean-up only ever drops exons contained in others: the exons that remain are in the
    order they were written in — no feature has its exon order changed by being read -/
theorem misc_feature_cleanup_keeps_exon_order (b : Bio) : (prefilter b).loc.parts.Sublist b.loc.parts :=
  prefilter_sublist b

/-- a reverse-strand `misc_feature` across the origin of a 2000-base record, `complement(join(1941..2000,1..150))` -/
def miscAcrossOrigin : Loc := .compound [⟨0, 150, .rev⟩, ⟨1940, 2000, .rev⟩]
/-- non-vacuity, and the seeded variant refuted: the location does bridge the origin, the clean-up as written leaves it
    alone, while the look with `allow_reversing=True` would answer "linear" and leave the two exons swapped -/
theorem reversing_look_would_swap_exons :
    bridgesOrigin miscAcrossOrigin = true ∧
    (prefilter ⟨miscAcrossOrigin, "misc_feature", []⟩).loc = miscAcrossOrigin ∧
    bridgesOriginReversing miscAcrossOrigin = (false, .compound [⟨1940, 2000, .rev⟩, ⟨0, 150, .rev⟩]) := by decide +kernel

/-! ### `PFAM_domain` features -/

/-- a `PFAMDomain` made by antiSMASH: the written feature is read back with the same Pfam data (description, identifier,
    version, gene ontology terms as a mapping) and the same `Domain` attributes; the gene ontology ids that
    `from_biopython` leaves in `db_xref` become a free qualifier of the re-read feature — exactly `p.x.leftXref`, the
    sorted ids (the empty list without terms) — and apart from that qualifier the base feature has the same view.
    `Pfam.WF`: `Dom.WF` for the `Domain` layers, `PfamX.wf`, and free qualifiers that use none of the three Pfam keys. -/
theorem bio_roundtrip_pfam_domain (t : Bool) (p : Pfam) (h : p.WF) (b : Bio) (hb : p.toBio = .ok b) :
    ∃ p', Pfam.fromBio b = .ok p' ∧ p'.x = { p.x with go := p.x.go.map sortGo } ∧ p'.dom = { p.dom with feat := p'.dom.feat } ∧
      Q.get? p'.dom.feat.quals "db_xref" = some p.x.leftXref ∧
      ({ p'.dom.feat with quals := Q.erase p'.dom.feat.quals "db_xref" } : Feat).view t = p.dom.feat.view t ∧
      p'.dom.feat.loc = p.dom.feat.loc :=
  pfam_roundtrip t p h b hb

/-- PF00032 with its terms in mapping order on a reverse-strand feature with a note -/
def samplePfam : Pfam :=
  ⟨{ feat := ⟨.simple ⟨30, 90, .rev⟩, "PFAM_domain", ["a note"], [], true, none⟩, tool := "cluster_hmmer", locusTag := "ctg1_5",
     pStart := 10, pEnd := 30, domain := some "Cytochrom_B_C", domainId := some "cluster_hmmer_ctg1_5_0001",
     database := some "Pfam-A.hmm", detection := some "hmmscan", evalue := some "1.50E-20", score := some "12.5",
     translation := "MAGIC" }, pfamMappingOrder⟩
/-- non-vacuity: in scope (`domWFb` implies `Dom.WF`), written, and read back with the sorted ids left in `db_xref` -/
theorem samplePfam_in_scope : samplePfam.WF :=
  ⟨Dom.WF_of_b _ _ (by decide +kernel), by decide +kernel, by decide +kernel⟩
example : (match samplePfam.toBio with
    | .ok b => (match Pfam.fromBio b with
      | .ok p' => Q.get? p'.dom.feat.quals "db_xref" == some ["GO:0009055", "GO:0016020", "GO:0016491"] && p'.dom.tool == "cluster_hmmer"
      | _ => false)
    | _ => false) = true := by decide +kernel

/-! ### `aSModule` features (C14's model of the module qualifiers + the generic feature part) -/

/-- a module feature made by antiSMASH, in a record that knows its domains by name: the written feature is read back
    as the same module (domains, type, complete / starter / final / iterative — C14's `feature_roundtrip`) with the same
    base-feature view (location, notes, free qualifiers).  The reading modelled is the repaired one (fixes/D71-C10:
    `Module.from_biopython` hands its leftovers to `Feature.from_biopython`; the unrepaired code drops notes and free
    qualifiers).  `ModF.WF`: made by antiSMASH, no codon start, free qualifiers use none of the module keys, what
    `Module.__init__` checks, every domain known to the record under its name. -/
theorem bio_roundtrip_module (t : Bool) (known : String → Option Modules.FDomain) (f : ModF) (h : f.WF known) (b : Bio)
    (hb : f.toBio = .ok b) :
    ∃ f', ModF.fromBio known b = .ok f' ∧ f'.m = f.m ∧ f'.feat.view t = f.feat.view t ∧ f'.feat.loc = f.feat.loc ∧
      f'.feat.WF ∧ f'.feat.byAS = true :=
  module_roundtrip t known f h b hb

def modDomA : Modules.FDomain := ⟨"nrpspksdomains_ctg1_5_PKS_KS.1", "ctg1_5", 1⟩
def modDomB : Modules.FDomain := ⟨"nrpspksdomains_ctg1_5_PKS_AT.1", "ctg1_5", 1⟩
def modKnown (n : String) : Option Modules.FDomain := [modDomA, modDomB].find? (·.name == n)
/-- a complete starter PKS module with a note -/
def sampleModule : ModF :=
  ⟨⟨.simple ⟨30, 330, .fwd⟩, "aSModule", ["a module note"], [], true, none⟩, ⟨[modDomA, modDomB], .pks, true, true, false, false⟩⟩
theorem sampleModule_in_scope : sampleModule.WF modKnown := by
  refine ⟨⟨nodupNil, rfl, by simp [sampleModule, Q.get?], by simp [sampleModule, Q.get?], ?_, fun c l' hc _ => by cases hc⟩,
    rfl, rfl, rfl, fun k _ => rfl, rfl, ?_⟩
  · intro p hp
    simp only [sampleModule, Loc.parts, List.mem_cons, List.mem_nil_iff, or_false] at hp
    subst hp
    decide
  · intro d hd
    simp only [sampleModule, List.mem_cons, List.mem_nil_iff, or_false] at hd
    rcases hd with e | e <;> subst e <;> decide +kernel
/-- non-vacuity: it is written and read back — module and note -/
example : (match sampleModule.toBio with
    | .ok b => (match ModF.fromBio modKnown b with
      | .ok f' => f'.m == sampleModule.m && Q.get? f'.feat.quals "note" == some ["a module note"] && f'.feat.byAS
      | _ => false)
    | _ => false) = true := by decide +kernel

/-! ### `CDS_motif` features of other tools (`ExternalCDSMotif`) -/

/-- every qualifier an external motif arrived with is in the feature that is written for it, with its value — also
    when its key is one of the placeholder keys (`locus_tag`, `protein_start`, `protein_end`, `aSTool`) the parent
    classes fill in; whatever the parent classes wrote -/
theorem external_motif_keeps_its_qualifiers (written original : Quals) (h : Q.Nodup original) (k : String) (v : List String)
    (hk : Q.get? original k = some v) : Q.get? (extWrite written original) k = some v := by
  unfold extWrite
  rw [Q.get?_update _ _ h, hk]

/-- … and nothing but the originals and what the parent classes wrote under other keys -/
theorem external_motif_writes_no_placeholder (written original : Quals) (h : Q.Nodup original) (k : String)
    (hk : k ∈ extPlaceholders) (ho : Q.get? original k = none) : Q.get? (extWrite written original) k = none := by
  unfold extWrite
  rw [Q.get?_update _ _ h, ho, get?_eraseAll]
  simp [hk]

/-- non-vacuity and the seeded order refuted: a motif that arrived with its own `locus_tag` is written with it; restoring
    the originals *before* dropping the placeholders loses it -/
theorem restoring_first_loses_the_locus_tag :
    Q.get? (extWrite [("aSTool", ["external"]), ("locus_tag", ["CDS_motif"]), ("note", ["n"]), ("protein_end", ["1"]), ("protein_start", ["0"])]
                     [("locus_tag", ["extmotif1"]), ("note", ["n"])]) "locus_tag" = some ["extmotif1"] ∧
    Q.get? (extWriteRestoreFirst [("aSTool", ["external"]), ("locus_tag", ["CDS_motif"]), ("note", ["n"]), ("protein_end", ["1"]), ("protein_start", ["0"])]
                                 [("locus_tag", ["extmotif1"]), ("note", ["n"])]) "locus_tag" = none := by decide +kernel

/-- why the consumed keys of an external motif are harmless for the round trip: the `original_qualifiers` of a motif
    *in a record* never hold a consumed key (they were consumed when the motif was made), and for such a motif reading
    the written feature gives the same `original_qualifiers` back — as a mapping — whatever attribute qualifiers the
    parent classes added; hence the second write repeats the first.  `hw`: outside the consumed and placeholder keys the
    parent classes write the motif's own dictionary (`_qualifiers` is that same dictionary). -/
theorem external_motif_originals_come_back (written original : Quals) (h : Q.Nodup original)
    (ho : ∀ k ∈ extConsumed, Q.get? original k = none)
    (hw : ∀ k, k ∉ extConsumed → k ∉ extPlaceholders → Q.get? written k = Q.get? original k) (k : String) :
    Q.get? (extOriginal (extWrite written original)) k = Q.get? original k := by
  unfold extOriginal extWrite
  rw [get?_eraseAll]
  by_cases hc : k ∈ extConsumed
  · simp [hc, ho k hc]
  · simp only [hc, if_false]
    rw [Q.get?_update _ _ h]
    cases hk : Q.get? original k with
    | some v => rfl
    | none =>
      simp only
      rw [get?_eraseAll]
      by_cases hp : k ∈ extPlaceholders
      · simp [hp]
      · simp only [hp, if_false]
        rw [hw k hc hp, hk]

/-- the reported input: a motif arriving with `protein_start` / `protein_end` / `domain_id` — in the record its originals
    are already without them, and they come back exactly -/
example : extOriginal [("locus_tag", ["m1"]), ("protein_start", ["5"]), ("protein_end", ["9"]), ("domain_id", ["x"]), ("note", ["n"])]
      = [("locus_tag", ["m1"]), ("note", ["n"])] ∧
    extOriginal (extWrite [("aSTool", ["external"]), ("locus_tag", ["CDS_motif"]), ("note", ["n"]), ("protein_end", ["1"]), ("protein_start", ["0"])]
                          [("locus_tag", ["m1"]), ("note", ["n"])]) = [("note", ["n"]), ("locus_tag", ["m1"])] := by decide +kernel

/-! ### `Feature.to_biopython` keeps every note -/

/-- the `note` qualifier of the written feature holds exactly the feature's notes — the stored `note` qualifier, the
    `notes` attribute and the notes a subclass supplies — as a multiset: the same texts, each as often as it occurs
    (sorted, nothing merged, nothing dropped); for every feature, every class qualifiers `extra`, with or without a codon start -/
theorem written_notes_are_all_notes (f : Feat) (extra : Quals) (hq : Q.Nodup f.quals) (hX : Q.Nodup extra) (b : Bio)
    (hb : f.toBio extra = .ok b) :
    ((Q.get? b.quals "note").getD []).Perm ((Q.get? f.quals "note").getD [] ++ f.notes ++ (Q.get? extra "note").getD []) := by
  have hFQ := nodup_finalQuals f extra hq
  have hquals : b.quals = Q.sortKeys (finalQuals f extra) := by
    rw [toBio_eq] at hb
    cases hc : f.codon with
    | none => rw [hc] at hb; cases hb; rfl
    | some c =>
      rw [hc] at hb
      simp only [Except.map] at hb
      cases hfs : frameshift f.loc (c + 1) true with
      | error e => rw [hfs] at hb; cases hb
      | ok l => rw [hfs] at hb; cases hb; rfl
  rw [hquals, Q.get?_sortKeys hFQ, get?_finalQuals f extra hX]
  have h1 : ¬ ("note" = "codon_start" ∧ f.codon.isSome = true) := by intro h; exact absurd h.1 (by decide)
  have h2 : ¬ ("note" = "tool" ∧ f.byAS = true) := by intro h; exact absurd h.1 (by decide)
  simp only [h1, h2, if_false, true_and, if_true]
  cases he : (allNotes f extra).isEmpty
  · simp only [if_true, Option.getD_some]
    exact sortStrs_perm _
  · have hnil : allNotes f extra = [] := List.isEmpty_iff.1 he
    simp only [Bool.true_eq_false, if_false]
    unfold allNotes at hnil
    rw [hnil]
    have : (Q.get? f.quals "note").getD [] = [] := by
      have := List.append_eq_nil_iff.1 hnil
      exact (List.append_eq_nil_iff.1 this.1).1
    rw [this]

/-- a stored note and the same text added again, plus a third note: both copies are written (the seeded `sorted(set(notes))`
    would write one) -/
example : (match (⟨.simple ⟨10, 40, .fwd⟩, "misc_feature", ["same text", "other"], [("note", ["same text"])], false, none⟩ : Feat).toBio with
    | .ok b => Q.get? b.quals "note" | _ => none) = some ["other", "same text", "same text"] := by decide +kernel

/-! ### `CDS` features -/

/-- a CDS feature made by antiSMASH (gene finding), without codon start: the written feature is read back with the same
    locus tag, protein id, gene, product, translation, translation table, sec_met domains and gene functions
    (`secmet_qualifier_roundtrip_partial`, `gene_functions_qualifier_roundtrip_partial` composed in); `gene_kind`, which
    `from_biopython` does not consume, stays behind as a free qualifier with exactly the written value; apart from it the
    base feature has the same view.  Partial — named missing parts: a codon start (covered for the base feature by
    `codon_start_roundtrip` / `bio_roundtrip_feature_subclass`, not composed here), CDS features not made by antiSMASH
    (`created_by_antismash = False`), the NRPS_PKS qualifier, names generated for nameless CDS, and the translation check
    against the record, which is the parameter `trOK` (hypothesis: it accepts the feature's own translation).
    `Cds.WF`: constructor invariants (a name, sanitised ids, translation starting with M, table ≠ 0, strand ±1), sec_met
    domains and gene functions within their qualifier-level hypotheses, free qualifiers use none of the CDS keys. -/
theorem bio_roundtrip_cds_partial (t : Bool) (defaultTable : Int) (trOK : String → Loc → Bool) (c : Cds) (h : c.WF trOK)
    (b : Bio) (hb : c.toBio = .ok b) :
    ∃ c', Cds.fromBio defaultTable trOK b = .ok c' ∧ c' = { c with feat := c'.feat } ∧
      Q.get? c'.feat.quals "gene_kind" = kindQ c.geneFns ∧
      ({ c'.feat with quals := Q.erase c'.feat.quals "gene_kind" } : Feat).view t = c.feat.view t ∧
      c'.feat.loc = c.feat.loc :=
  cds_roundtrip t defaultTable trOK c h b hb

/-- a biosynthetic CDS found by antiSMASH with a sec_met domain, two gene functions and a note -/
def sampleCds : Cds :=
  { feat := ⟨.simple ⟨30, 60, .rev⟩, "CDS", ["a note"], [], true, none⟩, locusTag := some "ctg1_5", gene := some "geneA",
    product := "a hypothetical protein", translation := "MACDEFACDE", translTable := 11,
    secMet := [⟨"PKS_KS", "1.5e-20", "12.5", "25", "rule-based-clusters"⟩],
    geneFns := [⟨.core, "rule-based-clusters", "PKS_KS", some "T1PKS"⟩, ⟨.transport, "smcogs", "ABC transporter", none⟩] }
/-- non-vacuity: it is written and read back unchanged, with `gene_kind` left among the free qualifiers -/
example : (match sampleCds.toBio with
    | .ok b => (match Cds.fromBio 1 (fun _ _ => true) b with
      | .ok c' => c' == { sampleCds with feat := c'.feat } && Q.get? c'.feat.quals "gene_kind" == some ["biosynthetic"]
      | _ => false)
    | _ => false) = true := by decide +kernel

end ASV.C10
