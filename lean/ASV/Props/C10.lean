/-
  C10 — annotated records survive GenBank and JSON round trips unchanged.
  Property theorems only; helper lemmas in ASV/Proofs/Serial*.lean.
-/
import ASV.Proofs.SerialQ
namespace ASV.C10
open ASV ASV.Serial

/-- writing a qualifier and reading it back gives the written value -/
theorem qualifier_set_get (q : Quals) (k : String) (v : List String) : Q.get? (Q.set q k v) k = some v :=
  Q.get?_set_same q k v

end ASV.C10
