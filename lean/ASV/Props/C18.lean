/-
  C18 — Parallel execution gives the sequential result, in order.
  Property theorems only; helper lemmas live in ASV/Proofs/Parallel*.lean.

  Every statement is for all call functions `f` (any argument, error and result types), all
  argument lists (any batch size), all worker counts `≥ 2` (given or defaulted from the config),
  and all schedules in the stated class: `Complete m sched` = every one of the `m` chunks
  completes exactly once, in ANY relative order (`Perm`), nothing else happens; `rest` = whatever
  the scheduler does afterwards.  No bound on anything.
-/
import ASV.Proofs.ParallelSpec
namespace ASV.C18
open ASV ASV.Parallel

variable {α ε β : Type}

/-- **the property, success case**: for every number of workers, batch size and relative
    completion order, `parallel_function` returns exactly the list the sequential loop returns —
    same values, same order, same length, no `None` left in it -/
theorem parallel_eq_sequential (configCpus cpus : Nat) (f : α → Except ε β) (args : List α)
    (hasTimeout : Bool) (sched rest : List Event)
    (hk : 2 ≤ resolveCpus configCpus cpus)
    (hc : Complete (numChunks args.length (resolveCpus configCpus cpus)) sched)
    (l : List β) (hseq : sequential f args = .ok l) :
    parallelFunction configCpus f args cpus hasTimeout (sched ++ rest) = .returned (l.map some) := by
  have h1 : resolveCpus configCpus cpus ≠ 1 := by omega
  have h0 : resolveCpus configCpus cpus ≠ 0 := by omega
  simp only [parallelFunction, h1, h0, if_false]
  exact (poolRun_complete f args _ (by omega) hasTimeout sched rest hc).1 l hseq

/-- **the property, failure case**: if any call fails, the caller gets an exception — the
    exception of one of the failing calls — never a list (shorter, reordered or otherwise) -/
theorem failure_surfaces (configCpus cpus : Nat) (f : α → Except ε β) (args : List α)
    (hasTimeout : Bool) (sched rest : List Event)
    (hk : 2 ≤ resolveCpus configCpus cpus)
    (hc : Complete (numChunks args.length (resolveCpus configCpus cpus)) sched)
    (hfail : ∃ a ∈ args, ∃ e, f a = .error e) :
    ∃ e, parallelFunction configCpus f args cpus hasTimeout (sched ++ rest) = .raised (.task e) ∧
      ∃ a ∈ args, f a = .error e := by
  have h1 : resolveCpus configCpus cpus ≠ 1 := by omega
  have h0 : resolveCpus configCpus cpus ≠ 0 := by omega
  simp only [parallelFunction, h1, h0, if_false]
  cases hseq : sequential f args with
  | error e₀ => exact (poolRun_complete f args _ (by omega) hasTimeout sched rest hc).2 e₀ hseq
  | ok l =>
    obtain ⟨a, ha, e, hfa⟩ := hfail
    rw [← comprehension_eq_sequential] at hseq
    obtain ⟨b, hb⟩ := comprehension_ok_all f args l hseq a ha
    rw [hfa] at hb
    cases hb

/-- when the failing calls cannot be told apart by their error (in particular: a single failing
    call), the parallel outcome IS the sequential outcome; with several distinct errors the one
    re-raised depends on the completion order (see the examples below) — the property only asks
    for "an error" -/
theorem unambiguous_failure_eq_sequential (configCpus cpus : Nat) (f : α → Except ε β) (args : List α)
    (hasTimeout : Bool) (sched rest : List Event)
    (hk : 2 ≤ resolveCpus configCpus cpus)
    (hc : Complete (numChunks args.length (resolveCpus configCpus cpus)) sched)
    (e : ε) (hfail : ∃ a ∈ args, f a = .error e)
    (hsame : ∀ a ∈ args, ∀ e', f a = .error e' → e' = e) :
    parallelFunction configCpus f args cpus hasTimeout (sched ++ rest) = sequentialOutcome f args := by
  obtain ⟨a, ha, hfa⟩ := hfail
  obtain ⟨e₁, hpar, a₁, ha₁, hfa₁⟩ :=
    failure_surfaces configCpus cpus f args hasTimeout sched rest hk hc ⟨a, ha, e, hfa⟩
  have he₁ : e₁ = e := hsame a₁ ha₁ e₁ hfa₁
  rw [hpar, he₁]
  unfold sequentialOutcome
  cases hseq : sequential f args with
  | ok l =>
    rw [← comprehension_eq_sequential] at hseq
    obtain ⟨b, hb⟩ := comprehension_ok_all f args l hseq a ha
    rw [hfa] at hb
    cases hb
  | error e₂ =>
    rw [← comprehension_eq_sequential] at hseq
    obtain ⟨a₂, ha₂, hfa₂⟩ := comprehension_error_mem f args e₂ hseq
    rw [hsame a₂ ha₂ e₂ hfa₂]

/-- a deadline that passes while work is outstanding surfaces as the time-out error, whatever
    completed before it (in whatever order) and whatever happens after it -/
theorem timeout_surfaces (configCpus cpus : Nat) (f : α → Except ε β) (args : List α)
    (pre post : List Event)
    (hk : 2 ≤ resolveCpus configCpus cpus)
    (hdone : ∀ e ∈ pre, e.isDone = true)
    (hvalid : ∀ i ∈ doneIdxs pre, i < numChunks args.length (resolveCpus configCpus cpus))
    (hfew : pre.length < numChunks args.length (resolveCpus configCpus cpus)) :
    parallelFunction configCpus f args cpus true (pre ++ .timeout :: post) = .raised .timeout := by
  have h1 : resolveCpus configCpus cpus ≠ 1 := by omega
  have h0 : resolveCpus configCpus cpus ≠ 0 := by omega
  simp only [parallelFunction, h1, h0, if_false]
  exact poolRun_interrupted f args _ (by omega) true pre post .timeout .timeout hdone hvalid hfew
    (Or.inl ⟨rfl, rfl, rfl⟩)

/-- a worker process found dead while work is outstanding surfaces as an error, with or without
    a deadline (the repaired `_await_pool_results`; the unrepaired code blocks here, defect D44) -/
theorem worker_death_surfaces (configCpus cpus : Nat) (f : α → Except ε β) (args : List α)
    (hasTimeout : Bool) (pre post : List Event) (w : Nat)
    (hk : 2 ≤ resolveCpus configCpus cpus)
    (hdone : ∀ e ∈ pre, e.isDone = true)
    (hvalid : ∀ i ∈ doneIdxs pre, i < numChunks args.length (resolveCpus configCpus cpus))
    (hfew : pre.length < numChunks args.length (resolveCpus configCpus cpus)) :
    parallelFunction configCpus f args cpus hasTimeout (pre ++ .died w :: post) = .raised .workerDied := by
  have h1 : resolveCpus configCpus cpus ≠ 1 := by omega
  have h0 : resolveCpus configCpus cpus ≠ 0 := by omega
  simp only [parallelFunction, h1, h0, if_false]
  exact poolRun_interrupted f args _ (by omega) hasTimeout pre post (.died w) .workerDied hdone hvalid
    hfew (Or.inr ⟨w, rfl, rfl⟩)

/-- with one cpu (given, or defaulted from the config) `parallel_function` is the plain
    sequential loop whatever the scheduler would have done and whatever timeout was given -/
theorem cpus_one_ignores_pool (configCpus cpus : Nat) (f : α → Except ε β) (args : List α)
    (hasTimeout : Bool) (evs : List Event) (h : resolveCpus configCpus cpus = 1) :
    parallelFunction configCpus f args cpus hasTimeout evs = sequentialOutcome f args := by
  simp only [parallelFunction, h, if_true, sequentialOutcome, comprehension_eq_sequential]
  rfl

/-- `parallel_execute` (no single-cpu shortcut: any worker count `≥ 1`): the return codes come
    back in command order; a failing `child_process` surfaces as its exception -/
theorem execute_eq_sequential (configCpus cpus : Nat) (runner : α → Except ε Int) (commands : List α)
    (hasTimeout : Bool) (sched rest : List Event)
    (hk : 1 ≤ resolveCpus configCpus cpus)
    (hc : Complete (numChunks commands.length (resolveCpus configCpus cpus)) sched) :
    (∀ codes, sequential runner commands = .ok codes →
      parallelExecute configCpus runner commands cpus hasTimeout (sched ++ rest) =
        .returned (codes.map some)) ∧
    (∀ e₀, sequential runner commands = .error e₀ →
      ∃ e, parallelExecute configCpus runner commands cpus hasTimeout (sched ++ rest) = .raised (.task e) ∧
        ∃ c ∈ commands, runner c = .error e) := by
  have h0 : resolveCpus configCpus cpus ≠ 0 := by omega
  simp only [parallelExecute, h0, if_false]
  exact poolRun_complete runner commands _ (by omega) hasTimeout sched rest hc

/-- **the model meets the executable spec** — the Boolean `acceptable` that the harness evaluates
    on the real implementation's outcome — for every event list a pool can produce (`Valid`: no
    chunk completes twice, only existing chunks): deadlines and dead workers at any point,
    incomplete schedules, any events after completion, any cpu count including 0 and 1 -/
theorem model_meets_spec [DecidableEq ε] [DecidableEq β] (configCpus cpus : Nat)
    (f : α → Except ε β) (args : List α) (hasTimeout : Bool) (evs : List Event)
    (hv : Valid (numChunks args.length (resolveCpus configCpus cpus)) evs) :
    acceptable configCpus f args cpus hasTimeout evs
      (parallelFunction configCpus f args cpus hasTimeout evs) = true := by
  unfold acceptable parallelFunction
  have hr : (if cpus = 0 then configCpus else cpus) = resolveCpus configCpus cpus := rfl
  simp only [hr]
  by_cases h1 : resolveCpus configCpus cpus = 1
  · simp only [h1, if_true, sequentialOutcome, comprehension_eq_sequential]
    cases sequential f args <;> simp
  · by_cases h0 : resolveCpus configCpus cpus = 0
    · simp [h0]
    · simp only [h1, h0, if_false]
      exact poolRun_acceptable f args _ (by omega) hasTimeout evs hv

/-- the same for `parallel_execute` -/
theorem execute_meets_spec [DecidableEq ε] (configCpus cpus : Nat) (runner : α → Except ε Int)
    (commands : List α) (hasTimeout : Bool) (evs : List Event)
    (hv : Valid (numChunks commands.length (resolveCpus configCpus cpus)) evs) :
    acceptableExecute configCpus runner commands cpus hasTimeout evs
      (parallelExecute configCpus runner commands cpus hasTimeout evs) = true := by
  unfold acceptableExecute parallelExecute
  have hr : (if cpus = 0 then configCpus else cpus) = resolveCpus configCpus cpus := rfl
  simp only [hr]
  by_cases h0 : resolveCpus configCpus cpus = 0
  · simp [h0]
  · simp only [h0, if_false]
    exact poolRun_acceptable runner commands _ (by omega) hasTimeout evs hv

/-- **never a shorter or reordered list**: whatever a pool does (any valid event list, complete or
    not, interrupted or not), if `parallel_function` returns a list at all it is exactly the
    sequential result -/
theorem never_partial_list (configCpus cpus : Nat) (f : α → Except ε β) (args : List α)
    (hasTimeout : Bool) (evs : List Event)
    (hv : Valid (numChunks args.length (resolveCpus configCpus cpus)) evs)
    (r : List (Option β))
    (hret : parallelFunction configCpus f args cpus hasTimeout evs = .returned r) :
    ∃ l, sequential f args = .ok l ∧ r = l.map some := by
  classical
  have hspec := model_meets_spec configCpus cpus f args hasTimeout evs hv
  rw [hret] at hspec
  unfold acceptable at hspec
  have hr : (if cpus = 0 then configCpus else cpus) = resolveCpus configCpus cpus := rfl
  simp only [hr] at hspec
  by_cases h1 : resolveCpus configCpus cpus = 1
  · simp only [h1, if_true, sequentialOutcome, beq_iff_eq] at hspec
    cases hseq : sequential f args with
    | ok l => rw [hseq] at hspec; cases hspec; exact ⟨l, rfl, rfl⟩
    | error e => rw [hseq] at hspec; cases hspec
  · by_cases h0 : resolveCpus configCpus cpus = 0
    · simp [h0] at hspec
    · simp only [h1, h0, if_false, poolAcceptable] at hspec
      split at hspec
      · simp at hspec
      · split at hspec
        · simp at hspec
        · cases hseq : sequential f args with
          | ok l => rw [hseq] at hspec; simp at hspec; exact ⟨l, rfl, hspec⟩
          | error e => rw [hseq] at hspec; simp at hspec

/-- The full statement about real worker processes — "every theorem above holds with the process
    boundary in place, for all arguments, results and exceptions" — is NOT provable: it is false
    for values that do not survive pickling (known finding KF-C18-unreconstructible-exception,
    negation witness below), and pickling itself is CPython's, not modelled. -/
def ProcessBoundaryInvisible (pa : α → α) (pb : β → β) (pe : ε → ε) : Prop :=
  ∀ (configCpus cpus : Nat) (f : α → Except ε β) (args : List α) (hasTimeout : Bool) (evs : List Event),
    parallelFunctionWire pa pb pe configCpus f args cpus hasTimeout evs =
      parallelFunction configCpus f args cpus hasTimeout evs

/-- **the process boundary** (partial: under the hypothesis that pickling is faithful on the
    arguments, results and exceptions involved, unpickle ∘ pickle = identity — which is what the
    harness checks for real `Record`s): running the calls in worker processes is
    indistinguishable from running them on the caller's objects, so every theorem above holds
    with the boundary in place -/
theorem faithful_pickling_invisible_partial (pa : α → α) (pb : β → β) (pe : ε → ε)
    (ha : ∀ a, pa a = a) (hb : ∀ b, pb b = b) (he : ∀ e, pe e = e)
    : ProcessBoundaryInvisible pa pb pe := by
  intro configCpus cpus f args hasTimeout evs
  have : overWire pa pb pe f = f := by
    funext a
    simp only [overWire, ha]
    cases f a with
    | ok b => simp [hb]
    | error e => simp [he]
  simp [parallelFunctionWire, this]

/-! ### non-vacuity: concrete batches, schedules and outcomes -/

/-- what the faithfulness hypothesis protects: a result type whose pickle loses information
    (here: `pb` forgets the second component) makes the pool path differ from the sequential one -/
example : parallelFunctionWire id (fun (p : Nat × Nat) => (p.1, 0)) id 1
    (fun (n : Nat) => (Except.ok (n, n) : Except String (Nat × Nat))) [1, 2, 3] 2 false
    [.done 2, .done 1, .done 0] = .returned [some (1, 0), some (2, 0), some (3, 0)] := by decide
example : sequentialOutcome (fun (n : Nat) => (Except.ok (n, n) : Except String (Nat × Nat))) [1, 2, 3] =
    .returned [some (1, 1), some (2, 2), some (3, 3)] := by decide
/-- the boundary is *visible* for an unfaithful pickle: `ProcessBoundaryInvisible` fails -/
example : ¬ ProcessBoundaryInvisible (α := Nat) (ε := String) id (fun (p : Nat × Nat) => (p.1, 0)) id := by
  intro h
  have := h 1 2 (fun (n : Nat) => (Except.ok (n, n) : Except String (Nat × Nat))) [1] false [.done 0]
  revert this
  decide
/-- negation witness for KF-C18-unreconstructible-exception: CPython's result-handler thread dies
    while unpickling the exception of chunk 1, so no later completion ever reaches the parent —
    the event list ends after chunk 0 — and the call blocks instead of raising -/
example : parallelFunction 1 (fun (n : Nat) => if n = 2 then Except.error "Unreconstructible" else Except.ok n)
    [1, 2, 3] 2 false [.done 0] = (.blocked : Outcome String Nat) := by decide
/-- a valid but incomplete and interrupted event list -/
example : Valid 5 [.done 4, .timeout, .done 0, .died 1] := by
  refine ⟨by decide, by decide⟩


/-- nine calls on two workers: chunks of two, five chunks -/
example : numChunks 9 2 = 5 := by decide
/-- chunks completing in the order 4,0,3,1,2 form a complete schedule -/
example : Complete 5 [.done 4, .done 0, .done 3, .done 1, .done 2] :=
  ⟨by decide, List.isPerm_iff.mp (by decide)⟩
/-- … and the results still come back in argument order -/
example : parallelFunction 1 (fun (n : Nat) => (Except.ok (n * 10) : Except String Nat))
    [1, 2, 3, 4, 5, 6, 7, 8, 9] 2 false [.done 4, .done 0, .done 3, .done 1, .done 2] =
    .returned [some 10, some 20, some 30, some 40, some 50, some 60, some 70, some 80, some 90] := by
  decide
/-- two failing calls (3 and 8): the chunk that completes first decides which error is raised;
    sequentially it would be call 3's -/
example : parallelFunction 1 (fun (n : Nat) => if n = 3 ∨ n = 8 then Except.error n else Except.ok n)
    [1, 2, 3, 4, 5, 6, 7, 8, 9] 2 false [.done 3, .done 0, .done 4, .done 1, .done 2] =
    (.raised (.task 8) : Outcome Nat Nat) := by decide
example : sequentialOutcome (fun (n : Nat) => if n = 3 ∨ n = 8 then Except.error n else Except.ok n)
    [1, 2, 3, 4, 5, 6, 7, 8, 9] = (.raised (.task 3) : Outcome Nat Nat) := by decide
/-- a deadline after three of five chunks; a dead worker after one; an incomplete schedule blocks -/
example : parallelFunction 1 (fun (n : Nat) => (Except.ok n : Except String Nat))
    [1, 2, 3, 4, 5, 6, 7, 8, 9] 2 true [.done 1, .done 0, .done 2, .timeout, .done 3, .done 4] =
    .raised .timeout := by decide
example : parallelFunction 1 (fun (n : Nat) => (Except.ok n : Except String Nat))
    [1, 2, 3, 4, 5, 6, 7, 8, 9] 2 false [.done 1, .died 0, .done 0, .done 2, .done 3] =
    .raised .workerDied := by decide
example : parallelFunction 1 (fun (n : Nat) => (Except.ok n : Except String Nat))
    [1, 2, 3, 4, 5, 6, 7, 8, 9] 2 false [.done 1, .done 0, .done 2, .done 3] = .blocked := by decide
/-- the config default is used when no cpu count is given -/
example : resolveCpus 4 0 = 4 ∧ resolveCpus 4 2 = 2 := by decide

end ASV.C18
