/-
  C18 — Parallel execution gives the sequential result, in order.
  Property theorems only; helper lemmas live in ASV/Proofs/Parallel.lean.
-/
import ASV.Proofs.Parallel
namespace ASV.C18
open ASV ASV.Parallel

variable {α ε β : Type}

/-- with one cpu (given, or defaulted from the config) `parallel_function` is the plain
    sequential loop whatever the scheduler would have done and whatever timeout was given -/
theorem cpus_one_ignores_pool (configCpus cpus : Nat) (f : α → Except ε β) (args : List α)
    (hasTimeout : Bool) (evs : List Event) (h : resolveCpus configCpus cpus = 1) :
    parallelFunction configCpus f args cpus hasTimeout evs = sequentialOutcome f args := by
  simp only [parallelFunction, h, if_true, sequentialOutcome, comprehension_eq_sequential]
  rfl

end ASV.C18
