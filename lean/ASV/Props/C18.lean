/-
  C18 — Parallel execution gives the sequential result, in order.
  Property theorems only; helper lemmas live in ASV/Proofs/Parallel*.lean.

  Every statement is for all call functions `f` (any argument, error and result types), all
  argument lists (any batch size), all worker counts `≥ 2` (given or defaulted from the config),
  and all schedules in the stated class: `Complete m sched` = every one of the `m` chunks
  completes exactly once, in ANY relative order (`Perm`), nothing else happens; `rest` = whatever
  the scheduler does afterwards.  No bound on anything.
-/
import ASV.Proofs.ParallelSpec
import ASV.Proofs.ParallelState
import ASV.Proofs.ParallelWorkers
import ASV.Proofs.ParallelPickle
import ASV.Proofs.ParallelFilters
namespace ASV.C18
open ASV ASV.Parallel

variable {α ε β : Type}

/-- **the property, success case**: for every number of workers, batch size and relative
    completion order, `parallel_function` returns exactly the list the sequential loop returns —
    same values, same order, same length, no `None` left in it -/
theorem parallel_eq_sequential (configCpus cpus : Nat) (f : α → Except ε β) (args : List α)
    (hasTimeout : Bool) (sched rest : List Event)
    (hk : 2 ≤ resolveCpus configCpus cpus)
    (hc : Complete (numChunks args.length (resolveCpus configCpus cpus)) sched)
    (l : List β) (hseq : sequential f args = .ok l) :
    parallelFunction configCpus f args cpus hasTimeout (sched ++ rest) = .returned (l.map some) := by
  have h1 : resolveCpus configCpus cpus ≠ 1 := by omega
  have h0 : resolveCpus configCpus cpus ≠ 0 := by omega
  simp only [parallelFunction, h1, h0, if_false]
  exact (poolRun_complete f args _ (by omega) hasTimeout sched rest hc).1 l hseq

/-- **the property, failure case**: if any call fails, the caller gets an exception — the
    exception of one of the failing calls — never a list (shorter, reordered or otherwise) -/
theorem failure_surfaces (configCpus cpus : Nat) (f : α → Except ε β) (args : List α)
    (hasTimeout : Bool) (sched rest : List Event)
    (hk : 2 ≤ resolveCpus configCpus cpus)
    (hc : Complete (numChunks args.length (resolveCpus configCpus cpus)) sched)
    (hfail : ∃ a ∈ args, ∃ e, f a = .error e) :
    ∃ e, parallelFunction configCpus f args cpus hasTimeout (sched ++ rest) = .raised (.task e) ∧
      ∃ a ∈ args, f a = .error e := by
  have h1 : resolveCpus configCpus cpus ≠ 1 := by omega
  have h0 : resolveCpus configCpus cpus ≠ 0 := by omega
  simp only [parallelFunction, h1, h0, if_false]
  cases hseq : sequential f args with
  | error e₀ => exact (poolRun_complete f args _ (by omega) hasTimeout sched rest hc).2 e₀ hseq
  | ok l =>
    obtain ⟨a, ha, e, hfa⟩ := hfail
    rw [← comprehension_eq_sequential] at hseq
    obtain ⟨b, hb⟩ := comprehension_ok_all f args l hseq a ha
    rw [hfa] at hb
    cases hb

/-- when the failing calls cannot be told apart by their error (in particular: a single failing
    call), the parallel outcome IS the sequential outcome; with several distinct errors the one
    re-raised depends on the completion order (see the examples below) — the property only asks
    for "an error" -/
theorem unambiguous_failure_eq_sequential (configCpus cpus : Nat) (f : α → Except ε β) (args : List α)
    (hasTimeout : Bool) (sched rest : List Event)
    (hk : 2 ≤ resolveCpus configCpus cpus)
    (hc : Complete (numChunks args.length (resolveCpus configCpus cpus)) sched)
    (e : ε) (hfail : ∃ a ∈ args, f a = .error e)
    (hsame : ∀ a ∈ args, ∀ e', f a = .error e' → e' = e) :
    parallelFunction configCpus f args cpus hasTimeout (sched ++ rest) = sequentialOutcome f args := by
  obtain ⟨a, ha, hfa⟩ := hfail
  obtain ⟨e₁, hpar, a₁, ha₁, hfa₁⟩ :=
    failure_surfaces configCpus cpus f args hasTimeout sched rest hk hc ⟨a, ha, e, hfa⟩
  have he₁ : e₁ = e := hsame a₁ ha₁ e₁ hfa₁
  rw [hpar, he₁]
  unfold sequentialOutcome
  cases hseq : sequential f args with
  | ok l =>
    rw [← comprehension_eq_sequential] at hseq
    obtain ⟨b, hb⟩ := comprehension_ok_all f args l hseq a ha
    rw [hfa] at hb
    cases hb
  | error e₂ =>
    rw [← comprehension_eq_sequential] at hseq
    obtain ⟨a₂, ha₂, hfa₂⟩ := comprehension_error_mem f args e₂ hseq
    rw [hsame a₂ ha₂ e₂ hfa₂]

/-- a deadline that passes while work is outstanding surfaces as the time-out error, whatever
    completed before it (in whatever order) and whatever happens after it -/
theorem timeout_surfaces (configCpus cpus : Nat) (f : α → Except ε β) (args : List α)
    (pre post : List Event)
    (hk : 2 ≤ resolveCpus configCpus cpus)
    (hdone : ∀ e ∈ pre, e.isDone = true)
    (hvalid : ∀ i ∈ doneIdxs pre, i < numChunks args.length (resolveCpus configCpus cpus))
    (hfew : pre.length < numChunks args.length (resolveCpus configCpus cpus)) :
    parallelFunction configCpus f args cpus true (pre ++ .timeout :: post) = .raised .timeout := by
  have h1 : resolveCpus configCpus cpus ≠ 1 := by omega
  have h0 : resolveCpus configCpus cpus ≠ 0 := by omega
  simp only [parallelFunction, h1, h0, if_false]
  exact poolRun_interrupted f args _ (by omega) true pre post .timeout .timeout hdone hvalid hfew
    (Or.inl ⟨rfl, rfl, rfl⟩)

/-- a worker process found dead while work is outstanding surfaces as an error, with or without
    a deadline (the repaired `_await_pool_results`; the unrepaired code blocks here, defect D44) -/
theorem worker_death_surfaces (configCpus cpus : Nat) (f : α → Except ε β) (args : List α)
    (hasTimeout : Bool) (pre post : List Event) (w : Nat)
    (hk : 2 ≤ resolveCpus configCpus cpus)
    (hdone : ∀ e ∈ pre, e.isDone = true)
    (hvalid : ∀ i ∈ doneIdxs pre, i < numChunks args.length (resolveCpus configCpus cpus))
    (hfew : pre.length < numChunks args.length (resolveCpus configCpus cpus)) :
    parallelFunction configCpus f args cpus hasTimeout (pre ++ .died w :: post) = .raised .workerDied := by
  have h1 : resolveCpus configCpus cpus ≠ 1 := by omega
  have h0 : resolveCpus configCpus cpus ≠ 0 := by omega
  simp only [parallelFunction, h1, h0, if_false]
  exact poolRun_interrupted f args _ (by omega) hasTimeout pre post (.died w) .workerDied hdone hvalid
    hfew (Or.inr ⟨w, rfl, rfl⟩)

/-- with one cpu (given, or defaulted from the config) `parallel_function` is the plain
    sequential loop whatever the scheduler would have done and whatever timeout was given -/
theorem cpus_one_ignores_pool (configCpus cpus : Nat) (f : α → Except ε β) (args : List α)
    (hasTimeout : Bool) (evs : List Event) (h : resolveCpus configCpus cpus = 1) :
    parallelFunction configCpus f args cpus hasTimeout evs = sequentialOutcome f args := by
  simp only [parallelFunction, h, if_true, sequentialOutcome, comprehension_eq_sequential]
  rfl

/-- `parallel_execute` (no single-cpu shortcut: any worker count `≥ 1`): the return codes come
    back in command order; a failing `child_process` surfaces as its exception -/
theorem execute_eq_sequential (configCpus cpus : Nat) (runner : α → Except ε Int) (commands : List α)
    (hasTimeout : Bool) (sched rest : List Event)
    (hk : 1 ≤ resolveCpus configCpus cpus)
    (hc : Complete (numChunks commands.length (resolveCpus configCpus cpus)) sched) :
    (∀ codes, sequential runner commands = .ok codes →
      parallelExecute configCpus runner commands cpus hasTimeout (sched ++ rest) =
        .returned (codes.map some)) ∧
    (∀ e₀, sequential runner commands = .error e₀ →
      ∃ e, parallelExecute configCpus runner commands cpus hasTimeout (sched ++ rest) = .raised (.task e) ∧
        ∃ c ∈ commands, runner c = .error e) := by
  have h0 : resolveCpus configCpus cpus ≠ 0 := by omega
  simp only [parallelExecute, h0, if_false]
  exact poolRun_complete runner commands _ (by omega) hasTimeout sched rest hc

/-- **the model meets the executable spec** — the Boolean `acceptable` that the harness evaluates
    on the real implementation's outcome — for every event list a pool can produce (`Valid`: no
    chunk completes twice, only existing chunks): deadlines and dead workers at any point,
    incomplete schedules, any events after completion, any cpu count including 0 and 1 -/
theorem model_meets_spec [DecidableEq ε] [DecidableEq β] (configCpus cpus : Nat)
    (f : α → Except ε β) (args : List α) (hasTimeout : Bool) (evs : List Event)
    (hv : Valid (numChunks args.length (resolveCpus configCpus cpus)) evs) :
    acceptable configCpus f args cpus hasTimeout evs
      (parallelFunction configCpus f args cpus hasTimeout evs) = true := by
  unfold acceptable parallelFunction
  have hr : (if cpus = 0 then configCpus else cpus) = resolveCpus configCpus cpus := rfl
  simp only [hr]
  by_cases h1 : resolveCpus configCpus cpus = 1
  · simp only [h1, if_true, sequentialOutcome, comprehension_eq_sequential]
    cases sequential f args <;> simp
  · by_cases h0 : resolveCpus configCpus cpus = 0
    · simp [h0]
    · simp only [h1, h0, if_false]
      exact poolRun_acceptable f args _ (by omega) hasTimeout evs hv

/-- the same for `parallel_execute` -/
theorem execute_meets_spec [DecidableEq ε] (configCpus cpus : Nat) (runner : α → Except ε Int)
    (commands : List α) (hasTimeout : Bool) (evs : List Event)
    (hv : Valid (numChunks commands.length (resolveCpus configCpus cpus)) evs) :
    acceptableExecute configCpus runner commands cpus hasTimeout evs
      (parallelExecute configCpus runner commands cpus hasTimeout evs) = true := by
  unfold acceptableExecute parallelExecute
  have hr : (if cpus = 0 then configCpus else cpus) = resolveCpus configCpus cpus := rfl
  simp only [hr]
  by_cases h0 : resolveCpus configCpus cpus = 0
  · simp [h0]
  · simp only [h0, if_false]
    exact poolRun_acceptable runner commands _ (by omega) hasTimeout evs hv

/-- **never a shorter or reordered list**: whatever a pool does (any valid event list, complete or
    not, interrupted or not), if `parallel_function` returns a list at all it is exactly the
    sequential result -/
theorem never_partial_list (configCpus cpus : Nat) (f : α → Except ε β) (args : List α)
    (hasTimeout : Bool) (evs : List Event)
    (hv : Valid (numChunks args.length (resolveCpus configCpus cpus)) evs)
    (r : List (Option β))
    (hret : parallelFunction configCpus f args cpus hasTimeout evs = .returned r) :
    ∃ l, sequential f args = .ok l ∧ r = l.map some := by
  classical
  have hspec := model_meets_spec configCpus cpus f args hasTimeout evs hv
  rw [hret] at hspec
  unfold acceptable at hspec
  have hr : (if cpus = 0 then configCpus else cpus) = resolveCpus configCpus cpus := rfl
  simp only [hr] at hspec
  by_cases h1 : resolveCpus configCpus cpus = 1
  · simp only [h1, if_true, sequentialOutcome, beq_iff_eq] at hspec
    cases hseq : sequential f args with
    | ok l => rw [hseq] at hspec; cases hspec; exact ⟨l, rfl, rfl⟩
    | error e => rw [hseq] at hspec; cases hspec
  · by_cases h0 : resolveCpus configCpus cpus = 0
    · simp [h0] at hspec
    · simp only [h1, h0, if_false, poolAcceptable] at hspec
      split at hspec
      · simp at hspec
      · split at hspec
        · simp at hspec
        · cases hseq : sequential f args with
          | ok l => rw [hseq] at hspec; simp at hspec; exact ⟨l, rfl, hspec⟩
          | error e => rw [hseq] at hspec; simp at hspec

/-- The full statement about real worker processes — "every theorem above holds with the process
    boundary in place, for all arguments, results and exceptions" — is NOT provable: it is false
    for values that do not survive pickling (known finding KF-C18-unreconstructible-exception,
    negation witness below), and pickling itself is CPython's, not modelled. -/
def ProcessBoundaryInvisible (pa : α → α) (pb : β → β) (pe : ε → ε) : Prop :=
  ∀ (configCpus cpus : Nat) (f : α → Except ε β) (args : List α) (hasTimeout : Bool) (evs : List Event),
    parallelFunctionWire pa pb pe configCpus f args cpus hasTimeout evs =
      parallelFunction configCpus f args cpus hasTimeout evs

/-- **the process boundary** (partial: under the hypothesis that pickling is faithful on the
    arguments, results and exceptions involved, unpickle ∘ pickle = identity — which is what the
    harness checks for real `Record`s): running the calls in worker processes is
    indistinguishable from running them on the caller's objects, so every theorem above holds
    with the boundary in place -/
theorem faithful_pickling_invisible_partial (pa : α → α) (pb : β → β) (pe : ε → ε)
    (ha : ∀ a, pa a = a) (hb : ∀ b, pb b = b) (he : ∀ e, pe e = e)
    : ProcessBoundaryInvisible pa pb pe := by
  intro configCpus cpus f args hasTimeout evs
  have : overWire pa pb pe f = f := by
    funext a
    simp only [overWire, ha]
    cases f a with
    | ok b => simp [hb]
    | error e => simp [he]
  simp [parallelFunctionWire, this]

/-- **the process boundary, per batch** (widens `faithful_pickling_invisible_partial`): pickling
    need only be faithful on what THIS batch really sends — its arguments, the results its calls
    return and the exceptions its calls raise.  Values that do not survive pickling but do not occur
    in the batch (e.g. an unreconstructible exception class nobody raises) are irrelevant. -/
theorem pickling_invisible_on_batch (pa : α → α) (pb : β → β) (pe : ε → ε)
    (configCpus cpus : Nat) (f : α → Except ε β) (args : List α) (hasTimeout : Bool) (evs : List Event)
    (ha : ∀ a ∈ args, pa a = a)
    (hb : ∀ a ∈ args, ∀ b, f a = .ok b → pb b = b)
    (he : ∀ a ∈ args, ∀ e, f a = .error e → pe e = e) :
    parallelFunctionWire pa pb pe configCpus f args cpus hasTimeout evs =
      parallelFunction configCpus f args cpus hasTimeout evs := by
  unfold parallelFunctionWire
  split
  · rfl
  · apply parallelFunction_congr
    intro a hmem
    simp only [overWire, ha a hmem]
    cases hfa : f a with
    | ok b => simp [hb a hmem b hfa]
    | error e => simp [he a hmem e hfa]

/-- a lossy pickle of results is harmless for a batch whose results it does not touch: here `pb`
    forgets second components, and every result has second component 0 already -/
example : parallelFunctionWire id (fun (p : Nat × Nat) => (p.1, 0)) id 1
    (fun (n : Nat) => (Except.ok (n, 0) : Except String (Nat × Nat))) [1, 2, 3] 2 false
    [.done 2, .done 1, .done 0] = .returned [some (1, 0), some (2, 0), some (3, 0)] := by decide

/-- `parallel_execute(verbose=…)`: the logging runner and the silent one are the same function of
    the command's outcome, so the flag never changes the result -/
theorem verbose_flag_invisible (configCpus cpus : Nat) (interrupt : ε) (verbose : Bool)
    (commands : List (ExecResult ε)) (hasTimeout : Bool) (evs : List Event) :
    parallelExecute configCpus (runnerOf verbose interrupt) commands cpus hasTimeout evs =
      parallelExecute configCpus (childProcess interrupt) commands cpus hasTimeout evs := by
  cases verbose <;> rfl

/-! ### which children are workers (the D44 repair's own logic; seeded change C18_3) -/

/-- a child process the caller already had when the helper was entered is never taken for a
    worker: its exit is a `bystander` event … -/
theorem earlier_child_exit_is_bystander (before after : List Nat) (p : Nat) (h : p ∈ before) :
    Observed.toEvent before after (.exit p) = .bystander p :=
  classifyExit_of_mem_before before after p h

/-- … whereas the exit of a process that appeared with the pool is a worker death
    (`worker_death_surfaces` then applies) -/
theorem pool_worker_exit_is_death (before after : List Nat) (p : Nat) (ha : p ∈ after) (hb : p ∉ before) :
    Observed.toEvent before after (.exit p) = .died p :=
  classifyExit_of_worker before after p ha hb

/-- **bystanders are invisible**: deleting every bystander exit from ANY event list — wherever it
    occurs relative to completions, deadlines and worker deaths — leaves the outcome of
    `parallel_function` unchanged; so all theorems above hold in a process that owns other children -/
theorem bystander_exit_invisible (configCpus cpus : Nat) (f : α → Except ε β) (args : List α)
    (hasTimeout : Bool) (evs : List Event) :
    parallelFunction configCpus f args cpus hasTimeout (evs.filter fun e => !e.isBystander) =
      parallelFunction configCpus f args cpus hasTimeout evs := by
  unfold parallelFunction poolRun poolRunWith
  simp only [await_drop_bystanders]

/-- the same for `parallel_execute` -/
theorem bystander_exit_invisible_execute (configCpus cpus : Nat) (runner : α → Except ε Int)
    (commands : List α) (hasTimeout : Bool) (evs : List Event) :
    parallelExecute configCpus runner commands cpus hasTimeout (evs.filter fun e => !e.isBystander) =
      parallelExecute configCpus runner commands cpus hasTimeout evs := by
  unfold parallelExecute poolRun poolRunWith
  simp only [await_drop_bystanders]

/-! ### shared state: threaded in the parent vs shipped with the function (seeded change C18_2) -/

/-- **the code as written** (`pre_process_sequences`: `fix_record_name_id` with the shared id set
    runs as a loop in the parent, only the stateless `sanitise_sequence` goes to the workers):
    the stage gives the same outcome with any number of workers, any batch size and any
    completion order as with one cpu -/
theorem state_threaded_in_parent_cpus_invariant {σ γ : Type} (configCpus cpus configCpus' cpus' : Nat)
    (g : σ → α → Except ε (σ × β)) (s₀ : σ) (h : β → Except ε γ) (args : List α)
    (hasTimeout hasTimeout' : Bool) (sched rest evs' : List Event)
    (hk : 2 ≤ resolveCpus configCpus cpus) (h1 : resolveCpus configCpus' cpus' = 1)
    (hc : Complete (numChunks args.length (resolveCpus configCpus cpus)) sched)
    (hh : ∀ s bs, threaded g s₀ args = .ok (s, bs) → ∃ l, sequential h bs = .ok l) :
    preProcessStage configCpus g s₀ h args cpus hasTimeout (sched ++ rest) =
      preProcessStage configCpus' g s₀ h args cpus' hasTimeout' evs' := by
  unfold preProcessStage
  cases hthr : threaded g s₀ args with
  | error e => rfl
  | ok p =>
    obtain ⟨s, bs⟩ := p
    simp only
    split
    · rfl
    · obtain ⟨l, hl⟩ := hh s bs hthr
      have hlen := threaded_length g args s₀ s bs hthr
      rw [← hlen] at hc
      rw [parallel_eq_sequential configCpus cpus h bs hasTimeout sched rest hk hc l hl,
        cpus_one_ignores_pool configCpus' cpus' h bs hasTimeout' evs' h1]
      simp [sequentialOutcome, hl]

/-- **shipping the state with the function** (`parallel_function(partial(g, state), …)`): for every
    worker count `≥ 2`, batch size and completion order, the result equals the in-process result
    `bs` **iff** every task batch, run on the stale copy of the initial state, happens to produce
    what it produces on the live state (`StaleAgrees`) — e.g. when all calls fall into one batch or
    the outputs do not depend on the state; it differs as soon as one batch depends on an update
    made by an earlier batch (negation witness with real identifiers below) -/
theorem shipped_state_eq_sequential_iff {σ : Type} (configCpus cpus : Nat)
    (g : σ → α → Except ε (σ × β)) (s₀ sf : σ) (args : List α) (bs : List β)
    (hasTimeout : Bool) (sched rest : List Event)
    (hk : 2 ≤ resolveCpus configCpus cpus)
    (hc : Complete (numChunks args.length (resolveCpus configCpus cpus)) sched)
    (hseq : threaded g s₀ args = .ok (sf, bs)) :
    parallelFunctionShipped configCpus g s₀ args cpus hasTimeout (sched ++ rest) = .returned (bs.map some) ↔
      StaleAgrees g s₀ s₀ (getTasks (chunkSize args.length (resolveCpus configCpus cpus)) args) := by
  have h1 : resolveCpus configCpus cpus ≠ 1 := by omega
  have h0 : resolveCpus configCpus cpus ≠ 0 := by omega
  have hw : 0 < resolveCpus configCpus cpus := by omega
  simp only [parallelFunctionShipped, h1, h0, if_false]
  obtain ⟨_, hflat, _, _, _⟩ :=
    init_facts (shippedChunk g s₀) args (resolveCpus configCpus cpus)
  have hseq' := hseq
  rw [← hflat] at hseq'
  have hiff := shipped_eq_threaded_iff g s₀ _ s₀ sf bs hseq'
  have hcomp := poolRunWith_complete (shippedChunk g s₀) (shippedChunk_lengthPreserving g s₀) args
    _ hw hasTimeout sched rest hc
  constructor
  · intro hret
    apply hiff.mp
    cases hrs : comprehension (shippedChunk g s₀)
        (getTasks (chunkSize args.length (resolveCpus configCpus cpus)) args) with
    | ok rs =>
      rw [hcomp.1 rs hrs] at hret
      simp only [Outcome.returned.injEq] at hret
      exact ⟨rs, rfl, map_some_inj _ _ hret⟩
    | error e₀ =>
      obtain ⟨e, t, _, _, hraised⟩ := hcomp.2 e₀ hrs
      rw [hraised] at hret
      cases hret
  · intro hagree
    obtain ⟨rs, hrs, hflat'⟩ := hiff.mpr hagree
    rw [hcomp.1 rs hrs, hflat']

/-- in-process the shipped state IS the caller's state: one cpu gives the threaded result -/
theorem shipped_state_one_cpu {σ : Type} (configCpus cpus : Nat) (g : σ → α → Except ε (σ × β))
    (s₀ sf : σ) (args : List α) (bs : List β) (hasTimeout : Bool) (evs : List Event)
    (h1 : resolveCpus configCpus cpus = 1) (hseq : threaded g s₀ args = .ok (sf, bs)) :
    parallelFunctionShipped configCpus g s₀ args cpus hasTimeout evs = .returned (bs.map some) := by
  simp [parallelFunctionShipped, h1, hseq]

/-! ### how a `Record` is pickled (tables regenerated from `secmet/record.py` on every run) -/

/-- the class defines no pickling hook of its own (`__getstate__`, `__setstate__`, `__reduce__`,
    `__reduce_ex__`, `__getnewargs__`, …): copyreg's slot-by-slot state is what travels.  A change
    that adds one (seeded change C18_3 of round 4) breaks this obligation at build time. -/
theorem record_uses_default_pickling : defaultPickling = true := by decide

/-- no slot of `Record` bears a name that `Record.__setattr__` diverts to the wrapped `SeqRecord`
    (or to `add_annotation`) … -/
theorem record_slots_not_diverted :
    ∀ s ∈ ASV.Generated.RecordPickle.recordSlots, storedInSlot s = true := by decide

/-- … hence rebuilding an instance from its slot state (`setattr` per slot, through
    `Record.__setattr__`) restores exactly the slot state that was pickled: every slot — the wrapped
    `SeqRecord` with its dbxrefs, letter annotations and features included — comes back, none is
    diverted or dropped -/
theorem record_slot_state_roundtrip {V : Type} (st : SlotState V)
    (h : ∀ kv ∈ st, kv.1 ∈ ASV.Generated.RecordPickle.recordSlots) : rebuildSlots st = st :=
  rebuildSlots_id st fun kv hkv => record_slots_not_diverted kv.1 (h kv hkv)

/-- a `__getstate__` that ships a wrapped record rebuilt from seq/id/name/description/annotations
    is faithful **iff** the record carries no database cross references, no per-letter annotations
    and no Biopython features -/
theorem rebuilt_wrapped_faithful_iff {V : Type} (empty : V) (w : Wrapped V) :
    rebuiltWrapped empty w = w ↔ w.dbxrefs = empty ∧ w.letterAnnotations = empty ∧ w.features = empty := by
  cases w
  simp only [rebuiltWrapped, Wrapped.mk.injEq, true_and]
  constructor
  · rintro ⟨h1, h2, h3⟩; exact ⟨h1.symm, h2.symm, h3.symm⟩
  · rintro ⟨h1, h2, h3⟩; exact ⟨h1.symm, h2.symm, h3.symm⟩

/-- with such a `__getstate__` on the argument and result path (`pa = pb = rebuiltWrapped`), the
    identity worker returns a record that differs from the in-process one as soon as it has a DBLINK -/
example : parallelFunctionWire (rebuiltWrapped ([] : List String)) (rebuiltWrapped []) id 1
    (fun (w : Wrapped (List String)) => (Except.ok w : Except String (Wrapped (List String))))
    [⟨["ACGT"], ["r1"], ["r1"], ["d"], ["topology=linear"], ["BioProject:PRJNA1"], [], ["CDS 1..9"]⟩,
     ⟨["AC"], ["r2"], ["r2"], ["d"], [], [], [], []⟩] 2 false [.done 1, .done 0] =
    .returned [some ⟨["ACGT"], ["r1"], ["r1"], ["d"], ["topology=linear"], [], [], []⟩,
               some ⟨["AC"], ["r2"], ["r2"], ["d"], [], [], [], []⟩] := by decide
example : storedInSlot "_record" = true ∧ storedInSlot "annotations" = false ∧ storedInSlot "id" = false := by
  decide

/-! ### the parent-side filters of `pre_process_sequences` (by name, minimum length, count) -/

/-- the three filters only ever write skip flags: the records, their order, ids and lengths that go
    on to the second trip through `parallel_function` are those that came back from the first -/
theorem parent_filters_keep_ids_and_order (target : String) (minlength : Nat) (maximum : Int)
    (rs out : List FRec) (hit : Bool) (h : parentFilters target minlength maximum rs = .ok (out, hit)) :
    out.map (fun r => (r.id, r.len)) = rs.map (fun r => (r.id, r.len)) := by
  unfold parentFilters at h
  cases hn : filterByName target rs with
  | error e => rw [hn] at h; cases h
  | ok rs₁ =>
    rw [hn] at h
    simp only [Except.ok.injEq] at h
    have h1 := filterByName_ids target rs rs₁ hn
    have h2 := filterByMinLength_ids minlength rs₁
    have h3 := filterByCount_ids maximum (filterByMinLength minlength rs₁)
    rw [h] at h3
    rw [h3, h2, h1]

/-- `--limit-to-record`: afterwards every record that is not skipped bears the requested id -/
theorem filter_by_name_only_target (target : String) (rs out : List FRec) (hne : target.isEmpty = false)
    (h : filterByName target rs = .ok out) : ∀ r ∈ out, r.id = target ∨ truthy r.skip = true :=
  filterByName_only_target target rs out hne h

/-- `--limit -1`, or a limit above the number of records, changes nothing and is not "hit" -/
theorem filter_by_count_unlimited (maximum : Int) (rs : List FRec)
    (h : maximum = -1 ∨ maximum > rs.length) : filterByCount maximum rs = (rs, false) := by
  unfold filterByCount
  have : (maximum = -1 || decide (maximum > (rs.length : Int))) = true := by
    rcases h with h | h <;> simp [h]
  simp [this]

/-- limit 2 of four records (one already skipped): the two longest meaningful ones stay, ties by
    position; the limit is reported as hit -/
example : filterByCount 2 [⟨"a", 50, none⟩, ⟨"b", 90, some "x"⟩, ⟨"c", 70, none⟩, ⟨"d", 50, none⟩, ⟨"e", 70, none⟩] =
    ([⟨"a", 50, some "skipping all but largest 2 meaningful records (--limit) "⟩, ⟨"b", 90, some "x"⟩,
      ⟨"c", 70, none⟩, ⟨"d", 50, some "skipping all but largest 2 meaningful records (--limit) "⟩,
      ⟨"e", 70, none⟩], true) := by decide
example : filterByName "zz" [⟨"a", 5, none⟩] = .error "AntismashInputError" := rfl
example : filterByMinLength 10 [⟨"a", 9, none⟩, ⟨"b", 10, none⟩] =
    [⟨"a", 9, some "smaller than minimum length (10)"⟩, ⟨"b", 10, none⟩] := by decide

/-! ### the worker functions of `pre_process_sequences` (pure functions of the record) -/

/-- `sanitise_sequence` leaves only `A C G T N`, never lengthens the sequence … -/
theorem sanitise_output_alphabet (r : SeqRec) (c : Char) (h : c ∈ (sanitiseSequence r).seq) :
    c ∈ ['A', 'C', 'G', 'T', 'N'] ∧ (sanitiseSequence r).seq.length ≤ r.seq.length :=
  ⟨sanitiseChars_alphabet r.seq c h, sanitiseChars_length_le r.seq⟩

/-- … and is idempotent: a record that went through it (in a worker or not) is unchanged by a
    second pass, sequence and skip flag alike -/
theorem sanitise_idempotent (r : SeqRec) : sanitiseSequence (sanitiseSequence r) = sanitiseSequence r :=
  sanitiseSequence_idempotent r

/-- `ensure_cds_info`: a record that comes back without error is skipped or has genes; skipped
    records come back untouched -/
theorem ensure_cds_info_marks_geneless (gff3 toolNone : Bool) (gf : GeneFinder) (r r' : CdsRec)
    (h : ensureCdsInfo gff3 toolNone gf r = .ok r') :
    (truthy r'.skip = true ∨ 0 < r'.cds) ∧ (truthy r.skip = true → r' = r) := by
  refine ⟨ensureCdsInfo_post gff3 toolNone gf r r' h, fun hs => ?_⟩
  rw [ensureCdsInfo_skipped gff3 toolNone gf r hs] at h
  cases h; rfl

/-! ### non-vacuity: concrete batches, schedules and outcomes -/

example : sanitiseSequence ⟨"ac-gtRyN-".toList, none⟩ = ⟨"ACGTNNN".toList, none⟩ := by decide
example : sanitiseSequence ⟨"nn--RY".toList, none⟩ = ⟨"NNNN".toList, some "contains no sequence"⟩ := by decide
example : ensureCdsInfo false false (.finds 0) ⟨none, 0⟩ = .ok ⟨some "No genes found", 0⟩ := rfl
example : ensureCdsInfo false false .fails ⟨none, 0⟩ = .error "AntismashInputError" := rfl
example : ensureCdsInfo false true .fails ⟨none, 0⟩ = .ok ⟨some "No genes found", 0⟩ := rfl
example : ensureCdsInfo false false (.finds 3) ⟨none, 0⟩ = .ok ⟨none, 3⟩ := rfl

/-- seeded change C18_3 in the model: if nothing is excluded from the worker list
    (`before = []`), the exit of the caller's earlier child 100 is read as a worker death … -/
example : parallelFunctionObserved 1 [] [100, 0, 1] (fun (n : Nat) => (Except.ok n : Except String Nat))
    [1, 2, 3] 2 false [.done 0, .exit 100, .done 1, .done 2] = .raised .workerDied := by decide
/-- … with the snapshot taken properly the same observations give the sequential result -/
example : parallelFunctionObserved 1 [100] [100, 0, 1] (fun (n : Nat) => (Except.ok n : Except String Nat))
    [1, 2, 3] 2 false [.done 0, .exit 100, .done 1, .done 2] = .returned [some 1, some 2, some 3] := by
  decide
/-- seeded change C18_2 in the model, with the C16 model of `fix_record_name_id`: `scaffold(1)` and
    `scaffold[1]` both become `scaffold1`; threaded in one process the second one is renamed … -/
example : (match threaded (fixCall false) ["scaffold(1)".toList, "scaffold[1]".toList]
      [{ id := "scaffold(1)".toList, name := "n".toList, orig := none, index := 1 }, { id := "scaffold[1]".toList, name := "n".toList, orig := none, index := 2 }] with
    | .ok p => p.2.map (·.id) == ["scaffold1".toList, "scaffold1_0".toList]
    | .error _ => false) = true := by decide
/-- … shipped to two workers (two batches of one record) both keep `scaffold1`: duplicate ids -/
example : parallelFunctionShipped 1 (fun t r => (fixCall false t r).map fun p => (p.1, p.2.id))
      ["scaffold(1)".toList, "scaffold[1]".toList]
      [{ id := "scaffold(1)".toList, name := "n".toList, orig := none, index := 1 }, { id := "scaffold[1]".toList, name := "n".toList, orig := none, index := 2 }]
      2 false [.done 1, .done 0] = .returned [some "scaffold1".toList, some "scaffold1".toList] := by decide
/-- what the faithfulness hypothesis protects: a result type whose pickle loses information
    (here: `pb` forgets the second component) makes the pool path differ from the sequential one -/
example : parallelFunctionWire id (fun (p : Nat × Nat) => (p.1, 0)) id 1
    (fun (n : Nat) => (Except.ok (n, n) : Except String (Nat × Nat))) [1, 2, 3] 2 false
    [.done 2, .done 1, .done 0] = .returned [some (1, 0), some (2, 0), some (3, 0)] := by decide
example : sequentialOutcome (fun (n : Nat) => (Except.ok (n, n) : Except String (Nat × Nat))) [1, 2, 3] =
    .returned [some (1, 1), some (2, 2), some (3, 3)] := by decide
/-- the boundary is *visible* for an unfaithful pickle: `ProcessBoundaryInvisible` fails -/
example : ¬ ProcessBoundaryInvisible (α := Nat) (ε := String) id (fun (p : Nat × Nat) => (p.1, 0)) id := by
  intro h
  have := h 1 2 (fun (n : Nat) => (Except.ok (n, n) : Except String (Nat × Nat))) [1] false [.done 0]
  revert this
  decide
/-- negation witness for KF-C18-unreconstructible-exception: CPython's result-handler thread dies
    while unpickling the exception of chunk 1, so no later completion ever reaches the parent —
    the event list ends after chunk 0 — and the call blocks instead of raising -/
example : parallelFunction 1 (fun (n : Nat) => if n = 2 then Except.error "Unreconstructible" else Except.ok n)
    [1, 2, 3] 2 false [.done 0] = (.blocked : Outcome String Nat) := by decide
/-- a valid but incomplete and interrupted event list -/
example : Valid 5 [.done 4, .timeout, .done 0, .died 1] := by
  refine ⟨by decide, by decide⟩


/-- nine calls on two workers: chunks of two, five chunks -/
example : numChunks 9 2 = 5 := by decide
/-- chunks completing in the order 4,0,3,1,2 form a complete schedule -/
example : Complete 5 [.done 4, .done 0, .done 3, .done 1, .done 2] :=
  ⟨by decide, List.isPerm_iff.mp (by decide)⟩
/-- … and the results still come back in argument order -/
example : parallelFunction 1 (fun (n : Nat) => (Except.ok (n * 10) : Except String Nat))
    [1, 2, 3, 4, 5, 6, 7, 8, 9] 2 false [.done 4, .done 0, .done 3, .done 1, .done 2] =
    .returned [some 10, some 20, some 30, some 40, some 50, some 60, some 70, some 80, some 90] := by
  decide
/-- two failing calls (3 and 8): the chunk that completes first decides which error is raised;
    sequentially it would be call 3's -/
example : parallelFunction 1 (fun (n : Nat) => if n = 3 ∨ n = 8 then Except.error n else Except.ok n)
    [1, 2, 3, 4, 5, 6, 7, 8, 9] 2 false [.done 3, .done 0, .done 4, .done 1, .done 2] =
    (.raised (.task 8) : Outcome Nat Nat) := by decide
example : sequentialOutcome (fun (n : Nat) => if n = 3 ∨ n = 8 then Except.error n else Except.ok n)
    [1, 2, 3, 4, 5, 6, 7, 8, 9] = (.raised (.task 3) : Outcome Nat Nat) := by decide
/-- a deadline after three of five chunks; a dead worker after one; an incomplete schedule blocks -/
example : parallelFunction 1 (fun (n : Nat) => (Except.ok n : Except String Nat))
    [1, 2, 3, 4, 5, 6, 7, 8, 9] 2 true [.done 1, .done 0, .done 2, .timeout, .done 3, .done 4] =
    .raised .timeout := by decide
example : parallelFunction 1 (fun (n : Nat) => (Except.ok n : Except String Nat))
    [1, 2, 3, 4, 5, 6, 7, 8, 9] 2 false [.done 1, .died 0, .done 0, .done 2, .done 3] =
    .raised .workerDied := by decide
example : parallelFunction 1 (fun (n : Nat) => (Except.ok n : Except String Nat))
    [1, 2, 3, 4, 5, 6, 7, 8, 9] 2 false [.done 1, .done 0, .done 2, .done 3] = .blocked := by decide
/-- the config default is used when no cpu count is given -/
example : resolveCpus 4 0 = 4 ∧ resolveCpus 4 2 = 2 := by decide

end ASV.C18
