/-
  C11 — reusing saved module results reproduces the original results.

  Objects and functions are those of `ASV/Model/Results.lean` (one Lean function per Python
  `to_json` / `from_json` / `regenerate_previous_results`), the meaning is `ASV/Spec/Results.lean`.
  `reuse x` = the module continues with `x`; `discard` = `None` (the module runs afresh);
  `refuse e` = an exception (the run stops).

  Part 1  `…_json_roundtrip`  : from_json(to_json(x)) = x for every x satisfying the class invariant
                               (the invariant is what the constructors enforce / what the producing
                               code establishes; `…_decoded_valid` shows decoding re-establishes it)
  Part 2  `…_json_stable`, `…_cycles` : the regenerated object writes the identical JSON tree, for
                               any number of save → regenerate cycles
  Part 3  guards              : a `reuse` decision implies same schema version, same record, same
                               settings; mismatches give `discard`/`refuse`; threshold changes of
                               TTA / HMMer results give exactly the results of a fresh run / the
                               stored hits inside the new thresholds
  Part 4  `…_adds_same_…`     : what the results add to the record is a function of the decoded
                               value, hence the same after regeneration

  The text layer inside the JSON (`str(location)` / `location_from_string`, `str(int)` / `int(text)`)
  is covered: `ASV.C04.string_roundtrip` (proved for all locations with ≥ 1 part) is used for the
  protocluster and TTA locations, `strInt_intStr` for the numeric qualifiers.
  `Module.valid` contains `ModRules.accepts` (re-adding the components one by one raises nothing).
  Part 1b instantiates the rules with C14's transcription of `classify`/`add_component`
  (`c14Rules`) and discharges that hypothesis for every module `build_modules_for_cds`,
  `combine_modules` and the whole `generate_domains` loop produce (C14: `build_modules_good`,
  `combine_keeps_good`, `chain_total`): no abstract hypothesis is left for NRPS/PKS results.
-/
import ASV.Proofs.ResultsGuards
import ASV.Proofs.ResultsModules
import ASV.Proofs.ResultsFile
import ASV.Proofs.ResultsOptions
import ASV.Props.C14
namespace ASV.C11
open ASV ASV.Results ASV.Results.Spec

/-! ### Part 1 — round trips -/

/-- HMM hits with arbitrarily nested internal hits -/
theorem hmmResult_json_roundtrip : RoundTrips HMMResult.toJson HMMResult.fromJson (fun h => h.valid = true) :=
  fun h hv => HMMResult.fromJson_toJson h hv

/-- whatever `from_json` accepts satisfies the constructor's invariant again -/
theorem hmmResult_decoded_valid (j : J) (h : HMMResult) (hj : HMMResult.fromJson j = .reuse h) : h.valid = true :=
  HMMResult.fromJson_valid j h hj

/-- so *any* accepted JSON is stable from the second cycle on -/
theorem hmmResult_any_json_stable (j : J) (h : HMMResult) (hj : HMMResult.fromJson j = .reuse h) :
    HMMResult.fromJson h.toJson = .reuse h :=
  HMMResult.fromJson_toJson h (HMMResult.fromJson_valid j h hj)

theorem module_json_roundtrip (r : ModRules) :
    RoundTrips Module.toJson (Module.fromJson r) (fun m => m.valid r = true) :=
  fun m hv => Module.fromJson_toJson r m hv

theorem nrpsPks_json_roundtrip (r : ModRules) (ctx : Ctx) :
    RoundTrips NrpsPks.toJson (NrpsPks.fromJson r ctx) (fun x => x.valid r ctx = true) :=
  fun x hv => NrpsPks.fromJson_toJson r ctx x hv

/-- CDSResults of rule-based detection; definition domains are sets (sorted lists) -/
theorem cdsResults_json_roundtrip (ctx : Ctx) :
    RoundTrips CdsRes.toJson (CdsRes.fromJson ctx) (fun c => c.valid ctx = true) :=
  fun c hv => CdsRes.fromJson_toJson ctx c hv

/-- a protocluster serialised as a feature comes back without its run-specific number / edge flag -/
theorem protocluster_json_roundtrip (p : Proto) (hv : p.valid = true) :
    Proto.fromJson p.toJson = .reuse p.detach :=
  Proto.fromJson_toJson p hv

/-- … and writes the same feature again once the record has numbered it as before -/
theorem protocluster_reattached_same_json (p : Proto) (n : Int) (e : Bool)
    (hn : p.number = some n) (he : p.contigEdge = some e) : (p.detach.attach n e).toJson = p.toJson :=
  Proto.toJson_attach_detach p n e hn he

theorem ruleDetection_json_roundtrip (ctx : Ctx) (x : RuleRes) (hv : x.valid ctx = true) :
    RuleRes.fromJson ctx x.toJson = .reuse x.detach :=
  RuleRes.fromJson_toJson ctx x hv

theorem hmmDetection_json_roundtrip (ctx : Ctx) (x : HmmDet) (hv : x.valid ctx = true) :
    HmmDet.fromJson ctx x.toJson = .reuse { x with rules := x.rules.detach } :=
  HmmDet.fromJson_toJson ctx x hv

/-- same options as when saving (rule names, fungal multipliers): `regenerate_previous_results`
    reuses the results — whatever the strictness option says -/
theorem hmmDetection_regenerate_same_settings (ctx : Ctx) (o : HmmOpts) (x : HmmDet) (hv : x.valid ctx = true)
    (hnames : setEq x.enabledTypes o.ruleNames = true)
    (hmult : o.fungi = true → x.rules.cutoffMult = o.cutoffMult ∧ x.rules.neighMult = o.neighMult) :
    HmmDet.regenerate ctx o x.toJson = .reuse { x with rules := x.rules.detach } := by
  have h := HmmDet.fromJson_toJson ctx x hv
  unfold HmmDet.regenerate
  split
  · rename_i heq; simp [HmmDet.toJson] at heq
  · rw [h]
    simp only [RuleRes.detach, hnames]
    cases hf : o.fungi with
    | false => simp
    | true => simp [(hmult hf).1, (hmult hf).2]

theorem sideloaded_json_roundtrip (ctx : Ctx) :
    RoundTrips Sideloaded.toJson (Sideloaded.fromJson ctx) (fun x => x.valid ctx = true) :=
  fun x hv => Sideloaded.fromJson_toJson ctx x hv

theorem hmmerResults_json_roundtrip (ctx : Ctx) :
    RoundTrips HmmerRes.toJson (HmmerRes.fromJson ctx) (fun x => x.valid ctx = true) := by
  intro x hv
  simp only [HmmerRes.valid, Bool.and_eq_true, List.all_eq_true, beq_iff_eq] at hv
  exact HmmerRes.fromJson_toJson ctx x hv.1 (fun h hh => (hv.2 h hh).1.1)

/-- unchanged thresholds: full_hmmer / cluster_hmmer reuse the stored results as they are -/
theorem hmmer_regenerate_same_thresholds (ctx : Ctx) (x : HmmerRes) (hv : x.valid ctx = true) :
    HmmerRes.regenerate ctx x.evalue x.score x.toJson = .reuse x := by
  have hr := hmmerResults_json_roundtrip ctx x hv
  simp only [HmmerRes.valid, Bool.and_eq_true, List.all_eq_true, beq_iff_eq] at hv
  unfold HmmerRes.regenerate
  split
  · rename_i heq; simp [HmmerRes.toJson] at heq
  · rw [hr]
    simp only [Dec.lt_irrefl, Bool.or_self, Bool.false_eq_true, if_false, HmmerRes.refilter]
    have hf := filter_eq_self_of_all (fun h : HmmerHit => Dec.le x.score h.score && Dec.le h.evalue x.evalue) x.hits
      (fun h hh => by simp [(hv.2 h hh).1.2, (hv.2 h hh).2])
    cases x
    simp_all

theorem detect_locsOk (rid : String) (gc t : Dec) (all : List Loc) (hl : TTA.locsOk all = true) :
    TTA.locsOk (TTA.detect rid gc t all).codons = true := by
  unfold TTA.detect
  split
  · rfl
  · exact hl

/-- TTA results as stored by `detect` under threshold `t` and re-read under the same threshold -/
theorem tta_json_roundtrip (rid : String) (gc t : Dec) (all : List Loc) (hl : TTA.locsOk all = true) :
    TTA.fromJson t (TTA.detect rid gc t all).toJson = .reuse (TTA.detect rid gc t all) := by
  rw [TTA.fromJson_toJson_cases _ _ (detect_locsOk rid gc t all hl)]
  unfold TTA.detect
  cases h : Dec.lt gc t with
  | true =>
    have : Dec.le t gc = false := by rw [Dec.le_eq_not_lt, h]; rfl
    simp [this]
  | false =>
    have : Dec.le t gc = true := by rw [Dec.le_eq_not_lt, h]; rfl
    simp [h, this]

/-! ### Part 2 — stability over repeated cycles -/

/-- a round-tripping class writes the same JSON after regeneration -/
theorem stable_of_roundtrips {α} (enc : α → J) (dec : J → Outcome α) (inv : α → Prop)
    (h : RoundTrips enc dec inv) : Stable enc dec inv :=
  fun x hx => ⟨x, h x hx, rfl⟩

/-- … and keeps doing so for any number of save → regenerate cycles -/
theorem cycles_of_roundtrips {α} (enc : α → J) (dec : J → Outcome α) (inv : α → Prop)
    (h : RoundTrips enc dec inv) : ∀ (n : Nat) (x : α), inv x → cycles enc dec n x = .reuse x
  | 0, _, _ => rfl
  | n + 1, x, hx => by
    simp only [cycles, h x hx]
    exact cycles_of_roundtrips enc dec inv h n x hx

theorem hmmResult_json_stable : Stable HMMResult.toJson HMMResult.fromJson (fun h => h.valid = true) :=
  stable_of_roundtrips _ _ _ hmmResult_json_roundtrip

theorem nrpsPks_cycles (r : ModRules) (ctx : Ctx) (n : Nat) (x : NrpsPks) (hv : x.valid r ctx = true) :
    cycles NrpsPks.toJson (NrpsPks.fromJson r ctx) n x = .reuse x :=
  cycles_of_roundtrips _ _ _ (nrpsPks_json_roundtrip r ctx) n x hv

theorem sideloaded_cycles (ctx : Ctx) (n : Nat) (x : Sideloaded) (hv : x.valid ctx = true) :
    cycles Sideloaded.toJson (Sideloaded.fromJson ctx) n x = .reuse x :=
  cycles_of_roundtrips _ _ _ (sideloaded_json_roundtrip ctx) n x hv

theorem hmmerResults_cycles (ctx : Ctx) (n : Nat) (x : HmmerRes) (hv : x.valid ctx = true) :
    cycles HmmerRes.toJson (HmmerRes.fromJson ctx) n x = .reuse x :=
  cycles_of_roundtrips _ _ _ (hmmerResults_json_roundtrip ctx) n x hv

/-- rule-detection results before the record has numbered the protoclusters: a fixpoint from the
    first regeneration on (the first one only drops the numbering) -/
theorem hmmDetection_cycles (ctx : Ctx) (n : Nat) (x : HmmDet) (hv : x.valid ctx = true) :
    cycles HmmDet.toJson (HmmDet.fromJson ctx) (n + 1) x = .reuse { x with rules := x.rules.detach } := by
  have hd : ({ x with rules := x.rules.detach } : HmmDet).valid ctx = true := by
    simp only [HmmDet.valid, Bool.and_eq_true] at hv ⊢
    exact ⟨⟨hv.1.1, RuleRes.detach_valid ctx x.rules hv.1.2⟩, hv.2⟩
  have hfix : RoundTrips HmmDet.toJson (HmmDet.fromJson ctx)
      (fun y => y.valid ctx = true ∧ y.rules.detach = y.rules) := by
    intro y hy
    have := HmmDet.fromJson_toJson ctx y hy.1
    rw [hy.2] at this
    exact this
  simp only [cycles, HmmDet.fromJson_toJson ctx x hv]
  exact cycles_of_roundtrips _ _ _ hfix n _ ⟨hd, RuleRes.detach_detach x.rules⟩

/-- the written JSON is identical once the record has numbered the regenerated protoclusters as
    it had numbered the originals -/
theorem hmmDetection_json_stable (ctx : Ctx) (x : HmmDet) (hv : x.valid ctx = true) :
    ∃ y, HmmDet.fromJson ctx x.toJson = .reuse y ∧ y.rules.detach = x.rules.detach
      ∧ y.recordId = x.recordId ∧ y.enabledTypes = x.enabledTypes ∧ y.strictness = x.strictness :=
  ⟨_, HmmDet.fromJson_toJson ctx x hv, RuleRes.detach_detach x.rules, rfl, rfl, rfl⟩

/-! ### Part 1b — NRPS/PKS modules: the re-adding contract discharged with C14's model

  `ModuleOf mo m`: the stored module `mo` (whole HMM hits) is the saved form of C14's module `m`
  (its components seen through `absC`: hit id, detailed names, coordinates, locus). -/

/-- every module C14 calls `Good` reloads from its JSON under the concrete rules -/
theorem module_json_roundtrip_good (mo : Module) (m : Modules.Module) (hg : Modules.Good m)
    (ho : ModuleOf mo m) (hv : ∀ c ∈ mo.components, c.domain.valid = true) :
    Module.fromJson c14Rules mo.toJson = .reuse mo :=
  Module.fromJson_toJson c14Rules mo (valid_of_good mo m hg ho hv)

/-- … in particular every module of `build_modules_for_cds`, for all domain lists -/
theorem module_json_roundtrip_built (ds : List Modules.Domain) (name : String) (h : C14.InputOK ds name)
    (ms : List Modules.Module) (hb : Modules.build ds name = .ok ms) (m : Modules.Module) (hm : m ∈ ms)
    (mo : Module) (ho : ModuleOf mo m) (hv : ∀ c ∈ mo.components, c.domain.valid = true) :
    Module.fromJson c14Rules mo.toJson = .reuse mo :=
  module_json_roundtrip_good mo m (C14.build_modules_good ds name h ms hb m hm) ho hv

/-- … and every module either gene holds after `combine_modules` (the merged one included) -/
theorem module_json_roundtrip_combined (cs ps : Int) (cur prev : List Modules.Module)
    (hp : ∀ m ∈ prev, Modules.Good m) (hc : ∀ m ∈ cur, Modules.Good m) (r : Modules.Combined)
    (h : Modules.combine cs ps cur prev = .ok r) (m : Modules.Module) (hm : m ∈ r.prev ++ r.cur)
    (mo : Module) (ho : ModuleOf mo m) (hv : ∀ c ∈ mo.components, c.domain.valid = true) :
    Module.fromJson c14Rules mo.toJson = .reuse mo :=
  module_json_roundtrip_good mo m (C14.combine_keeps_good cs ps cur prev hp hc r h m hm) ho hv

/-- the results of a whole `generate_domains` run (any genes, strands, regions; modules merged over
    gene borders): `x` stores, per gene, valid HMM hits and modules that are saved forms of modules
    of `chain genes`.  Then `x` reloads to itself, for any number of cycles — no hypothesis about
    re-adding. -/
theorem nrpsPks_json_roundtrip_generated (genes : List Modules.Gene)
    (h : ∀ g ∈ genes, C14.InputOK g.domains g.name) (out : List Modules.GeneResult)
    (hout : Modules.chain genes = .ok out) (ctx : Ctx) (x : NrpsPks) (hid : x.recordId = ctx.recordId)
    (hx : ∀ p ∈ x.cds, ctx.cdsNames.contains p.1 = true
      ∧ (∀ d ∈ p.2.domainHmms, d.valid = true) ∧ (∀ d ∈ p.2.motifHmms, d.valid = true)
      ∧ ∀ mo ∈ p.2.modules, (∀ c ∈ mo.components, c.domain.valid = true)
          ∧ ∃ r ∈ out, ∃ m ∈ r.modules, ModuleOf mo m) :
    NrpsPks.fromJson c14Rules ctx x.toJson = .reuse x
    ∧ ∀ n, cycles NrpsPks.toJson (NrpsPks.fromJson c14Rules ctx) n x = .reuse x := by
  obtain ⟨out', hout', hgood⟩ := C14.chain_total genes h
  rw [hout] at hout'; injection hout' with hout'; subst hout'
  have hv : x.valid c14Rules ctx = true := by
    simp only [NrpsPks.valid, Bool.and_eq_true, List.all_eq_true, beq_iff_eq, CDSResult.valid]
    refine ⟨hid, fun p hp => ?_⟩
    obtain ⟨h1, h2, h3, h4⟩ := hx p hp
    refine ⟨h1, ⟨h2, h3⟩, fun mo hmo => ?_⟩
    obtain ⟨hvc, r, hr, m, hm, ho⟩ := h4 mo hmo
    exact valid_of_good mo m (hgood r hr m hm) ho hvc
  exact ⟨NrpsPks.fromJson_toJson c14Rules ctx x hv, fun n => nrpsPks_cycles c14Rules ctx n x hv⟩

/-! ### Part 3 — guards: results saved under another schema, record or settings are never reused -/

theorem nrpsPks_reuse_only_same_schema_record (r : ModRules) (ctx : Ctx) (j : J) (x : NrpsPks)
    (h : NrpsPks.fromJson r ctx j = .reuse x) : nrpsPksMayReuse ctx j = true ∧ x.recordId = ctx.recordId :=
  NrpsPks.reuse_inv h

theorem nrpsPks_schema_guard (r : ModRules) (ctx : Ctx) (kv : List (String × J))
    (h : isIntLit (lookup "schema_version" kv) 4 = false) : NrpsPks.fromJson r ctx (.obj kv) = .discard :=
  NrpsPks.schema_guard h

theorem nrpsPks_record_guard (r : ModRules) (ctx : Ctx) (kv : List (String × J))
    (h : isStrLit (lookup "record_id" kv) ctx.recordId = false) : NrpsPks.fromJson r ctx (.obj kv) = .discard := by
  simp only [NrpsPks.fromJson]
  split
  · rfl
  · simp [h]

theorem ruleDetection_schema_guard (ctx : Ctx) (kv : List (String × J))
    (h : isIntLit (lookup "schema_version" kv) 4 = false) : RuleRes.fromJson ctx (.obj kv) = .discard :=
  RuleRes.schema_guard h

/-- hmm_detection: reuse implies outer schema 2, inner schema 4, same record, enabled rule names =
    the current options' rule names, and (fungal) the same multipliers -/
theorem hmmDetection_reuse_only_same_settings (ctx : Ctx) (o : HmmOpts) (j : J) (x : HmmDet)
    (h : HmmDet.regenerate ctx o j = .reuse x) :
    intField j "schema_version" = some 2 ∧ strField j "record_id" = some ctx.recordId
    ∧ x.recordId = ctx.recordId
    ∧ (∃ rj, field j "rule_results" = some rj ∧ intField rj "schema_version" = some 4)
    ∧ setEq x.enabledTypes o.ruleNames = true
    ∧ (o.fungi = true → x.rules.cutoffMult = o.cutoffMult ∧ x.rules.neighMult = o.neighMult) := by
  obtain ⟨hf, hn, hm⟩ := HmmDet.regenerate_inv h
  obtain ⟨h1, h2, h3, h4, _⟩ := HmmDet.fromJson_inv hf
  exact ⟨h1, h2, h3, h4, hn, hm⟩

/-- … and each single mismatch refuses (the run stops) instead of reinterpreting -/
theorem hmmDetection_rule_names_guard (ctx : Ctx) (o : HmmOpts) (j : J) (x : HmmDet)
    (hj : HmmDet.fromJson ctx j = .reuse x) (hne : j ≠ .obj [])
    (h : setEq x.enabledTypes o.ruleNames = false) : HmmDet.regenerate ctx o j = .refuse .runtime := by
  unfold HmmDet.regenerate
  split
  · exact absurd rfl hne
  · rw [hj]; simp [h]

theorem hmmDetection_multiplier_guard (ctx : Ctx) (o : HmmOpts) (j : J) (x : HmmDet)
    (hj : HmmDet.fromJson ctx j = .reuse x) (hne : j ≠ .obj []) (hf : o.fungi = true)
    (h : x.rules.cutoffMult ≠ o.cutoffMult ∨ x.rules.neighMult ≠ o.neighMult) :
    HmmDet.regenerate ctx o j = .refuse .runtime := by
  unfold HmmDet.regenerate
  split
  · exact absurd rfl hne
  · rw [hj]
    simp only [hf, Bool.true_and]
    split
    · rfl
    · split
      · rfl
      · split
        · rfl
        · rename_i h2 h3
          simp at h2 h3
          cases h with
          | inl h => exact absurd h2 h
          | inr h => exact absurd h3 h

theorem hmmDetection_schema_guard (ctx : Ctx) (kv : List (String × J)) (sv : J)
    (hs : lookup "schema_version" kv = some sv) (h : isIntLit (some sv) 2 = false) :
    HmmDet.fromJson ctx (.obj kv) = .refuse .value := by
  simp [HmmDet.fromJson, HmmDet.schemaVersion, hs, h]

theorem sideloaded_reuse_only_same_schema_record (ctx : Ctx) (j : J) (x : Sideloaded)
    (h : Sideloaded.fromJson ctx j = .reuse x) : sideloadMayReuse ctx j = true ∧ x.recordId = ctx.recordId :=
  Sideloaded.reuse_inv h

/-- HMMer-based modules: reuse implies schema 2, same record, stored thresholds not stricter than
    the current ones; the reused hits are exactly the stored hits inside the current thresholds,
    and the results now carry the current thresholds -/
theorem hmmer_reuse_only_compatible (ctx : Ctx) (maxE minS : Dec) (j : J) (y : HmmerRes)
    (h : HmmerRes.regenerate ctx maxE minS j = .reuse y) :
    hmmerMayReuse ctx maxE minS j = true ∧ y.recordId = ctx.recordId ∧ y.evalue = maxE ∧ y.score = minS
    ∧ ∃ x, HmmerRes.fromJson ctx j = .reuse x ∧ y.hits = hmmerReference x.hits maxE minS := by
  obtain ⟨x, hx, hr⟩ := HmmerRes.regenerate_inv h
  obtain ⟨h1, h2, h3, h4, h5⟩ := HmmerRes.fromJson_inv hx
  obtain ⟨r1, r2, r3, r4, r5, r6⟩ := HmmerRes.refilter_inv hr
  refine ⟨?_, by rw [r6, h5], r4, r5, x, hx, r3⟩
  simp [hmmerMayReuse, h1, h2, h3, h4, r1, r2]

/-- FULL statement (does not hold, see the witness below): after a change of thresholds the reused
    hits are exactly the hits a fresh run under the new thresholds reports. -/
def hmmer_refilter_matches_fresh_full : Prop :=
  ∀ (x y : HmmerRes) (maxE minS : Dec), x.refilter maxE minS = .reuse y → y.hits = hmmerFresh x.hits maxE minS

/-- proved part: it holds whenever no stored hit lies exactly on a current threshold
    (complement of the known-finding class KF-C11-refilter-boundary, `hmmerOnBoundary`) -/
theorem hmmer_refilter_matches_fresh_partial (x y : HmmerRes) (maxE minS : Dec)
    (h : x.refilter maxE minS = .reuse y) (hb : hmmerOnBoundary x.hits maxE minS = false) :
    y.hits = hmmerFresh x.hits maxE minS := by
  obtain ⟨_, _, h3, _⟩ := HmmerRes.refilter_inv h
  rw [h3, hmmerReference_eq_fresh x.hits maxE minS hb]

/-- the general case, no hypothesis: what `refilter` keeps is the fresh-run hit list plus, possibly,
    hits lying exactly on a current threshold — every fresh hit is kept, in order (the fresh list is
    the kept list filtered by the strict comparison), and every kept hit that a fresh run would not
    report is a boundary hit.  So the known-finding class is *exactly* where the two can differ. -/
theorem hmmer_refilter_vs_fresh (x y : HmmerRes) (maxE minS : Dec) (h : x.refilter maxE minS = .reuse y) :
    hmmerFresh x.hits maxE minS = y.hits.filter (fun h => Dec.lt minS h.score && Dec.lt h.evalue maxE)
    ∧ (∀ h ∈ hmmerFresh x.hits maxE minS, h ∈ y.hits)
    ∧ (∀ h ∈ y.hits, h ∉ hmmerFresh x.hits maxE minS → hmmerOnBoundary [h] maxE minS = true) := by
  obtain ⟨_, _, h3, _⟩ := HmmerRes.refilter_inv h
  have himp : ∀ k : HmmerHit, (Dec.lt minS k.score && Dec.lt k.evalue maxE) = true →
      (Dec.le minS k.score && Dec.le k.evalue maxE) = true := by
    intro k hk
    simp only [Bool.and_eq_true] at hk ⊢
    exact ⟨Dec.le_of_lt hk.1, Dec.le_of_lt hk.2⟩
  refine ⟨?_, ?_, ?_⟩
  · rw [h3]
    simp only [hmmerFresh, hmmerReference, List.filter_filter]
    apply filter_congr'
    intro k _
    cases hk : (Dec.lt minS k.score && Dec.lt k.evalue maxE)
    · simp
    · simp [himp k hk]
  · intro k hk
    rw [h3]
    simp only [hmmerFresh, hmmerReference, List.mem_filter] at hk ⊢
    exact ⟨hk.1, himp k hk.2⟩
  · intro k hk hn
    rw [h3] at hk
    simp only [hmmerReference, hmmerFresh, List.mem_filter, not_and, Bool.not_eq_true] at hk hn
    have hnot := hn hk.1
    have hle := hk.2
    simp only [Bool.and_eq_true] at hle
    simp only [hmmerOnBoundary, List.any_cons, List.any_nil, Bool.or_false, Bool.or_eq_true, Bool.and_eq_true]
    -- one of the two strict comparisons fails although the inclusive one holds: equality on that threshold
    cases h1 : Dec.lt minS k.score
    · left
      refine ⟨?_, hle.1⟩
      rw [Dec.le_eq_not_lt, h1]; rfl
    · right
      have h2 : Dec.lt k.evalue maxE = false := by simpa [h1] using hnot
      refine ⟨hle.2, ?_⟩
      rw [Dec.le_eq_not_lt, h2]; rfl

/-- negation witness: a hit scoring exactly the new minimum (50.0; stored under 25.0) survives
    `refilter` (inclusive) although `build_hits` (exclusive) would not report it -/
def exBoundary : HmmerRes := ⟨"rec1", ⟨1, -2⟩, ⟨25, 0⟩, "/db/pfam/35.0/Pfam-A.hmm", "fullhmmer",
  [⟨"[100:130](+)", "hit0", "cdsA", "p450", ⟨1, -10⟩, ⟨5, 1⟩, "PF00067.25", "desc", 0, 10, "MAGICMAGIC"⟩]⟩
theorem hmmer_refilter_boundary_witness : ¬ hmmer_refilter_matches_fresh_full := by
  intro h
  have h1 := h exBoundary { exBoundary with score := ⟨5, 1⟩ } ⟨1, -2⟩ ⟨5, 1⟩ (by decide +kernel)
  revert h1
  decide +kernel

/-- `refilter` to a laxer threshold is refused -/
theorem hmmer_refilter_lenient_refused (x : HmmerRes) (maxE minS : Dec)
    (h : Dec.lt x.evalue maxE = true ∨ Dec.lt minS x.score = true) : x.refilter maxE minS = .refuse .value := by
  unfold HmmerRes.refilter
  cases h with
  | inl h => simp [h]
  | inr h =>
    split
    · rfl
    · simp_all

/-- laxer current thresholds: the module constants changed, the stored results are dropped -/
theorem hmmer_regenerate_lenient_discards (ctx : Ctx) (maxE minS : Dec) (j : J) (x : HmmerRes)
    (hj : HmmerRes.fromJson ctx j = .reuse x) (hne : j ≠ .obj [])
    (h : Dec.lt minS x.score = true ∨ Dec.lt x.evalue maxE = true) :
    HmmerRes.regenerate ctx maxE minS j = .discard := by
  unfold HmmerRes.regenerate
  split
  · exact absurd rfl hne
  · rw [hj]
    cases h with
    | inl h => simp [h]
    | inr h => simp [h]

/-- re-saved results carry the thresholds they were last filtered with: after a reuse at stricter
    thresholds (`e1`, `s1`) the saved JSON states exactly these, so a later run with a more lenient
    E-value or score (`e1 < e2` or `s2 < s1`) drops them instead of accepting a hit list that is
    missing the hits between the two thresholds -/
theorem hmmer_resaved_then_lenient_discarded (ctx : Ctx) (x y : HmmerRes) (e1 s1 e2 s2 : Dec)
    (hv : x.valid ctx = true) (h : x.refilter e1 s1 = .reuse y)
    (hl : Dec.lt e1 e2 = true ∨ Dec.lt s2 s1 = true) :
    numField y.toJson "max evalue" = some e1 ∧ numField y.toJson "min score" = some s1
    ∧ HmmerRes.regenerate ctx e2 s2 y.toJson = .discard := by
  obtain ⟨_, _, h3, h4, h5, h6⟩ := HmmerRes.refilter_inv h
  simp only [HmmerRes.valid, Bool.and_eq_true, List.all_eq_true, beq_iff_eq] at hv
  have hy : HmmerRes.fromJson ctx y.toJson = .reuse y := by
    apply HmmerRes.fromJson_toJson ctx y (by rw [h6]; exact hv.1)
    intro k hk
    rw [h3] at hk
    exact (hv.2 k (List.mem_filter.mp hk).1).1.1
  refine ⟨by simp [numField, field, HmmerRes.toJson, lookup, h4], by simp [numField, field, HmmerRes.toJson, lookup, h5], ?_⟩
  apply hmmer_regenerate_lenient_discards ctx e2 s2 y.toJson y hy (by simp [HmmerRes.toJson])
  rw [h4, h5]
  exact hl.symm

/-- TTA decision table.  Stored: what `detect` wrote under threshold `old`; now: threshold `new`.
    Either the module is told to rerun (exactly when the old run skipped the record for low GC and
    the new threshold no longer does), or the regenerated results are exactly what a fresh run under
    `new` stores. -/
theorem tta_regenerate_sound (rid : String) (gc old new : Dec) (all : List Loc) (hl : TTA.locsOk all = true) :
    TTA.fromJson new (TTA.detect rid gc old all).toJson =
      if Dec.lt gc old && Dec.le new gc then .discard else .reuse (TTA.detect rid gc new all) := by
  rw [TTA.fromJson_toJson_cases _ _ (detect_locsOk rid gc old all hl)]
  unfold TTA.detect
  cases ho : Dec.lt gc old <;> cases hn : Dec.le new gc <;>
    simp [Dec.lt_eq_not_le gc new, hn, ho]

/-- the reference of the spec: after the decision (reuse or rerun) the record carries the codons of
    `ttaReference` -/
theorem tta_history_step (rid : String) (gc old new : Dec) (all : List Loc) (hl : TTA.locsOk all = true) :
    (match TTA.fromJson new (TTA.detect rid gc old all).toJson with
     | .reuse y => y.codons
     | _ => (TTA.detect rid gc new all).codons) = ttaReference gc new all := by
  rw [tta_regenerate_sound rid gc old new all hl]
  cases ho : Dec.lt gc old <;> cases hn : Dec.le new gc <;>
    simp [TTA.detect, ttaReference, Dec.lt_eq_not_le gc new, hn]

theorem tta_schema_guard (opt : Dec) (kv : List (String × J)) (sv : J)
    (hs : lookup "schema_version" kv = some sv) (h : isIntLit (some sv) 3 = false) :
    TTA.fromJson opt (.obj kv) = .discard := by
  simp [TTA.fromJson, TTA.schemaVersion, hs, h]

/-- results of another record are never attached: `run_on_record` reruns, `add_to_record` refuses -/
theorem tta_other_record_refused (x : TTA) (rid : String) (h : x.recordId ≠ rid) :
    x.keptByRun rid = false ∧ x.addToRecord rid = .refuse .value := by
  simp [TTA.keptByRun, TTA.addToRecord, h]

/-- main.run_module: whatever could be regenerated is kept, an enabled module runs on top of it, and
    a refusal of the module propagates -/
theorem run_module_stores {ρ} (previous : Option J) (regen : J → Outcome ρ) (inAll enabled : Bool)
    (run : Option ρ → ρ) :
    (∀ e, (∃ j, previous = some j ∧ regen j = .refuse e) → runModule previous regen inAll enabled run = .refuse e)
    ∧ (∀ t, runModule previous regen inAll enabled run = .reuse t →
        ∃ regenerated : Option ρ,
          (regenerated = match previous with
             | none => none
             | some j => (match regen j with | .reuse r => some r | _ => none))
          ∧ t.stored = runModuleStored regenerated (inAll && enabled) run) := by
  constructor
  · rintro e ⟨j, rfl, hj⟩
    simp [runModule, hj]
  · intro t ht
    cases previous with
    | none =>
      refine ⟨none, rfl, ?_⟩
      cases inAll <;> cases enabled <;> simp [runModule, runModuleStored] at ht ⊢ <;> subst ht <;> rfl
    | some j =>
      cases hj : regen j with
      | reuse r =>
        refine ⟨some r, by simp [hj], ?_⟩
        cases inAll <;> cases enabled <;> simp [runModule, runModuleStored, hj] at ht ⊢ <;> subst ht <;> rfl
      | discard =>
        refine ⟨none, by simp [hj], ?_⟩
        cases inAll <;> cases enabled <;> simp [runModule, runModuleStored, hj] at ht ⊢ <;> subst ht <;> rfl
      | refuse e => simp [runModule, hj] at ht

/-! ### Part 4 — regenerated results add the same things to the record -/

/-- anything computed from the results object alone is the same after regeneration -/
theorem regenerate_adds_same_features {α β} (enc : α → J) (dec : J → Outcome α) (inv : α → Prop)
    (h : RoundTrips enc dec inv) (adds : α → β) (x : α) (hx : inv x) :
    ∃ y, dec (enc x) = .reuse y ∧ adds y = adds x :=
  ⟨x, h x hx, rfl⟩

theorem sideloaded_adds_same_areas (ctx : Ctx) (x : Sideloaded) (hv : x.valid ctx = true)
    (requested : Option Sideloaded)
    (hr : ∀ r, requested = some r → r.subregions = x.subregions ∧ r.protoclusters = x.protoclusters) :
    ∃ y, Sideloaded.regenerate ctx requested x.toJson = .reuse y
      ∧ y.predictedSubregions = x.predictedSubregions ∧ y.predictedProtoclusters = x.predictedProtoclusters := by
  refine ⟨x, ?_, rfl, rfl⟩
  unfold Sideloaded.regenerate
  split
  · rename_i heq; simp [Sideloaded.toJson] at heq
  · rw [Sideloaded.fromJson_toJson ctx x hv]
    cases requested with
    | none => rfl
    | some r => simp [(hr r rfl).1, (hr r rfl).2]

/-- D56: annotations requested for the current run that differ from the stored ones stop the run;
    a `reuse` therefore means: nothing requested, or exactly the stored annotations requested -/
theorem sideloaded_changed_request_refused (ctx : Ctx) (j : J) (x r : Sideloaded)
    (hj : Sideloaded.fromJson ctx j = .reuse x) (hne : j ≠ .obj [])
    (h : r.subregions ≠ x.subregions ∨ r.protoclusters ≠ x.protoclusters) :
    Sideloaded.regenerate ctx (some r) j = .refuse .runtime := by
  unfold Sideloaded.regenerate
  split
  · exact absurd rfl hne
  · rw [hj]
    cases h with
    | inl h => simp [h]
    | inr h => simp [h]

theorem sideloaded_reuse_only_same_request (ctx : Ctx) (requested : Option Sideloaded) (j : J) (x : Sideloaded)
    (h : Sideloaded.regenerate ctx requested j = .reuse x) :
    Sideloaded.fromJson ctx j = .reuse x
    ∧ ∀ r, requested = some r → r.subregions = x.subregions ∧ r.protoclusters = x.protoclusters := by
  unfold Sideloaded.regenerate at h
  split at h
  · simp at h
  · cases hy : Sideloaded.fromJson ctx j with
    | reuse y =>
      rw [hy] at h
      cases requested with
      | none => simp at h; subst h; exact ⟨rfl, fun r hr => by cases hr⟩
      | some r =>
        simp only at h
        split at h
        · simp at h
        · rename_i hc
          simp at h; subst h
          refine ⟨rfl, fun r' hr' => ?_⟩
          cases hr'
          simpa using hc
    | discard => rw [hy] at h; simp at h
    | refuse e => rw [hy] at h; simp at h

/-- the protoclusters handed to the record keep location, core, product, cutoff, … — only the
    record's own numbering is absent until they are added again -/
theorem hmmDetection_adds_same_protoclusters (ctx : Ctx) (x : HmmDet) (hv : x.valid ctx = true) :
    ∃ y, HmmDet.fromJson ctx x.toJson = .reuse y
      ∧ y.rules.protoclusters = x.rules.protoclusters.map Proto.detach := by
  refine ⟨_, HmmDet.fromJson_toJson ctx x hv, ?_⟩
  simp [RuleRes.protoclusters, RuleRes.detach, List.map_map, Function.comp_def]

/-- gene annotations (`sec_met` domains, CORE / ADDITIONAL gene functions, in order) that
    `annotate_cds_features` adds: the same after regeneration -/
theorem hmmDetection_adds_same_annotations (ctx : Ctx) (x : HmmDet) (hv : x.valid ctx = true) :
    ∃ y, HmmDet.fromJson ctx x.toJson = .reuse y ∧ y.rules.annotateAll = x.rules.annotateAll := by
  refine ⟨_, HmmDet.fromJson_toJson ctx x hv, ?_⟩
  simp [RuleRes.annotateAll, RuleRes.detach, List.flatMap_map]

/-- the aSDomain / PFAM feature identifiers handed to the record are those of the originals -/
theorem nrpsPks_adds_same_domain_ids (r : ModRules) (ctx : Ctx) (x : NrpsPks) (hv : x.valid r ctx = true) :
    ∃ y, NrpsPks.fromJson r ctx x.toJson = .reuse y ∧ y.domainIds = x.domainIds :=
  ⟨x, NrpsPks.fromJson_toJson r ctx x hv, rfl⟩

theorem hmmer_adds_same_domain_ids (ctx : Ctx) (x : HmmerRes) (hv : x.valid ctx = true) :
    ∃ y, HmmerRes.regenerate ctx x.evalue x.score x.toJson = .reuse y ∧ y.domainIds = x.domainIds :=
  ⟨x, hmmer_regenerate_same_thresholds ctx x hv, rfl⟩

theorem tta_adds_same_features (rid : String) (gc t : Dec) (all : List Loc) (hl : TTA.locsOk all = true) :
    ∃ y, TTA.fromJson t (TTA.detect rid gc t all).toJson = .reuse y
      ∧ y.features = (TTA.detect rid gc t all).features ∧ y.addToRecord rid = (TTA.detect rid gc t all).addToRecord rid :=
  ⟨_, tta_json_roundtrip rid gc t all hl, rfl, rfl⟩

/-! ### Part 5 — the producing side of hmm_detection and the results file

  What a run *stores* must be what the same run accepts back: `run_on_record` writes the rule names,
  strictness and the multipliers of `get_ruleset(options)`; `regenerate_previous_results` checks
  exactly these.  The gene-less early exit of `detect_protoclusters_and_signatures` is a separate
  code path that has to store the rule set's multipliers as well. -/

/-- results stored by a run under options `o` (its rule names, its rule set's multipliers) are
    reused by a later run under the same options -/
theorem hmmDetection_fresh_regenerates (ctx : Ctx) (o : HmmOpts) (x : HmmDet) (hv : x.valid ctx = true)
    (hm : (x.rules.cutoffMult, x.rules.neighMult) = rulesetMultipliers o) (he : x.enabledTypes = o.ruleNames) :
    HmmDet.regenerate ctx o x.toJson = .reuse { x with rules := x.rules.detach } := by
  apply hmmDetection_regenerate_same_settings ctx o x hv
  · rw [he]; exact setEq_refl _
  · intro hf
    simp only [rulesetMultipliers, hf, if_true, Prod.mk.injEq] at hm
    exact hm

/-- a record without genes: the early exit stores `ruleset.multipliers`, so for every admissible
    option set (bacterial or fungal, any positive multipliers, any strictness, any rule subset) the
    stored results are valid and regenerate to themselves under the same options -/
theorem hmmDetection_no_genes_regenerates (ctx : Ctx) (o : HmmOpts) (tool : String) (ho : o.ok = true) :
    HmmDet.regenerate ctx o (HmmDet.runNoGenes ctx o tool).toJson = .reuse (HmmDet.runNoGenes ctx o tool) := by
  have hp := rulesetMultipliers_pos o ho
  have hv : (HmmDet.runNoGenes ctx o tool).valid ctx = true := by
    simp only [HmmOpts.ok, Bool.and_eq_true] at ho
    simp [HmmDet.valid, HmmDet.runNoGenes, HmmDet.runOnRecord, RuleRes.noGenes, RuleRes.valid, hp.1, hp.2]
    simpa using ho.1.1
  have h := hmmDetection_fresh_regenerates ctx o (HmmDet.runNoGenes ctx o tool) hv rfl rfl
  simpa [HmmDet.runNoGenes, HmmDet.runOnRecord, RuleRes.noGenes, RuleRes.detach] using h

/-- … and their JSON states the settings they were produced under (spec `hmmDetSavedUnder`) -/
theorem hmmDetection_no_genes_states_its_settings (ctx : Ctx) (o : HmmOpts) (tool : String) :
    hmmDetSavedUnder o (HmmDet.runNoGenes ctx o tool).toJson = true := by
  cases hf : o.fungi <;>
    simp [hmmDetSavedUnder, HmmDet.runNoGenes, HmmDet.runOnRecord, RuleRes.noGenes, rulesetMultipliers,
      HmmDet.toJson, RuleRes.toJson, strsField, strField, numField, field, lookup, jStrs, strsOf_map_str, hf]

/-- the results file: what `to_json` writes is read back by `from_file` (timings are not kept) -/
theorem resultsFile_json_roundtrip (f : ResultsFile) (hv : f.valid = true) :
    ResultsFile.fromJson f.toJson = .reuse { f with timings := .obj [] } :=
  ResultsFile.fromJson_toJson f hv

/-- every module's stored JSON comes back verbatim, per record, in order -/
theorem resultsFile_modules_verbatim (f : ResultsFile) (hv : f.valid = true) :
    ∃ g, ResultsFile.fromJson f.toJson = .reuse g ∧ g.records.map (·.modules) = f.records.map (·.modules)
      ∧ g.taxon = f.taxon ∧ ResultsFile.readDataTaxon "any option" g = f.taxon :=
  ⟨_, ResultsFile.fromJson_toJson f hv, rfl, rfl, rfl⟩

/-- a file is only read when its own schema number is 1–4 (or absent) -/
theorem resultsFile_reuse_only_compatible_schema (j : J) (f : ResultsFile)
    (h : ResultsFile.fromJson j = .reuse f) : fileMayReuse j = true :=
  ResultsFile.fromJson_inv h

/-- any other schema number under the key "schema" is refused, whatever else the file holds
    (in particular whatever a key "schema_version" says) -/
theorem resultsFile_schema_guard (kv : List (String × J)) (n : Int)
    (hs : lookup "schema" kv = some (.int n)) (hn : n < 1 ∨ 4 < n) :
    ResultsFile.fromJson (.obj kv) = .refuse .value := by
  have : ResultsFile.schemaAccepted (lookup "schema" kv) = false := by
    rw [hs]
    simp only [ResultsFile.schemaAccepted, ResultsFile.schemaVersion, ResultsFile.compatibleSchemas,
      Bool.or_eq_false_iff, beq_eq_false_iff_ne, ne_eq, List.contains_eq_mem, List.mem_cons,
      List.not_mem_nil, or_false, decide_eq_false_iff_not]
    omega
  simp [ResultsFile.fromJson, this]

/-! ### Part 6 — reuse as a function of (stored settings, current options), every option a field

  Sideloader: `SideOpts` = files (as parsed), `--sideload-simple`, `--sideload-by-cds`,
  `--sideload-size-by-cds`.  full_hmmer / cluster_hmmer: `PfamOpts` = `--fullhmmer-pfamdb-version`,
  `--clusterhmmer-pfamdb-version`, and the newest installed version. -/

/-- a run's own sideloaded results are reused by a run under the same options — whatever the
    options are (any padding, any markers, circular or linear record) -/
theorem sideload_own_results_reused (r : RecInfo) (o : SideOpts) (x : Sideloaded)
    (hf : ∀ s ∈ o.fileSubs, SubAnn.valid r.origin s = true)
    (hp : ∀ p ∈ o.fileProtos, ProtoAnn.valid r.origin p = true)
    (hl : o.runOnRecord r none = .reuse x) :
    o.regenerate r x.toJson = .reuse x ∧ o.runOnRecord r (some x) = .reuse x := by
  have hl' : SideOpts.load r o = .reuse x := hl
  have hv := SideOpts.load_valid hl' hf hp
  refine ⟨?_, rfl⟩
  by_cases he : o.enabled = true
  · rw [SideOpts.regenerate_enabled he hv hl']
    obtain ⟨y, hy, _⟩ := sideloaded_adds_same_areas r.ctx x hv (some x) (fun r' hr => by cases hr; exact ⟨rfl, rfl⟩)
    have : y = x := by
      have h2 := Sideloaded.fromJson_toJson r.ctx x hv
      unfold Sideloaded.regenerate at hy
      split at hy
      · rename_i heq; simp [Sideloaded.toJson] at heq
      · rw [h2] at hy; simp at hy; exact hy.symm
    rw [this] at hy; exact hy
  · obtain ⟨y, hy, _⟩ := sideloaded_adds_same_areas r.ctx x hv none (fun r' hr => by cases hr)
    have : y = x := by
      have h2 := Sideloaded.fromJson_toJson r.ctx x hv
      unfold Sideloaded.regenerate at hy
      split at hy
      · rename_i heq; simp [Sideloaded.toJson] at heq
      · rw [h2] at hy; simp at hy; exact hy.symm
    unfold SideOpts.regenerate
    simp only [he]
    rw [this] at hy; exact hy

/-- reused iff the stored annotations equal the ones this run would load; otherwise the run stops -/
theorem sideload_reused_iff_same_request (r : RecInfo) (o : SideOpts) (x y : Sideloaded)
    (hv : x.valid r.ctx = true) (he : o.enabled = true) (hl : SideOpts.load r o = .reuse y) :
    o.regenerate r x.toJson =
      (if sideloadOptsMayReuse o x y then .reuse x else .refuse .runtime) := by
  rw [SideOpts.regenerate_enabled he hv hl]
  unfold Sideloaded.regenerate
  split
  · rename_i heq; simp [Sideloaded.toJson] at heq
  · rw [Sideloaded.fromJson_toJson r.ctx x hv]
    simp only [sideloadOptsMayReuse, he]
    by_cases h1 : y.subregions = x.subregions <;> by_cases h2 : y.protoclusters = x.protoclusters <;> simp [h1, h2]

/-- an annotation-file entry `{"start", "end", "label"}` becomes exactly the sub-region the constructor
    builds from these values with the file's tool (no details) … -/
theorem subregion_from_schema_entry (tool : Tool) (hn : Tool.nameOk tool.name = true) (origin : Option Int)
    (s e : Int) (label : String) :
    SideOpts.subFromSchema tool origin (.obj [("start", .int s), ("end", .int e), ("label", .str label)])
      = SubAnn.make s e label tool [] origin := by
  simp [SideOpts.subFromSchema, SubAnn.fromJson, lookup, reqInt, reqStr, reqTool, optQMap, Tool.fromJson_toJson tool hn]

/-- … and a protocluster entry without neighbourhoods gets the neighbourhoods 0 / 0 -/
theorem protocluster_from_schema_entry (tool : Tool) (hn : Tool.nameOk tool.name = true) (origin : Option Int)
    (cs ce : Int) (product : String) :
    SideOpts.protoFromSchema tool origin (.obj [("core_start", .int cs), ("core_end", .int ce), ("product", .str product)])
      = ProtoAnn.make cs ce product tool [] 0 0 origin := by
  simp [SideOpts.protoFromSchema, ProtoAnn.fromJson, lookup, reqInt, reqStr, reqTool, optQMap, optInt, Tool.fromJson_toJson tool hn]

/-- record entries for other records contribute nothing -/
theorem loadFile_skips_other_records (r : RecInfo) (tool : Tool) (hn : Tool.nameOk tool.name = true)
    (other : String) (ho : r.hasName other = false) (areas : List (String × J)) :
    SideOpts.loadFile r (.obj [("tool", tool.toJson), ("records", .arr [.obj (("name", .str other) :: areas)])])
      = .reuse ([], []) := by
  simp [SideOpts.loadFile, SideOpts.areasOfEntry, reqTool, reqArr, lookup, mapO, Tool.fromJson_toJson tool hn, ho]

/-- PFAM results are kept iff they were computed with the version this module's own option asks for;
    otherwise the module searches again in that version -/
theorem pfam_results_kept_iff_own_version (m : HmmerModule) (o : PfamOpts) (res : HmmerRes) (v : String)
    (hv : dbVersionOfPath res.database = .reuse v) :
    hmmerRunOnRecord m o (some res) =
      (if pfamKeepAllowed m o v then .reuse (.keep res) else .reuse (.rerun (o.wanted m))) :=
  hmmerRun_keep_iff m o res v hv

/-- "latest" resolves to one of the installed versions (numeric comparison of the components:
    10.0 is newer than 9.0) -/
theorem latestVersion_installed (installed : List String) (v : String) (h : latestVersion installed = .reuse v) :
    v ∈ installed := by
  unfold latestVersion at h
  split at h
  · simp at h
  · simp at h
  · rename_i k ks hm
    simp at h; subst h
    -- every (key, name) pair carries a name of the list
    have hall : ∀ p ∈ k :: ks, p.2 ∈ installed := versionKeys_mem installed _ hm
    have hfold : ∀ (l : List (List Nat × String)) (b : List Nat × String), (∀ p ∈ b :: l, p.2 ∈ installed) →
        (l.foldl (fun best c => if versionLt best c then c else best) b).2 ∈ installed := by
      intro l
      induction l with
      | nil => intro b hb; exact hb b (by simp)
      | cons c cs ih =>
        intro b hb
        simp only [List.foldl_cons]
        split
        · exact ih c (fun p hp => hb p (by simp at hp ⊢; rcases hp with rfl | hp <;> simp_all))
        · exact ih b (fun p hp => hb p (by simp at hp ⊢; rcases hp with rfl | hp <;> simp_all))
    exact hfold ks k hall

/-- the sibling module's option is never consulted -/
theorem clusterhmmer_ignores_fullhmmer_option (o : PfamOpts) (other : String) (res : Option HmmerRes) :
    hmmerRunOnRecord .cluster { o with fullVersion := other } res = hmmerRunOnRecord .cluster o res := rfl

theorem fullhmmer_ignores_clusterhmmer_option (o : PfamOpts) (other : String) (res : Option HmmerRes) :
    hmmerRunOnRecord .full { o with clusterVersion := other } res = hmmerRunOnRecord .full o res := rfl

/-! ### Part 7 — renamed duplicate records, and annotating a record that was stripped first -/

/-- HMMer-based results are reused only for the record whose *current* id they carry: a record that
    pre-processing renamed (`scaffold` → `scaffold_0`, original id `scaffold`) does not inherit the
    results saved for the record that kept the name -/
theorem hmmer_renamed_duplicate_discarded (ctx : Ctx) (kv : List (String × J)) (stored : String)
    (hs : lookup "record id" kv = some (.str stored)) (_horig : ctx.originalId = some stored)
    (hne : stored ≠ ctx.recordId) (maxE minS : Dec) :
    HmmerRes.fromJson ctx (.obj kv) = .discard ∧ HmmerRes.regenerate ctx maxE minS (.obj kv) = .discard := by
  have h1 : HmmerRes.fromJson ctx (.obj kv) = .discard := by
    simp [HmmerRes.fromJson, hs, isStrLit, hne]
  refine ⟨h1, ?_⟩
  unfold HmmerRes.regenerate
  split
  · rfl
  · rw [h1]

/-- no record guard of any results class looks at the original id -/
theorem record_guards_ignore_original_id (r : ModRules) (ctx : Ctx) (orig : Option String) (o : HmmOpts)
    (maxE minS : Dec) (req : Option Sideloaded) (j : J) :
    HmmerRes.regenerate { ctx with originalId := orig } maxE minS j = HmmerRes.regenerate ctx maxE minS j
    ∧ NrpsPks.fromJson r { ctx with originalId := orig } j = NrpsPks.fromJson r ctx j
    ∧ HmmDet.regenerate { ctx with originalId := orig } o j = HmmDet.regenerate ctx o j
    ∧ Sideloaded.regenerate { ctx with originalId := orig } req j = Sideloaded.regenerate ctx req j := by
  refine ⟨?_, ?_, ?_, ?_⟩
  · cases j <;> rfl
  · cases j <;> rfl
  · cases j <;> rfl
  · cases j <;> rfl

/-- `GeneFunctionAnnotations`: `add` and `clear` keep the duplicate index equal to the annotations … -/
theorem geneFunctions_index_consistent (g : GeneFns) (f : GeneFn) (h : g.consistent = true) :
    (g.add f).consistent = true ∧ g.clear.consistent = true := by
  simp only [GeneFns.consistent, beq_iff_eq] at h
  constructor
  · unfold GeneFns.add
    split
    · simpa [GeneFns.consistent] using h
    · simp [GeneFns.consistent, h]
  · rfl

/-- … so after `clear` an annotation that was there before is added again -/
theorem geneFunctions_clear_then_add (g : GeneFns) (f : GeneFn) : (g.clear.add f).annotations = [f] := by
  simp [GeneFns.clear, GeneFns.add]

/-- the reuse flow of `main.read_data`: a gene that already carries the annotations, stripped, then
    annotated by the regenerated results, ends up exactly as a never-annotated gene would -/
theorem annotate_after_strip_as_fresh (tool : String) (st : CdsState) (c : CdsRes) :
    c.annotate tool st.strip = c.annotate tool {} := rfl

theorem reannotate_after_strip (tool : String) (st : CdsState) (c : CdsRes) :
    c.annotate tool (c.annotate tool st).strip = c.annotate tool {} := rfl

/-- the per-gene results come back in the saved order (the order of the genes along the regions),
    whatever the gene names are: same key order in the re-saved JSON, domain features added gene by
    gene in the same order -/
theorem nrpsPks_regenerated_keeps_gene_order (r : ModRules) (ctx : Ctx) (x : NrpsPks) (hv : x.valid r ctx = true) :
    ∃ y, NrpsPks.fromJson r ctx x.toJson = .reuse y ∧ y.cds.map (·.1) = x.cds.map (·.1)
      ∧ y.toJson = x.toJson ∧ y.domainIds = x.domainIds :=
  ⟨x, NrpsPks.fromJson_toJson r ctx x hv, rfl, rfl, rfl⟩

/-- `annotate_cds_features` reaches every stored CDSResults — also those kept for genes of already
    existing (sideloaded) subregions when no protocluster was found at all: each of them gets its
    `sec_met` qualifier (and through the round trip the same holds after regeneration) -/
theorem annotations_cover_outside_hits (x : RuleRes) :
    (∀ c ∈ x.outside, c.cdsName ∈ x.annotateAll.map (·.1))
    ∧ (∀ p ∈ x.byCluster, ∀ c ∈ p.2, c.cdsName ∈ x.annotateAll.map (·.1)) := by
  have h := (foldl_updState_keys x.tool (x.byCluster.flatMap (·.2) ++ x.outside) []).2
  constructor
  · intro c hc
    exact h c (List.mem_append_right _ hc)
  · intro p hp c hc
    exact h c (List.mem_append_left _ (List.mem_flatMap.mpr ⟨p, hp, hc⟩))

theorem regenerated_annotates_outside_hits (ctx : Ctx) (x : HmmDet) (hv : x.valid ctx = true) :
    ∃ y, HmmDet.fromJson ctx x.toJson = .reuse y ∧ y.rules.annotateAll = x.rules.annotateAll
      ∧ ∀ c ∈ x.rules.outside, c.cdsName ∈ y.rules.annotateAll.map (·.1) := by
  obtain ⟨y, hy, ha⟩ := hmmDetection_adds_same_annotations ctx x hv
  exact ⟨y, hy, ha, fun c hc => by rw [ha]; exact (annotations_cover_outside_hits x.rules).1 c hc⟩

/-- regenerated TTA results keep the record id they were saved with (never the current record's):
    that id is what `run_on_record` and `add_to_record` test -/
theorem tta_regenerated_keeps_saved_record_id (opt : Dec) (j : J) (x : TTA) (h : TTA.fromJson opt j = .reuse x) :
    strField j "record_id" = some x.recordId := by
  cases j with
  | obj kv =>
    simp only [TTA.fromJson] at h
    split at h
    · simp at h
    · split at h
      · simp at h
      · obtain ⟨rid, hrid, h⟩ := bind_eq_reuse h
        obtain ⟨gc, _, h⟩ := bind_eq_reuse h
        obtain ⟨old, _, h⟩ := bind_eq_reuse h
        have hr : lookup "record_id" kv = some (.str rid) := by
          unfold reqStr at hrid
          split at hrid <;> simp_all
        split at h
        · simp at h
        · split at h
          · obtain ⟨_, _, h⟩ := bind_eq_reuse h
            obtain ⟨_, _, h⟩ := bind_eq_reuse h
            simp at h; subst h
            simp [strField, field, hr]
          · simp at h; subst h
            simp [strField, field, hr]
  | null => simp [TTA.fromJson] at h
  | bool _ => simp [TTA.fromJson] at h
  | int _ => simp [TTA.fromJson] at h
  | num _ => simp [TTA.fromJson] at h
  | str _ => simp [TTA.fromJson] at h
  | arr _ => simp [TTA.fromJson] at h

/-- … so TTA results saved for one record are never taken over by another: the module runs afresh,
    and adding them to the other record is refused -/
theorem tta_results_of_another_record_not_reused (opt : Dec) (j : J) (x : TTA) (rid : String)
    (h : TTA.fromJson opt j = .reuse x) (hne : strField j "record_id" ≠ some rid) :
    x.keptByRun rid = false ∧ x.addToRecord rid = .refuse .value := by
  have hs := tta_regenerated_keeps_saved_record_id opt j x h
  apply tta_other_record_refused
  intro heq
  rw [hs, heq] at hne
  exact hne rfl

/-- the rule names of a run grow with the strictness level (strict ⊆ relaxed ⊆ loose) … -/
theorem rulesetNames_mono (rules : List RuleInfo) (s₁ s₂ : String) (ln lc : List String)
    (h : strictnessIndex s₁ ≤ strictnessIndex s₂) :
    ∀ n ∈ rulesetNames rules s₁ ln lc, n ∈ rulesetNames rules s₂ ln lc := by
  intro n hn
  simp only [rulesetNames, List.mem_map, List.mem_filter, decide_eq_true_eq] at hn ⊢
  obtain ⟨r, ⟨⟨hr, hl⟩, hf⟩, rfl⟩ := hn
  exact ⟨r, ⟨⟨hr, by omega⟩, hf⟩, rfl⟩

/-- … and results saved under one strictness are refused under another whenever the two rule sets
    differ (the rule names of the *current* options decide, not those of an earlier call) -/
theorem hmmDetection_other_strictness_refused (ctx : Ctx) (rules : List RuleInfo) (ln lc : List String)
    (o : HmmOpts) (x : HmmDet) (hv : x.valid ctx = true) (saved : String)
    (hx : x.enabledTypes = rulesetNames rules saved ln lc)
    (ho : o.ruleNames = rulesetNames rules o.strictness ln lc)
    (hdiff : setEq (rulesetNames rules saved ln lc) (rulesetNames rules o.strictness ln lc) = false) :
    HmmDet.regenerate ctx o x.toJson = .refuse .runtime := by
  apply hmmDetection_rule_names_guard ctx o x.toJson _ (HmmDet.fromJson_toJson ctx x hv)
  · simp [HmmDet.toJson]
  · show setEq x.enabledTypes o.ruleNames = false
    rw [hx, ho]; exact hdiff

/-- every per-gene entry that was saved is there again after regeneration — also a gene that has
    only motif hits and no domain hit -/
theorem nrpsPks_keeps_every_stored_gene (r : ModRules) (ctx : Ctx) (x : NrpsPks) (hv : x.valid r ctx = true) :
    ∃ y, NrpsPks.fromJson r ctx x.toJson = .reuse y ∧ ∀ p ∈ x.cds, p.1 ∈ y.cds.map (·.1) :=
  ⟨x, NrpsPks.fromJson_toJson r ctx x hv, fun p hp => List.mem_map_of_mem hp⟩

/-! ### non-vacuity: the invariants hold on non-trivial concrete objects -/

def exHit : HMMResult :=
  .mk "PKS_KS" 400 500 ⟨1, -20⟩ ⟨505, -1⟩
    [.mk "Trans-AT-KS" 410 490 ⟨1, -5⟩ ⟨2, 1⟩ [.mk "Clade_1" 420 480 ⟨1, -3⟩ ⟨125, -1⟩ []]]

example : exHit.valid = true := by decide
example : HMMResult.fromJson exHit.toJson = .reuse exHit := hmmResult_json_roundtrip exHit (by decide)
-- a displaced internal hit is refused
example : HMMResult.fromJson (HMMResult.mk "PKS_KS" 400 500 ⟨1, -20⟩ ⟨505, -1⟩
    [.mk "Trans-AT-KS" 503 520 ⟨1, -5⟩ ⟨2, 1⟩ []]).toJson = .refuse .value := by rfl

def exCtx : Ctx := ⟨"rec1", ["cdsA", "cdsB"], none, none⟩
def exRules : ModRules := ⟨fun _ => true, fun _ _ => true⟩
def exNrps : NrpsPks := ⟨"rec1", [("cdsA", ⟨[exHit], [], [⟨[⟨exHit, "cdsA"⟩, ⟨.mk "ACP" 510 560 ⟨1, -9⟩ ⟨3, 1⟩ [], "cdsB"⟩], false⟩]⟩)]⟩
example : exNrps.valid exRules exCtx = true := by decide
example : NrpsPks.fromJson exRules { exCtx with recordId := "other" } exNrps.toJson = .discard := by rfl

-- the bridge is not vacuous: the module C14's main loop builds from C A PCP is the one `exMod` stores
def exMod : Module := ⟨[⟨.mk "Condensation_LCL" 10 100 ⟨1, -20⟩ ⟨505, -1⟩ [], "cdsA"⟩,
  ⟨.mk "AMP-binding" 110 300 ⟨1, -20⟩ ⟨505, -1⟩ [], "cdsA"⟩, ⟨.mk "PCP" 320 380 ⟨1, -20⟩ ⟨505, -1⟩ [], "cdsA"⟩], true⟩
example : (match Modules.buildGo (exMod.components.map absC) [] (Modules.Module.new true) with
    | .ok ([], m) => decide (exMod.components.map absC = m.components) && (exMod.firstInCds == m.firstInCds)
    | _ => false) = true := by decide +kernel
example : exMod.valid c14Rules = true := by decide +kernel
-- a module that cannot be re-added (a second starter after other components) is refused
example : (match Module.fromJson c14Rules (Module.toJson ⟨exMod.components ++ [⟨.mk "PKS_KS" 400 500 ⟨1, -20⟩ ⟨505, -1⟩ [], "cdsA"⟩], true⟩) with
    | .refuse .value => true
    | _ => false) = true := by decide +kernel

def exProto : Proto :=
  { loc := .compound [⟨900, 1000, .fwd⟩, ⟨0, 150, .fwd⟩], core := .simple ⟨20, 100, .fwd⟩, tool := "rule-based-clusters",
    product := "T1PKS", cutoff := 20000, neighbourhood := 50, rule := "a and b", category := "PKS",
    number := some 2, contigEdge := some false }
def exCds : CdsRes := ⟨"cdsA", [⟨"PKS_KS", ⟨1, -20⟩, ⟨505, -1⟩, 12, "rule-based-clusters"⟩],
  [("T1PKS", ["PKS_AT", "PKS_KS"]), ("NRPS", [])]⟩
def exDet : HmmDet := ⟨"rec1", ⟨"rule-based-clusters", [(exProto, [exCds])], [], ⟨1, 0⟩, ⟨15, -1⟩⟩, ["T1PKS", "NRPS"], "relaxed"⟩
example : exDet.valid exCtx = true := by decide +kernel
example : HmmDet.regenerate exCtx ⟨"strict", ["NRPS"], false, ⟨1, 0⟩, ⟨1, 0⟩⟩ exDet.toJson = .refuse .runtime := by
  decide +kernel

def exTool : Tool := ⟨"my tool", "1.0", "", [("k", ["v"])]⟩
def exSide : Sideloaded := ⟨"rec1", [⟨some 1000, 900, 100, "lbl", [("score", ["6.5"])], exTool⟩],
  [⟨some 1000, 950, 30, "prodA", exTool, [], 100, 20⟩]⟩
example : exSide.valid { exCtx with origin := some 1000 } = true := by decide
-- the same JSON against a linear record of the same id is refused, not reinterpreted
example : Sideloaded.fromJson exCtx exSide.toJson = .refuse .value := by decide

def exHmmer : HmmerRes := ⟨"rec1", ⟨1, -2⟩, ⟨0, 0⟩, "/db/pfam/35.0/Pfam-A.hmm", "fullhmmer",
  [⟨"[100:130](+)", "hit0", "cdsA", "p450", ⟨1, -10⟩, ⟨505, -1⟩, "PF00067.25", "desc", 0, 10, "MAGICMAGIC"⟩]⟩
example : exHmmer.valid exCtx = true := by decide +kernel
example : (exHmmer.refilter ⟨1, -1⟩ ⟨0, 0⟩) = .refuse .value := by decide +kernel

-- TTA: low-GC record skipped under 0.65, codons wanted under 0.5 → rerun; kept under 0.65
def exCodons : List Loc := [.simple ⟨12, 15, .fwd⟩, .compound [⟨28, 30, .rev⟩, ⟨40, 41, .rev⟩]]
example : TTA.locsOk exCodons = true := by decide
example : TTA.fromJson ⟨5, -1⟩ (TTA.detect "r" ⟨6, -1⟩ ⟨65, -2⟩ exCodons).toJson = .discard := by
  rw [tta_regenerate_sound _ _ _ _ _ (by decide)]; decide +kernel
example : TTA.fromJson ⟨7, -1⟩ (TTA.detect "r" ⟨6, -1⟩ ⟨5, -1⟩ exCodons).toJson
    = .reuse ⟨"r", ⟨6, -1⟩, ⟨7, -1⟩, []⟩ := by
  rw [tta_regenerate_sound _ _ _ _ _ (by decide)]; decide +kernel

-- gene-less record of a fungal run (neighbourhood multiplier 1.5): stored, then regenerated
def exFungal : HmmOpts := ⟨"relaxed", ["NRPS", "T1PKS"], true, ⟨1, 0⟩, ⟨15, -1⟩⟩
example : exFungal.ok = true := by decide +kernel
example : HmmDet.regenerate exCtx exFungal (HmmDet.runNoGenes exCtx exFungal "rule-based-clusters").toJson
    = .reuse (HmmDet.runNoGenes exCtx exFungal "rule-based-clusters") :=
  hmmDetection_no_genes_regenerates exCtx exFungal _ (by decide +kernel)
-- had the early exit stored the default multipliers instead, the same run would refuse its own results
example : HmmDet.regenerate exCtx exFungal
    (HmmDet.runOnRecord exCtx exFungal (RuleRes.noGenes "rule-based-clusters" (Dec.one, Dec.one))).toJson
    = .refuse .runtime := by decide +kernel

def exFile : ResultsFile := ⟨"8.0.0", "input.gbk",
  [⟨[("id", .str "rec1"), ("gc_content", .num ⟨5, -1⟩)], [("antismash.modules.tta", (TTA.detect "rec1" ⟨6, -1⟩ ⟨5, -1⟩ exCodons).toJson)]⟩],
  .obj [], "fungi"⟩
example : exFile.valid = true := by decide
example : ResultsFile.fromJson exFile.toJson = .reuse exFile := resultsFile_json_roundtrip exFile (by decide)
-- a file of a newer schema is refused even if it also carries "schema_version": 4
example : ResultsFile.fromJson (.obj [("version", .str "9"), ("input_file", .str "x"), ("records", .arr []),
    ("taxon", .str "bacteria"), ("schema_version", .int 4), ("schema", .int 5)]) = .refuse .value :=
  resultsFile_schema_guard _ 5 (by rfl) (by decide)

-- sideloading by gene with a non-default padding on a circular record: stored, then reused;
-- under another padding the same request is refused
def exRec : RecInfo := ⟨"rec1", none, 10000, true, [("geneA", 9500, 9800), ("geneB", 3000, 3300)]⟩
def exSideOpts : SideOpts := { markers := ["geneA", "nosuchgene"], padding := 500, simple := some ("rec1", 2000, 4000) }
example : ∃ x, exSideOpts.runOnRecord exRec none = .reuse x ∧ x.subregions.length = 2
    ∧ exSideOpts.regenerate exRec x.toJson = .reuse x :=
  ⟨_, rfl, rfl, (sideload_own_results_reused exRec exSideOpts _ (by simp [exSideOpts]) (by simp [exSideOpts]) rfl).1⟩
example : ∃ x, exSideOpts.runOnRecord exRec none = .reuse x
    ∧ SideOpts.regenerate exRec { exSideOpts with padding := 20000 } x.toJson = .refuse .runtime := ⟨_, rfl, by decide +kernel⟩

-- a small annotation file: one entry for this record (by its original id), one for another record
example : SideOpts.loadFile { exRec with originalId := some "scaffold" }
    (.obj [("tool", .obj [("name", .str "my tool"), ("version", .str "1.0")]),
           ("records", .arr [.obj [("name", .str "scaffold"), ("subregions", .arr [.obj [("start", .int 100), ("end", .int 900), ("label", .str "lbl")]])],
                             .obj [("name", .str "someone_else"), ("subregions", .arr [.obj [("start", .int 1), ("end", .int 9), ("label", .str "x")]])]])])
    = .reuse ([⟨some 10000, 100, 900, "lbl", [], ⟨"my tool", "1.0", "", []⟩⟩], []) := by decide +kernel
example : dbVersionOfPath "/data/antismash/pfam/35.0/Pfam-A.hmm" = .reuse "35.0" := by decide +kernel
example : latestVersion ["9.0", "31.0", "10.0", "10.1"] = .reuse "31.0" ∧ latestVersion ["9.0", "10.0"] = .reuse "10.0"
    ∧ latestVersion [] = .refuse .value ∧ latestVersion ["35.0", "old"] = .refuse .value := by decide +kernel
-- cluster results of version 34.0, `--clusterhmmer-pfamdb-version 34.0 --fullhmmer-pfamdb-version 35.0`: kept
example : hmmerRunOnRecord .cluster ⟨"35.0", "34.0", "35.0"⟩ (some { exHmmer with database := "/db/pfam/34.0/Pfam-A.hmm" })
    = .reuse (.keep { exHmmer with database := "/db/pfam/34.0/Pfam-A.hmm" }) := by decide +kernel
-- … and searched again when the cluster option asks for 35.0 although the sibling option says 34.0
example : hmmerRunOnRecord .cluster ⟨"34.0", "35.0", "35.0"⟩ (some { exHmmer with database := "/db/pfam/34.0/Pfam-A.hmm" })
    = .reuse (.rerun "35.0") := by decide +kernel

-- a gene annotated, stripped and annotated again by the same results carries the CORE functions again
example : ((exCds.annotate "rule-based-clusters" (exCds.annotate "rule-based-clusters" {}).strip).functions.annotations).length = 2 := by
  decide +kernel
-- with an index that `clear` forgot to reset, the second round would add nothing
example : let g := ({} : GeneFns).add ⟨.core, "t", "PKS_KS", some "T1PKS"⟩
    ((⟨[], g.byFunction⟩ : GeneFns).add ⟨.core, "t", "PKS_KS", some "T1PKS"⟩).annotations = [] := by decide
-- results saved for `scaffold` are not taken over by the renamed `scaffold_0`
example : HmmerRes.fromJson ⟨"scaffold_0", [], none, some "scaffold"⟩ { exHmmer with recordId := "scaffold" }.toJson = .discard := by
  decide +kernel

-- genes whose names do not sort in their order along the record: nrpsB lies before nrpsA
def exOrder : NrpsPks := ⟨"rec1", [("nrpsB", ⟨[exHit], [], []⟩), ("nrpsA", ⟨[.mk "ACP" 5 60 ⟨1, -9⟩ ⟨3, 1⟩ []], [], []⟩)]⟩
def exOrderCtx : Ctx := ⟨"rec1", ["nrpsA", "nrpsB"], none, none⟩
example : exOrder.valid exRules exOrderCtx = true := by decide
example : exOrder.domainIds = ["nrpspksdomains_nrpsB_PKS_KS.1", "nrpspksdomains_nrpsA_ACP.1"] := by decide +kernel
example : ∃ y, NrpsPks.fromJson exRules exOrderCtx exOrder.toJson = .reuse y ∧ y.cds.map (·.1) = ["nrpsB", "nrpsA"] := by
  obtain ⟨y, hy, ho, _⟩ := nrpsPks_regenerated_keeps_gene_order exRules exOrderCtx exOrder (by decide)
  exact ⟨y, hy, ho⟩

-- no protocluster at all, one gene of an existing subregion with a hit: it is annotated
def exOutside : RuleRes := ⟨"rule-based-clusters", [], [⟨"cdsA", [⟨"PP-binding", ⟨1, -5⟩, ⟨2, 1⟩, 164, "rule-based-clusters"⟩], []⟩], ⟨1, 0⟩, ⟨1, 0⟩⟩
example : exOutside.annotateAll = [("cdsA", ⟨some [⟨"PP-binding", ⟨1, -5⟩, ⟨2, 1⟩, 164, "rule-based-clusters"⟩],
    ⟨[⟨.additional, "rule-based-clusters", "PP-binding", none⟩], [⟨.additional, "rule-based-clusters", "PP-binding", none⟩]⟩⟩)] := by
  decide +kernel

def exRuleInfos : List RuleInfo := [⟨"T1PKS", 0, "PKS"⟩, ⟨"NRPS", 0, "NRPS"⟩, ⟨"PKS-like", 1, "PKS"⟩, ⟨"fatty_acid", 2, "other"⟩]
example : rulesetNames exRuleInfos "strict" [] [] = ["T1PKS", "NRPS"]
    ∧ rulesetNames exRuleInfos "relaxed" [] [] = ["T1PKS", "NRPS", "PKS-like"]
    ∧ rulesetNames exRuleInfos "loose" ["T1PKS", "fatty_acid"] [] = ["T1PKS", "fatty_acid"] := by decide +kernel
example : setEq (rulesetNames exRuleInfos "relaxed" [] []) (rulesetNames exRuleInfos "strict" [] []) = false := by decide +kernel

-- saved under 0.1, reused and re-saved under 1e-20, then offered to a run at 1e-5: dropped
example : ∃ y, ({ exHmmer with evalue := ⟨1, -1⟩ } : HmmerRes).refilter ⟨1, -20⟩ ⟨0, 0⟩ = .reuse y
    ∧ HmmerRes.regenerate exCtx ⟨1, -5⟩ ⟨0, 0⟩ y.toJson = .discard := ⟨_, rfl, by decide +kernel⟩
-- a gene with abMotif hits only keeps its entry through a save / regenerate cycle
def exMotifOnly : NrpsPks := ⟨"rec1", [("cdsA", ⟨[exHit], [], []⟩), ("cdsB", ⟨[], [.mk "NRPS-A_a3" 150 170 ⟨1, -2⟩ ⟨81, -1⟩ []], []⟩)]⟩
example : exMotifOnly.valid exRules exCtx = true := by decide
example : ∃ y, NrpsPks.fromJson exRules exCtx exMotifOnly.toJson = .reuse y ∧ y.cds.map (·.1) = ["cdsA", "cdsB"] := by
  obtain ⟨y, hy, ho, _⟩ := nrpsPks_regenerated_keeps_gene_order exRules exCtx exMotifOnly (by decide)
  exact ⟨y, hy, ho⟩

end ASV.C11
