import ASV.Spec.Results
namespace ASV.C11
open ASV.Results

/-- placeholder milestone theorem (replaced below by the full list) -/
theorem tta_schema_guard_0 (opt : Dec) (kv : List (String × J)) (hne : kv ≠ [])
    (h : isIntLit (lookup "schema_version" kv) TTA.schemaVersion = false)
    (hk : (lookup "schema_version" kv).isSome) :
    TTA.regenerate opt (.obj kv) = .discard := by
  cases kv with
  | nil => exact absurd rfl hne
  | cons p rest =>
    simp only [TTA.regenerate, TTA.fromJson]
    cases hl : lookup "schema_version" (p :: rest) with
    | none => simp [hl] at hk
    | some sv => simp [hl] at h ⊢; simp [h]

end ASV.C11
