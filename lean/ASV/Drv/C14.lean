import ASV.Drv.J
import ASV.Spec.Modules
import ASV.Model.ModulesHmm
import ASV.Model.ModulesFeature
namespace ASV.Drv.C14
open Lean ASV ASV.Drv ASV.Modules
abbrev Mod := ASV.Modules.Module

/-- `[label, [subtypes], start, end]` -/
def domainOfJson (j : Json) : R Domain := do
  return ⟨← asStr (← idx j 0), ← listOf asStr (← idx j 1), ← asInt (← idx j 2), ← asInt (← idx j 3)⟩

/-- `[label, [subtypes], start, end, locus]` -/
def compOfJson (j : Json) : R Comp := do
  return ⟨← asStr (← idx j 0), ← listOf asStr (← idx j 1), ← asInt (← idx j 2), ← asInt (← idx j 3),
          ← asStr (← idx j 4)⟩

def compToJson (c : Comp) : Json :=
  jArr [Json.str c.label, jStrs c.subtypes, toJson c.start, toJson c.stop, Json.str c.locus]

def optComp : Option Comp → Json
  | some c => compToJson c
  | none => Json.null

def errStr : Err → String
  | .incompatible => "value-error:IncompatibleComponentError"
  | .assertion => "assertion"
  | .valueError => "value-error"
  | .indexError => "IndexError"
  | .keyError => "KeyError"

def moduleToJson (m : Mod) : Json :=
  jObj [("comps", jArr (m.components.map compToJson)),
        ("first", toJson m.firstInCds),
        ("starter", optComp m.starter), ("loader", optComp m.loader),
        ("mods", jArr (m.modifications.map compToJson)),
        ("carrier", optComp m.carrier), ("end", optComp m.end_),
        ("others", jArr (m.others.map compToJson)),
        ("unamb", toJson m.unambiguous),
        ("sil", toJson (m.starter.isSome && m.starterIsLoader)),
        ("complete", toJson m.isComplete), ("starter_module", toJson m.isStarterModule),
        ("termination", toJson m.isTerminationModule), ("iterative", toJson m.isIterative),
        ("trans_at", toJson m.isTransAt), ("pks", toJson m.isPks), ("nrps", toJson m.isNrps),
        ("terminated", toJson m.isTerminated), ("coa", toJson m.isCoaLigase),
        ("start", match m.startPos with | .ok v => toJson v | .error _ => Json.null),
        ("stop", match m.endPos with | .ok v => toJson v | .error _ => Json.null),
        ("reload", toJson (match ASV.Modules.Module.fromJson m.toJson with | .ok m' => decide (m' = m) | .error _ => false))]

def modulesToJson (ms : List Mod) : Json := jArr (ms.map moduleToJson)

/-- an implementation module as the spec sees it: components + first flag -/
def implModule (j : Json) : R (List Comp × Bool) := do
  return (← listOf compOfJson (← fld j "comps"), ← boolF j "first")

/-- the spec's values for one (implementation) module -/
def specOfModule (m : List Comp × Bool) : Json :=
  jObj [("layout", toJson (Spec.layout m.1)), ("layout_idx", toJson (Spec.layoutIdx m.1)),
        ("complete", toJson (Spec.complete m.1 m.2)),
        ("starter_module", toJson (Spec.starterModule m.1 m.2)),
        ("termination", toJson (Spec.terminationModule m.1)),
        ("iterative", toJson (Spec.iterative m.1)),
        ("trans_at", toJson (Spec.transAt m.1)),
        ("pks", toJson (Spec.isPks m.1)), ("nrps", toJson (Spec.isNrps m.1)),
        ("start", match Spec.moduleStart m.1 with | some v => toJson v | none => Json.null),
        ("stop", match Spec.moduleEnd m.1 with | some v => toJson v | none => Json.null)]

def exceptJson (r : Except Err Json) : Json :=
  match r with
  | .ok j => j
  | .error e => jObj [("err", Json.str (errStr e))]

def handleBuild (j : Json) : R Json := do
  let ds ← listOf domainOfJson (← fld j "domains")
  let name ← strF j "name"
  let model := exceptJson ((build ds name).map fun ms => jObj [("modules", modulesToJson ms)])
  let impl ← listOf implModule (fldD j "impl_modules" (jArr []))
  return jObj [("model", model),
               ("spec", jObj [("partition", toJson (Spec.partition ds name impl)),
                              ("modules", jArr (impl.map specOfModule))])]

def handleReplay (j : Json) : R Json := do
  let comps ← listOf compOfJson (← fld j "comps")
  let first : Option Bool := (boolF j "first").toOption
  let mj : ModuleJson := ⟨comps.map Comp.toJson, first⟩
  let model := exceptJson ((ASV.Modules.Module.fromJson mj).map fun m => jObj [("modules", modulesToJson [m])])
  let impl ← listOf implModule (fldD j "impl_modules" (jArr []))
  return jObj [("model", model), ("spec", jObj [("modules", jArr (impl.map specOfModule))])]

structure GeneJ where
  name : String
  strand : Int
  region : Nat
  domains : List Domain
  motifs : Bool

def geneOfJson (j : Json) : R Gene := do
  return ⟨← strF j "name", ← intF j "strand", (natF j "region").toOption.getD 0,
          ← listOf domainOfJson (← fld j "domains"), boolFD j "motifs" false, 0,
          (natF j "start").toOption.getD 0⟩

def handlePair (j : Json) : R Json := do
  let a ← geneOfJson (← fld j "a")      -- previous
  let b ← geneOfJson (← fld j "b")      -- current
  let model : Except Err Json := do
    let prev ← build a.domains a.name
    let cur ← build b.domains b.name
    let r ← combine b.strand a.strand cur prev
    pure (jObj [("merged", match r.merged with | some m => moduleToJson m | none => Json.null),
                ("prev", modulesToJson r.prev), ("cur", modulesToJson r.cur),
                ("prev0", modulesToJson prev), ("cur0", modulesToJson cur)])
  -- spec on the implementation's lists
  let im (k : String) : R (List (List Comp × Bool)) := listOf implModule (fldD j k (jArr []))
  let prev0 ← im "impl_prev0"
  let cur0 ← im "impl_cur0"
  let prev1 ← im "impl_prev"
  let cur1 ← im "impl_cur"
  let merged : Option (List Comp × Bool) ← match fldD j "impl_merged" Json.null with
    | .null => pure none
    | x => do pure (some (← implModule x))
  return jObj [("model", exceptJson model),
               ("spec", jObj [("combine", toJson (Spec.combineOK (a.strand == b.strand) prev0 cur0 prev1 cur1 merged)),
                              ("merged", match merged with | some m => specOfModule m | none => Json.null)])]

def handleChain (j : Json) : R Json := do
  let genes0 ← listOf geneOfJson (← fld j "genes")
  -- "cross": the region crosses the origin and begins at this coordinate (genes are in record order)
  let cross : Option Nat := (natF j "cross").toOption
  let genes := reindex (regionGenes cross genes0)
  let model := exceptJson ((chain genes).map fun rs =>
    jObj [("genes", jArr (rs.map fun r => jObj [("name", Json.str r.name), ("modules", modulesToJson r.modules)]))])
  let impl ← listOf (fun g => do
      return ((← strF g "name"), (← listOf implModule (← fld g "modules")))) (fldD j "impl_genes" (jArr []))
  return jObj [("model", model),
               ("spec", jObj [("genes", jArr (impl.map fun g => jArr (g.2.map specOfModule))),
                              ("line", toJson (Spec.chainLineOK genes (impl.map fun g => (g.1, g.2.map (·.1))))),
                              ("blocks", toJson (Spec.chainBlocksOK genes (impl.map fun g => (g.1, g.2.map (·.1))))),
                              ("order", jStrs (genes.map (·.name)))])]

def handleLabel (j : Json) : R Json := do
  let label ← strF j "label"
  let subs ← listOf asStr (fldD j "subtypes" (jArr []))
  let c : Comp := ⟨label, subs, 0, 1, "x"⟩
  return jObj [("model", jObj [
    ("classification", match classify label with | some k => Json.str k | none => Json.null),
    ("flags", jArr ([c.isAdenylation, c.isAcyltransferase, c.isCoaLigase, c.isCondensation, c.isStarter,
                     c.isLoader, c.isModification, c.isCarrierProtein, c.isEnd, c.isIgnored, c.isSpecial,
                     c.isFusedStarter, c.isPksSpecific, c.isNrpsSpecific].map fun (b : Bool) => toJson b)),
    ("subtype", match c.subtype with | some s => Json.str s | none => Json.null)])]

/-- `[hit_id, start, end, evalue, bitscore, [children…]]` -/
partial def hmmOfJson (j : Json) : R Hmm := do
  return .mk (← asStr (← idx j 0)) (← asInt (← idx j 1)) (← asInt (← idx j 2)) (← asInt (← idx j 3))
             (← asInt (← idx j 4)) (← listOf hmmOfJson (← idx j 5))

partial def hmmJsonToJson : HmmJson → Json
  | .mk i s e ev bs internal =>
    jArr [Json.str i, toJson s, toJson e, toJson ev, toJson bs,
          match internal with | none => Json.null | some l => jArr (l.map hmmJsonToJson)]

partial def hmmToJson : Hmm → Json
  | .mk i s e ev bs l => jArr [Json.str i, toJson s, toJson e, toJson ev, toJson bs, jArr (l.map hmmToJson)]

def handleHmm (j : Json) : R Json := do
  let raw ← hmmOfJson (← fld j "tree")
  let locus ← strF j "locus"
  let model : Except Err Json := do
    let h ← Hmm.validate raw
    let reloaded ← Hmm.fromJson h.toJson
    let comp : Json := match mkComp locus h.domain with
      | .ok c => compToJson c
      | .error e => jObj [("err", Json.str (errStr e))]
    pure (jObj [("names", jStrs h.detailedNames), ("json", hmmJsonToJson h.toJson),
                ("reloaded", hmmToJson reloaded), ("tree", hmmToJson h), ("wf", toJson h.WF), ("component", comp)])
  return jObj [("model", exceptJson model)]

def featureToJson (f : ModFeature) : Json :=
  jObj [("domains", jArr (f.domains.map fun d => jArr [Json.str d.name, Json.str d.locus, toJson d.strand])),
        ("type", Json.str f.type.str), ("complete", toJson f.complete), ("starter", toJson f.starter),
        ("final", toJson f.final), ("iterative", toJson f.iterative),
        ("parents", jStrs (parentNames f.domains []))]

def qualsToJson (q : Quals) : Json :=
  jArr (q.map fun kv => jArr [Json.str kv.1, match kv.2 with | none => Json.null | some l => jStrs l])

def qualsOfJson (j : Json) : R Quals :=
  listOf (fun kv => do
    let k ← asStr (← idx kv 0)
    let v ← idx kv 1
    match v with
    | .null => pure (k, none)
    | _ => pure (k, some (← listOf asStr v))) j

/-- kind "feature": the reported modules of a gene chain as aSModule features, in the order
    `add_to_record` creates them; domain features and their names come from the model
    (`geneTables`), nothing is taken over from the implementation -/
def handleFeature (j : Json) : R Json := do
  let genes0 ← listOf geneOfJson (← fld j "genes")
  let genes := (genes0.zipIdx).map fun (g, i) => { g with index := i }
  let feats ← arrF j "impl_features"
  let tables := geneTables genes
  let allDoms : List FDomain := genes.flatMap fun g => (domainFeatures g.name g.strand g.domains []).map (·.2)
  let known (n : String) : Option FDomain := allDoms.find? fun d => d.name == n
  -- spec on the implementation's output: feature domains follow the module's components
  let mut follows : List Json := []
  let mut rereads : List Json := []
  for f in feats do
    let comps ← listOf compOfJson (← fld f "module_comps")
    let doms ← listOf (fun d => do return ((← asStr (← idx d 1)), (← asInt (← idx d 3)), (← asInt (← idx d 4))))
                  (← fld f "domains")
    follows := follows ++ [toJson (Spec.featureFollows comps doms)]
    let quals ← qualsOfJson (← fld f "quals")
    rereads := rereads ++ [match ModFeature.fromBiopython known quals with
      | .ok g => featureToJson g
      | .error e => jObj [("err", Json.str (errStr e))]]
  match chain genes with
  | .error e => return jObj [("model", jObj [("err", Json.str (errStr e))])]
  | .ok rs =>
    let model := rs.flatMap fun r => r.modules.map fun m =>
      match m.report tables r.name with
      | .ok g => (featureToJson g).setObjVal! "quals" (qualsToJson g.toBiopython)
      | .error e => jObj [("err", Json.str (errStr e))]
    return jObj [("model", jObj [("features", jArr model), ("rereads", jArr rereads)]),
                 ("spec", jObj [("follows", jArr follows)])]

def handle (j : Json) : R Json := do
  match (← strF j "kind") with
  | "build" => handleBuild j
  | "replay" => handleReplay j
  | "pair" => handlePair j
  | "chain" => handleChain j
  | "label" => handleLabel j
  | "hmm" => handleHmm j
  | "feature" => handleFeature j
  | k => throw s!"C14: unknown kind {k}"

end ASV.Drv.C14
