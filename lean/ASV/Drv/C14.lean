import ASV.Drv.J
namespace ASV.Drv.C14
open Lean ASV ASV.Drv

def handle (_j : Json) : R Json := throw "C14: no model yet"

end ASV.Drv.C14
