/-
  JSON helpers shared by the driver modules (line protocol: one JSON object per case).
  Not part of any model or proof.
-/
import Lean.Data.Json
import ASV.Model.Loc
namespace ASV.Drv
open Lean

abbrev R := Except String

def fld (j : Json) (k : String) : R Json := j.getObjVal? k
def fldD (j : Json) (k : String) (d : Json) : Json := (j.getObjVal? k).toOption.getD d
def asInt (j : Json) : R Int := j.getInt?
def asNat (j : Json) : R Nat := j.getNat?
def asStr (j : Json) : R String := j.getStr?
def asBool (j : Json) : R Bool := j.getBool?
def asArr (j : Json) : R (List Json) := do return (← j.getArr?).toList
def intF (j : Json) (k : String) : R Int := do asInt (← fld j k)
def natF (j : Json) (k : String) : R Nat := do asNat (← fld j k)
def strF (j : Json) (k : String) : R String := do asStr (← fld j k)
def boolF (j : Json) (k : String) : R Bool := do asBool (← fld j k)
def arrF (j : Json) (k : String) : R (List Json) := do asArr (← fld j k)
def intFD (j : Json) (k : String) (d : Int) : Int := (intF j k).toOption.getD d
def boolFD (j : Json) (k : String) (d : Bool) : Bool := (boolF j k).toOption.getD d
def listOf {α} (f : Json → R α) (j : Json) : R (List α) := do (← asArr j).mapM f
def idx (j : Json) (i : Nat) : R Json := do
  match (← asArr j)[i]? with
  | some x => pure x
  | none => throw s!"index {i} out of range"

def jInts (l : List Int) : Json := Json.arr (l.map fun (i : Int) => (toJson i)).toArray
def jStrs (l : List String) : Json := Json.arr (l.map Json.str).toArray
def jArr (l : List Json) : Json := Json.arr l.toArray
def jObj (l : List (String × Json)) : Json := Json.mkObj l

/-- strand: 1, -1, 0, null -/
def strandOfJson (j : Json) : R Strand :=
  match j with
  | .null => pure .none
  | _ => do
    let i ← asInt j
    if i = 1 then pure .fwd else if i = -1 then pure .rev else if i = 0 then pure .zero
    else throw s!"bad strand {i}"
def strandToJson : Strand → Json
  | .fwd => toJson (1 : Int) | .rev => toJson (-1 : Int) | .zero => toJson (0 : Int) | .none => Json.null

def partOfJson (j : Json) : R Part := do
  return ⟨← asInt (← idx j 0), ← asInt (← idx j 1), ← strandOfJson (← idx j 2)⟩
def partToJson (p : Part) : Json := jArr [toJson p.lo, toJson p.hi, strandToJson p.strand]

/-- `{"c": compound?, "parts": [[lo,hi,strand],…]}` -/
def locOfJson (j : Json) : R Loc := do
  let ps ← listOf partOfJson (← fld j "parts")
  let c ← boolF j "c"
  if c then pure (.compound ps) else
    match ps with
    | [p] => pure (.simple p)
    | _ => throw "simple location needs exactly one part"
def locToJson (l : Loc) : Json :=
  jObj [("c", toJson l.isCompound), ("parts", jArr (l.parts.map partToJson))]

/-- insertion sort + dedup for canonical output -/
def insSorted {α} (lt : α → α → Bool) (x : α) : List α → List α
  | [] => [x]
  | y :: ys => if lt x y then x :: y :: ys else if lt y x then y :: insSorted lt x ys else y :: ys
def sortDedup {α} (lt : α → α → Bool) (l : List α) : List α := l.foldr (insSorted lt) []

end ASV.Drv
