import ASV.Drv.J
namespace ASV.Drv.C16
open Lean ASV ASV.Drv

def handle (_j : Json) : R Json := throw "C16: no model yet"

end ASV.Drv.C16
