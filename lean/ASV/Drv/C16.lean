import ASV.Drv.J
import ASV.Model.Ids
import ASV.Spec.Ids
namespace ASV.Drv.C16
open Lean ASV ASV.Drv ASV.Ids

def asChars (j : Json) : R Str := do return (← asStr j).toList
def optChars (j : Json) : R (Option Str) :=
  match j with
  | .null => pure none
  | _ => do return some (← asChars j)
def jS (s : Str) : Json := Json.str (String.ofList s)
def jOptS : Option Str → Json
  | none => Json.null
  | some s => jS s

def errStr : Err → String
  | .runtime => "RuntimeError" | .noName => "no-name" | .noMatch => "no-match" | .assertion => "assertion" | .fuel => "model-fuel"
def gerrStr : GErr → String
  | .noIdentifier => "no-identifier" | .dupLocation => "dup-location" | .dupName => "dup-name"

def recToJson (r : Rec) : Json := jArr [jS r.id, jS r.name, jOptS r.orig, jOptS r.acc]
def outOfJson (j : Json) : R IdSpec.Out := do
  return ⟨← asChars (← idx j 0), ← asChars (← idx j 1), ← optChars (← idx j 2)⟩

/-- sorted, duplicate-free list of strings (canonical form of a Python set) -/
def canonSet (l : List Str) : Json :=
  jStrs (sortDedup (· < ·) (l.map String.ofList))

def specOfImpl (allowLong : Bool) (ids : List Str) (impl : Json) : R Json := do
  match impl with
  | .null => return Json.null
  | _ =>
    let outs ← listOf outOfJson impl
    return jObj [
      ("distinct", toJson (IdSpec.pairwiseDistinct (outs.map (·.id)))),
      ("clean", toJson (outs.all fun o => IdSpec.fileSafe o.id && IdSpec.fileSafe o.name)),
      ("short", toJson (outs.all fun o => IdSpec.shortEnough allowLong o.id && IdSpec.shortEnough allowLong o.name)),
      ("remembers", toJson (IdSpec.remembersAll ids outs)),
      ("ok", toJson (IdSpec.recordsOk allowLong ids outs))]

def handleIds (j : Json) : R Json := do
  let allowLong ← boolF j "allow_long"
  let inp ← listOf (fun p => do
    let acc ← match (← asArr p)[2]? with
      | some a => optChars a
      | none => pure none
    return ((← asChars (← idx p 0)), (← asChars (← idx p 1)), acc)) (← fld j "recs")
  let limit ← asChars (fldD j "limit" (Json.str ""))
  let opts : Ids.Options := ⟨boolFD j "reuse" false, boolFD j "skip_san" false, allowLong, limit⟩
  let model := match preProcess opts inp with
    | .ok (recs, skips) =>
      jObj [("recs", jArr (recs.map recToJson)), ("skips", toJson skips),
            ("answers", toJson ((inp.zip recs).map fun (p, r) => hasName r p.1))]
    | .error e => jObj [("err", Json.str (errStr e))]
  let spec ← specOfImpl allowLong (inp.map (·.1)) (fldD j "impl" Json.null)
  return jObj [("model", model), ("spec", spec), ("scope", toJson true)]

def handleFix (j : Json) : R Json := do
  let allowLong ← boolF j "allow_long"
  let r : Rec := ⟨← asChars (← fld j "rid"), ← asChars (← fld j "name"), ← optChars (fldD j "orig" Json.null),
                  ← natF j "index", ← optChars (fldD j "acc" Json.null)⟩
  let taken ← listOf asChars (← fld j "taken")
  let model := match fixRecordNameId allowLong taken r with
    | .ok (r', t) => jObj [("rec", recToJson r'), ("taken", canonSet t)]
    | .error e => jObj [("err", Json.str (errStr e))]
  -- the per-call spec on the implementation's result: {"rec": [id, name, orig], "taken": [...]}
  let implJ := fldD j "impl" Json.null
  let spec ← match implJ with
    | .null => pure Json.null
    | _ => do
      let o ← outOfJson (← fld implJ "rec")
      let t' ← listOf asChars (← fld implJ "taken")
      pure (jObj [("ok", toJson (IdSpec.fixOk allowLong taken r.id r.orig o t')),
                  ("clean", toJson (IdSpec.fileSafe o.id && IdSpec.fileSafe o.name)),
                  ("short", toJson (IdSpec.shortEnough allowLong o.id && IdSpec.shortEnough allowLong o.name)),
                  ("fresh", toJson (o.id == r.id || !taken.contains o.id))])
  return jObj [("model", model), ("spec", spec), ("scope", toJson true)]

def handleUnique (j : Json) : R Json := do
  let pre ← asChars (← fld j "prefix")
  let taken ← listOf asChars (← fld j "taken")
  let start ← natF j "start"
  let maxLen ← intF j "max_length"
  let model := match generateUniqueId pre taken start maxLen with
    | .ok (n, c) => jObj [("name", jS n), ("counter", toJson c)]
    | .error e => jObj [("err", Json.str (errStr e))]
  let spec ← match fldD j "impl" Json.null with
    | .null => pure Json.null
    | i => do pure (jObj [("ok", toJson (IdSpec.uniqueOk taken maxLen (← asChars i)))])
  return jObj [("model", model), ("spec", spec), ("scope", toJson true)]

structure OpJ where
  kind : String
  loc : Loc
  locus : Option Str
  gene : Option Str
  protein : Option Str

def opOfJson (j : Json) : R OpJ := do
  return ⟨← strF j "op", ← locOfJson (← fld j "loc"), ← optChars (fldD j "locus_tag" Json.null),
          ← optChars (fldD j "gene" Json.null), ← optChars (fldD j "protein_id" Json.null)⟩

def handleGenes (j : Json) : R Json := do
  let ops ← listOf opOfJson (← fld j "ops")
  let gop (op : OpJ) : GOp :=
    if op.kind == "gene" then .gene (op.locus.getD []) op.loc else .cds op.loc op.locus op.gene op.protein
  -- the state evolves by the model's `applyOp` (the function the theorems are about); the per-call
  -- outcome is read off `addCds` on the state before the call
  let (_, outs) := ops.foldl (fun (acc : GState × List Json) op =>
    let (s, o) := acc
    let out := if op.kind == "gene" then Json.str "gene"
      else match addCds s (mkCds op.loc op.locus op.gene op.protein) with
        | .ok (_, n) => jObj [("name", jS n)]
        | .error e => jObj [("err", Json.str (gerrStr e))]
    (applyOp s (gop op), o ++ [out])) (({} : GState), [])
  let st := runOps {} (ops.map gop)
  -- spec on the implementation's final CDS list: [[name, loc], …]
  let implJ := fldD j "impl" Json.null
  let spec ← match implJ with
    | .null => pure Json.null
    | _ => do
      let cdss ← listOf (fun c => do return ((← asChars (← idx c 0)), (← locOfJson (← idx c 1)))) implJ
      pure (jObj [("names_distinct", toJson (IdSpec.pairwiseDistinct (cdss.map (·.1)))),
                  ("locs_distinct", toJson (IdSpec.pairwiseDistinct (cdss.map (·.2)))),
                  ("safe", toJson (cdss.all fun c => IdSpec.geneSafe c.1)),
                  ("ok", toJson (IdSpec.genesOk cdss))])
  return jObj [("model", jObj [("ops", jArr outs),
                               ("cdss", jArr (st.cdss.map fun c => jArr [jS c.1, locToJson c.2]))]),
               ("spec", spec), ("scope", toJson true)]

def genesSpec (implJ : Json) : R Json :=
  match implJ with
  | .null => pure Json.null
  | _ => do
    let cdss ← listOf (fun c => do return ((← asChars (← idx c 0)), (← locOfJson (← idx c 1)))) implJ
    pure (jObj [("names_distinct", toJson (IdSpec.pairwiseDistinct (cdss.map (·.1)))),
                ("locs_distinct", toJson (IdSpec.pairwiseDistinct (cdss.map (·.2)))),
                ("safe", toJson (cdss.all fun c => IdSpec.geneSafe c.1)),
                ("ok", toJson (IdSpec.genesOk cdss))])

def handleBio (j : Json) : R Json := do
  let feats ← listOf (fun f => do
    return ({ isCds := ← boolF f "cds", loc := ← locOfJson (← fld f "loc"),
              locusTag := ← optChars (fldD f "locus_tag" Json.null), gene := ← optChars (fldD f "gene" Json.null),
              proteinId := ← optChars (fldD f "protein_id" Json.null), pseudo := boolFD f "pseudo" false } : BioFeat))
    (← fld j "feats")
  let model := match fromBiopython {} feats with
    | .ok s => jObj [("cdss", jArr (s.cdss.map fun c => jArr [jS c.1, locToJson c.2])),
                     ("genes", jArr (s.genes.map fun g => jS g.1))]
    | .error e => jObj [("err", Json.str (gerrStr e))]
  return jObj [("model", model), ("spec", ← genesSpec (fldD j "impl" Json.null)), ("scope", toJson true)]

def handle (j : Json) : R Json := do
  match (← strF j "kind") with
  | "ids" => handleIds j
  | "fix" => handleFix j
  | "unique" => handleUnique j
  | "genes" => handleGenes j
  | "bio" => handleBio j
  | k => throw s!"C16: unknown kind {k}"

end ASV.Drv.C16
