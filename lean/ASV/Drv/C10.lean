import ASV.Drv.J
import ASV.Spec.Serial
import ASV.Spec.ProtDna
import ASV.Spec.SerialQual
import ASV.Model.SerialModule
import ASV.Model.SerialCds
namespace ASV.Drv.C10
open Lean ASV ASV.Drv ASV.Serial

/-! JSON <-> model state -/

def qualsOfJson (j : Json) : R Quals :=
  listOf (fun e => do return ((← asStr (← idx e 0)), (← listOf asStr (← idx e 1)))) j
def qualsToJson (q : Quals) : Json := jArr (q.map fun e => jArr [Json.str e.1, jStrs e.2])

def optOf {α} (f : Json → R α) (j : Json) (k : String) : R (Option α) :=
  match j.getObjVal? k with
  | .ok .null => pure none
  | .ok v => do return some (← f v)
  | .error _ => pure none
def optToJson {α} (f : α → Json) : Option α → Json
  | some v => f v
  | none => Json.null

def featOfJson (j : Json) : R Feat := do
  return ⟨← locOfJson (← fld j "loc"), ← strF j "type", ← listOf asStr (← fld j "notes"),
          ← qualsOfJson (← fld j "quals"), ← boolF j "byAS", ← optOf asInt j "codon"⟩
def featToJson (f : Feat) : Json :=
  jObj [("loc", locToJson f.loc), ("type", Json.str f.type), ("notes", jStrs f.notes),
        ("quals", qualsToJson f.quals), ("byAS", toJson f.byAS), ("codon", optToJson (fun (i : Int) => toJson i) f.codon)]

def bioOfJson (j : Json) : R Bio := do
  return ⟨← locOfJson (← fld j "loc"), ← strF j "type", ← qualsOfJson (← fld j "quals")⟩
def bioToJson (b : Bio) : Json :=
  jObj [("loc", locToJson b.loc), ("ls", Json.str (featureToJson b).location), ("type", Json.str b.type),
        ("quals", qualsToJson b.quals)]

def protoOfJson (j : Json) : R Proto := do
  return ⟨← featOfJson (← fld j "feat"), ← locOfJson (← fld j "core"), ← strF j "tool", ← strF j "product",
          ← intF j "cutoff", ← intF j "nbhd", ← strF j "rule", ← strF j "category", ← optOf qualsOfJson j "side"⟩
def protoToJson (p : Proto) : Json :=
  jObj [("feat", featToJson p.feat), ("core", locToJson p.core), ("tool", Json.str p.tool),
        ("product", Json.str p.product), ("cutoff", toJson p.cutoff), ("nbhd", toJson p.nbhd),
        ("rule", Json.str p.rule), ("category", Json.str p.category), ("side", optToJson qualsToJson p.side)]

def subOfJson (j : Json) : R Sub := do
  return ⟨← featOfJson (← fld j "feat"), ← strF j "tool", ← strF j "label", ← optOf qualsOfJson j "side"⟩
def subToJson (s : Sub) : Json :=
  jObj [("feat", featToJson s.feat), ("tool", Json.str s.tool), ("label", Json.str s.label),
        ("side", optToJson qualsToJson s.side)]

def candOfJson (j : Json) : R Cand := do
  return ⟨← featOfJson (← fld j "feat"), ← strF j "kind", ← listOf asNat (← fld j "children"),
          ← optOf asStr j "smiles", ← optOf asStr j "polymer", ← optOf asInt j "wrap"⟩
def candToJson (r : Rec) (c : Cand) : Json :=
  jObj [("feat", featToJson c.feat), ("kind", Json.str c.kind), ("children", toJson c.children),
        ("smiles", optToJson Json.str c.smiles), ("polymer", optToJson Json.str c.polymer),
        ("wrap", optToJson (fun (i : Int) => toJson i) c.wrap),
        ("coreloc", match c.coreLoc r with | .ok l => locToJson l | .error e => Json.str e)]

def regOfJson (j : Json) : R Reg := do
  return ⟨← featOfJson (← fld j "feat"), ← listOf asNat (← fld j "cands"), ← listOf asNat (← fld j "subs")⟩
def regToJson (g : Reg) : Json :=
  jObj [("feat", featToJson g.feat), ("cands", toJson g.cands), ("subs", toJson g.subs)]

def recOfJson (j : Json) : R Rec := do
  return { len := ← intF j "len", circular := ← boolF j "circ",
           others := ← listOf featOfJson (← fld j "others"), cdss := ← listOf featOfJson (← fld j "cdss"),
           subs := ← listOf subOfJson (← fld j "subs"), protos := ← listOf protoOfJson (← fld j "protos"),
           cands := ← listOf candOfJson (← fld j "cands"), regs := ← listOf regOfJson (← fld j "regs") }
def recToJson (r : Rec) : Json :=
  jObj [("len", toJson r.len), ("circ", toJson r.circular), ("others", jArr (r.others.map featToJson)),
        ("cdss", jArr (r.cdss.map featToJson)), ("subs", jArr (r.subs.map subToJson)),
        ("protos", jArr (r.protos.map protoToJson)), ("cands", jArr (r.cands.map (candToJson r))),
        ("regs", jArr (r.regs.map regToJson))]

def eToJson {α} (f : α → Json) : E α → Json
  | .ok v => jObj [("ok", f v)]
  | .error e => jObj [("err", Json.str e)]

def biosToJson (l : List Bio) : Json := jArr (l.map bioToJson)

/-! scope: the hypotheses of the record-level theorems, evaluated on this record -/

/-- the comparison used by `sorted(all_features)` is a strict weak order on this record's features
    (asymmetric, and incomparability is transitive), checked on the precomputed comparison matrix -/
def entDesc (r : Rec) (e : Ent) : String :=
  s!"{entType r e} {locToString (entLoc r e)}"

/-- first violation of the strict-weak-order laws, for diagnostics -/
def swoWitness (r : Rec) : String :=
  let es := allEntries r
  match es.findSome? (fun a => es.findSome? fun b =>
      if a != b && entLt r a b && entLt r b a then some s!"both {entDesc r a} < {entDesc r b} and back" else none) with
  | some w => w
  | none =>
    match es.findSome? (fun a => es.findSome? fun b => es.findSome? fun c =>
      if a != b && b != c && a != c && !entLt r a b && !entLt r b c && entLt r a c then
        some s!"{entDesc r a} !< {entDesc r b} !< {entDesc r c} but first < third" else none) with
    | some w => w
    | none => ""

def strictWeak (r : Rec) : Bool :=
  let es := (allEntries r).toArray
  let n := es.size
  let m : Array Bool := Id.run do
    let mut a := Array.mkEmpty (n * n)
    for i in [0:n] do
      for k in [0:n] do
        a := a.push (entLt r es[i]! es[k]!)
    return a
  let lt (i k : Nat) : Bool := m[i * n + k]!
  Id.run do
    for i in [0:n] do
      for k in [0:n] do
        if i != k then
          if lt i k && lt k i then return false
          if !lt i k then
            for l in [0:n] do
              -- negative transitivity: not (i<k), not (k<l) → not (i<l)   (distinct features only:
              -- a sort never compares a feature with itself)
              if l != i && l != k then
                if !lt k l && lt i l then return false
    return true

def areasSorted (r : Rec) : Bool :=
  sortedBy (fun (a b : Proto) => areaLt a.feat.loc b.feat.loc) r.protos &&
  sortedBy (fun (a b : Sub) => areaLt a.feat.loc b.feat.loc) r.subs &&
  sortedBy (fun (a b : Cand) => areaLt a.feat.loc b.feat.loc) r.cands &&
  sortedBy (fun (a b : Reg) => areaLt a.feat.loc b.feat.loc) r.regs &&
  sortedBy featLt r.cdss

def optRec (j : Json) (k : String) : R (Option Rec) := optOf recOfJson j k

def annotOfJson (j : Json) : R (String × String × String × Option String) := do
  return (← strF j "fn", ← strF j "tool", ← strF j "description", ← optOf asStr j "product")
def annotToJson (a : Annot) : Json :=
  jObj [("fn", Json.str a.fn.label), ("tool", Json.str a.tool), ("description", Json.str a.description),
        ("product", optToJson Json.str a.product)]
def smOfJson (j : Json) : R SMDom := do
  return ⟨← strF j "name", ← strF j "evalue", ← strF j "bitscore", ← strF j "nseeds", ← strF j "tool"⟩
def smToJson (d : SMDom) : Json :=
  jObj [("name", Json.str d.name), ("evalue", Json.str d.evalue), ("bitscore", Json.str d.bitscore),
        ("nseeds", Json.str d.nseeds), ("tool", Json.str d.tool)]

/-- the text inside the class-specific qualifiers (ASV/Model/SerialQual.lean) -/
def qualText (j : Json) : R Json := do
  match ← strF j "kind" with
  | "format" =>
    let fmt ← strF j "fmt"
    return jObj [("modelled", toJson (fmtToks fmt.toList).isSome),
                 ("groups", optToJson jStrs (parseFormat fmt (← strF j "data")))]
  | "genefn" =>
    return jObj [("parsed", eToJson annotToJson (Annot.fromStr (← strF j "text")))]
  | "genefns" =>
    -- GeneFunctionAnnotations built with add(), written, read back with add_from_qualifier()
    let raw ← listOf annotOfJson (← fld j "annots")
    let built : E (List Annot) := raw.foldlM (fun l (f, t, d, p) =>
      match GeneFn.ofLabel f with
      | some fn => annAdd l fn t d p
      | none => throw "value-error") []
    let quals : E Quals := do pure (annQuals (← built))
    let back : E (List Annot) := do annFromQualifier [] ((Q.get? (← quals) "gene_functions").getD [])
    let again : E Quals := do pure (annQuals (← back))
    return jObj [("built", eToJson (fun l => jArr (l.map annotToJson)) built), ("quals", eToJson qualsToJson quals),
                 ("back", eToJson (fun l => jArr (l.map annotToJson)) back), ("again", eToJson qualsToJson again),
                 ("same", toJson (match built, back with | .ok a, .ok b => a == b | _, _ => false)),
                 ("scope", toJson (match built with | .ok l => l.all (fun a => a.wf && a.textSafe) | _ => false))]
  | "secmet" =>
    let ds ← listOf smOfJson (← fld j "domains")
    let built := smAdd [] ds
    let strs := built.map SMDom.toStr
    let back := smFromQualifier strs
    return jObj [("built", jArr (built.map smToJson)), ("strs", jStrs strs),
                 ("back", eToJson (fun l => jArr (l.map smToJson)) back),
                 ("same", toJson (match back with | .ok b => b == built | _ => false)),
                 ("scope", toJson (built.all (·.textSafe)))]
  | k => throw s!"C10: unknown qualtext kind {k}"


def domOfJson (j : Json) : R Dom := do
  return ⟨← featOfJson (← fld j "feat"), ← strF j "tool", ← strF j "locus_tag", ← intF j "p_start", ← intF j "p_end",
          ← optOf asStr j "domain", ← listOf asStr (← fld j "asf"), ← optOf asStr j "domain_id", ← optOf asStr j "database",
          ← optOf asStr j "detection", ← optOf asStr j "label", ← optOf asStr j "evalue", ← optOf asStr j "score",
          ← strF j "translation"⟩
def domToJson (d : Dom) : Json :=
  jObj [("feat", featToJson d.feat), ("tool", Json.str d.tool), ("locus_tag", Json.str d.locusTag),
        ("p_start", toJson d.pStart), ("p_end", toJson d.pEnd), ("domain", optToJson Json.str d.domain),
        ("asf", jStrs d.asf), ("domain_id", optToJson Json.str d.domainId), ("database", optToJson Json.str d.database),
        ("detection", optToJson Json.str d.detection), ("label", optToJson Json.str d.label),
        ("evalue", optToJson Json.str d.evalue), ("score", optToJson Json.str d.score), ("translation", Json.str d.translation)]

/-- domains and motifs outside any record: write, read back, write again; or read an arbitrary feature -/
def domOp (j : Json) : R Json := do
  let kind ← match ← strF j "kind" with
    | "aSDomain" => pure DomKind.asDomain
    | "CDS_motif" => pure DomKind.motif
    | k => throw s!"C10: unknown domain kind {k}"
  match j.getObjVal? "bio" with
  | .ok bj =>
    let b ← bioOfJson bj
    return jObj [("back", eToJson domToJson (Dom.fromBio kind b))]
  | .error _ =>
    let d ← domOfJson (← fld j "d")
    let b := d.toBio
    let back : E Dom := do Dom.fromBio kind (← b)
    let again : E Bio := do (← back).toBio
    return jObj [("bio", eToJson (fun b => biosToJson [b]) b), ("back", eToJson domToJson back),
                 ("again", eToJson (fun b => biosToJson [b]) again),
                 ("same", toJson (match back with | .ok d' => d' == { d with feat := d'.feat } | _ => false)),
                 ("scope", toJson (domWFb kind d))]


def pairsOfJson (j : Json) : R (List (String × String)) :=
  listOf (fun e => do return ((← asStr (← idx e 0)), (← asStr (← idx e 1)))) j
def pairsToJson (l : List (String × String)) : Json := jArr (l.map fun e => jArr [Json.str e.1, Json.str e.2])
def t2ToJson (t : T2) : Json :=
  jObj [("starters", jStrs t.starters), ("elongations", jStrs t.elongations), ("classes", jStrs t.classes),
        ("weights", pairsToJson t.weights)]
def pfamXToJson (p : PfamX) : Json :=
  jObj [("description", Json.str p.description), ("identifier", Json.str p.identifier),
        ("version", optToJson (fun (i : Int) => toJson i) p.version), ("go", optToJson pairsToJson p.go)]

/-- the analysis annotations held in qualifiers of their own: type II PKS (protocluster), Pfam identifier / GO terms -/
def annotOp (j : Json) : R Json := do
  match ← strF j "kind" with
  | "t2pks" =>
    match j.getObjVal? "quals" with
    | .ok qj =>
      let q ← qualsOfJson qj
      return jObj [("back", eToJson (fun (r : Option T2 × Quals) => jObj [("t2", optToJson t2ToJson r.1), ("left", qualsToJson r.2)])
                              (T2.fromQuals q))]
    | .error _ =>
      let t : T2 := ⟨← listOf asStr (← fld j "starters"), ← listOf asStr (← fld j "elongations"),
                     ← listOf asStr (← fld j "classes"), ← pairsOfJson (← fld j "weights")⟩
      let back := T2.fromQuals t.toQuals
      return jObj [("quals", qualsToJson t.toQuals),
                   ("back", eToJson (fun (r : Option T2 × Quals) => jObj [("t2", optToJson t2ToJson r.1), ("left", qualsToJson r.2)]) back),
                   ("scope", toJson t.wf)]
  | "pfam" =>
    match j.getObjVal? "quals" with
    | .ok qj =>
      let q ← qualsOfJson qj
      return jObj [("back", eToJson (fun (r : PfamX × List String) => jObj [("p", pfamXToJson r.1), ("xref", jStrs r.2)]) (PfamX.read q))]
    | .error _ =>
      let p : PfamX := ⟨← strF j "description", ← strF j "identifier", ← optOf asInt j "version", ← optOf pairsOfJson j "go"⟩
      let back := PfamX.read p.quals
      let again : E Quals := do pure (← back).1.quals
      return jObj [("quals", qualsToJson p.quals),
                   ("back", eToJson (fun (r : PfamX × List String) => jObj [("p", pfamXToJson r.1), ("xref", jStrs r.2)]) back),
                   ("again", eToJson qualsToJson again), ("scope", toJson p.wf)]
  | k => throw s!"C10: unknown annotation kind {k}"


def pfamXOfJson (j : Json) : R PfamX := do
  return ⟨← strF j "description", ← strF j "identifier", ← optOf asInt j "version", ← optOf pairsOfJson j "go"⟩

/-- whole `PFAM_domain` / `aSModule` features outside any record: write, read back, write again -/
def featOp (j : Json) : R Json := do
  match ← strF j "kind" with
  | "pfam" =>
    let p : Pfam := ⟨← domOfJson (← fld j "d"), ← pfamXOfJson (← fld j "x")⟩
    let b := p.toBio
    let back : E Pfam := do Pfam.fromBio (← b)
    let again : E Bio := do (← back).toBio
    return jObj [("bio", eToJson (fun b => biosToJson [b]) b),
                 ("back", eToJson (fun (q : Pfam) => jObj [("d", domToJson q.dom), ("x", pfamXToJson q.x)]) back),
                 ("again", eToJson (fun b => biosToJson [b]) again),
                 ("scope", toJson (domWFb .pfam p.dom && p.x.wf &&
                   ["description", "db_xref", "gene_ontologies"].all (fun k => (Q.get? p.dom.feat.quals k).isNone)))]
  | "module" =>
    let doms ← listOf (fun e => do return (⟨← strF e "name", ← strF e "locus", ← intF e "strand"⟩ : Modules.FDomain)) (← fld j "domains")
    let typ ← match Modules.ModType.fromString (← strF j "type") with
      | some t => pure t
      | none => throw "C10: unknown module type"
    let f : ModF := ⟨← featOfJson (← fld j "feat"), ⟨doms, typ, ← boolF j "complete", ← boolF j "starter", ← boolF j "final", ← boolF j "iterative"⟩⟩
    let known (n : String) : Option Modules.FDomain := doms.find? (·.name == n)
    let b := f.toBio
    let back : E ModF := do ModF.fromBio known (← b)
    let again : E Bio := do (← back).toBio
    let modJson (g : ModF) : Json :=
      jObj [("feat", featToJson g.feat), ("domains", jStrs (g.m.domains.map (·.name))), ("type", Json.str g.m.type.str),
            ("complete", toJson g.m.complete), ("starter", toJson g.m.starter), ("final", toJson g.m.final), ("iterative", toJson g.m.iterative)]
    return jObj [("bio", eToJson (fun b => biosToJson [b]) b), ("back", eToJson modJson back),
                 ("again", eToJson (fun b => biosToJson [b]) again)]
  | "cds" =>
    -- CDSFeature.to_biopython, and from_biopython of the result (translation check taken as passed)
    let fns ← listOf (fun e => do
      let (f, t, d, p) ← annotOfJson e
      match GeneFn.ofLabel f with
      | some fn => pure (⟨fn, t, d, p⟩ : Annot)
      | none => throw "C10: unknown gene function") (← fld j "gene_functions")
    let c : Cds := ⟨← featOfJson (← fld j "feat"), ← optOf asStr j "locus_tag", ← optOf asStr j "protein_id", ← optOf asStr j "gene",
                    ← strF j "product", ← strF j "translation", ← intF j "transl_table", ← listOf smOfJson (← fld j "sec_met"), fns⟩
    let b := c.toBio
    let back : E Cds := do Cds.fromBio 1 (fun _ _ => true) (← b)
    return jObj [("bio", eToJson (fun b => biosToJson [b]) b),
                 ("same", toJson (match back with | .ok c' => c' == { c with feat := c'.feat } | _ => false)),
                 ("back_err", match back with | .error e => Json.str e | _ => Json.null)]
  | "extmotif" =>
    -- ExternalCDSMotif.to_biopython: what the parent classes wrote, and the qualifiers the motif arrived with
    return jObj [("quals", qualsToJson (extWrite (← qualsOfJson (← fld j "written")) (← qualsOfJson (← fld j "original"))))]
  | k => throw s!"C10: unknown feature kind {k}"


def handle (j : Json) : R Json := do
  let f ← strF j "f"
  match f with
  | "record" =>
    let r ← recOfJson (← fld j "rec")
    let w1 := writeRecord r
    let r1 : E Rec := do readRecordT (boolFD j "bacteria" true) r.len r.circular (← w1)
    let w2 : E (List Bio) := do writeRecord (← r1)
    -- JSON path of the model: every feature through feature_to_json / feature_from_json
    let rj : E Rec := do
      let bs ← w1
      match bs.mapM (fun b => featureFromJson (featureToJson b)) with
      | some bs' => readRecordT (boolFD j "bacteria" true) r.len r.circular bs'
      | none => throw "value-error"
    -- the record the spec compares with: the input, unless the harness sends a reduced one (features
    -- belonging to a recorded finding taken out on both sides)
    let rs := (← optRec j "spec_rec").getD r
    let spec (key : String) (textual : Bool) : R Json := do
      match ← optRec j key with
      | some r' => pure (toJson (sameRecord textual rs r'))
      | none => pure Json.null
    let modelSame := match r1 with | .ok r' => sameRecord false r r' | .error _ => false
    let fixed := match w1, w2 with | .ok a, .ok b => a == b | _, _ => false
    return jObj [("w1", eToJson biosToJson w1), ("r1", eToJson recToJson r1), ("w2", eToJson biosToJson w2),
                 ("rj_same", toJson (match r1, rj with | .ok a, .ok b => a == b | _, _ => false)),
                 ("model_same", toJson modelSame), ("model_fixed", toJson fixed),
                 ("spec_gb", ← spec "re_gb" true), ("spec_json", ← spec "re_json" false), ("spec_mem", ← spec "re_mem" false),
                 -- the GenBank re-read with the spaces taken out of candidate SMILES strings (class of a recorded finding)
                 ("spec_gb_smiles", ← spec "re_gb_smiles" true),
                 ("cores", jArr (r.cands.map fun c => match c.coreLoc r with | .ok l => locToJson l | .error e => Json.str e)),
                 ("refs_valid", toJson (refsValid r)), ("sorted", toJson (areasSorted r)),
                 ("swo", toJson (strictWeak r)), ("nodup", toJson (decide (allEntries r).Nodup)),
                 ("scope_wf", toJson (scopeButOrder r)),
                 ("swo_witness", if boolFD j "debug" false then Json.str (swoWitness r) else Json.null)]
  | "prepeptide" =>
    -- location part of Prepeptide.to_biopython / from_biopython
    let l ← locOfJson (← fld j "loc")
    let ld ← intF j "ld"
    let tl ← intF j "tl"
    let w := preWrite l ld tl
    let wj := match w with
      | .ok x => jObj [("ok", jObj [("core", locToJson x.core), ("leader", optToJson Json.str x.leader),
                                    ("tail", optToJson Json.str x.tail)])]
      | .valueError => jObj [("err", Json.str "value-error")]
      | .assertion => jObj [("err", Json.str "assertion")]
    let rr := match w with | .ok x => preRead x | _ => none
    let translated := (ProtDna.bases l).take (3 * (l.len / 3).toNat)
    let implRe ← optOf locOfJson j "re"
    return jObj [("written", wj), ("reread", optToJson locToJson rr),
                 ("model_bases_ok", toJson (match rr with | some r => ProtDna.bases r == translated | none => false)),
                 ("impl_bases_ok", optToJson (fun (r : Loc) => toJson (ProtDna.bases r == translated)) implRe),
                 ("impl_merged", optToJson (fun (r : Loc) => locToJson (mergeAdjoining r)) implRe),
                 ("orig_merged", locToJson (mergeAdjoining l)),
                 ("model_merged", optToJson (fun (r : Loc) => locToJson (mergeAdjoining r)) rr),
                 ("scope", toJson (ProtDna.geneWF l && decide (0 ≤ ld) && decide (0 ≤ tl) && decide (ld + tl < l.len / 3)))]
  | "qualtext" => qualText j
  | "dom" => domOp j
  | "annot" => annotOp j
  | "feat" => featOp j
  | "read" =>
    -- `Record.from_biopython` on an arbitrary feature list
    let bios ← listOf bioOfJson (← fld j "bios")
    let r := readRecord (← intF j "len") (← boolF j "circ") bios
    return jObj [("r1", eToJson recToJson r)]
  | "feature" =>
    -- one feature outside any record: to_biopython, from_biopython of the result, to_biopython again
    let cls ← strF j "cls"
    let x ← fld j "x"
    match cls with
    | "plain" =>
      let ft ← featOfJson x
      let b := ft.toBio
      let back : E Feat := do Feat.fromBio (← b)
      let again : E Bio := do (← back).toBio
      return jObj [("bio", eToJson (fun b => biosToJson [b]) b), ("back", eToJson featToJson back),
                   ("again", eToJson (fun b => biosToJson [b]) again)]
    | "proto" =>
      let p ← protoOfJson x
      let b := p.toBio none false
      let back : E Proto := do match ← b with | nb :: _ => Proto.fromBio nb | [] => throw "IndexError"
      let again : E (List Bio) := do (← back).toBio none false
      return jObj [("bio", eToJson biosToJson b), ("back", eToJson protoToJson back), ("again", eToJson biosToJson again)]
    | "sub" =>
      let s ← subOfJson x
      let b := s.toBio none false
      let back : E Sub := do match ← b with | nb :: _ => Sub.fromBio nb | [] => throw "IndexError"
      let again : E (List Bio) := do (← back).toBio none false
      return jObj [("bio", eToJson biosToJson b), ("back", eToJson subToJson back), ("again", eToJson biosToJson again)]
    | _ => throw s!"C10: unknown class {cls}"
  | _ => throw s!"C10: unknown op {f}"

end ASV.Drv.C10
