import ASV.Drv.J
namespace ASV.Drv.C10
open Lean ASV ASV.Drv

def handle (_j : Json) : R Json := throw "C10: no model yet"

end ASV.Drv.C10
