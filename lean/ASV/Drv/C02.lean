import ASV.Drv.J
import ASV.Drv.C01
import ASV.Spec.Grammar
import ASV.Generated.ShippedRules
import ASV.Spec.Rulesets
import ASV.Spec.TokenLayout
import ASV.Proofs.Continuations
namespace ASV.Drv.C02
open Lean ASV ASV.Drv ASV.Rules ASV.Parser ASV.Grammar

partial def condToJson : Cond → Json
  | .single neg n => jArr [Json.str "single", toJson neg, Json.str n]
  | .score neg n s => jArr [Json.str "score", toJson neg, Json.str n, toJson s]
  | .minimum neg c opts => jArr [Json.str "minimum", toJson neg, toJson c, jStrs (sortDedupStr opts)]
  | .cds neg subs => jArr [Json.str "cds", toJson neg, jArr (subs.map condToJson)]
  | .group neg subs => jArr [Json.str "group", toJson neg, jArr (subs.map condToJson)]
  | .conj subs => jArr [Json.str "conj", jArr (subs.map condToJson)]

def optJson {α} (f : α → Json) : Option α → Json
  | some a => f a
  | none => Json.null

def exampleToJson (e : Example) : Json :=
  jArr [Json.str e.database, Json.str e.accession, toJson e.version, toJson e.start, toJson e.stop,
        optJson Json.str e.compound]

def cfgOfJson (j : Json) : R Cfg := do
  let pair (k : String) : R (Nat × Nat) := do
    match (j.getObjVal? k).toOption with
    | none => pure (1, 1)
    | some v => pure (← asNat (← idx v 0), ← asNat (← idx v 1))
  return { sigs := ← listOf asStr (← fld j "sigs"), cats := ← listOf asStr (← fld j "cats"),
           cutoffMul := ← pair "cmul", nbhMul := ← pair "nmul" }

/-- a rule of the model's output, with its regenerated text and what parsing that text gives -/
def ruleToJson (cfg : Cfg) (r : Rule) : Json :=
  let text := r.reconstruct
  let re : Json :=
    match parseText { cfg with cutoffMul := (1, 1), nbhMul := (1, 1) } [] [] text with
    | .error e => jObj [("err", Json.str e.name)]
    | .ok (rs, _) =>
      match rs with
      | [r'] => jObj [("name", Json.str r'.name), ("cutoff", toJson r'.cutoff),
                      ("neighbourhood", toJson r'.neighbourhood), ("cond", condToJson r'.conditions),
                      ("cond_str", Json.str (printCond r'.conditions))]
      | _ => jObj [("err", Json.str "count")]
  jObj [("name", Json.str r.name), ("category", Json.str r.category), ("cutoff", toJson r.cutoff),
        ("neighbourhood", toJson r.neighbourhood), ("cond", condToJson r.conditions),
        ("cond_str", Json.str (printCond r.conditions)),
        ("extenders", optJson condToJson r.extenders),
        ("ext_str", optJson (fun e => Json.str (printCond e)) r.extenders),
        ("superiors", jStrs r.superiors), ("related", jStrs r.related),
        ("description", Json.str (" ".intercalate r.description)),
        ("examples", jArr (r.examples.map exampleToJson)),
        ("text", Json.str text), ("re", re)]

/-- implementation output → `Rule` (only the fields the spec predicates look at) -/
def ruleOfJson (j : Json) : R Rule := do
  let ext ← (match (j.getObjVal? "extenders").toOption with
    | none => pure none
    | some Json.null => pure none
    | some v => do pure (some (← C01.condOfJson v)) : R (Option Cond))
  return { name := ← strF j "name", category := ← strF j "category", cutoff := ← natF j "cutoff",
           neighbourhood := ← natF j "neighbourhood", conditions := ← C01.condOfJson (← fld j "cond"),
           superiors := ← listOf asStr (← fld j "superiors"), related := ← listOf asStr (← fld j "related"),
           extenders := ext }

partial def atomOfJson (j : Json) : R Atom := do
  let tag ← asStr (← idx j 0)
  let neg ← asBool (← idx j 1)
  match tag with
  | "id" => return .id neg (← asStr (← idx j 2))
  | "paren" => return .paren neg (← orOfJson (← idx j 2))
  | "cds" => return .cds neg (← orOfJson (← idx j 2))
  | "minimum" => return .minimum neg (← asNat (← idx j 2)) (← listOf asStr (← idx j 3))
  | "minscore" => return .minscore neg (← asStr (← idx j 2)) (← asNat (← idx j 3))
  | t => throw s!"unknown atom tag {t}"
where
  andOfList : List Json → R AndE
    | [] => throw "empty and-chain"
    | [a] => do return .one (← atomOfJson a)
    | a :: rest => do return .and (← atomOfJson a) (← andOfList rest)
  orOfList : List Json → R OrE
    | [] => throw "empty or-chain"
    | [a] => do return .one (← andOfList (← asArr a))
    | a :: rest => do return .or (← andOfList (← asArr a)) (← orOfList rest)
  orOfJson (j : Json) : R OrE := do orOfList (← asArr j)

def orOfJson (j : Json) : R OrE := do atomOfJson.orOfList (← asArr j)

/-- structural equality of condition objects up to the order of `minimum` options -/
partial def condEq : Cond → Cond → Bool
  | .single a n, .single b m => a == b && n == m
  | .score a n s, .score b m t => a == b && n == m && s == t
  | .minimum a c o, .minimum b d p => a == b && c == d && sortDedupStr o == sortDedupStr p && o.length == p.length
  | .cds a s, .cds b t => a == b && s.length == t.length && (s.zip t).all fun x => condEq x.1 x.2
  | .group a s, .group b t => a == b && s.length == t.length && (s.zip t).all fun x => condEq x.1 x.2
  | .conj s, .conj t => s.length == t.length && (s.zip t).all fun x => condEq x.1 x.2
  | _, _ => false

/-! a small family of pseudo-random environments for comparing two conditions' meanings -/
def lcg (x : Nat) : Nat := (x * 6364136223846793005 + 1442695040888963407) % 18446744073709551616

def envFor (profs : List String) (seed : Nat) : Env :=
  let scores : List Int := [0, 8, 10, 12, 100, 300, 2000]
  let genHits (g : Nat) : List (Prof × Int) :=
    (profs.zipIdx.filterMap fun (p, i) =>
      let r := lcg (lcg (seed * 1000003 + g * 7919 + i * 104729 + 17))
      if (r / 65536) % 2 == 0 then none
      else some (p, scores.getD ((r / 1048576) % scores.length) 0))
  let table := [0, 1, 2].map fun g => (g, genHits g)
  Env.ofLocs [0, 1, 2] ((table.filter fun x => !x.2.isEmpty).map (·.1))
    (fun g => (table.lookup g).getD [])
    (fun g => if g == 0 then .simple ⟨100, 200, .fwd⟩ else if g == 1 then .simple ⟨205, 300, .rev⟩
              else .simple ⟨5000, 5100, .fwd⟩)
    10 0

def semAgree (a b : Cond) : Bool :=
  let profs := sortDedupStr (a.profiles ++ b.profiles)
  (List.range 40).all fun seed =>
    let e := envFor profs seed
    [0, 1, 2].all fun g => sem e g a == sem e g b

def tokensJson (toks : List Tok) : Json := jArr (toks.map fun t => jArr [Json.str t.text, Json.str t.type.name])

structure Expect where
  name : String
  category : String
  cutoffKb : Nat
  nbhKb : Nat
  decl : List String
  conds : OrE
  extenders : Option Atom

def expectOfJson (j : Json) : R Expect := do
  let ext ← (match (j.getObjVal? "extenders").toOption with
    | none => pure none
    | some Json.null => pure none
    | some v => do pure (some (← atomOfJson v)) : R (Option Atom))
  return ⟨← strF j "name", ← strF j "category", ← natF j "cutoff_kb", ← natF j "nbh_kb",
          ← listOf asStr (← fld j "superiors"), ← orOfJson (← fld j "conds"), ext⟩

/-- the documented reading of a generated, well-formed rule file vs what the implementation returned -/
def expectCheck (cfg : Cfg) (exp : List Expect) (impl : List Rule) : Option String :=
  if exp.length != impl.length then some s!"expected {exp.length} rules, implementation has {impl.length}" else
  let decl (n : String) : List String := ((exp.find? (·.name == n)).map (·.decl)).getD []
  (exp.zip impl).findSome? fun (x, r) =>
    if x.name != r.name then some s!"rule name {r.name}, expected {x.name}"
    else if x.category != r.category then some s!"{x.name}: category"
    else if r.cutoff != distance x.cutoffKb cfg.cutoffMul then some s!"{x.name}: cutoff {r.cutoff}"
    else if r.neighbourhood != distance x.nbhKb cfg.nbhMul then some s!"{x.name}: neighbourhood {r.neighbourhood}"
    else if !condEq r.conditions (shapeTop x.conds) then
      some s!"{x.name}: conditions {printCond r.conditions} do not have the documented shape {printCond (shapeTop x.conds)}"
    else if !semAgree r.conditions (shapeTop x.conds) then some s!"{x.name}: meaning differs"
    else if r.superiors != sortDedupStr (reach decl exp.length x.name) then some s!"{x.name}: superiors {r.superiors}"
    else match x.extenders, r.extenders with
      | none, none => none
      | some a, some e => if condEq e (match a with | .cds neg t => .cds neg (shapeOr t) | a => shapeAtom a) then none
                          else some s!"{x.name}: extenders"
      | _, _ => some s!"{x.name}: extenders presence"

/-- the shipped rule files (regenerated table) of every strictness level up to `level` -/
def shippedUpTo (level : String) : List (String × String) → R (List String)
  | [] => throw s!"unknown strictness level {level}"
  | (l, text) :: rest => if l == level then pure [text] else do return text :: (← shippedUpTo level rest)

def handleParse (j : Json) : R Json := do
  let cfg ← cfgOfJson j
  let files ← (match (j.getObjVal? "shipped").toOption with
    | some (Json.str level) => shippedUpTo level Generated.ShippedRules.files
    | _ => do listOf asStr (← fld j "files") : R (List String))
  let model := match createRules cfg files [] [] with
    | .error e => jObj [("err", Json.str e.name)]
    | .ok rules => jObj [("rules", jArr (rules.map (ruleToJson cfg)))]
  -- executable spec on the implementation's output
  let mut spec : List (String × Json) := []
  match (j.getObjVal? "impl").toOption with
  | none => pure ()
  | some Json.null => pure ()
  | some implJ =>
    let impl ← listOf ruleOfJson implJ
    -- accepted although a SUPERIORS list in the text repeats a name?
    let supOk := files.all fun text => match tokenise text with
      | .ok toks => supListsDistinct toks
      | .error _ => true
    spec := spec ++ [("sup_lists_distinct", toJson supOk)]
    spec := spec ++ [("rules_ok", toJson (rulesOk cfg impl)),
                     ("names_distinct", toJson (namesDistinct impl)),
                     ("sup_closed", toJson (supClosed impl)),
                     ("rule_ok", jArr (impl.map fun r => toJson (ruleOk cfg r)))]
    match (j.getObjVal? "expect").toOption with
    | none => pure ()
    | some Json.null => pure ()
    | some expJ =>
      let exp ← listOf expectOfJson expJ
      spec := spec ++ [("expect", optJson Json.str (expectCheck cfg exp impl)),
                       ("expect_ok", toJson ((exp.all fun x => okTop x.conds)))]
    -- reparse of the regenerated text
    let res ← (← asArr implJ).mapM fun rj => do
      match (rj.getObjVal? "re").toOption with
      | none => pure Json.null
      | some Json.null => pure Json.null
      | some re =>
        let r ← ruleOfJson rj
        match (re.getObjVal? "err").toOption with
        | some _ => pure (Json.str "rejected")
        | none =>
          let c' ← C01.condOfJson (← fld re "cond")
          let name' ← strF re "name"
          -- `reparse_printed_rule_any_distance`: the text carries `distance // 1000` kilobases
          if name' != r.name then pure (Json.str "name")
          else if (← natF re "cutoff") != r.cutoff / 1000 * 1000
              || (← natF re "neighbourhood") != r.neighbourhood / 1000 * 1000 then
            pure (Json.str "distance")
          else if !semAgree r.conditions c' then pure (Json.str "meaning")
          else pure (Json.str "ok")
    spec := spec ++ [("reparse", jArr res)]
  return jObj [("model", model), ("spec", jObj spec)]

def handleTokens (j : Json) : R Json := do
  let text ← strF j "text"
  match tokenise text with
  | .error e => return jObj [("err_tok", Json.str e.name)]
  | .ok toks => return jObj [("tokens", tokensJson toks)]

/-! ### layout: the spec's `render` of written words with arbitrary filler, and what the tokeniser must return -/

open ASV.Layout in
def fillerOfJson (j : Json) : R Filler := do
  match (j.getObjVal? "ws").toOption with
  | some w =>
    match (← asStr w).toList with
    | [c] => pure (.ws c)
    | _ => throw "layout: ws must be one character"
  | none => return .comment (← strF j "c").toList

open ASV.Layout in
def wordOfString (t : String) : R Word :=
  match t.toList with
  | [] => throw "layout: empty word"
  | [c] => pure (if isSingleCharToken c then .sym c else .word c [])
  | c :: more => pure (.word c more)

open ASV.Layout in
/-- `tokenise_layout` instantiated on the implementation: the text is the spec's rendering of the
    items, the items are legal, so the tokens must be exactly the written words -/
def handleLayout (j : Json) : R Json := do
  let text ← strF j "text"
  let items ← listOf (fun it => do
    return (← listOf fillerOfJson (← fld it "gap"), ← wordOfString (← strF it "w"))) (← fld j "items")
  let tj ← fld j "tail"
  let tail : Tail := { gap := ← listOf fillerOfJson (← fld tj "gap"),
                       openComment := (match (tj.getObjVal? "open").toOption with
                         | some (Json.str b) => some b.toList
                         | _ => none) }
  let rendered := String.ofList (render items ++ tail.chars)
  let scope := okSeq false items && tail.ok
  let expect := items.map fun x => mkTok x.2.text
  let model := match tokenise text with
    | .error e => [("err_tok", Json.str e.name)]
    | .ok toks => [("tokens", tokensJson toks)]
  return jObj (model ++ [("render_ok", toJson (rendered == text)), ("scope", toJson scope),
                         ("expect", tokensJson expect)])

/-! ### continuations: several `Parser(text, existing_rules=…)` calls in one process -/

def contRowsJson (rs : List Rule) : Json :=
  jArr (rs.map fun r => jArr [Json.str r.name, Json.str r.category, toJson r.cutoff, toJson r.neighbourhood,
                               jStrs r.superiors, Json.str (printCond r.conditions)])

open ASV.Continuations in
/-- steps: `{"from": null | index of an earlier step, "text": …}`; model = the list-object store;
    spec = the text parsed after the *value* the named step returned (history-free) -/
def handleContinuations (j : Json) : R Json := do
  let cfg ← cfgOfJson j
  let steps ← listOf (fun s => do
    let fromJ := fldD s "from" Json.null
    let ex ← (match fromJ with
      | Json.null => pure none
      | v => do pure (some (← asNat v)) : R (Option Nat))
    return (ex, ← strF s "text")) (← fld j "steps")
  -- model: step k's list object; a failed step has none
  let mut st : Store := []
  let mut refs : List (Option Nat) := []
  let mut outs : List Json := []
  let mut pure_ : List Json := []
  let mut vals : List (Option (List Rule)) := []
  for (ex, text) in steps do
    let exRef : Option (Option Nat) := match ex with
      | none => some none
      | some k => match refs[k]? with
        | some (some r) => some (some r)
        | _ => none
    -- history-free: the value the named step returned when it returned
    let given : Option (List Rule) := match ex with
      | none => some []
      | some k => (vals[k]?).join
    pure_ := pure_ ++ [match given with
      | none => Json.null
      | some g => match parseText cfg g [] text with
        | .ok (rules, _) => jObj [("rules", contRowsJson rules)]
        | .error e => jObj [("err", Json.str e.name)]]
    match exRef with
    | none =>
      refs := refs ++ [none]; vals := vals ++ [none]; outs := outs ++ [Json.null]
    | some exr =>
      match parserRules cfg st exr text with
      | .ok (ref, st') =>
        st := st'
        refs := refs ++ [some ref]
        vals := vals ++ [st'[ref]?]
        outs := outs ++ [jObj [("rules", contRowsJson ((st'[ref]?).getD []))]]
      | .error e =>
        refs := refs ++ [none]; vals := vals ++ [none]
        outs := outs ++ [jObj [("err", Json.str e.name)]]
  let finals := refs.map fun r => match r with
    | some ref => contRowsJson ((st[ref]?).getD [])
    | none => Json.null
  return jObj [("model", jObj [("steps", jArr outs), ("final", jArr finals)]), ("spec", jObj [("steps", jArr pure_)])]

/-! ### rulesets: `get_ruleset` sequences and `Ruleset.from_files` -/

open ASV.Rulesets in
def rulesJson (rs : List Rule) : Json :=
  jArr (rs.map fun r => jArr [Json.str r.name, Json.str r.category, toJson r.cutoff, toJson r.neighbourhood])

def fracOfJson (j : Json) : R (Int × Nat) := do
  return (← asInt (← idx j 0), ← asNat (← idx j 1))

open ASV.Rulesets in
def reqOfJson (j : Json) : R Req := do
  return { strictness := ← strF j "strictness", names := ← listOf asStr (← fld j "names"),
           cats := ← listOf asStr (← fld j "cats"), fungi := ← boolF j "fungi",
           cmul := ← fracOfJson (← fld j "cmul"), nmul := ← fracOfJson (← fld j "nmul") }

/-- rule rows sent by the harness: [name, category, cutoff, neighbourhood] -/
def rowsOfJson (j : Json) : R (List (String × String × Nat × Nat)) :=
  listOf (fun r => do
    return (← asStr (← idx r 0), ← asStr (← idx r 1), ← asNat (← idx r 2), ← asNat (← idx r 3))) j

def rowsOf (rs : List Rule) : List (String × String × Nat × Nat) :=
  rs.map fun r => (r.name, r.category, r.cutoff, r.neighbourhood)

open ASV.Rulesets in
/-- the shipped rule files parsed with default multipliers -/
def parsedShipped (cfg : Cfg) (level : String) : Except Err (List Rule) :=
  match ruleFilesFor Generated.ShippedRules.files level with
  | some files => createRules { cfg with cutoffMul := (1, 1), nbhMul := (1, 1) } files [] []
  | none => .error .value

open ASV.Rulesets in
def handleRulesets (j : Json) : R Json := do
  let cfg ← cfgOfJson j
  -- the rule files of each strictness are parsed once per case
  let table := Generated.ShippedRules.files.map fun f => (f.1, parsedShipped cfg f.1)
  let parsed : String → Except Err (List Rule) := fun l => (table.lookup l).getD (.error .value)
  let reqs ← listOf reqOfJson (← fld j "steps")
  let checks ← listOf (fun s => pure ((s.getObjVal? "check").toOption == some (Json.bool true))) (← fld j "steps")
  -- the model: one process, requests in order; a failing request leaves the state alone
  let mut st : State := {}
  let mut handed : List (Option RS) := []
  let mut stepsOut : List Json := []
  for (q, chk) in reqs.zip checks do
    let mut extra : List (String × Json) := []
    if chk then
      match checkOptions parsed cfg.cats q st with
      | .ok (b, st') =>
        st := st'
        extra := [("check", toJson b)]
      | .error e => extra := [("check", Json.str e.name)]
    match getRuleset parsed q st with
    | .ok (rs, st') =>
      st := st'
      handed := handed ++ [some rs]
      stepsOut := stepsOut ++ [jObj ([("rules", rulesJson (rs.read st.heap))] ++ extra)]
    | .error e =>
      handed := handed ++ [none]
      stepsOut := stepsOut ++ [jObj ([("err", Json.str e.name)] ++ extra)]
  let finalOut := handed.map fun o => match o with
    | some rs => rulesJson (rs.read st.heap)
    | none => Json.null
  -- the spec on the implementation's observations
  let specOf (q : Req) : Option (List (String × String × Nat × Nat)) :=
    match reqMul q, parsed q.strictness with
    | .ok m, .ok rules => some (rowsOf (wanted rules (sortDedupStr q.names) (sortDedupStr q.cats) m))
    | _, _ => none
  let implSteps ← asArr (fldD j "impl_steps" (jArr []))
  let implFinal ← asArr (fldD j "impl_final" (jArr []))
  let check (obs : List Json) : R (List Json) :=
    (reqs.zip obs).mapM fun (q, o) => do
      match o with
      | Json.null => pure Json.null
      | o =>
        match (o.getObjVal? "rules").toOption with
        | none => pure (toJson (specOf q).isNone)
        | some rows => pure (toJson (specOf q == some (← rowsOfJson rows)))
  let finalObs := implFinal.map fun o => match o with
    | Json.null => Json.null
    | o => jObj [("rules", o)]
  -- `check_options` let the options through iff they are fine
  let checkSpec : List Json := (reqs.zip implSteps).map fun (q, o) =>
    match (o.getObjVal? "check").toOption, parsed q.strictness with
    | some (Json.bool b), .ok rules => toJson (b == optionsOk rules cfg.cats q)
    | _, _ => Json.null
  return jObj [("model", jObj [("steps", jArr stepsOut), ("final", jArr finalOut)]),
               ("spec", jObj [("steps", jArr (← check implSteps)), ("final", jArr (← check finalObs)),
                              ("checks", jArr checkSpec)])]

open ASV.Rulesets in
def handleFromFiles (j : Json) : R Json := do
  let cfg ← cfgOfJson j
  let level ← strF j "strictness"
  let c ← fracOfJson (← fld j "cmul")
  let n ← fracOfJson (← fld j "nmul")
  match mkMul c n, parsedShipped cfg level with
  | .ok m, .ok rules =>
    let (rs, heap) := fromFiles rules m []
    let want := rowsOf (wanted rules [] [] m)
    let implOk ← (match (j.getObjVal? "impl_rules").toOption with
      | some (Json.arr a) => do pure (toJson (want == (← rowsOfJson (Json.arr a))))
      | _ => pure Json.null : R Json)
    return jObj [("model", jObj [("rules", rulesJson (rs.read heap))]), ("spec", jObj [("ok", implOk)])]
  | .error e, _ => return jObj [("model", jObj [("err", Json.str e.name)]), ("spec", jObj [("ok", Json.null)])]
  | _, .error e => return jObj [("model", jObj [("err", Json.str e.name)]), ("spec", jObj [("ok", Json.null)])]

/-! ### strictness levels: `_get_rule_files_for_strictness`, `_get_rules` -/

open ASV.Rulesets in
/-- impl: per level the file names and the rule names; model: `ruleFilesFor` over the level table
    (file of level `l` = `l.txt`), rule names of the regenerated shipped texts; spec: the file lists
    are what the model says and each level's rules start with the rules of the level before -/
def handleLevels (j : Json) : R Json := do
  let cfg ← cfgOfJson j
  let levels := Generated.ShippedRules.files.map (·.1)
  let table := levels.map fun l => (l, l ++ ".txt")
  let asked ← listOf asStr (← fld j "ask")
  let modelFiles := asked.map fun l => match ruleFilesFor table l with
    | some fs => jStrs fs
    | none => Json.null
  let modelNames := asked.map fun l => match parsedShipped cfg l with
    | .ok rules => jStrs (rules.map (·.name))
    | .error _ => Json.null
  let implNames ← listOf (fun x => match x with
    | Json.null => pure none
    | v => do pure (some (← listOf asStr v)) : Json → R (Option (List String))) (← fld j "impl_names")
  -- consecutive known levels, in table order
  let known := (asked.zip implNames).filterMap fun (l, n) => match n with
    | some names => if levels.contains l then some (l, names) else none
    | none => none
  let ordered := levels.filterMap fun l => known.lookup l
  let rec chain : List (List String) → Bool
    | a :: b :: rest => a.isPrefixOf b && chain (b :: rest)
    | _ => true
  return jObj [("model", jObj [("files", jArr modelFiles), ("names", jArr modelNames)]),
               ("spec", jObj [("prefix_chain", toJson (chain ordered))])]

def handle (j : Json) : R Json := do
  match (← strF j "kind") with
  | "tokens" => handleTokens j
  | "layout" => handleLayout j
  | "continuations" => handleContinuations j
  | "levels" => handleLevels j
  | "parse" => handleParse j
  | "rulesets" => handleRulesets j
  | "from_files" => handleFromFiles j
  | k => throw s!"C02: unknown kind {k}"

end ASV.Drv.C02
