import ASV.Drv.J
namespace ASV.Drv.C02
open Lean ASV ASV.Drv

def handle (_j : Json) : R Json := throw "C02: no model yet"

end ASV.Drv.C02
