import ASV.Drv.J
import ASV.Drv.C01
import ASV.Model.Protocluster
import ASV.Spec.Chains
namespace ASV.Drv.C03
open Lean ASV ASV.Drv ASV.Rules ASV.Proto

def geneOfJson (j : Json) : R GeneInfo := do
  let hits ← listOf (fun h => do return ((← asStr (← idx h 0)), (← asInt (← idx h 1)))) (← fld j "hits")
  let hasRes ← boolF j "hasres"
  return ⟨← natF j "n", ← locOfJson (← fld j "loc"), if hasRes then hits else [], hasRes⟩

def ruleOfJson (j : Json) : R RuleM := do
  let cond ← ASV.Drv.C01.condOfJson (← fld j "cond")
  -- `Conditions(False, [cond])` unless the condition already is a plain `Conditions` group
  let top := match cond with
    | .group _ _ => cond
    | c => .group false [c]
  let ext ← match j.getObjVal? "ext" with
    | .ok .null => pure none
    | .ok v => do pure (some (← ASV.Drv.C01.condOfJson v))
    | .error _ => pure none
  return ⟨← strF j "name", ← intF j "cutoff", ← intF j "nbhd", top, ← listOf asStr (← fld j "sup"), ext⟩

def pcToJson (o : Out) : Json :=
  jObj [("rule", Json.str o.pc.rule), ("core", locToJson o.pc.core), ("loc", locToJson o.pc.loc),
        ("defs", jArr ((sortDedup (fun a b => a.1 < b.1) o.defs).map fun d =>
          jArr [toJson d.1, jStrs (sortDedup (· < ·) d.2)]))]

def implOfJson (j : Json) : R Chains.ImplPC := do
  return ⟨← strF j "rule", ← locOfJson (← fld j "core"), ← locOfJson (← fld j "loc")⟩

def handle (j : Json) : R Json := do
  let genes ← listOf geneOfJson (← fld j "genes")
  let order ← listOf asNat (← fld j "order")
  let ordered := order.filterMap fun n => genes.find? (·.id == n)
  let r : Rec := ⟨← intF j "len", ← boolF j "circ", ordered⟩
  let rules ← listOf ruleOfJson (← fld j "rules")
  let stages := detectStages (withinSpec r) r rules
  let model := match stages with
    | .ok s => jObj [("ok", jArr (s.final.map pcToJson))]
    | .error e => jObj [("err", Json.str e)]
  let impl ← match j.getObjVal? "impl" with
    | .ok .null => pure none
    | .ok v => do pure (some (← listOf implOfJson v))
    | .error _ => pure none
  let v := Chains.verdict r rules impl
  -- is this input inside a known-finding class?  (the model mirrors the recorded defect there)
  let vm := match stages with
    | .ok s => Chains.verdict r rules (some (s.final.map fun (o : Out) => (⟨o.pc.rule, o.pc.core, o.pc.loc⟩ : Chains.ImplPC)))
    | .error _ => { ok := true }
  return jObj [("model", model),
    ("spec", jObj [("ok", toJson v.ok), ("why", Json.str v.why), ("known", Json.str v.known),
                   ("groups", toJson v.groups), ("maxgroup", toJson v.maxGroup), ("long", toJson v.longChain),
                   ("model_known", Json.str (if vm.ok then "" else vm.known))]),
    ("scope", jObj [("linear", toJson (!r.circular)), ("wf", toJson (Chains.inputsWF r rules)),
                    ("plain", toJson (rules.all fun x => x.superiors.isEmpty && x.extenders.isNone))])]

end ASV.Drv.C03
