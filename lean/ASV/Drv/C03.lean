import ASV.Drv.J
namespace ASV.Drv.C03
open Lean ASV ASV.Drv

def handle (_j : Json) : R Json := throw "C03: no model yet"

end ASV.Drv.C03
