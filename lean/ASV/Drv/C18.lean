import ASV.Drv.J
import ASV.Spec.Parallel
namespace ASV.Drv.C18
open Lean ASV ASV.Drv ASV.Parallel

/-- a call's outcome: `["ok", v]` | `["err", kind]` -/
def callOfJson (j : Json) : R (Except String Int) := do
  match (← asStr (← idx j 0)) with
  | "ok" => return .ok (← asInt (← idx j 1))
  | "err" => return .error (← asStr (← idx j 1))
  | t => throw s!"unknown call outcome {t}"

/-- what `execute` does for one command: `["rc", code, stderr?]` | `["kbd"]` | `["err", kind]` -/
def execOfJson (j : Json) : R (ExecResult String) := do
  match (← asStr (← idx j 0)) with
  | "rc" => return .finished (← asInt (← idx j 1)) (← asBool (← idx j 2))
  | "kbd" => return .keyboardInterrupt
  | "err" => return .failed (← asStr (← idx j 1))
  | t => throw s!"unknown exec outcome {t}"

def eventOfJson (j : Json) : R Event := do
  match (← asStr (← idx j 0)) with
  | "done" => return .done (← asNat (← idx j 1))
  | "timeout" => return .timeout
  | "died" => return .died (← asNat (← idx j 1))
  | t => throw s!"unknown event {t}"

def outcomeToJson : Outcome String Int → Json
  | .returned l => jObj [("ret", jArr (l.map fun | some v => toJson v | none => Json.null))]
  | .raised (.task e) => jObj [("err", Json.str "task"), ("e", Json.str e)]
  | .raised .timeout => jObj [("err", Json.str "timeout")]
  | .raised .workerDied => jObj [("err", Json.str "died")]
  | .raised .noProcesses => jObj [("err", Json.str "noproc")]
  | .blocked => jObj [("blocked", toJson true)]

def outcomeOfJson (j : Json) : R (Outcome String Int) := do
  if let .ok l := arrF j "ret" then
    let vs ← l.mapM fun x => match x with
      | .null => pure none
      | x => do return some (← asInt x)
    return .returned vs
  if (boolFD j "blocked" false) then return .blocked
  match (← strF j "err") with
  | "task" => return .raised (.task (← strF j "e"))
  | "timeout" => return .raised .timeout
  | "died" => return .raised .workerDied
  | "noproc" => return .raised .noProcesses
  | t => throw s!"unknown error class {t}"

/-- the exception `child_process` turns a `KeyboardInterrupt` into -/
def interrupt : String := "RuntimeError:Killed by keyboard interrupt"

def handle (j : Json) : R Json := do
  let kind ← strF j "kind"
  let cpus ← natF j "cpus"
  let cfg ← natF j "config_cpus"
  let ht ← boolF j "timeout"
  let evs ← listOf eventOfJson (← fld j "events")
  let impl? : Option (Outcome String Int) ←
    match j.getObjVal? "impl" with
    | .ok x => do pure (some (← outcomeOfJson x))
    | .error _ => pure none
  let k := resolveCpus cfg cpus
  match kind with
  | "pf" =>
    let calls ← listOf callOfJson (← fld j "outcomes")
    let f : Except String Int → Except String Int := id
    let model := parallelFunction cfg f calls cpus ht evs
    let m := numChunks calls.length k
    return jObj [
      ("model", outcomeToJson model),
      ("seq", outcomeToJson (sequentialOutcome f calls)),
      ("spec", toJson ((impl?.map (acceptable cfg f calls cpus ht evs)).getD true)),
      ("spec_model", toJson (acceptable cfg f calls cpus ht evs model)),
      ("chunks", toJson m),
      ("chunksize", toJson (chunkSize calls.length k)),
      ("scope", toJson (k ≤ 1 || validB m evs))]
  | "pe" =>
    let cmds ← listOf execOfJson (← fld j "outcomes")
    let f := childProcess interrupt
    let model := parallelExecute cfg f cmds cpus ht evs
    let m := numChunks cmds.length k
    return jObj [
      ("model", outcomeToJson model),
      ("seq", outcomeToJson (sequentialOutcome f cmds)),
      ("spec", toJson ((impl?.map (acceptableExecute cfg f cmds cpus ht evs)).getD true)),
      ("spec_model", toJson (acceptableExecute cfg f cmds cpus ht evs model)),
      ("chunks", toJson m),
      ("chunksize", toJson (chunkSize cmds.length k)),
      ("scope", toJson (k = 0 || validB m evs))]
  | t => throw s!"unknown case kind {t}"

end ASV.Drv.C18
