import ASV.Drv.J
namespace ASV.Drv.C18
open Lean ASV ASV.Drv

def handle (_j : Json) : R Json := throw "C18: no model yet"

end ASV.Drv.C18
