import ASV.Drv.J
import ASV.Spec.Parallel
import ASV.Model.Ids
import ASV.Model.ParallelWorkers
import ASV.Model.ParallelFilters
namespace ASV.Drv.C18
open Lean ASV ASV.Drv ASV.Parallel

/-- a call's outcome: `["ok", v]` | `["err", kind]` -/
def callOfJson (j : Json) : R (Except String Int) := do
  match (← asStr (← idx j 0)) with
  | "ok" => return .ok (← asInt (← idx j 1))
  | "err" => return .error (← asStr (← idx j 1))
  | t => throw s!"unknown call outcome {t}"

/-- what `execute` does for one command: `["rc", code, stderr?]` | `["kbd"]` | `["err", kind]` -/
def execOfJson (j : Json) : R (ExecResult String) := do
  match (← asStr (← idx j 0)) with
  | "rc" => return .finished (← asInt (← idx j 1)) (← asBool (← idx j 2))
  | "kbd" => return .keyboardInterrupt
  | "err" => return .failed (← asStr (← idx j 1))
  | t => throw s!"unknown exec outcome {t}"

/-- `["exit", p]` = child process `p` of the caller seen dead; attributed to the pool (or not) by
    the model's `classifyExit` from the children before / after the pool was created -/
def eventOfJson (before after : List Nat) (j : Json) : R Event := do
  match (← asStr (← idx j 0)) with
  | "done" => return .done (← asNat (← idx j 1))
  | "timeout" => return .timeout
  | "died" => return .died (← asNat (← idx j 1))
  | "exit" => return classifyExit before after (← asNat (← idx j 1))
  | t => throw s!"unknown event {t}"

def outcomeToJson : Outcome String Int → Json
  | .returned l => jObj [("ret", jArr (l.map fun | some v => toJson v | none => Json.null))]
  | .raised (.task e) => jObj [("err", Json.str "task"), ("e", Json.str e)]
  | .raised .timeout => jObj [("err", Json.str "timeout")]
  | .raised .workerDied => jObj [("err", Json.str "died")]
  | .raised .noProcesses => jObj [("err", Json.str "noproc")]
  | .blocked => jObj [("blocked", toJson true)]

def outcomeOfJson (j : Json) : R (Outcome String Int) := do
  if let .ok l := arrF j "ret" then
    let vs ← l.mapM fun x => match x with
      | .null => pure none
      | x => do return some (← asInt x)
    return .returned vs
  if (boolFD j "blocked" false) then return .blocked
  match (← strF j "err") with
  | "task" => return .raised (.task (← strF j "e"))
  | "timeout" => return .raised .timeout
  | "died" => return .raised .workerDied
  | "noproc" => return .raised .noProcesses
  | t => throw s!"unknown error class {t}"

/-- the exception `child_process` turns a `KeyboardInterrupt` into -/
def interrupt : String := "RuntimeError:Killed by keyboard interrupt"

def asChars (j : Json) : R Ids.Str := do return (← asStr j).toList
def jS (s : Ids.Str) : Json := Json.str (String.ofList s)
def recToJson (r : Ids.Rec) : Json :=
  jArr [jS r.id, jS r.name, match r.orig with | none => Json.null | some o => jS o]

/-- identifiers through the clean-up stage of `pre_process_sequences`: the model threads the id set
    in the parent (C16's `preProcessIds`); `shipped` is what comes out if a copy of the set travels
    with every task batch instead (`parallelFunctionShipped`, batches in index order) -/
def handlePrepIds (j : Json) : R Json := do
  let allowLong ← boolF j "allow_long"
  let cpus ← natF j "cpus"
  -- third component: the record's `accession` annotation (C16's model) — the C18 cases carry none
  let inp ← listOf (fun p => do return ((← asChars (← idx p 0)), (← asChars (← idx p 1)), (none : Option Ids.Str))) (← fld j "recs")
  let model := match Ids.preProcessIds allowLong inp with
    | .ok recs => jObj [("recs", jArr (recs.map recToJson))]
    | .error _ => jObj [("err", Json.str "task")]
  let shipped : Json := match Ids.uniquePass (Ids.mkRecs 1 inp) with
    | .error _ => Json.null
    | .ok (recs1, taken) =>
      let g := fun (t : List Ids.Str) (r : Ids.Rec) =>
        match Ids.fixRecordNameId allowLong t r with
        | .error e => (Except.error e : Except Ids.Err (List Ids.Str × Ids.Rec))
        | .ok (r', t') => .ok (t', r')
      let m := numChunks recs1.length cpus
      match parallelFunctionShipped 1 g taken recs1 cpus false ((List.range m).map Event.done) with
      | .returned l => jArr (l.filterMap fun x => x.map recToJson)
      | _ => Json.null
  return jObj [("model", model), ("shipped", shipped), ("scope", toJson true)]

def optStr0 (j : Json) : R (Option String) :=
  match j with
  | .null => pure none
  | _ => do return some (← asStr j)

/-- the parent-side filters on `[id, length, skip]` per record (state after the sanitise stage) -/
def handleFilters (j : Json) : R Json := do
  let recs ← listOf (fun r => do
    return (⟨← asStr (← idx r 0), ← asNat (← idx r 1), ← optStr0 (← idx r 2)⟩ : FRec)) (← fld j "frecs")
  let model := match parentFilters (← strF j "target") (← natF j "minlength") (← intF j "limit") recs with
    | .error e => jObj [("err", Json.str e)]
    | .ok (out, hit) => jObj [("skips", jArr (out.map fun r => match r.skip with | none => Json.null | some s => Json.str s)),
                             ("hit", toJson hit)]
  return jObj [("model", model), ("scope", toJson true)]

def optStr (j : Json) : R (Option String) :=
  match j with
  | .null => pure none
  | _ => do return some (← asStr j)
def jOptStr : Option String → Json
  | none => Json.null
  | some s => Json.str s

/-- the worker functions on the observable part of each record: `[seq, skip, n_cds]`; for
    `genefind` additionally what the gene finder would do (`["finds", n]` | `["fails"]`) -/
def handleWorkers (j : Json) : R Json := do
  let func ← strF j "func"
  let recs ← arrF j "records"
  let results : List (Except String Json) ← recs.mapM fun r => do
    let seq := (← asStr (← idx r 0)).toList
    let skip ← optStr (← idx r 1)
    let cds ← asNat (← idx r 2)
    match func with
    | "sanitise" =>
      let out := sanitiseSequence ⟨seq, skip⟩
      return .ok (jArr [Json.str (String.ofList out.seq), jOptStr out.skip, toJson cds])
    | "genefind" =>
      let g ← idx r 3
      let gf ← match (← asStr (← idx g 0)) with
        | "finds" => do pure (GeneFinder.finds (← asNat (← idx g 1)))
        | _ => pure GeneFinder.fails
      match ensureCdsInfo false false gf ⟨skip, cds⟩ with
      | .ok out => return .ok (jArr [Json.str (String.ofList seq), jOptStr out.skip, toJson out.cds])
      | .error e => return .error e
    | f => throw s!"unknown worker function {f}"
  let model := match comprehension (fun (x : Except String Json) => x) results with
    | .ok l => jObj [("content", jArr l)]
    | .error e => jObj [("err", Json.str e)]
  return jObj [("model", model), ("scope", toJson true)]

def handle (j : Json) : R Json := do
  let kind ← strF j "kind"
  if kind == "prep_ids" then return ← handlePrepIds j
  if kind == "filters" then return ← handleFilters j
  if kind == "workers" then return ← handleWorkers j
  let cpus ← natF j "cpus"
  let cfg ← natF j "config_cpus"
  let ht ← boolF j "timeout"
  let before := (listOf asNat (fldD j "before" (jArr []))).toOption.getD []
  let after := (listOf asNat (fldD j "after" (jArr []))).toOption.getD []
  let evs ← listOf (eventOfJson before after) (← fld j "events")
  let impl? : Option (Outcome String Int) ←
    match j.getObjVal? "impl" with
    | .ok x => do pure (some (← outcomeOfJson x))
    | .error _ => pure none
  let k := resolveCpus cfg cpus
  match kind with
  | "pf" =>
    let calls ← listOf callOfJson (← fld j "outcomes")
    let f : Except String Int → Except String Int := id
    let model := parallelFunction cfg f calls cpus ht evs
    let m := numChunks calls.length k
    return jObj [
      ("model", outcomeToJson model),
      ("seq", outcomeToJson (sequentialOutcome f calls)),
      ("spec", toJson ((impl?.map (acceptable cfg f calls cpus ht evs)).getD true)),
      ("spec_model", toJson (acceptable cfg f calls cpus ht evs model)),
      ("chunks", toJson m),
      ("chunksize", toJson (chunkSize calls.length k)),
      ("scope", toJson (k ≤ 1 || validB m evs))]
  | "pe" =>
    let cmds ← listOf execOfJson (← fld j "outcomes")
    let f := runnerOf (boolFD j "verbose" false) interrupt
    let model := parallelExecute cfg f cmds cpus ht evs
    let m := numChunks cmds.length k
    return jObj [
      ("model", outcomeToJson model),
      ("seq", outcomeToJson (sequentialOutcome f cmds)),
      ("spec", toJson ((impl?.map (acceptableExecute cfg f cmds cpus ht evs)).getD true)),
      ("spec_model", toJson (acceptableExecute cfg f cmds cpus ht evs model)),
      ("chunks", toJson m),
      ("chunksize", toJson (chunkSize cmds.length k)),
      ("scope", toJson (k = 0 || validB m evs))]
  | t => throw s!"unknown case kind {t}"

end ASV.Drv.C18
