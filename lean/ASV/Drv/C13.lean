import ASV.Drv.J
import ASV.Spec.Refine
import ASV.Spec.HitFilter
import ASV.Model.HitCallers
import ASV.Generated.C13Docking
namespace ASV.Drv.C13
open Lean ASV ASV.Drv ASV.Refine ASV.HitFilter ASV.HitCallers

def hitOfJson (j : Json) : R Hit := do
  return ⟨← asInt (← idx j 0), ← asInt (← idx j 1), ← asInt (← idx j 2), ← asInt (← idx j 3), ← asInt (← idx j 4)⟩
def hitToJson (h : Hit) : Json := jInts [h.prof, h.qs, h.qe, h.ev, h.sc]
def hitsToJson (l : List Hit) : Json := jArr (l.map hitToJson)
def optHitsOfJson (j : Json) : R (Option (List Hit)) :=
  match j with
  | .null => pure none
  | _ => do return some (← listOf hitOfJson j)

def tableI (l : List Int) (d : Int) : Int → Int := fun i =>
  if i < 0 then d else (l[i.toNat]?).getD d
def tableB (l : List Bool) : Int → Bool := fun i =>
  if i < 0 then false else (l[i.toNat]?).getD false

def envOfJson (j : Json) : R Env := do
  let lens ← listOf asInt (fldD j "lens" (jArr []))
  let reg ← listOf asBool (fldD j "reg" (jArr []))
  -- docking kind: profile names are looked up in the set regenerated from the source
  let names ← listOf asStr (fldD j "names" (jArr []))
  let dock := names.map fun n => ASV.Generated.dockingDomains.contains n
  return { len := tableI lens 1, reg := tableB reg, dock := tableB dock }

def b (x : Bool) : Json := toJson x

/-- all input hits use profiles of one hmm length (hypothesis of the `_partial` margin theorem) -/
def uniformLen (env : Env) (l : List Hit) : Bool :=
  match l with
  | [] => true
  | h :: t => t.all fun g => env.len g.prof == env.len h.prof

def refineSpecJson (env : Env) (input out : List Hit) : Json :=
  jObj [("sorted", b (sortedByStart out)), ("overlap", b (noExcessOverlap env out)),
        ("clear", b (allStartClear env out)), ("prov", b (allProvenanceOK env input out))]

def handleRefine (j : Json) : R Json := do
  let env ← envOfJson j
  let nb ← boolF j "nb"
  let hits ← listOf hitOfJson (← fld j "hits")
  let impl ← listOf hitOfJson (fldD j "impl" (jArr []))
  let sorted := sortHits hits
  let m := refine env nb hits
  let maxLen := (sorted.map fun h => env.len h.prof).foldl max 0
  return jObj [
    ("model", hitsToJson m),
    ("spec", refineSpecJson env sorted impl),
    ("model_spec", refineSpecJson env sorted m),
    ("global", b (allStartClearBy maxLen impl)),
    ("kept", b (!nb || uncontestedCompleteKept env sorted impl)),
    ("scope", b (uniformLen env hits)),
    ("nontrivial", b (m.length < sorted.length && m.length > 0))]

def stageSpecJson (env : Env) (input out : List Hit) : Json :=
  jObj [("sub", b (out.all input.contains)), ("sorted", b (sortedByStart out)),
        ("overlap", b (noExcessOverlap env out)), ("clear", b (allStartClear env out)),
        ("justified", b (droppedJustified env input out))]

def handleRemOv (j : Json) : R Json := do
  let env ← envOfJson j
  let hits ← listOf hitOfJson (← fld j "hits")
  let impl ← optHitsOfJson (fldD j "impl" Json.null)
  let m := some (removeOverlapping env hits)
  let inputSorted := sortedByStart hits
  return jObj [
    ("model", match m with | some l => hitsToJson l | none => Json.null),
    ("spec", match impl with | some l => stageSpecJson env hits l | none => Json.null),
    ("model_spec", match m with | some l => stageSpecJson env hits l | none => Json.null),
    ("input_sorted", b inputSorted),
    ("scope", b (uniformLen env hits && inputSorted)),
    ("nontrivial", b (match m with | some l => l.length < hits.length | none => false))]

def handleIncomplete (j : Json) : R Json := do
  let env ← envOfJson j
  let hits ← listOf hitOfJson (← fld j "hits")
  let m := removeIncomplete env hits
  return jObj [("model", hitsToJson m), ("spec", hitsToJson (specIncomplete env hits)),
               ("nontrivial", b (m.length < hits.length))]

def handleMerge (j : Json) : R Json := do
  let env ← envOfJson j
  let nb ← boolF j "nb"
  let hits ← listOf hitOfJson (← fld j "hits")
  let impl ← optHitsOfJson (fldD j "impl" Json.null)
  let m := if nb then mergeImmediate? env hits else (match hits with | [] => some [] | _ => some (mergeDomainList env hits))
  return jObj [
    ("model", match m with | some l => hitsToJson l | none => Json.null),
    ("prov", match impl with | some l => b (allProvenanceOK env hits l) | none => Json.null),
    ("covered", match impl with | some l => b (allCovered hits l) | none => Json.null),
    ("input_sorted", b (sortedByStart hits)),
    ("nontrivial", b (match m with | some l => l.length < hits.length | none => false))]

def handleDock (j : Json) : R Json := do
  let env ← envOfJson j
  let hits ← listOf hitOfJson (← fld j "hits")
  let len ← intF j "L"
  return jObj [("model", hitsToJson (dockingFilter env len hits)),
               ("spec", hitsToJson (hits.filter (specDockKeep env len))),
               ("nontrivial", b ((dockingFilter env len hits).length < hits.length))]

/-! hmmer -/
def hhitOfJson (j : Json) : R HHit := do
  return ⟨← asInt (← idx j 0), ← asInt (← idx j 1), ← asInt (← idx j 2), ← asInt (← idx j 3)⟩
def hhitToJson (h : HHit) : Json := jInts [h.ident, h.ps, h.pe, h.sc]

def optInt (j : Json) : R (Option Int) :=
  match j with
  | .null => pure none
  | _ => do return some (← asInt j)

def herr : HErr → String
  | .assertion => "assertion" | .valueError => "value-error"
  | .zeroDivision => "other:ZeroDivisionError" | .unmodelled => "unmodelled"

def handleHmmer (j : Json) : R Json := do
  let cuts ← listOf optInt (← fld j "cut")
  let cut : Int → Option Int := fun i => if i < 0 then none else (cuts[i.toNat]?).getD none
  let limit ← intF j "limit"
  let hits ← listOf hhitOfJson (← fld j "hits")
  let impl ← match fldD j "impl" Json.null with
    | .null => pure none
    | x => do pure (some (← listOf hhitOfJson x))
  let c := fun i => (cut i).getD 0
  let m := HitFilter.removeOverlapping cut limit hits
  let v := match impl with
    | some out => let v := hmmerSpec c limit hits out
      jObj [("sorted", b v.sorted), ("subset", b v.subset), ("separated", b v.separated),
            ("justified", b v.justified), ("top", b v.topKept), ("ok", b v.ok)]
    | none => Json.null
  return jObj [
    ("model", match m with
      | .ok l => jObj [("ok", jArr (l.map hhitToJson))]
      | .error e => jObj [("err", Json.str (herr e))]),
    ("spec", v),
    ("nontrivial", b (match m with | .ok l => l.length < hits.eraseDups.length | _ => false))]

/-! cluster_prediction filters -/
def fhitOfJson (j : Json) : R FHit := do
  return ⟨← asNat (← idx j 0), ← asInt (← idx j 1), ← asInt (← idx j 2), ← asInt (← idx j 3), ← asInt (← idx j 4)⟩
def uids (l : List FHit) : Json := jArr (l.map fun h => toJson h.uid)

def handleMultiple (j : Json) : R Json := do
  let genes ← listOf (listOf fhitOfJson) (← fld j "genes")
  return jObj [
    ("model_genes", jArr (genes.map fun g => uids (filterMultiple g))),
    ("model_results", uids (filterMultipleAll genes)),
    ("spec_genes", jArr (genes.map fun g => uids (specMultiple g))),
    ("nontrivial", b (genes.any fun g => (filterMultiple g).length < g.length))]

/-- some overlap group holds two hits with the same score (the real `set` enumeration — by object
    address — then decides which one is "best") -/
def hasTie (hits : List FHit) : Bool :=
  hits.any fun a => hits.any fun c => a.uid != c.uid && a.sc == c.sc

def handleEquiv (j : Json) : R Json := do
  let eq ← listOf (listOf asInt) (← fld j "eq")
  let hits ← listOf fhitOfJson (← fld j "hits")
  let impl ← match fldD j "impl" Json.null with
    | .null => pure none
    | x => do pure (some (← listOf asNat x))
  let m := filterResults eq hits
  let v := match impl with
    | some ids =>
      let out := ids.filterMap fun i => hits.find? (fun h => h.uid == i)
      let v := equivSpec eq hits out
      jObj [("sublist", b (v.sublist && out.length == ids.length)), ("separated", b v.separated),
            ("best", b v.bestKept), ("untouched", b v.untouched),
            ("exact", b (ids == (specFilterB eq hits).map (·.uid))),
            ("ok", b (v.ok && out.length == ids.length && ids == (specFilterB eq hits).map (·.uid)))]
    | none => Json.null
  let others ← listOf (listOf fhitOfJson) (fldD j "others" (Json.arr #[]))
  return jObj [
    ("model", match m with | some l => uids l | none => Json.null),
    ("model_genes", match filterRecord eq (hits :: others) with
                    | some gs => jArr (gs.map uids) | none => Json.null),
    ("tie_any", b ((hits :: others).any hasTie)),
    ("spec", v), ("tie", b (hasTie hits)),
    ("groups", jArr ((overlappingGroups hits).map uids)),
    ("nontrivial", b (match m with | some l => l.length < hits.length | none => false))]

/-! callers -/
def handleCp (j : Json) : R Json := do
  let cuts ← listOf asInt (← fld j "cut")
  let eq ← listOf (listOf asInt) (← fld j "eq")
  let genes ← listOf (listOf fhitOfJson) (← fld j "genes")
  let out := genes.map fun g => findHmmerHitsGene (tableI cuts 0) eq g
  return jObj [
    ("model", jArr (out.map fun o => match o with | some l => uids l | none => Json.null)),
    ("spec", jArr (genes.map fun g => uids (specFindHmmerHits (tableI cuts 0) eq g))),
    ("survivors", jArr (genes.map fun g =>
      uids (specFilterB eq (g.filter fun h => decide (tableI cuts 0 h.prof < h.sc))))),
    ("ties", jArr (genes.map fun g => b (hasTie g))),
    ("nontrivial", b ((genes.zip out).any fun (g, o) => match o with | some l => l.length < g.length | none => false))]

def rawHmmOfJson (j : Json) : R RawHmm := do
  return ⟨⟨← asInt (← idx j 0), ← asInt (← idx j 1), ← asInt (← idx j 2), ← asInt (← idx j 3)⟩, ← asInt (← idx j 4)⟩

def handleRunHmmer (j : Json) : R Json := do
  let cuts ← listOf optInt (← fld j "cut")
  let cut : Int → Option Int := fun i => if i < 0 then none else (cuts[i.toNat]?).getD none
  let minScore ← intF j "min"
  let maxEv ← intF j "maxev"
  let genes ← listOf (listOf rawHmmOfJson) (← fld j "genes")
  let filt := boolFD j "filter" true
  let out := genes.map fun g => runHmmerGene cut minScore maxEv g filt
  -- the whole record in hmmscan order: [locus, ident, start, end, score, evalue]
  let raw ← listOf (fun r => do
      return ((← asInt (← idx r 0)), (⟨⟨← asInt (← idx r 1), ← asInt (← idx r 2), ← asInt (← idx r 3), ← asInt (← idx r 4)⟩,
              ← asInt (← idx r 5)⟩ : RawHmm))) (fldD j "raw" (jArr []))
  let record := runHmmerRecord cut minScore maxEv raw filt
  return jObj [
    ("model", jArr (out.map fun o => match o with
      | .ok l => jObj [("ok", jArr (l.map hhitToJson))]
      | .error e => jObj [("err", Json.str (herr e))])),
    ("record", match record with
      | .ok l => jArr (l.map fun (g, h) => jArr [toJson g, hhitToJson h])
      | .error e => jObj [("err", Json.str (herr e))]),
    ("nontrivial", b ((genes.zip out).any fun (g, o) => match o with | .ok l => l.length < g.length | _ => false))]

def handleRefineRecord (j : Json) : R Json := do
  let env ← envOfJson j
  let nb ← boolF j "nb"
  let raw ← listOf (fun r => do return ((← asInt (← idx r 0)), (← hitOfJson (← idx r 1)))) (← fld j "raw")
  let n ← natF j "ngenes"
  let rec_ := refineRecord env nb raw
  return jObj [
    ("model", jArr ((List.range n).map fun (g : Nat) => hitsToJson (lookupGene rec_ (g : Int)))),
    ("keys", jArr (rec_.map fun e => toJson e.1)),
    ("alone", jArr ((List.range n).map fun (g : Nat) =>
      hitsToJson (refine env nb ((raw.filter fun r => r.1 == (g : Int)).map (·.2))))),
    ("nontrivial", b (rec_.length > 1))]

def handleDomains (j : Json) : R Json := do
  let env ← envOfJson j
  let lens ← listOf asInt (← fld j "L")
  let genes ← listOf (listOf hitOfJson) (← fld j "genes")
  let doms := (genes.zip lens).map fun (g, l) => findDomainsGene env l g
  let implDoms ← listOf (listOf hitOfJson) (fldD j "impl_doms" (jArr []))
  let implMotifs ← listOf (listOf hitOfJson) (fldD j "impl_motifs" (jArr []))
  let keptDoms := (genes.zip implDoms).all fun (g, out) =>
    ((mustBeKept env (sortHits g)).filter fun x => !env.dock x.prof).all fun x => out.any fun m => covers m x
  let keptMotifs := (genes.zip implMotifs).all fun (g, out) => uncontestedCompleteKept env (sortHits g) out
  return jObj [
    ("kept", b (keptDoms && keptMotifs)),
    ("model", jArr (doms.map hitsToJson)),
    ("motifs", jArr (genes.map fun g => hitsToJson (findAbMotifsGene env g))),
    ("nontrivial", b ((genes.zip doms).any fun (g, d) => d.length < g.length && d.length > 0))]

def handleSubtypes (j : Json) : R Json := do
  let env ← envOfJson j
  let target ← intF j "target"
  let stripL ← listOf asInt (← fld j "strip")
  let strip : Int → Int := fun i => tableI stripL i i
  let existing ← listOf (listOf hitOfJson) (← fld j "existing")
  let genes ← listOf (listOf hitOfJson) (← fld j "genes")
  let pairs := existing.zip genes
  -- impl_internal: per gene, per target domain (in order), the hits attached to it by the real code
  let implInternal ← listOf (listOf (listOf hitOfJson)) (fldD j "impl_internal" (jArr []))
  let kept := (pairs.zip implInternal).all fun ((e, g), perDomain) =>
    ((e.filter fun d => d.prof == target).zip perDomain).all fun (d, attached) =>
      ((mustBeKept env (sortHits g)).filter fun x => overlapsWith x d).all fun x =>
        attached.any fun s => covers s { x with prof := strip x.prof }
  return jObj [
    ("kept", b kept),
    ("model", jArr (pairs.map fun (e, g) => hitsToJson (findSubtypesGene env target strip e g))),
    ("internal", jArr (pairs.map fun (e, g) =>
      jArr ((e.filter fun d => d.prof == target).map fun d => hitsToJson (subtypeHits env strip g d)))),
    ("nontrivial", b (pairs.any fun (e, g) => !(findSubtypesGene env target strip e g).isEmpty))]

def handle (j : Json) : R Json := do
  match ← strF j "kind" with
  | "refine" => handleRefine j
  | "remov" => handleRemOv j
  | "incomplete" => handleIncomplete j
  | "merge" => handleMerge j
  | "dock" => handleDock j
  | "hmmer" => handleHmmer j
  | "multiple" => handleMultiple j
  | "equiv" => handleEquiv j
  | "cp" => handleCp j
  | "refinerec" => handleRefineRecord j
  | "runhmmer" => handleRunHmmer j
  | "domains" => handleDomains j
  | "subtypes" => handleSubtypes j
  | k => throw s!"C13: unknown kind {k}"

end ASV.Drv.C13
