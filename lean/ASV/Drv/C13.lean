import ASV.Drv.J
namespace ASV.Drv.C13
open Lean ASV ASV.Drv

def handle (_j : Json) : R Json := throw "C13: no model yet"

end ASV.Drv.C13
