import ASV.Drv.J
import ASV.Model.ProtDna
import ASV.Spec.ProtDna
import ASV.Spec.ProtDnaRebuild
namespace ASV.Drv.C09
open Lean ASV ASV.Drv ASV.ProtDna

def resJson {α} (f : α → Json) : Res α → Json
  | .ok a => jObj [("ok", f a)]
  | .valueError => jObj [("err", Json.str "value-error")]
  | .assertion => jObj [("err", Json.str "assertion")]

def optLoc (j : Json) (k : String) : R (Option Loc) :=
  match j.getObjVal? k with
  | .ok .null => pure none
  | .ok v => do return some (← locOfJson v)
  | .error _ => pure none

def optLocJson : Option Loc → Json
  | none => Json.null
  | some l => locToJson l

/-- verdict of the executable spec on an implementation location (absent = nothing to judge) -/
def coversJ (l : Loc) (r : Option Loc) (a b : Int) : Json :=
  match r with
  | none => Json.null
  | some r => toJson (coversSlice l r a.toNat b.toNat)

def sliceJ (l : Loc) (a b : Int) : Json := jInts (sliceL (bases l) a.toNat b.toNat)

def handle (j : Json) : R Json := do
  let kind ← strF j "kind"
  let l ← locOfJson (← fld j "loc")
  let wf := geneWF l
  let common := [("scope", toJson wf), ("len", toJson l.len), ("nbases", toJson (bases l).length),
                 ("standard_gene", toJson (if isRev l then descDisjointB l.parts else ascDisjointB l.parts)),
                 ("feature_start", toJson (featureStart l)), ("feature_end", toJson (featureEnd l)),
                 ("first_base", toJson ((bases l).head?.getD 0)), ("last_base", toJson ((bases l).getLast?.getD 0)),
                 ("bridges", toJson (bridgesOrigin l))]
  match kind with
  | "sub" =>
    let s ← intF j "s"; let e ← intF j "e"
    let impl ← optLoc j "impl"
    -- partial genes: per part [start is `<`, end is `>`]; absent = all positions exact
    let fz : Fuzz ← match j.getObjVal? "fz" with
      | .ok (.arr a) => a.toList.mapM fun x => do return ((← asBool (← idx x 0)), (← asBool (← idx x 1)))
      | _ => pure []
    let amb := ambiguousEnd l fz
    let total := l.len / 3
    let truncated := amb && decide (e > total) && decide (0 ≤ s) && decide (s < total)
    let e' := if truncated then total else e
    let guard := decide (0 ≤ s) && decide (s < e') && decide (e' ≤ total)
    let feature := boolFD j "feature" false     -- a motif/domain feature is constructed from the location
    let m := if feature then featureAt (subLocationFuzzy amb l s e) else subLocationFuzzy amb l s e
    let refused := match subLocationFuzzy amb l s e with | .ok r => containsOverlappingExons r | _ => false
    return jObj (common ++ [
      ("model", resJson locToJson m), ("unrepresentable", toJson refused),
      ("amb", toJson amb), ("truncated", toJson truncated), ("eff_e", toJson e'),
      ("spec", jObj [("guard", toJson guard), ("slice", sliceJ l (3 * s) (3 * e')),
                     ("covers", coversJ l impl (3 * s) (3 * e'))])])
  | "offsets" =>
    let s ← intF j "s"; let e ← intF j "e"
    let impl ← optLoc j "impl"
    let guard := decide (0 ≤ s) && decide (s < e) && decide (e ≤ l.len)
    return jObj (common ++ [
      ("model", resJson locToJson (subLocationFromOffsets l s e)),
      ("spec", jObj [("guard", toJson guard), ("slice", sliceJ l s e), ("covers", coversJ l impl s e)])])
  | "tta" =>
    let off ← intF j "off"
    let impl ← optLoc j "impl"
    let guard := decide (0 ≤ off) && decide (off + 3 ≤ l.len)
    let refused := match subLocationFromOffsets l off (off + 3) with | .ok r => containsOverlappingExons r | _ => false
    return jObj (common ++ [
      ("model", resJson locToJson (ttaLocation l off)), ("unrepresentable", toJson refused),
      ("spec", jObj [("guard", toJson guard), ("slice", sliceJ l off (off + 3)),
                     ("covers", coversJ l impl off (off + 3))])])
  | "convert" =>
    let s ← intF j "s"; let e ← intF j "e"
    let guard := decide (0 ≤ s) && decide (s < e) && decide (e ≤ l.len / 3)
    let sl := sliceL (bases l) (3 * s).toNat (3 * e).toNat
    -- scope of the convert_* theorems: simple, or compound in the standard exon order of its strand
    let standard := !l.isCompound || (if isRev l then descDisjointB l.parts else ascDisjointB l.parts)
    let first := sl.head?.getD 0
    let last := sl.getLast?.getD 0
    let expected : List Int := if isRev l then [last, first + 1] else [first, last + 1]
    return jObj (common ++ [
      ("model", resJson (fun (p : Int × Int) => jInts [p.1, p.2]) (convertProteinToDna s e l)),
      ("spec", jObj [("guard", toJson guard), ("simple", toJson (!l.isCompound)), ("standard", toJson standard),
                     ("expected", jInts expected),
                     ("minmax", jInts [minList sl, maxList sl + 1])])])
  | "frameshift" =>
    let cs ← intF j "cs"; let undo ← boolF j "undo"
    let impl ← optLoc j "impl"
    let m := frameshift l cs undo
    let back : Json := match m with
      | .ok r => resJson locToJson (frameshift r cs (!undo))
      | _ => Json.null
    let k := (cs - 1).toNat
    let specOk : Json := match impl with
      | none => Json.null
      | some r => toJson (if undo then bases l == (bases r).drop k else bases r == (bases l).drop k)
    let guard := frameGuard l cs undo
    let textModel : Json := match j.getObjVal? "text" with
      | .ok (.str t) => resJson locToJson (frameshiftText l t undo)
      | _ => Json.null
    return jObj (common ++ [
      ("model", resJson locToJson m), ("back", back), ("model_text", textModel),
      ("spec", jObj [("guard", toJson guard), ("shifted", specOk)])])
  | "prepeptide" =>
    let ld ← intF j "leader"; let tl ← intF j "tail"
    let il ← optLoc j "impl_leader"; let ic ← optLoc j "impl_core"; let it ← optLoc j "impl_tail"
    let total := l.len / 3
    let guard := decide (0 ≤ ld) && decide (0 ≤ tl) && decide (ld + tl < total)
    let m := prepeptideSections l ld tl
    return jObj (common ++ [
      ("model", resJson (fun (x : Option Loc × Loc × Option Loc) =>
          jObj [("leader", optLocJson x.1), ("core", locToJson x.2.1), ("tail", optLocJson x.2.2)]) m),
      ("spec", jObj [("guard", toJson guard),
                     ("leader", coversJ l il 0 (3 * ld)),
                     ("core", coversJ l ic (3 * ld) (3 * (total - tl))),
                     ("tail", coversJ l it (3 * (total - tl)) (3 * total)),
                     ("slices", jArr [sliceJ l 0 (3 * ld), sliceJ l (3 * ld) (3 * (total - tl)),
                                      sliceJ l (3 * (total - tl)) (3 * total)])])])
  | "prepeptide_rt" =>
    -- to_biopython → Prepeptide.from_biopython(core) → to_biopython again
    let ld ← intF j "leader"; let tl ← intF j "tail"
    let repaired ← boolF j "repaired"
    let implR ← optLoc j "impl_rebuilt"
    let il ← optLoc j "impl_leader"; let ic ← optLoc j "impl_core"; let it ← optLoc j "impl_tail"
    let total := l.len / 3
    let guard := decide (0 ≤ ld) && decide (0 ≤ tl) && decide (ld + tl < total)
    let expected := sliceL (bases l) 0 (3 * total).toNat
    let sound : Bool := rebuildSound l ld tl
    let oneStrand (r : Loc) : Bool := r.parts.all fun q => q.strand == l.strand
    let basesOk (r : Option Loc) (a b : Int) : Json := match r with
      | none => Json.null
      | some r => toJson (bases r == sliceL (bases l) a.toNat b.toNat && oneStrand r)
    let m := prepeptideRebuild repaired l ld tl
    let m2 := prepeptideSecondPass repaired l ld tl
    return jObj (common ++ [
      ("model", resJson locToJson m),
      ("model_bases", match m with | .ok r => jInts (bases r) | _ => Json.null),
      ("model2", resJson (fun (x : Option Loc × Loc × Option Loc) =>
          jObj [("leader", optLocJson x.1), ("core", locToJson x.2.1), ("tail", optLocJson x.2.2)]) m2),
      ("sound", toJson sound),
      ("unrepresentable", toJson (match prepeptideSections l ld tl with
        | .ok x => (match rebuildLocation repaired (sectionList x) with
                    | .ok r => containsOverlappingExons r | _ => false)
        | _ => false)),
      ("spec", jObj [("guard", toJson guard),
                     ("rebuilt", basesOk implR 0 (3 * total)),
                     ("expected", jInts expected),
                     ("leader", basesOk il 0 (3 * ld)),
                     ("core", basesOk ic (3 * ld) (3 * (total - tl))),
                     ("tail", basesOk it (3 * (total - tl)) (3 * total)),
                     ("slices", jArr [sliceJ l 0 (3 * ld), sliceJ l (3 * ld) (3 * (total - tl)),
                                      sliceJ l (3 * (total - tl)) (3 * total)])])])
  | "cds_table" =>
    -- the gene's own translation: table choice + generation; `aas` = per-codon translations (Biopython) by table
    let recordTable ← natF j "record_table"
    let qual : Option Nat := match j.getObjVal? "qual" with
      | .ok (.num n) => some n.mantissa.toNat
      | _ => none
    let tabs ← listOf (fun x => do return ((← asNat (← idx x 0)), (← asStr (← idx x 1)))) (← fld j "aas")
    let tr : Nat → List Char := fun t => match tabs.find? (·.1 == t) with | some x => x.2.toList | none => []
    return jObj (common ++ [
      ("model", jObj [("table", toJson (cdsTable recordTable qual)),
                      ("translation", Json.str (String.ofList (cdsGeneratedTranslation tr recordTable qual)))]),
      ("spec", jObj [("guard", toJson true)])])
  | "record_rt" =>
    -- gene + motif + TTA marker written with Record.to_biopython and read back with Record.from_biopython
    let s ← intF j "s"; let e ← intF j "e"; let off ← intF j "off"
    let ig ← optLoc j "impl_gene"; let im ← optLoc j "impl_motif"; let it ← optLoc j "impl_tta"
    let rd (misc : Bool) (r : Res Loc) : Res Loc := r.bind fun x => .ok (readLocation true misc x)
    let basesOk (r : Option Loc) (a b : Int) : Json := match r with
      | none => Json.null
      | some r => toJson (bases r == sliceL (bases l) a.toNat b.toNat && r.parts.all fun q => q.strand == l.strand)
    return jObj (common ++ [
      ("model", jObj [("gene", locToJson (readLocation true false l)),
                      ("motif", resJson locToJson (rd false (featureAt (subLocation l s e)))),
                      ("tta", resJson locToJson (rd true (ttaLocation l off)))]),
      ("spec", jObj [("guard", toJson true),
                     ("gene", basesOk ig 0 l.len), ("motif", basesOk im (3 * s) (3 * e)),
                     ("tta", basesOk it off (off + 3)),
                     ("motif_slice", sliceJ l (3 * s) (3 * e)), ("tta_slice", sliceJ l off (off + 3))])])
  | k => throw s!"C09: unknown kind {k}"

end ASV.Drv.C09
