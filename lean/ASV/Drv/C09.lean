import ASV.Drv.J
namespace ASV.Drv.C09
open Lean ASV ASV.Drv

def handle (_j : Json) : R Json := throw "C09: no model yet"

end ASV.Drv.C09
