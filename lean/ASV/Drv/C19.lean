import ASV.Drv.J
namespace ASV.Drv.C19
open Lean ASV ASV.Drv

def handle (_j : Json) : R Json := throw "C19: no model yet"

end ASV.Drv.C19
