import ASV.Drv.J
import ASV.Spec.Layout
namespace ASV.Drv.C19
open Lean ASV ASV.Drv ASV.Packing ASV.Packing.Spec

def kindOfJson (j : Json) : R Kind := do
  match ← asStr j with
  | "proto" => pure .proto
  | "cand" => pure .cand
  | "sub" => pure .sub
  | k => throw s!"bad kind {k}"
def kindToJson : Kind → Json
  | .proto => "proto" | .cand => "cand" | .sub => "sub"

def featOfJson (j : Json) : R Feat := do
  let core ← match fldD j "core" Json.null with
    | .null => pure default
    | cj => locOfJson cj
  return { loc := ← locOfJson (← fld j "loc"), kind := ← kindOfJson (← fld j "kind"), core := core,
           single := boolFD j "single" false,
           labels := { product := (strF j "product").toOption.getD "", tool := (strF j "tool").toOption.getD "",
                       category := (strF j "category").toOption.getD "",
                       sideloaded := boolFD j "sideloaded" false } }

def areaOfJson (j : Json) : R Area := do
  return { start := ← intF j "start", «end» := ← intF j "end", kind := ← kindOfJson (← fld j "kind"),
           height := ← intF j "height", nstart := ← intF j "nstart", nend := ← intF j "nend",
           product := ← strF j "product", group := ← intF j "group",
           «prefix» := (strF j "prefix").toOption.getD "", category := (strF j "category").toOption.getD "",
           tool := (strF j "tool").toOption.getD "" }
def areaToJson (a : Area) : Json :=
  jObj [("start", toJson a.start), ("end", toJson a.end), ("kind", kindToJson a.kind),
        ("height", toJson a.height), ("nstart", toJson a.nstart), ("nend", toJson a.nend),
        ("product", Json.str a.product), ("group", toJson a.group), ("prefix", Json.str a.prefix),
        ("category", Json.str a.category), ("tool", Json.str a.tool)]

def orfOfJson (j : Json) : R Orf := do
  return { start := ← intF j "start", «end» := ← intF j "end", strand := ← intF j "strand",
           split := ← boolF j "split", group := ← intF j "group" }
def orfToJson (o : Orf) : Json :=
  jObj [("start", toJson o.start), ("end", toJson o.end), ("strand", toJson o.strand),
        ("split", toJson o.split), ("group", toJson o.group)]

def optAreas : Option (List Area) → Json
  | none => Json.null
  | some l => jArr (l.map areaToJson)

def pobjOfJson (j : Json) : R PObj := do
  return { id := ← natF j "id", feat := ← featOfJson (← fld j "feat") }

def candOfJson (j : Json) : R Cand := do
  return { feat := ← featOfJson j, members := ← listOf pobjOfJson (fldD j "members" (jArr [])) }

/-- one region: model outputs, spec verdicts on the implementation's outputs, scope flags -/
def handleRegion (j : Json) : R Json := do
  let c : Ctx := { region := ← locOfJson (← fld j "region"), L := ← intF j "L", circular := ← boolF j "circular" }
  let subs ← listOf featOfJson (← fld j "subs")
  let cands ← listOf candOfJson (← fld j "cands")
  -- what `region.get_unique_protoclusters()` delivered, by identity
  let delivered ← listOf pobjOfJson (← fld j "delivered")
  -- the layout model runs on the delivered order; the spec on the region's children
  let r : RegionIn := { subregions := subs, candidates := cands.map (·.feat), protos := delivered.map (·.feat) }
  let rSpec := regionSpecIn subs cands
  let genes ← listOf locOfJson (← fld j "genes")
  let views := genes.map (geneView c)
  let impl ← fld j "impl"
  -- the implementation's areas as written (`to_minimal_json`), read the way a consumer reads them
  let implAreas : Option (List Area) ← match fldD impl "areas_raw" Json.null with
    | .null => pure none
    | aj => do
      let raws ← listOf (listOf fun kv => do
        let k ← asStr (← idx kv 0)
        let v ← idx kv 1
        match v with
        | .str s => pure (k, JVal.str s)
        | _ => pure (k, JVal.int (← asInt v))) aj
      pure (raws.mapM readArea)
  let implOrfs : Option (List Orf) ← match fldD impl "orfs" Json.null with
    | .null => pure none
    | oj => do pure (some (← listOf orfOfJson oj))
  let implAnn : Option (Int × Int) := match (intF impl "start").toOption, (intF impl "end").toOption with
    | some s, some e => some (s, e)
    | _, _ => none
  let ann := announced c
  let specAreas := match implAreas with
    | none => jObj [("readable", toJson false), ("in_range", toJson false), ("rows_disjoint", toJson false),
                    ("complete", toJson false)]
    | some out => jObj [("readable", toJson true), ("in_range", toJson (areasInRange c out)),
                        ("rows_disjoint", toJson (decide (RowsDisjoint out))),
                        ("complete", toJson (completeB c.L rSpec out))]
  let placed (orfs : List Orf) : Bool :=
    -- genes drawn whole are placed by genome distance from the region's first base
    match (parseOrfsGo none orfs) with
    | none => false
    | some ds => ds.length == views.length &&
      (ds.zip views).all fun (d, v) => match d with
        | .whole o => orfPlaced c v o
        | .halves _ _ => true
  let specOrfs := match implOrfs with
    | none => jObj [("in_range", toJson false), ("complete", toJson false), ("placed", toJson false)]
    | some orfs => jObj [("in_range", toJson (orfsInRange c orfs)),
                         ("complete", toJson (orfsCompleteB c.L views orfs)),
                         ("placed", toJson (placed orfs))]
  return jObj [
    ("model", jObj [("areas", optAreas (buildAreaRows c r)),
                    ("area_keys", match buildAreaRows c r with
                      | none => Json.null
                      | some l => jArr (l.map fun a => jStrs (a.toMinimalJson.map (·.1)))),
                    ("orfs", jArr ((convertCds c views).map orfToJson)),
                    ("start", toJson ann.1), ("end", toJson ann.2)]),
    ("spec", jObj [("areas", specAreas), ("orfs", specOrfs),
                   ("announced", toJson (match implAnn with | some a => announcedOk c a | none => false)),
                   ("delivered_ok", toJson (deliveredOk cands delivered)),
                   ("protos_sorted", toJson (sortedByKey c r.protos))]),
    ("unique", toJson ((uniqueProtoclusters c cands).map (·.id))),
    ("scope_areas", toJson (inputOK c rSpec && idsConsistent (cands.flatMap (·.members)))),
    ("scope_genes", toJson (regionOK c && views.all (viewOK c))),
    ("info", jObj [("extend", toJson c.extend), ("region_crosses", toJson c.regionCrosses),
                   ("n_crossing", toJson ((toDraw rSpec).filter (·.crosses)).length),
                   ("n_protos", toJson (regionProtos cands).length),
                   ("n_tied", toJson (((regionProtos cands).filter fun p => (regionProtos cands).any fun q =>
                      p.id != q.id && reductionKey c p.feat == reductionKey c q.feat).length)),
                   ("n_gene_crossing", toJson (views.filter (·.crosses)).length),
                   ("genes_loc_ok", toJson (genes.all (geneOK c)))])]

/-- pack alone (unit level): rows as lists of indices into the input -/
def handlePack (j : Json) : R Json := do
  let feats ← listOf featOfJson (← fld j "areas")
  let L ← intF j "L"
  -- tag each feature by its index through the product field
  let tagged := feats.zipIdx.map fun (f, i) => { f with labels := { product := toString i } }
  let rows := pack tagged (intFD j "length" (-1))
  let rowsJ := match rows with
    | none => Json.null
    | some rs => jArr (rs.map fun r => jObj [("start", toJson r.start), ("end", toJson r.end),
        ("contents", jArr (r.contents.map fun f => toJson f.product.toNat!))])
  let c : Ctx := { region := .simple ⟨0, L, .fwd⟩, L := L, circular := true }
  return jObj [("rows", rowsJ), ("scope", toJson (feats.all fun f => collOK L f.loc)),
               ("region_ok", toJson (regionOK c))]

/-- the collection constructor on one location -/
def handleConstruct (j : Json) : R Json := do
  let l ← locOfJson (← fld j "loc")
  let L ← intF j "L"
  let res := match collectionInit l with
    | .ok => "ok" | .valueError => "value-error" | .assertion => "assertion"
  return jObj [("init", Json.str res), ("coll_ok", toJson (collOK L l))]

def handle (j : Json) : R Json := do
  match (strF j "kind").toOption.getD "regions" with
  | "pack" => handlePack j
  | "construct" => handleConstruct j
  | _ => do
    let regions ← listOf handleRegion (← fld j "regions")
    return jObj [("regions", jArr regions)]

end ASV.Drv.C19
