import ASV.Drv.J
import ASV.Model.Regions
import ASV.Spec.Components
namespace ASV.Drv.C06
open Lean ASV ASV.Drv ASV.Regions

def natsOfJson (j : Json) : R (List Nat) := listOf asNat j

def opOfJson (j : Json) : R Op := do
  let tag ← asStr (← idx j 0)
  match tag with
  | "addProto" => return .addProto (← locOfJson (← idx j 1))
  | "addSub" => return .addSub (← locOfJson (← idx j 1))
  | "mkCand" => return .mkCand (← natsOfJson (← idx j 1))
  | "addCand" => return .addCand (← asNat (← idx j 1))
  | "reparent" => return .reparent (← natsOfJson (← idx j 1)) (← asNat (← idx j 2))
  | "addRegion" => return .addRegion (← natsOfJson (← idx j 1)) (← natsOfJson (← idx j 2))
  | "clearProtos" => return .clearProtos
  | "clearCands" => return .clearCands
  | "clearSubs" => return .clearSubs
  | "clearRegions" => return .clearRegions
  | "createRegions" => return .createRegions
  | "createRegionsWith" => return .createRegionsWith (← natsOfJson (← idx j 1)) (← natsOfJson (← idx j 2))
  | t => throw s!"C06: unknown op {t}"

def optNat : Option Nat → Json
  | some n => toJson n
  | none => Json.null

/-- parent of a protocluster: the id of a candidate cluster of the record, null, or -1 (stale) -/
def protoParent (s : State) (f : Feat) : Json :=
  match s.parentOf f.id with
  | none => Json.null
  | some c => if s.cands.any (·.id == c) then toJson c
              else if s.pool.any (·.id == c) then toJson (-2 : Int) else toJson (-1 : Int)

/-- parent of a candidate / subregion: the number of a region of the record, null, or -1 (stale) -/
def areaParent (s : State) (f : Feat) : Json :=
  match s.parentOf f.id with
  | none => Json.null
  | some r => match posOf s.regions r with
    | some n => toJson n
    | none => toJson (-1 : Int)

def dump (s : State) : Json :=
  jObj [
    ("protos", jArr (s.protos.map fun f => jArr [toJson f.id, optNat (numberOf s.numP f), locToJson f.loc, protoParent s f])),
    ("cands", jArr (s.cands.map fun f => jArr [toJson f.id, optNat (numberOf s.numC f), locToJson f.loc, areaParent s f, toJson f.kids])),
    ("subs", jArr (s.subs.map fun f => jArr [toJson f.id, optNat (numberOf s.numS f), locToJson f.loc, areaParent s f])),
    ("regions", jArr (s.regions.map fun f => jArr [optNat (numberOf s.numR f), locToJson f.loc, toJson f.kids, toJson f.subs, toJson f.cdses])),
    ("held", jArr ((List.range s.nextId).map fun k => jArr [toJson k,
        match s.parentOf k with
        | none => Json.null
        | some p => if parentAlive s k then toJson (1 : Int)
                    else if s.pool.any (fun c => c.id == p && c.kids.contains k) then toJson (2 : Int)
                    else toJson (-1 : Int)])),
    ("cds", jArr ((List.range s.cds.length).map fun i => match s.regionOfCds i with
        | none => Json.null
        | some r => match posOf s.regions r with
          | some n => toJson n
          | none => toJson (-1 : Int)))]

/-! ### the implementation's dump, re-read for the executable spec -/

structure ImplDump where
  protos : List (Nat × Nat × Loc)          -- id, number, location
  cands : List (Nat × Nat × Loc)
  subs : List (Nat × Nat × Loc)
  regions : List (Nat × Loc × List Nat × List Nat)   -- number, location, candidate ids, subregion ids

def rowOf (j : Json) : R (Nat × Nat × Loc) := do
  let num := match (do asNat (← idx j 1) : R Nat) with | .ok n => n | .error _ => 0
  return (← asNat (← idx j 0), num, ← locOfJson (← idx j 2))

def implOfJson (j : Json) : R ImplDump := do
  let regions ← listOf (fun r => do
    let num := match (do asNat (← idx r 0) : R Nat) with | .ok n => n | .error _ => 0
    return (num, ← locOfJson (← idx r 1), ← natsOfJson (← idx r 2), ← natsOfJson (← idx r 3))) (← fld j "regions")
  return ⟨← listOf rowOf (← fld j "protos"), ← listOf rowOf (← fld j "cands"), ← listOf rowOf (← fld j "subs"), regions⟩

open ASV.Components in
def specOn (L : Int) (circ : Bool) (d : ImplDump) : Json :=
  -- candidate ids and subregion ids share one id space
  let areas : List Area := (d.cands ++ d.subs).map fun x => (x.1, x.2.2)
  let regions := d.regions.map fun r => (r.2.1, r.2.2.1 ++ r.2.2.2)
  let v := judgeRegions L circ areas regions
  let ordered := fun (rows : List (Nat × Nat × Loc)) =>
    numbered (rows.map (·.2.1)) && sortedByKey L (rows.map (·.2.2))
  jObj [
    ("partition", toJson v.partition), ("disjoint", toJson v.disjoint), ("exact", toJson v.exact), ("wf", toJson v.wf),
    ("classes", toJson (classIds areas)),
    ("order_protos", toJson (ordered d.protos)),
    ("order_cands", toJson (ordered d.cands)),
    ("order_subs", toJson (ordered d.subs)),
    ("order_regions", toJson (numbered (d.regions.map (·.1)) && sortedByKey L (d.regions.map (·.2.1)))),
    ("half", toJson (circ && halfRecordComponent L areas)),
    ("clash", toJson (circ && (fullRecordClash L (d.protos.map (·.2.2)) || fullRecordClash L (areas.map (·.2))
                               || fullRecordClash L (d.regions.map (·.2.1)))))]

/-- the areas region creation works on when the ops of a group are applied to the previous dump -/
def areasAfter (d : ImplDump) (ops : List Op) : List Components.Area :=
  let cands := if ops.any (fun o => match o with | .clearCands | .clearProtos => true | _ => false) then [] else d.cands
  let subs := if ops.any (fun o => match o with | .clearSubs => true | _ => false) then [] else d.subs
  (cands ++ subs).map fun x => (x.1, x.2.2)

/-- area well-formedness of every location an op introduces (the hypothesis of the theorems) -/
def opScope (L : Int) (circ : Bool) : Op → Bool
  | .addProto l => areaWF (if circ then L else 0) L l
  | .addSub l => areaWF (if circ then L else 0) L l
  | _ => true

/-- are the record's regions the automatically created ones for the *current* areas?
    (`exist` = regions exist before the op) -/
def expectAfter (e : Bool) (exist : Bool) : Op → Bool
  | .createRegions => !exist
  | .createRegionsWith _ _ => false
  | .clearProtos | .clearCands | .clearSubs => if exist then true else e
  | .clearRegions => false
  | .addRegion _ _ => false
  | .addProto _ | .mkCand _ | .reparent _ _ => e
  | .addSub _ | .addCand _ => false

def runTracking (s : State) (e : Bool) : List Op → E State × Bool
  | [] => (.ok s, e)
  | op :: rest =>
    let e' := expectAfter e (!s.regions.isEmpty) op
    match step s op with
    | .ok s' => runTracking s' e' rest
    | .error err => (.error err, e')

def handle (j : Json) : R Json := do
  let L ← intF j "len"
  let circ ← boolF j "circ"
  let cds ← listOf locOfJson (fldD j "cds" (jArr []))
  let groups ← arrF j "groups"
  let mut st : E State := .ok { len := L, circular := circ, cds := cds }
  let mut out : List Json := []
  let mut scope := true
  let mut fresh := false
  let mut prev : ImplDump := ⟨[], [], [], []⟩
  for g in groups do
    let ops ← listOf opOfJson (← fld g "ops")
    scope := scope && ops.all (opScope L circ)
    match st with
      | .ok s =>
        let r := runTracking s fresh ops
        st := r.1
        fresh := r.2
      | .error _ => pure ()
    let model := match st with
      | .ok s => dump s
      | .error e => jObj [("err", Json.str e)]
    let impl := fldD g "impl" Json.null
    let spec ← match impl.getObjVal? "protos" with
      | .ok _ => do
        let d ← implOfJson impl
        prev := d
        pure (specOn L circ d)
      | .error _ => pure (jObj [("half", toJson (circ && Components.halfRecordComponent L (areasAfter prev ops)))])
    -- `create_regions(candidate_clusters=…, subregions=…)`: the spec on the GIVEN areas only
    let given ← match g.getObjVal? "given" with
      | .ok gj => do
        let areas ← listOf (fun a => do return ((← asNat (← idx a 0)), (← locOfJson (← idx a 1)))) gj
        pure (some areas)
      | .error _ => pure none
    let givenSpec := match given, impl.getObjVal? "protos" with
      | some areas, .ok _ =>
        let regions := prev.regions.map fun r => (r.2.1, r.2.2.1 ++ r.2.2.2)
        let v := Components.judgeRegions L circ areas regions
        jObj [("partition", toJson v.partition), ("exact", toJson v.exact), ("wf", toJson v.wf),
              ("members_given", toJson (regions.all fun r => r.2.all fun m => areas.any (·.1 == m))),
              ("classes", toJson (Components.classIds areas)),
              ("half", toJson (circ && Components.halfRecordComponent L areas)),
              ("clash", toJson (circ && Components.fullRecordClash L (areas.map (·.2))))]
      | _, _ => Json.null
    out := out ++ [jObj [("model", model), ("spec", spec), ("given", givenSpec), ("expect_components", toJson fresh)]]
  return jObj [("steps", jArr out), ("scope", toJson scope)]

end ASV.Drv.C06
