import ASV.Drv.J
namespace ASV.Drv.C06
open Lean ASV ASV.Drv

def handle (_j : Json) : R Json := throw "C06: no model yet"

end ASV.Drv.C06
