import ASV.Drv.J
import ASV.Spec.Formula
namespace ASV.Drv.C01
open Lean ASV ASV.Drv ASV.Rules

partial def condOfJson (j : Json) : R Cond := do
  let tag ← asStr (← idx j 0)
  match tag with
  | "single" => return .single (← asBool (← idx j 1)) (← asStr (← idx j 2))
  | "score" => return .score (← asBool (← idx j 1)) (← asStr (← idx j 2)) (← asInt (← idx j 3))
  | "minimum" => return .minimum (← asBool (← idx j 1)) (← asNat (← idx j 2)) (← listOf asStr (← idx j 3))
  | "cds" => return .cds (← asBool (← idx j 1)) (← listOf condOfJson (← idx j 2))
  | "group" => return .group (← asBool (← idx j 1)) (← listOf condOfJson (← idx j 2))
  | "conj" => return .conj (← listOf condOfJson (← idx j 1))
  | t => throw s!"unknown cond tag {t}"

structure GeneJ where
  n : Nat
  loc : Loc
  hits : List (Prof × Int)
  hasRes : Bool

def geneOfJson (j : Json) : R GeneJ := do
  let hits ← listOf (fun h => do return ((← asStr (← idx h 0)), (← asInt (← idx h 1)))) (← fld j "hits")
  return ⟨← natF j "n", ← locOfJson (← fld j "loc"), hits, ← boolF j "hasres"⟩

def envOf (spec : Bool) (gs : List GeneJ) (cutoff circ : Int) : Env :=
  let genes := gs.map (·.n)
  let withHits := (gs.filter (·.hasRes)).map (·.n)
  let hits := fun g => match gs.find? (·.n == g) with | some x => x.hits | none => []
  let loc := fun g => match gs.find? (·.n == g) with | some x => x.loc | none => default
  if spec then Env.ofLocsSpec genes withHits hits loc cutoff circ
  else Env.ofLocs genes withHits hits loc cutoff circ

def locOK (L : Int) (l : Loc) : Bool :=
  !l.parts.isEmpty && l.parts.all fun p => decide (0 ≤ p.lo) && decide (p.lo < p.hi) && (L == 0 || decide (p.hi ≤ L))

def ancToJson (l : List (Gene × Prof)) : Json :=
  jArr ((sortDedup (fun a b => a.1 < b.1 || (a.1 == b.1 && a.2 < b.2)) l).map
    fun x => jArr [toJson x.1, Json.str x.2])

def handle (j : Json) : R Json := do
  let gs ← listOf geneOfJson (← fld j "genes")
  let circ ← intF j "circ"
  let e := envOf false gs (← intF j "cutoff") circ
  let es := envOf true gs (← intF j "cutoff") circ
  let g ← natF j "g"
  let c ← condOfJson (← fld j "cond")
  let m := detect e g c
  let implAnc ← listOf (fun h => do return ((← asNat (← idx h 0)), (← asStr (← idx h 1)))) (fldD j "impl_anc" (jArr []))
  let ancSound := implAnc.all fun x => (es.near g).contains x.1 && es.has x.1 x.2 && c.profiles.contains x.2
  return jObj [
    ("model", jObj [("met", toJson m.met),
                    ("reasons", jStrs (sortDedup (· < ·) m.reasons)),
                    ("anc", ancToJson m.ancillary),
                    ("anchors", toJson (anchors e g c))]),
    ("spec", jObj [("sem", toJson (sem es g c)),
                   ("reasons", jStrs (sortDedup (· < ·) (specReasons es g c))),
                   ("anchors", toJson (specAnchors es g c)),
                   ("anc_sound", toJson ancSound)]),
    ("near", toJson (es.near g).length),
    ("scope", toJson (c.WF && e.wfb && gs.all fun x => locOK circ x.loc))]

end ASV.Drv.C01
