import ASV.Drv.J
import ASV.Model.Determinism
import ASV.Spec.Determinism
import ASV.Model.DeterminismAreas
import ASV.Drv.C05
namespace ASV.Drv.C17
open Lean ASV ASV.Drv ASV.Refine ASV.HitFilter ASV.Determinism

def b (x : Bool) : Json := toJson x

/-- `[[key, [name,…]], …]`: an insertion-ordered dict of sets, each set as an enumeration -/
def dictOfJson (j : Json) : R (List (Int × List Int)) :=
  listOf (fun e => do return (← asInt (← idx e 0), ← listOf asInt (← idx e 1))) j
def dictToJson (d : List (Int × List Int)) : Json :=
  jArr (d.map fun kv => jArr [toJson kv.1, jInts kv.2])

/-- non-decreasing listing of exactly the members -/
def namesSpec (members out : List Int) : Bool :=
  canonicalBy (fun x : Int => x) intLt members out

def handleNames (j : Json) : R Json := do
  let enum ← listOf asInt (← fld j "enum")
  let impl ← listOf asInt (fldD j "impl" (jArr []))
  return jObj [("model", jInts (enabledTypes enum)), ("spec", b (namesSpec enum impl)),
               ("scope", b true), ("nontrivial", b (enum.length > 1))]

def handleDefJson (j : Json) : R Json := do
  let defs ← dictOfJson (← fld j "defs")
  let impl ← dictOfJson (fldD j "impl" (jArr []))
  let keysOk := impl.map (·.1) == defs.map (·.1)
  let valuesOk := (defs.zip impl).all fun (d, i) => namesSpec d.2 i.2
  return jObj [("model", dictToJson (definitionDomainsJson defs)),
               ("old", dictToJson (definitionDomainsJsonOld defs)),
               ("spec", b (keysOk && valuesOk && impl.length == defs.length)),
               ("scope", b true), ("nontrivial", b (defs.any fun kv => kv.2.length > 1))]

def geneFnOfJson (j : Json) : R GeneFn := do
  let p := (← idx j 2)
  let product ← match p with
    | .null => pure none
    | _ => do pure (some (← asInt p))
  return ⟨← asBool (← idx j 0), ← asInt (← idx j 1), product⟩
def geneFnToJson (g : GeneFn) : Json :=
  jArr [toJson g.core, toJson g.domain, match g.product with | some p => toJson p | none => Json.null]

def handleAnnotate (j : Json) : R Json := do
  let existing ← listOf geneFnOfJson (fldD j "existing" (jArr []))
  let prev ← listOf asInt (fldD j "prev" (jArr []))
  let defs ← dictOfJson (← fld j "defs")
  let newDomains ← listOf asInt (← fld j "domains")
  let domains := domainIdsAfter prev newDomains
  let m := annotateFull existing prev defs newDomains
  return jObj [("model", jArr (m.map geneFnToJson)),
               ("old", jArr ((annotateOld existing prev defs domains).map geneFnToJson)),
               ("domains_after", jInts domains),
               ("scope", b true), ("nontrivial", b (defs.any fun kv => kv.2.length > 1))]

def protoOfJson (j : Json) : R Proto := do
  return ⟨← asInt (← idx j 0), ← asInt (← idx j 1), ← asInt (← idx j 2), ← asInt (← idx j 3), ← asInt (← idx j 4), ← asInt (← idx j 5)⟩
def protoToJson (p : Proto) : Json := jInts [p.start, p.len, p.product, p.coreStart, p.coreEnd, p.uid]

def handleUniq (j : Json) : R Json := do
  let cross ← boolF j "cross"
  let L ← intF j "L"
  let enum ← listOf protoOfJson (← fld j "enum")
  let impl ← listOf protoOfJson (fldD j "impl" (jArr []))
  let m := uniqueProtoclusters cross L enum
  let tie := hasKeyTie (protoKey cross L) enum
  return jObj [("model", jArr (m.map protoToJson)),
               ("old", jArr ((uniqueProtoclustersOld enum).map protoToJson)),
               ("nocore", jArr ((uniqueProtoclustersNoCore enum).map protoToJson)),
               ("spec", b (canonicalBy (protoKey cross L) tripleLt enum impl)),
               ("tie", b tie), ("scope", b (!tie)),
               ("spec_nocore", b (canonicalBy (fun p : Proto => ((protoKey cross L p).1, (protoKey cross L p).2.1, (protoKey cross L p).2.2.1, (0 : Int), (0 : Int))) tripleLt enum impl)),
               ("tie_nocore", b (hasKeyTie (fun p : Proto => ((protoKey cross L p).1, (protoKey cross L p).2.1, (protoKey cross L p).2.2.1)) enum)),
               ("nontrivial", b (enum.length > 1))]

def fhitOfJson (j : Json) : R FHit := do
  return ⟨← asNat (← idx j 0), ← asInt (← idx j 1), ← asInt (← idx j 2), ← asInt (← idx j 3), ← asInt (← idx j 4)⟩
def uidsToJson (l : List FHit) : Json := jArr (l.map fun h => toJson h.uid)
def optUids (o : Option (List FHit)) : Json := match o with | some l => uidsToJson l | none => Json.null

def handleBest (j : Json) : R Json := do
  let eqs ← listOf (listOf asInt) (← fld j "eq")
  let hits ← listOf fhitOfJson (← fld j "hits")
  let m := filterResultsE id eqs hits
  let mRev := filterResultsE List.reverse eqs hits
  -- the pre-D1705 behaviour under two enumerations of the group sets (C13's insertion order and its reverse)
  let old1 := eqs.foldl (fun hs eq =>
    let present := (firstOcc (hs.map (·.prof))).filter (fun p => eq.contains p)
    if present.length < 2 then hs else
      let removed := (overlappingGroups hs).flatMap fun g =>
        match bestOfGroupOld g with
        | none => []
        | some best => (g.filter (fun h => h.uid != best.uid)).map (·.uid)
      hs.filter (fun h => !removed.contains h.uid)) hits
  let ties := (overlappingGroups hits).any fun g => g.any fun a => g.any fun c => a.uid != c.uid && a.sc == c.sc
  return jObj [("model", optUids m), ("model_rev", optUids mRev), ("old", uidsToJson old1),
               ("ties", b ties), ("scope", b true),
               ("nontrivial", b (match m with | some l => l.length < hits.length | none => true))]

def featOfJson (j : Json) : R Feat := do
  return ⟨← intF j "start", ← intF j "len", ← boolF j "source", ← dictOfJson (← fld j "quals"),
          ← listOf asInt (← fld j "notes")⟩

def handleWrite (j : Json) : R Json := do
  let groups ← listOf (listOf featOfJson) (← fld j "groups")
  let out := writeRecord groups
  let wf := groups.flatten.all fun f =>
    let keys := f.quals.map (·.1)
    !keys.contains noteKey && keys.eraseDups.length == keys.length
  return jObj [("model", jArr (out.map fun e => jArr [toJson e.1.1, toJson e.1.2.1, toJson e.1.2.2, dictToJson e.2])),
               ("scope", b wf), ("nontrivial", b (groups.flatten.length > 1))]

/-- `areas`: candidate formation (C05's model) and region formation (C06's model) on the
    protoclusters the implementation built; the enumerator variants must agree with the code's order -/
def handleAreas (j : Json) : R Json := do
  let w := intFD j "wrap" 0
  let wrap : Option Int := if w = 0 then none else some w
  let psJ ← arrF j "ps"
  let ps ← (psJ.zipIdx).mapM fun (x : Json × Nat) => ASV.Drv.C05.protoOfJson x.2 x.1
  let summaryJ (o : Option (List (CC.Kind × List Nat))) : Json := match o with
    | some l => jArr (l.map fun e => jArr [Json.str (ASV.Drv.C05.kindToStr e.1), toJson e.2])
    | none => Json.null
  let cands := candSummary (CC.formation ps wrap)
  let candsRev := candSummary (formationE List.reverse ps wrap)
  let candsUnsorted := candSummary (formationUnsortedE id ps wrap)
  let candsUnsortedRev := candSummary (formationUnsortedE List.reverse ps wrap)
  -- regions over the candidate clusters / subregions the implementation formed
  let feat (k : Regions.Kind) (e : Json) : R Regions.Feat := do
    return { id := ← natF e "id", kind := k, loc := ← locOfJson (← fld e "loc") }
  let cs ← listOf (feat .cand) (fldD j "cands" (jArr []))
  let subs ← listOf (feat .sub) (fldD j "subs" (jArr []))
  let idsJ (o : Option (List (List Nat))) : Json := match o with
    | some l => toJson l
    | none => Json.null
  let tieInj := (ps.map tieKeyOf).eraseDups.length == ps.length
  return jObj [("cands", summaryJ cands), ("cands_rev", summaryJ candsRev),
               ("cands_unsorted_differ", b (candsUnsorted != candsUnsortedRev)),
               ("sections", idsJ (sectionIds (Regions.sectionsOf wrap cs subs))),
               ("sections_rev", idsJ (sectionIds (sectionsOfE List.reverse wrap cs subs))),
               ("scope", b tieInj), ("nontrivial", b (ps.length > 1))]
where
  tieKeyOf (p : CC.Proto) : String × Int × Int := (p.product, p.core.start, p.core.end)

def handleOutside (j : Json) : R Json := do
  let subs ← listOf (listOf asInt) (← fld j "subs")
  let annotated ← listOf asInt (← fld j "annotated")
  let withDomains ← listOf asInt (← fld j "with_domains")
  let has := fun c => withDomains.contains c
  let m := outsideResults has annotated subs
  return jObj [("model", jInts m), ("model_rev", jInts (outsideResults has annotated.reverse subs)),
               ("set_walk_differs", b (outsideResultsSetE id has annotated subs != outsideResultsSetE List.reverse has annotated subs)),
               ("scope", b true), ("nontrivial", b (m.length > 1))]

def handleByCds (j : Json) : R Json := do
  let genes ← listOf (fun e => do return (← asInt (← idx e 0), ← asInt (← idx e 1))) (← fld j "genes")
  let tags ← listOf asInt (← fld j "tags")
  let lookup : Int → Option (Int × Int) := fun n => if n < 0 then none else genes[n.toNat]?
  let m := subregionsByCds (← boolF j "circ") (← intF j "len") (← intF j "pad") lookup tags
  return jObj [("model", jArr (m.map fun e => jInts [e.1, e.2.1, e.2.2])),
               ("labels", jInts (tags.filter fun n => (lookup n).isSome)),
               ("scope", b true), ("nontrivial", b (m.length > 1))]

def handleRuleOpts (j : Json) : R Json := do
  let rules ← listOf (fun e => do return (← asInt (← idx e 0), ← asInt (← idx e 1))) (← fld j "rules")
  let names ← listOf asInt (← fld j "names")
  let cats ← listOf asInt (← fld j "cats")
  let m := restrictRules rules names cats
  return jObj [("model", jInts (m.map (·.1))), ("model_rev", jInts ((restrictRules rules names.reverse cats.reverse).map (·.1))),
               ("enabled", jInts (enabledTypesOf rules names cats)),
               ("scope", b true), ("nontrivial", b (m.length > 1 && m.length < rules.length))]

def handle (j : Json) : R Json := do
  match ← strF j "k" with
  | "names" => handleNames j
  | "defjson" => handleDefJson j
  | "annotate" => handleAnnotate j
  | "uniq" => handleUniq j
  | "best" => handleBest j
  | "write" => handleWrite j
  | "areas" => handleAreas j
  | "outside" => handleOutside j
  | "bycds" => handleByCds j
  | "ruleopts" => handleRuleOpts j
  | k => throw s!"C17: unknown kind {k}"

end ASV.Drv.C17
