import ASV.Drv.J
namespace ASV.Drv.C17
open Lean ASV ASV.Drv

def handle (_j : Json) : R Json := throw "C17: no model yet"

end ASV.Drv.C17
