import ASV.Drv.J
import ASV.Spec.Bases
import ASV.Spec.Candidates
namespace ASV.Drv.C05
open Lean ASV ASV.Drv ASV.CC

def kindToStr : Kind → String
  | .single => "single" | .interleaved => "interleaved"
  | .neighbouring => "neighbouring" | .hybrid => "chemical_hybrid"

def kindOfStr : String → R Kind
  | "single" => pure .single | "interleaved" => pure .interleaved
  | "neighbouring" => pure .neighbouring | "chemical_hybrid" => pure .hybrid
  | s => throw s!"unknown kind {s}"

def geneOfJson (i : Nat) (j : Json) : R Gene := do
  return ⟨i, ← locOfJson (← fld j "loc"), ← listOf asStr (← fld j "products")⟩

/-- a protocluster of a record with real CDS features: `defs` through the model of
    `add_cds` / `definition_cdses` -/
def protoOfJsonGenes (genes : List Gene) (i : Nat) (j : Json) : R Proto := do
  let product := match j.getObjVal? "product" with
    | .ok (.str s) => s
    | _ => s!"p{i}"
  return mkProto i (← locOfJson (← fld j "loc")) (← locOfJson (← fld j "core")) product (boolFD j "sideloaded" false) genes

def protoOfJson (i : Nat) (j : Json) : R Proto := do
  let defs ← listOf asNat (← fld j "defs")
  let product := match j.getObjVal? "product" with
    | .ok (.str s) => s
    | _ => s!"p{i}"
  return ⟨i, ← locOfJson (← fld j "loc"), ← locOfJson (← fld j "core"), defs, product⟩

def candToJson (c : Cand) : Json :=
  jObj [("kind", Json.str (kindToStr c.kind)), ("members", toJson (c.members.map (·.id))), ("loc", locToJson c.loc)]

def candOfJson (ps : List Proto) (j : Json) : R Cand := do
  let ids ← listOf asNat (← fld j "members")
  let ms ← ids.mapM fun i => match ps.find? (·.id == i) with
    | some p => pure p
    | none => throw s!"unknown member {i}"
  return ⟨← kindOfStr (← strF j "kind"), ms, ← locOfJson (← fld j "loc")⟩

def checks (ps : List Proto) (wrap : Option Int) (cs : List Cand) : Json :=
  jObj [("covers", toJson (Spec.coversAll ps cs)), ("members_ok", toJson (Spec.membersOK ps cs)),
        ("locations_ok", toJson (Spec.locationsOK wrap cs)), ("no_dups", toJson (Spec.noDuplicates cs)),
        ("sizes_ok", toJson (Spec.sizesOK cs))]

/-- what the pipeline guarantees for every protocluster: extent and core are areas of the record
    (one part, or two parts meeting at the origin of a circular record), forward strand, the core
    inside the extent -/
def protoOK (w : Int) (len : Int) (p : Proto) : Bool :=
  areaWF w len p.loc && areaWF w len p.core && locationContainsOther p.loc p.core &&
  (p.loc.parts ++ p.core.parts).all (·.strand == .fwd)

def handle (j : Json) : R Json := do
  let w := intFD j "wrap" 0
  let wrap : Option Int := if w = 0 then none else some w
  let psJ ← arrF j "ps"
  let ps ← match j.getObjVal? "genes" with
    | .ok (.arr gs) => do
      let genes ← (gs.toList.zipIdx).mapM fun (x : Json × Nat) => geneOfJson x.2 x.1
      (psJ.zipIdx).mapM fun (x : Json × Nat) => protoOfJsonGenes genes x.2 x.1
    | _ => (psJ.zipIdx).mapM fun (x : Json × Nat) => protoOfJson x.2 x.1
  let len := if w = 0 then maxList (0 :: ps.map (·.loc.end)) else w
  let model := formation ps wrap
  let modelJ := match model with
    | .ok cs => jObj [("ok", jArr (cs.map candToJson))]
    | .error e => jObj [("err", Json.str e)]
  let specJ := match Spec.reference ps wrap with
    | .ok es => jObj [("ok", jArr (es.map fun e => jObj [("kind", Json.str (kindToStr e.1)), ("members", toJson (e.2.map (·.id)))]))]
    | .error e => jObj [("err", Json.str e)]
  let onModel := match model with
    | .ok cs => checks ps wrap cs
    | .error _ => Json.null
  let onImpl ← match j.getObjVal? "impl" with
    | .ok (.arr a) => do
      let cs ← a.toList.mapM (candOfJson ps)
      pure (checks ps wrap cs)
    | _ => pure Json.null
  return jObj [("model", modelJ), ("spec", specJ), ("on_model", onModel), ("on_impl", onImpl),
               ("defs", toJson (ps.map (·.defs))),
               ("scope", toJson (ps.all (protoOK w len))), ("linear", toJson (w == 0))]

end ASV.Drv.C05
