import ASV.Drv.J
namespace ASV.Drv.C05
open Lean ASV ASV.Drv

def handle (_j : Json) : R Json := throw "C05: no model yet"

end ASV.Drv.C05
