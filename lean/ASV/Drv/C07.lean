/-
  C07 driver handler.  A case is one record (length, topology), one ruleset and a list of *runs*:
  each run is the same genes on a re-indexed origin (own gene locations and record order) and/or a
  permutation / sub-selection of the rules (indices into the case's ruleset), together with what the
  real pipeline reported for it.  For every run the handler returns
    * the C03 model's stages (anchoring genes, protoclusters before / after the superiors step, final
      protoclusters) — the correspondence;
    * C03's executable spec (`Chains.verdict`) on the reported protoclusters and the spec's chains
      (`Chains.chainsOf`, as sets of gene numbers) — used to say *which* of two disagreeing runs is wrong;
    * C06's executable spec (`Components.judgeRegions`) on the reported candidate clusters / regions,
      with the two recorded classes (`halfRecordComponent`, `fullRecordClash`).
  All comparisons between runs are made in Python.
-/
import ASV.Drv.J
import ASV.Drv.C03
import ASV.Spec.Components
import ASV.Model.DetectRecord
import ASV.Model.Rotate
import ASV.Model.Pipeline
import ASV.Drv.C05
import ASV.Model.Rulesets
namespace ASV.Drv.C07
open Lean ASV ASV.Drv ASV.Rules ASV.Proto

def pcJ (within : Lookup) (pc : PC) : Json :=
  jObj [("rule", Json.str pc.rule), ("core", locToJson pc.core), ("loc", locToJson pc.loc),
        ("genes", toJson (Components.sortNats ((within pc.core false).map (·.id))))]

def natsJ (l : List Nat) : Json := toJson (Components.sortNats l)

/-- the clusters the superiors step removed, each with "a superior's core contains its core" -/
def removedJ (within : Lookup) (rules : List RuleM) (extended kept : List PC) : Json :=
  jArr ((extended.filter fun pc => !kept.contains pc).map fun pc =>
    let sups := match rules.find? (·.name == pc.rule) with | some r => r.superiors | none => []
    let covered := extended.any fun o => sups.contains o.rule && locationContainsOther o.core pc.core
    jObj [("rule", Json.str pc.rule), ("genes", natsJ ((within pc.core false).map (·.id))), ("covered", toJson covered)])

def areaOfJson (j : Json) : R Components.Area := do
  return (← asNat (← idx j 0), ← locOfJson (← idx j 1))

def regionOfJson (j : Json) : R (Loc × List Nat) := do
  return (← locOfJson (← idx j 0), ← listOf asNat (← idx j 1))

/-- two reported protoclusters of one rule must be further apart than the rule's cutoff (C03
    `reported_protoclusters_far_apart_ring`): no shared base, at least `cutoff` bases in between -/
def apartOK (L : Int) (rules : List RuleM) (impl : List Chains.ImplPC) : Bool :=
  let rec go : List Chains.ImplPC → Bool
    | [] => true
    | p :: rest =>
      (rest.all fun q =>
        p.rule != q.rule ||
        match rules.find? (·.name == p.rule) with
        | some rule => !sharesPts p.core q.core && decide (rule.cutoff ≤ specDistFull L p.core q.core)
        | none => true) && go rest
  go impl

def runOne (len : Int) (circ : Bool) (allRules : List RuleM) (base : List GeneInfo) (j : Json) : R Json := do
  let genes ← listOf C03.geneOfJson (← fld j "genes")
  let order ← listOf asNat (← fld j "order")
  let ordered := order.filterMap fun n => genes.find? (·.id == n)
  let r : Rec := ⟨len, circ, ordered⟩
  let sel ← listOf asNat (← fld j "rules")
  let rules := sel.filterMap fun i => allRules[i]?
  let within := withinReal r
  let stages := detectStages within r rules
  let model := match stages with
    | .ok s => jObj [
        ("anchors", jArr (s.anchors.map fun a => jArr [Json.str a.1, natsJ a.2])),
        ("ext", jArr (s.extended.map (pcJ within))),
        ("removed", removedJ within rules s.extended s.kept),
        ("final", jArr (s.final.map C03.pcToJson))]
    | .error e => jObj [("err", Json.str e)]
  let impl ← match j.getObjVal? "impl" with
    | .ok .null => pure none
    | .ok v => do pure (some (← listOf C03.implOfJson v))
    | .error _ => pure none
  let v := Chains.verdict r rules impl
  let chains := rules.map fun rule =>
    jArr [Json.str rule.name, jArr ((Chains.chainsOf r rule).map fun c => natsJ (c.map (·.id)))]
  let regions ← match j.getObjVal? "areas", j.getObjVal? "regions" with
    | .ok a, .ok g => do
      if a.isNull || g.isNull then pure Json.null else
      let areas ← listOf areaOfJson a
      let regs ← listOf regionOfJson g
      let w := Components.judgeRegions len circ areas regs
      pure (jObj [("partition", toJson w.partition), ("disjoint", toJson w.disjoint), ("exact", toJson w.exact),
                  ("wf", toJson w.wf), ("classes", toJson (Components.classIds areas)),
                  ("half", toJson (circ && Components.halfRecordComponent len areas)),
                  ("clash", toJson (circ && (Components.fullRecordClash len (areas.map (·.2))
                                             || Components.fullRecordClash len (regs.map (·.1)))))])
    | _, _ => pure Json.null
  -- the whole pipeline as the composition of the C03, C05 and C06 models
  let pipe := match Pipe.run r rules with
    | .ok res =>
      let protoKey := fun (p : CC.Proto) => jArr [Json.str p.product, natsJ (Pipe.genesIn r p.core)]
      jObj [("cands", jArr (res.cands.map fun c =>
                jArr [Json.str (C05.kindToStr c.kind), jArr (c.members.map protoKey)])),
            ("regions", jArr (res.regions.map fun x => natsJ (Pipe.genesIn r x.1)))]
    | .error e => jObj [("err", Json.str e)]
  let k := intFD j "k" 0
  let rot := jArr (base.map fun g => jArr [toJson g.id, locToJson (Rot.rotateLoc g.loc k len)])
  let apart := match impl with
    | some pcs => apartOK (if circ then len else 0) rules pcs
    | none => true
  return jObj [("model", model), ("pipe", pipe), ("rot", rot), ("apart", toJson apart),
    ("spec", jObj [("ok", toJson v.ok), ("why", Json.str v.why), ("known", Json.str v.known),
                   ("groups", toJson v.groups), ("maxgroup", toJson v.maxGroup), ("long", toJson v.longChain)]),
    ("chains", jArr chains), ("regions", regions),
    ("wf", toJson (Chains.inputsWF r rules))]

/-- C02's heap model of `get_ruleset` on the case's request sequence (one process, empty cache at the start):
    per request the rules `[name, cutoff, neighbourhood]` of the ruleset handed out, read when it is handed out
    and again after the last request -/
def optModel (o : Json) : R Json := do
  let rows ← listOf (fun r => do
    return (← asStr (← idx r 0), ← asStr (← idx r 1), ← asNat (← idx r 2), ← asNat (← idx r 3))) (← fld o "rules")
  let rules : List Parser.Rule := rows.map fun x => ⟨x.1, x.2.1, x.2.2.1, x.2.2.2, .single false "p", [], [], [], [], none⟩
  let frac := fun (k : String) => do
    let f ← fld o k
    return ((← asInt (← idx f 0)), (← asNat (← idx f 1)))
  let cm ← frac "cmul"
  let nm ← frac "nmul"
  let reqs ← listOf (fun q => do
    return ({ strictness := "relaxed", names := ← listOf asStr (← fld q "names"), cats := ← listOf asStr (← fld q "cats"),
              fungi := true, cmul := cm, nmul := nm } : Rulesets.Req)) (← fld o "reqs")
  let parsed : String → Except Parser.Err (List Parser.Rule) := fun _ => .ok rules
  let rowsJ := fun (rs : List Parser.Rule) => jArr (rs.map fun r => jArr [Json.str r.name, toJson r.cutoff, toJson r.neighbourhood])
  let mut st : Rulesets.State := {}
  let mut handed : List (Option Rulesets.RS) := []
  let mut atUse : List Json := []
  for q in reqs do
    match Rulesets.getRuleset parsed q st with
    | .ok (rs, st') =>
      st := st'
      handed := handed ++ [some rs]
      atUse := atUse ++ [rowsJ (rs.read st.heap)]
    | .error e =>
      handed := handed ++ [none]
      atUse := atUse ++ [Json.str e.name]
  let final := handed.map fun h => match h with
    | some rs => rowsJ (rs.read st.heap)
    | none => Json.null
  return jObj [("at_use", jArr atUse), ("final", jArr final)]

def handle (j : Json) : R Json := do
  let len ← intF j "len"
  let circ ← boolF j "circ"
  let allRules ← listOf C03.ruleOfJson (← fld j "rules")
  let runsJ ← arrF j "runs"
  let base ← match runsJ.head? with
    | some r0 => listOf C03.geneOfJson (← fld r0 "genes")
    | none => pure []
  let runs ← runsJ.mapM (runOne len circ allRules base)
  let opt ← match j.getObjVal? "opt" with
    | .ok .null => pure Json.null
    | .ok o => optModel o
    | .error _ => pure Json.null
  return jObj [("runs", jArr runs), ("opt", opt)]

end ASV.Drv.C07
