import ASV.Drv.J
namespace ASV.Drv.C07
open Lean ASV ASV.Drv

def handle (_j : Json) : R Json := throw "C07: no model yet"

end ASV.Drv.C07
