import ASV.Drv.J
namespace ASV.Drv.C04
open Lean ASV ASV.Drv

def handle (_j : Json) : R Json := throw "C04: no model yet"

end ASV.Drv.C04
