import ASV.Drv.J
import ASV.Model.LocOps
import ASV.Model.LocString
import ASV.Model.LocStringFuzzy
import ASV.Spec.Bases
namespace ASV.Drv.C04
open Lean ASV ASV.Drv

def eToJson {α} (f : α → Json) : E α → Json
  | .ok v => jObj [("ok", f v)]
  | .error e => jObj [("err", Json.str e)]

def ivsToJson (l : List Iv) : Json := jArr (l.map fun x => jArr [toJson x.1, toJson x.2])

def optLoc (j : Json) (k : String) : R (Option Loc) :=
  match j.getObjVal? k with
  | .ok .null => pure none
  | .ok v => do return some (← locOfJson v)
  | .error _ => pure none

def partsOK (L : Int) (l : Loc) : Bool :=
  l.parts.all fun p => decide (0 ≤ p.lo) && decide (p.lo < p.hi) && (L == 0 || decide (p.hi ≤ L))

/-- a location read as a *span*: a multi-exon gene covers its introns too (its hull), an
    origin-spanning one covers the arc from its upper section over the origin to its lower section -/
def spanParts (w : Int) (l : Loc) : List Part :=
  if bridgesOrigin l then
    match splitBridging l with
    | .ok (lower, upper) => [fl (minList (upper.map (·.lo))) w, fl 0 (maxList (lower.map (·.hi)))]
    | .error _ => l.parts
  else [fl l.start l.end]

/-- union of the bases of several spans, canonical -/
def unionCanon (w : Int) (ls : List Loc) : List Iv := canon (ls.flatMap (spanParts w))

def subsetIvs (a b : List Iv) : Bool :=
  a.all fun x => b.any fun y => decide (y.1 ≤ x.1) && decide (x.2 ≤ y.2)

def kindOfInt : Int → PosKind
  | 1 => .before
  | 2 => .after
  | _ => .exact
def kindToJson : PosKind → Json
  | .exact => toJson (0 : Int)
  | .before => toJson (1 : Int)
  | .after => toJson (2 : Int)

/-- a location with fuzzy positions: the plain location plus one `[kind of start, kind of end]` pair per part -/
def flocOf (a : Loc) (fz : List (List Int)) : FLoc :=
  let mk (p : Part) (k : List Int) : FPart :=
    ⟨⟨kindOfInt (k.getD 0 0), p.lo⟩, ⟨kindOfInt (k.getD 1 0), p.hi⟩, p.strand⟩
  let ps := List.zipWith mk a.parts (fz ++ List.replicate a.parts.length [])
  match a with
  | .simple p => .simple (ps.headD (.ofPart p))
  | .compound _ => .compound ps

def handle (j : Json) : R Json := do
  let f ← strF j "f"
  match f with
  | "overlap" =>
    let a ← locOfJson (← fld j "a"); let b ← locOfJson (← fld j "b")
    let shares := (a.parts.map (·.lo) ++ b.parts.map (·.lo)).any fun i => a.mem i && b.mem i
    return jObj [("model", toJson (locationsOverlap a b)), ("spec", toJson shares),
                 ("scope", toJson (partsOK 0 a && partsOK 0 b))]
  | "contains" =>
    let a ← locOfJson (← fld j "a"); let b ← locOfJson (← fld j "b")
    let spec := b.parts.all fun q => a.parts.any fun p => decide (p.lo ≤ q.lo) && decide (q.hi ≤ p.hi)
    return jObj [("model", toJson (locationContainsOther a b)), ("spec", toJson spec),
                 ("subset", toJson (subsetIvs b.canon a.canon)),
                 ("scope", toJson (partsOK 0 a && partsOK 0 b))]
  | "distance" =>
    let a ← locOfJson (← fld j "a"); let b ← locOfJson (← fld j "b")
    let w := intFD j "wrap" 0
    let shares := (a.parts.map (·.lo) ++ b.parts.map (·.lo)).any fun i => a.mem i && b.mem i
    let spec := if shares then 0 else specDist w a b
    return jObj [("model", toJson (getDistance a b w)), ("spec", toJson spec),
                 ("scope", toJson (partsOK w a && partsOK w b))]
  | "bridges" =>
    let a ← locOfJson (← fld j "a")
    return jObj [("model", toJson (bridgesOrigin a))]
  | "split" =>
    let a ← locOfJson (← fld j "a")
    return jObj [("model", eToJson (fun (x : List Part × List Part) =>
      jArr [jArr (x.1.map partToJson), jArr (x.2.map partToJson)]) (splitBridging a))]
  | "connect" =>
    let ls ← listOf locOfJson (← fld j "ls")
    let w := intFD j "wrap" 0
    let wrap : Option Int := if w = 0 then none else some w
    let m := connect ls wrap
    let u := unionCanon w ls
    let impl ← optLoc j "impl"
    let onImpl := match impl with
      | none => Json.null
      | some r => jObj [
          ("covers", toJson (subsetIvs u r.canon)),
          ("wf", toJson (areaWF w (if w = 0 then (maxList (ls.map (·.end))) else w) r)),
          ("len", toJson (ivsLen r.canon)),
          ("strand", strandToJson r.strand)]
    let hullLen := maxList (ls.map (·.end)) - minList (ls.map (·.start))
    return jObj [("model", eToJson locToJson m), ("on_impl", onImpl),
                 ("hull", jArr [toJson (minList (ls.map (·.start))), toJson (maxList (ls.map (·.end)))]),
                 ("hull_len", toJson hullLen),
                 ("shortest", toJson (if w = 0 then hullLen else shortestArc w u)),
                 ("common_strand", strandToJson (commonStrand (ls.map fun l => (Loc.simple ⟨0, 0, l.strand⟩)))),
                 ("scope", toJson (ls.all (partsOK w)))]
  | "extend" =>
    let a ← locOfJson (← fld j "a")
    let d ← intF j "d"; let mx ← intF j "max"; let circ ← boolF j "circ"
    let m := extendLocation a d mx circ
    -- expected bases: the location plus `d` bases before its first part's start and after its last
    -- part's end (in coordinate order), clipped on a line, wrapped on a ring
    let ps := if a.strand == .rev then a.parts.reverse else a.parts
    let n0 := (ps.head?.map (·.lo)).getD 0
    let n1 := (ps.getLast?.map (·.hi)).getD 0
    let base := ps.map fun p => (p.lo, p.hi)
    let expected :=
      if circ then canonIvs (base ++ wrapIv mx (n0 - d, n0) ++ wrapIv mx (n1, n1 + d))
      else canonIvs (base ++ [(max 0 (n0 - d), n0), (n1, min mx (n1 + d))])
    let impl ← optLoc j "impl"
    let onImpl := match impl with
      | none => Json.null
      | some r => jObj [("canon", ivsToJson r.canon), ("inside", toJson (partsInside mx r)),
                        ("area_wf", toJson (areaWF (if circ then mx else 0) mx r)),
                        ("disjoint", toJson (partsDisjoint r.parts)), ("nparts", toJson r.parts.length),
                        ("covers_input", toJson (subsetIvs a.canon r.canon)),
                        ("within_expected", toJson (subsetIvs r.canon expected)),
                        ("covers_expected", toJson (subsetIvs expected r.canon))]
    -- "arc-shaped": one part, or two parts bridging the origin (the only shapes for which
    -- "the bases within the distance" is a span)
    let arc := match a.parts with
      | [_] => true
      | [_, _] => circ && bridgesOrigin a
      | _ => false
    return jObj [("model", eToJson locToJson m), ("expected", ivsToJson expected), ("on_impl", onImpl), ("arc", toJson arc),
                 ("scope", toJson (partsOK mx a && d ≥ 0))]
  | "offset" =>
    let a ← locOfJson (← fld j "a")
    let k ← intF j "k"; let w := intFD j "wrap" 0
    let m := offsetLocation a k w
    let base := a.parts.map fun p => (p.lo, p.hi)
    let expected := if w = 0 then canonIvs (base.map fun x => (x.1 + k, x.2 + k))
                    else canonIvs (base.flatMap (rotateIv w k))
    let impl ← optLoc j "impl"
    let onImpl := match impl with
      | none => Json.null
      | some r => jObj [("canon", ivsToJson r.canon), ("len", toJson r.len), ("strand", strandToJson r.strand),
                        ("inside", toJson (w == 0 || partsInside w r)),
                        ("disjoint", toJson (partsDisjoint r.parts))]
    return jObj [("model", eToJson locToJson m), ("expected", ivsToJson expected), ("on_impl", onImpl),
                 ("len", toJson a.len), ("strand", strandToJson a.strand),
                 ("scope", toJson (partsOK w a && partsDisjoint a.parts))]
  | "forwards" =>
    let a ← locOfJson (← fld j "a")
    return jObj [("model", locToJson (makeForwards a))]
  | "redundant" =>
    let a ← locOfJson (← fld j "a")
    return jObj [("model", locToJson (removeRedundantExons a))]
  | "build" =>
    let ls ← listOf locOfJson (← fld j "ls")
    return jObj [("model", eToJson locToJson (buildLocationFromOthers ls))]
  | "featureLt" =>
    let a ← locOfJson (← fld j "a"); let b ← locOfJson (← fld j "b")
    return jObj [("model", eToJson (fun (x : Bool) => toJson x) (featureLt a b))]
  | "collectionLt" =>
    let a ← locOfJson (← fld j "a"); let b ← locOfJson (← fld j "b")
    return jObj [("model", eToJson (fun (x : Bool) => toJson x) (collectionLt a b))]
  | "string" =>
    let a ← locOfJson (← fld j "a")
    let op ← asStr (fldD j "op" (Json.str "join"))
    let cs := opLocChars op.toList a
    return jObj [("model", Json.str (String.ofList cs)),
                 ("back", match locFromCharsOp cs with | some (_, l) => locToJson l | none => Json.null),
                 ("back_op", match locFromCharsOp cs with
                             | some (some o, _) => Json.str (String.ofList o) | _ => Json.null)]
  | "fstring" =>
    let a ← locOfJson (← fld j "a")
    let fz ← listOf (listOf asInt) (← fld j "fz")
    let op ← asStr (fldD j "op" (Json.str "join"))
    let fl := flocOf a fz
    let cs := flocChars op.toList fl
    let back := flocFromChars cs
    return jObj [("model", Json.str (String.ofList cs)),
                 ("back", match back with | some (_, l) => locToJson l.toLoc | none => Json.null),
                 ("back_kinds", match back with
                    | some (_, l) => jArr (l.parts.map fun p => jArr [kindToJson p.lo.kind, kindToJson p.hi.kind])
                    | none => Json.null),
                 ("back_op", match back with
                             | some (some o, _) => Json.str (String.ofList o) | _ => Json.null)]
  | "parse" =>
    let s ← strF j "s"
    return jObj [("model", match locFromString s with | some l => locToJson l | none => Json.null)]
  | _ => throw s!"C04: unknown op {f}"

end ASV.Drv.C04
