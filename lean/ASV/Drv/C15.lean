import ASV.Drv.J
import ASV.Spec.Orf
import ASV.Spec.Lookup
namespace ASV.Drv.C15
open Lean ASV ASV.Drv ASV.Orf

def optInt (j : Json) (k : String) : R (Option Int) :=
  match fldD j k Json.null with
  | .null => pure none
  | v => do return some (← asInt v)

def pairJ (p : Int × Int) : Json := jArr [toJson p.1, toJson p.2]
def geneOfJson (j : Json) : R Gene := do return ⟨← asInt (← idx j 0), ← asInt (← idx j 1)⟩
def pairOfJson (j : Json) : R (Int × Int) := do return (← asInt (← idx j 0), ← asInt (← idx j 1))

def scan (j : Json) : R Json := do
  let seq := (← strF j "seq").toList
  let fwd ← boolF j "fwd"
  let offset ← intF j "offset"
  let minLen ← intF j "minlen"
  let recLen ← optInt j "reclen"
  let w := upper seq
  let n := w.length
  let model := scanOrfs seq fwd offset minLen recLen
  let orfs := specOrfs w
  let specJ := orfs.map fun (s, e) => jObj [
    ("s", toJson s), ("e", toJson e), ("len", toJson (orfLen s e)),
    ("loc", locToJson (specLoc fwd n offset recLen s e)),
    ("orf", Json.str (String.ofList (orfSeq w s e)))]
  -- hypotheses of the coordinate theorems: a real window (no longer than the ring, inside the line)
  let scope := match recLen with
    | none => decide (0 ≤ offset)
    | some L => decide (0 < L) && decide ((n : Int) ≤ L)
  return jObj [("model", jArr (model.map locToJson)),
               ("spec", jArr specJ),
               ("exact_len", toJson (orfs.any fun (s, e) => orfLen s e == minLen)),
               ("scope", toJson scope)]

def gaps (j : Json) : R Json := do
  let start ← intF j "start"
  let «end» ← intF j "end"
  let genes ← listOf geneOfJson (← fld j "genes")
  let minLen ← intF j "minlen"
  let pad ← intF j "pad"
  let impl ← listOf pairOfJson (fldD j "impl" (jArr []))
  let model := findIntergenic start «end» genes minLen pad
  let specOk := impl.all fun a =>
    areaAvoids genes pad a && decide (start ≤ a.1) && decide (a.2 ≤ «end») && decide (a.2 - a.1 ≥ minLen)
  return jObj [("model", jArr (model.map pairJ)),
               ("spec_ok", toJson specOk),
               ("scope", toJson (decide (0 ≤ pad)))]

def partOfJson3 (j : Json) : R (Int × Int × List Gene) := do
  return (← asInt (← idx j 0), ← asInt (← idx j 1), ← listOf geneOfJson (← idx j 2))

def lookupGeneOfJson (j : Json) : R Lookup.Gene := do
  return { id := ← natF j "id", loc := ← locOfJson (← fld j "loc") }

def allorfs (j : Json) : R Json := do
  let rec_ := (← strF j "rec").toList
  let L : Int := rec_.length
  let minLen ← intF j "minlen"
  let pad ← intF j "pad"
  -- the record's CDS features in record order, and the area's location (null = whole record)
  let genes ← listOf lookupGeneOfJson (← fld j "genes")
  let area : Option Loc ← match fldD j "area" Json.null with
    | .null => pure none
    | v => do pure (some (← locOfJson v))
  let impl ← listOf locOfJson (fldD j "impl" (jArr []))
  let tbl := if intFD j "table" 11 = 1 then (Gen.forwardTable1, Gen.stopCodons1) else (Gen.forwardTable11, Gen.stopCodons11)
  let rp := recordParts L genes area
  let areas := orfAreas L rp.1 rp.2 minLen pad
  let locs := findAllOrfsSorted rec_ genes area minLen pad
  let allGenes := genes.map geneOf
  let inGaps := match areas with
    | none => true
    | some as => impl.all fun l => as.any fun a => locInArea L a l
  return jObj [("areas", match areas with | none => Json.null | some as => jArr (as.map pairJ)),
               ("cross", toJson rp.1),
               ("parts", jArr (rp.2.map fun p => jArr [toJson p.1, toJson p.2.1,
                  jArr (p.2.2.map fun g => jArr [toJson g.start, toJson g.end])])),
               ("model", match locs with
                  | none => Json.null
                  | some ls => jArr (ls.map fun l => jObj [("loc", locToJson l), ("label", Json.str (orfLabel rec_.length l)),
                      ("translation", match featureTranslation tbl.1 tbl.2 (extract complement rec_ l) with
                        | some t => Json.str (String.ofList t)
                        | none => Json.null)])),
               ("in_gaps", toJson inGaps),
               ("overlap_ok", toJson (impl.all (locOverlapOk (genes.map (·.loc)) pad))),
               ("avoids", toJson (impl.all (locAvoids allGenes pad))),
               ("scope", toJson (Lookup.specSorted genes && decide (0 ≤ pad)))]

def trimToJson : Trim → Json
  | .valueError => Json.str "value-error"
  | .none => Json.null
  | .found l => locToJson l

def trim (j : Json) : R Json := do
  let seq := (← strF j "seq").toList
  let r := trimmedOrf seq (← locOfJson (← fld j "loc")) (← optInt j "incl") (← intF j "minlen") (← optInt j "maxlen")
  return jObj [("model", trimToJson r)]

def handle (j : Json) : R Json := do
  match (← strF j "kind") with
  | "scan" => scan j
  | "gaps" => gaps j
  | "allorfs" => allorfs j
  | "trim" => trim j
  | k => throw s!"C15: unknown kind {k}"

end ASV.Drv.C15
