import ASV.Drv.J
namespace ASV.Drv.C15
open Lean ASV ASV.Drv

def handle (_j : Json) : R Json := throw "C15: no model yet"

end ASV.Drv.C15
