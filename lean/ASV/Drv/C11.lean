/-
  C11 driver handler.  Wire form of an ordered JSON tree (Lean's `Json.obj` is a sorted map, so
  objects travel as association lists):
    null | true/false | integer | "string" | [ … ] | {"f":[mant,exp]} | {"o":[[key,value],…]}
  Input  {"kind": …, "json": wire, "ctx": {...}, …}
  Output {"outcome": "reuse"|"discard"|"refuse:<err>", "json": wire of to_json(regenerated),
          "stable": to_json(regenerated) == json, "valid": class invariant of the regenerated object,
          "may_reuse": the spec's verdict on stored-vs-current settings, …}
-/
import ASV.Drv.J
import ASV.Spec.Results
import ASV.Model.ResultsModules
namespace ASV.Drv.C11
open Lean ASV ASV.Drv ASV.Results

partial def wireToJ (j : Json) : R J :=
  match j with
  | .null => pure .null
  | .bool b => pure (.bool b)
  | .str s => pure (.str s)
  | .num _ => do return .int (← asInt j)
  | .arr a => do return .arr (← a.toList.mapM wireToJ)
  | .obj _ =>
    match j.getObjVal? "f", j.getObjVal? "o" with
    | .ok f, _ => do return .num ⟨← asInt (← idx f 0), ← asInt (← idx f 1)⟩
    | _, .ok o => do
      let kv ← (← asArr o).mapM fun p => do return ((← asStr (← idx p 0)), (← wireToJ (← idx p 1)))
      return .obj kv
    | _, _ => throw "bad wire object"

partial def jToWire : J → Json
  | .null => .null
  | .bool b => .bool b
  | .int i => toJson i
  | .num d => jObj [("f", jArr [toJson d.mant, toJson d.exp])]
  | .str s => .str s
  | .arr l => jArr (l.map jToWire)
  | .obj kv => jObj [("o", jArr (kv.map fun p => jArr [.str p.1, jToWire p.2]))]

def jEq (a b : J) : Bool := (jToWire a).compress == (jToWire b).compress

def decOf (j : Json) : R Dec := do return ⟨← asInt (← idx j 0), ← asInt (← idx j 1)⟩
def decJ (d : Dec) : Json := jArr [toJson d.mant, toJson d.exp]

def errName : Err → String
  | .key => "KeyError" | .value => "value-error" | .assertion => "assertion"
  | .type => "TypeError" | .runtime => "RuntimeError"

def outcomeName {α} : Outcome α → String
  | .reuse _ => "reuse"
  | .discard => "discard"
  | .refuse e => "refuse:" ++ errName e

def ctxOf (j : Json) : R Ctx := do
  let c := fldD j "ctx" (jObj [])
  let rid := (strF c "record_id").toOption.getD ""
  let names ← match c.getObjVal? "cds_names" with
    | .ok a => listOf asStr a
    | .error _ => pure []
  let origin := match c.getObjVal? "origin" with
    | .ok (.num n) => some n.mantissa
    | _ => none
  return ⟨rid, names, origin, (strF c "original_id").toOption⟩

/-- common reply for `X.fromJson`-style kinds -/
def reply {α} (input : J) (out : Outcome α) (enc : α → J) (valid : α → Bool) (extra : List (String × Json) := []) : Json :=
  match out with
  | .reuse y =>
    jObj ([("outcome", .str "reuse"), ("json", jToWire (enc y)), ("stable", toJson (jEq (enc y) input)),
           ("valid", toJson (valid y))] ++ extra)
  | o => jObj ([("outcome", .str (outcomeName o))] ++ extra)

def locJ (l : Loc) : Json := locToJson l

def handle (j : Json) : R Json := do
  let kind ← strF j "kind"
  let ctx ← ctxOf j
  let input ← wireToJ (fldD j "json" .null)
  match kind with
  | "hmmresult" =>
    return reply input (HMMResult.fromJson input) HMMResult.toJson HMMResult.valid
  | "nrpspks" =>
    -- C14's transcription of classify / add_component over the regenerated tables
    let rules : ModRules := c14Rules
    let out := NrpsPks.fromJson rules ctx input
    let ids := match out with | .reuse y => y.domainIds | _ => []
    return reply input out NrpsPks.toJson (NrpsPks.valid rules ctx)
      [("may_reuse", toJson (Spec.nrpsPksMayReuse ctx input)), ("domain_ids", jStrs ids)]
  | "hmmdet" =>
    let optsOf (o : Json) : R HmmOpts := do
      let strictness := (strF o "strictness").toOption.getD "relaxed"
      -- rule names: derived from the rule files' content (name, first level, category) and the limits
      let names ← match o.getObjVal? "rules" with
        | .ok rj => do
          let rules ← listOf (fun r => do
            return (⟨← asStr (← idx r 0), ← asNat (← idx r 1), ← asStr (← idx r 2)⟩ : RuleInfo)) rj
          -- run_on_record stores `sorted(rule names)`
          pure (setOf (rulesetNames rules strictness (← listOf asStr (fldD o "limit_names" (jArr [])))
                  (← listOf asStr (fldD o "limit_categories" (jArr [])))))
        | .error _ => listOf asStr (fldD o "rule_names" (jArr []))
      return ⟨strictness,
              names,
              boolFD o "fungi" false,
              ← decOf (fldD o "cutoff" (jArr [toJson (1 : Int), toJson (0 : Int)])),
              ← decOf (fldD o "neighbourhood" (jArr [toJson (1 : Int), toJson (0 : Int)]))⟩
    let opts ← optsOf (fldD j "opts" (jObj []))
    let out := HmmDet.regenerate ctx opts input
    let protos := match out with
      | .reuse y => y.rules.protoclusters.map fun p =>
          jObj [("loc", locJ p.loc), ("core", locJ p.core), ("product", .str p.product)]
      | _ => []
    let fnJ (f : GeneFn) : Json := jArr [.str (match f.kind with | .core => "biosynthetic" | .additional => "biosynthetic-additional"),
      .str f.tool, .str f.description, match f.product with | some p => .str p | none => .null]
    let annotations := match out with
      | .reuse y => y.rules.annotateAll.map fun p =>
          jArr [.str p.1,
                jArr ((p.2.secmet.getD []).map fun (d : SDomain) => jArr [.str d.name, decJ d.evalue, decJ d.bitscore, toJson d.nseeds, .str d.tool]),
                jArr (p.2.functions.annotations.map fnJ)]
      | _ => []
    -- the producing run (present when the stored JSON was written by the real run_on_record)
    let produced ← match j.getObjVal? "saved_opts" with
      | .ok so => do
        let saved ← optsOf so
        let fresh := match j.getObjVal? "fresh_json" with
          | .ok fj => (wireToJ fj).toOption
          | .error _ => none
        let target := fresh.getD input
        let noGenes := boolFD j "no_genes" false
        pure ([("saved_under", toJson (Spec.hmmDetSavedUnder saved target)), ("saved_ok", toJson saved.ok)]
          ++ (if noGenes then
                [("fresh_model", jToWire (HmmDet.runNoGenes { ctx with recordId := (strF j "saved_record_id").toOption.getD ctx.recordId }
                                            saved ((strF j "tool").toOption.getD "")).toJson)]
              else []))
      | .error _ => pure []
    return reply input out HmmDet.toJson (HmmDet.valid ctx)
      ([("may_reuse", toJson (Spec.hmmDetMayReuse ctx opts input)), ("protos", jArr protos),
        ("rule_names", jStrs opts.ruleNames),
        ("annotations", jArr annotations)] ++ produced)
  | "ruleres" =>
    return reply input (RuleRes.fromJson ctx input) RuleRes.toJson (RuleRes.valid ctx)
  | "sideload" =>
    -- "requested": the JSON of the annotations the current options load (absent = no sideload option)
    let requested ← match j.getObjVal? "requested" with
      | .ok rj => do
        match Sideloaded.fromJson ctx (← wireToJ rj) with
        | .reuse r => pure (some r)
        | _ => throw "C11: requested annotations do not decode"
      | .error _ => pure none
    let out := Sideloaded.regenerate ctx requested input
    let areas := match out with
      | .reuse y =>
        [("subregions", jArr (y.predictedSubregions.map fun s => jArr [locJ s.1, .str s.2.1, .str s.2.2])),
         ("protoclusters", jArr (y.predictedProtoclusters.map fun p =>
            jArr [locJ p.1, locJ p.2.1, .str p.2.2.1, .str p.2.2.2]))]
      | _ => []
    return reply input out Sideloaded.toJson (Sideloaded.valid ctx)
      ([("may_reuse", toJson (Spec.sideloadMayReuse ctx input && Spec.sideloadSameRequest requested input))] ++ areas)
  | "sideopt" =>
    let rj ← fld j "rec"
    let cds ← listOf (fun c => do return ((← asStr (← idx c 0)), (← asInt (← idx c 1)), (← asInt (← idx c 2)))) (← fld rj "cds")
    let r : RecInfo := ⟨← strF rj "id", (strF rj "original_id").toOption, ← intF rj "length", ← boolF rj "circular", cds⟩
    let optsOf (o : Json) : R SideOpts := do
      let (subs, protos) ← match o.getObjVal? "raw_files" with
        | .ok rf => do
          -- the annotation files themselves: parsed by the model (`SideOpts.loadFiles`)
          let files ← (← asArr rf).mapM wireToJ
          match SideOpts.loadFiles r files with
          | .reuse p => pure p
          | _ => throw "C11: annotation files do not load"
        | .error _ =>
        match o.getObjVal? "file" with
        | .ok fj => do
          let fjj ← wireToJ fj
          match Sideloaded.fromJson { r.ctx with recordId := (Spec.strField fjj "record_id").getD r.id } fjj with
          | .reuse f => pure (f.subregions, f.protoclusters)
          | _ => throw "C11: file annotations do not decode"
        | .error _ => pure ([], [])
      let simple ← match o.getObjVal? "simple" with
        | .ok (.arr a) => do pure (some ((← asStr a[0]!), (← asInt a[1]!), (← asInt a[2]!)))
        | _ => pure none
      return { nFiles := (natF o "n_files").toOption.getD 0, fileSubs := subs, fileProtos := protos, simple := simple,
               markers := ← listOf asStr (fldD o "markers" (jArr [])), padding := intFD o "padding" 20000 }
    let saved ← optsOf (← fld j "saved")
    let cur ← optsOf (← fld j "cur")
    let stored := saved.runOnRecord r none
    let storedJ := match stored with | .reuse x => jToWire x.toJson | o => .str (outcomeName o)
    let out := cur.regenerate r input
    let requestedNow := SideOpts.load r cur
    let may := match stored, requestedNow with
      | .reuse x, .reuse y => Spec.sideloadOptsMayReuse cur x y
      | _, _ => true
    let final := match out with
      | .reuse y => cur.runOnRecord r (some y)
      | .discard => cur.runOnRecord r none
      | .refuse e => .refuse e
    return reply input out Sideloaded.toJson (Sideloaded.valid r.ctx)
      [("stored", storedJ), ("may_reuse", toJson (Spec.sideloadMayReuse r.ctx input && may)),
       ("final", match final with | .reuse y => jToWire y.toJson | o => .str (outcomeName o))]
  | "hmmer" =>
    let maxE ← decOf (← fld j "max_evalue")
    let minS ← decOf (← fld j "min_score")
    let op := (strF j "op").toOption.getD "regenerate"
    let out := if op == "refilter" then
        (match HmmerRes.fromJson ctx input with
         | .reuse x => x.refilter maxE minS
         | o => o)
      else HmmerRes.regenerate ctx maxE minS input
    -- reference: the stored hits that satisfy the current thresholds
    let reference := match HmmerRes.fromJson ctx input with
      | .reuse x => jArr ((Spec.hmmerReference x.hits maxE minS).map fun (h : HmmerHit) => jToWire h.toJson)
      | _ => .null
    let (fresh, onBoundary) := match HmmerRes.fromJson ctx input with
      | .reuse x => (jArr ((Spec.hmmerFresh x.hits maxE minS).map fun (h : HmmerHit) => jToWire h.toJson),
                     Spec.hmmerOnBoundary x.hits maxE minS)
      | _ => (.null, false)
    -- run_on_record after regeneration: the PFAM database version guard
    let runInfo ← match j.getObjVal? "pfam" with
      | .ok pj => do
        let m := if (strF pj "module").toOption.getD "full_hmmer" == "cluster_hmmer" then HmmerModule.cluster else HmmerModule.full
        -- "latest" is resolved by the model from the installed version directories
        let installed ← listOf asStr (fldD pj "installed" (jArr []))
        let latest := match latestVersion installed with
          | .reuse v => v
          | _ => (strF pj "latest").toOption.getD ""
        let o : PfamOpts := ⟨← strF pj "full", ← strF pj "cluster", latest⟩
        let results : Option (Option HmmerRes) := match out with
          | .reuse y => some (some y)
          | .discard => some none
          | .refuse _ => none
        match results with
        | none => pure []
        | some res =>
          let run := match hmmerRunOnRecord m o res with
            | .reuse (.keep _) => "keep"
            | .reuse (.rerun v) => "rerun:" ++ v
            | o' => outcomeName o'
          let allowed := match res with
            | some y => (match dbVersionOfPath y.database with
                         | .reuse v => Spec.pfamKeepAllowed m o v
                         | _ => false)
            | none => false
          pure [("run", Json.str run), ("keep_allowed", toJson allowed), ("latest", Json.str latest)]
      | .error _ => pure []
    return reply input out HmmerRes.toJson (HmmerRes.valid ctx)
      (runInfo ++ [("may_reuse", toJson (Spec.hmmerMayReuse ctx maxE minS input)), ("reference", reference),
       ("fresh", fresh), ("on_boundary", toJson onBoundary),
       ("domain_ids", jStrs (match out with | .reuse y => y.domainIds | _ => []))])
  | "tta" =>
    -- a history driven through `main.run_module` with the real tta module: per step the stored JSON
    -- (if any) is regenerated under the step's threshold; the module runs when it is enabled
    -- (`run_on_record` keeps results of the same record, otherwise `detect`)
    let gc ← decOf (← fld j "gc")
    let all ← listOf locOfJson (← fld j "all_codons")
    let steps ← listOf (fun s => do
      return ((← decOf (← fld s "threshold")), (strF s "record_id").toOption.getD ctx.recordId,
              boolFD s "in_all" true, boolFD s "enabled" true)) (← fld j "steps")
    let mut cur : Option J := if boolFD j "has_prev" true then some input else none
    let mut outs : List Json := []
    let mut stop := false
    for (opt, rid, inAll, enabled) in steps do
      if !stop then
        let run : Option TTA → TTA := fun r => match r with
          | some x => if x.keptByRun rid then x else TTA.detect rid gc opt all
          | none => TTA.detect rid gc opt all
        let regenName := match cur with
          | some c => outcomeName (TTA.regenerate opt c)
          | none => "none"
        match runModule cur (TTA.regenerate opt) inAll enabled run with
        | .reuse tr =>
          let ran := match tr.ranWith with
            | some (some x) => !x.keptByRun rid
            | some none => true
            | none => false
          let mayReuse := match cur with | some c => Spec.ttaMayReuse c | none => true
          match tr.stored with
          | some x =>
            let refOk := !(x.keptByRun rid) || x.codons == Spec.ttaReference gc opt all
            let feats := match x.addToRecord rid with
              | .reuse fs => jArr (fs.map locJ)
              | o => .str (outcomeName o)
            outs := outs ++ [jObj [("outcome", .str regenName), ("ran", toJson ran), ("called", toJson tr.ranWith.isSome),
              ("json", jToWire x.toJson), ("reference_ok", toJson refOk), ("may_reuse", toJson mayReuse),
              ("features", feats)]]
            cur := some x.toJson
          | none =>
            outs := outs ++ [jObj [("outcome", .str regenName), ("ran", toJson ran), ("called", toJson tr.ranWith.isSome),
              ("json", .null), ("reference_ok", toJson true), ("may_reuse", toJson mayReuse), ("features", jArr [])]]
            cur := none
        | o =>
          outs := outs ++ [jObj [("outcome", .str (outcomeName o))]]
          stop := true
    return jObj [("steps", jArr outs)]
  | "resfile" =>
    let out := ResultsFile.fromJson input
    let extra := [("may_reuse", toJson (Spec.fileMayReuse input)),
                  ("schema_current", toJson ResultsFile.schemaVersion),
                  ("schema_compatible", jInts ResultsFile.compatibleSchemas)]
    match out with
    | .reuse f =>
      return jObj ([("outcome", .str "reuse"), ("version", .str f.version), ("input_file", .str f.inputFile),
        ("taxon", .str (ResultsFile.readDataTaxon "" f)),
        ("modules", jArr (f.records.map fun r => jToWire (.obj r.modules))),
        ("rewritten_schema", match Spec.field f.toJson "schema" with | some v => jToWire v | none => .null)] ++ extra)
    | o => return jObj ([("outcome", .str (outcomeName o))] ++ extra)
  | "runmod" =>
    let hasPrev ← boolF j "has_prev"
    let regenKind ← strF j "regen"       -- "reuse" | "discard" | "refuse"
    let inAll ← boolF j "in_all"
    let enabled ← boolF j "enabled"
    let regen : J → Outcome String := fun _ =>
      if regenKind == "reuse" then .reuse "regenerated" else if regenKind == "discard" then .discard else .refuse .value
    let run : Option String → String := fun r => match r with | some x => "ran(" ++ x ++ ")" | none => "ran(None)"
    let prev := if hasPrev then some (J.obj [("x", .int 1)]) else none
    let out := runModule prev regen inAll enabled run
    match out with
    | .reuse t =>
      let willRun := inAll && enabled
      let regenerated := if hasPrev && regenKind == "reuse" then some "regenerated" else none
      return jObj [("outcome", .str "ok"),
        ("stored", match t.stored with | some s => .str s | none => .null),
        ("ran_with", match t.ranWith with | some (some s) => .str s | some none => .str "None" | none => .null),
        ("spec_stored", match Spec.runModuleStored regenerated willRun run with | some s => .str s | none => .null)]
    | o => return jObj [("outcome", .str (outcomeName o))]
  | k => throw s!"C11: unknown kind {k}"

end ASV.Drv.C11
