import ASV.Drv.J
namespace ASV.Drv.C11
open Lean ASV ASV.Drv

def handle (_j : Json) : R Json := throw "C11: no model yet"

end ASV.Drv.C11
