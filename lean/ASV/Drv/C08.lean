import ASV.Drv.J
import ASV.Spec.Lookup
import ASV.Spec.GeneFunctions
import ASV.Model.Bisect
namespace ASV.Drv.C08
open Lean ASV ASV.Drv ASV.Lookup

def annOpOfJson (j : Json) : R GeneFn.Op := do
  match ← asStr (← idx j 0) with
  | "add" => return .add ⟨← asNat (← idx j 1), ← asStr (← idx j 2), ← asStr (← idx j 3), ← asStr (← idx j 4)⟩
  | "clear" => return .clear
  | t => throw s!"bad annotation op {t}"

/-- a gene; with an annotation history `ann` its core products are what the container model's
    `get_by_function(CORE)` returns after that history -/
def geneOfJson (j : Json) : R Gene := do
  let cores ← match j.getObjVal? "ann" with
    | .ok v => do
      let ops ← listOf annOpOfJson v
      pure (GeneFn.coreProducts (GeneFn.run ops))
    | .error _ =>
      match j.getObjVal? "cores" with
      | .ok v => listOf asStr v
      | .error _ => pure []
  return { id := ← natF j "id", loc := ← locOfJson (← fld j "loc"), cores := cores }

/-- the spec's reading of a gene's annotation history: (carried annotations as [fn, product], core products) -/
def annSpecOfJson (j : Json) : R Json := do
  match j.getObjVal? "ann" with
  | .ok v => do
    let ops ← listOf annOpOfJson v
    pure (jObj [("id", fldD j "id" Json.null),
      ("carried", jArr ((GeneFn.carried ops).map fun a => jArr [toJson a.fn, Json.str a.tool, Json.str a.desc, Json.str a.product])),
      ("cores", jStrs (GeneFn.specCoreProducts ops)),
      ("model_cores", jStrs (GeneFn.coreProducts (GeneFn.run ops)))])
  | .error _ => pure Json.null

def kindOfStr : String → R Kind
  | "proto" => pure .proto | "sideproto" => pure .sideProto | "cand" => pure .cand | "sub" => pure .sub | "region" => pure .region
  | s => throw s!"bad kind {s}"

partial def areaOfJson (j : Json) : R AreaT := do
  let loc ← locOfJson (← fld j "loc")
  let core ← match j.getObjVal? "core" with
    | .ok .null => pure loc
    | .ok v => locOfJson v
    | .error _ => pure loc
  let product := (strF j "product").toOption.getD ""
  let kids ← match j.getObjVal? "kids" with
    | .ok v => listOf areaOfJson v
    | .error _ => pure []
  return .mk (← natF j "id") (← kindOfStr (← strF j "kind")) loc core product kids

def opOfJson (j : Json) : R Op := do
  match ← asStr (← idx j 0) with
  | "cds" => return .cds (← geneOfJson (← idx j 1))
  | "area" => return .area (← areaOfJson (← idx j 1))
  | "clear_regions" => return .clearRegions
  | "clear_subs" => return .clearSubs (← listOf areaOfJson (← idx j 1))
  | "clear_cands" => return .clearCands (← listOf areaOfJson (← idx j 1))
  | "clear_protos" => return .clearProtos (← listOf areaOfJson (← idx j 1))
  | "peek_cds" => return .peekCds
  | "peek" => return .peekArea (← asNat (← idx j 1))
  | "name" => return .byName (← asNat (← idx j 1))
  | "within_regions" => return .withinRegions
  | "set_cores" => do
    let ops ← listOf annOpOfJson (← idx j 2)
    return .setCores (← asNat (← idx j 1)) (GeneFn.coreProducts (GeneFn.run ops))
  | "has" => return .hasCds (← asNat (← idx j 1)) (← asNat (← idx j 2))
  | "index" => return .indexOf (← asNat (← idx j 1)) (← asNat (← idx j 2))
  | t => throw s!"bad op {t}"

def ids (gs : List Gene) : Json := toJson (gs.map (·.id))
def sortNats (l : List Nat) : List Nat := sortDedup (· < ·) l
def jNats (l : List Nat) : Json := toJson l

def eJson {α} (f : α → Json) : E α → Json
  | .ok v => jObj [("ok", f v)]
  | .error e => jObj [("err", Json.str e)]

/-- well-formed gene: parts non-empty and non-negative, the sort key exists -/
def geneOK (len : Int) (g : Gene) : Bool :=
  !g.loc.parts.isEmpty
  && g.loc.parts.all (fun p => decide (0 ≤ p.lo) && decide (p.lo < p.hi) && decide (p.hi ≤ len))
  && (match comparatorStart g.loc with | .ok _ => true | .error _ => false)

def locOK (len : Int) (l : Loc) : Bool :=
  !l.parts.isEmpty && l.parts.all fun p => decide (0 ≤ p.lo) && decide (p.lo < p.hi) && decide (p.hi ≤ len)

/-- a query: parts non-empty and inside the record; a single part may start below 0 (it is clamped) -/
def queryOK (len : Int) (q : Loc) : Bool :=
  match q.parts with
  | [p] => decide (p.lo < p.hi) && decide (p.hi ≤ len) && decide (0 < p.hi)
  | _ => locOK len q

def distinct (l : List Nat) : Bool := (sortNats l).length == l.length

partial def kidsInside : AreaT → Bool
  | .mk _ _ loc _ _ kids => kids.all fun k => containedBy k.loc loc && kidsInside k

partial def kindsWF : AreaT → Bool
  | .mk _ kind _ _ _ kids =>
    (match kind with
      | .proto | .sub | .sideProto => kids.isEmpty
      | .cand => kids.all fun k => k.kind == .proto || k.kind == .sideProto
      | .region => kids.all fun k => k.kind == .cand || k.kind == .sub)
    && kids.all kindsWF

def opsGenes (ops : List Op) : List Gene := ops.filterMap fun | .cds g => some g | _ => none
def allNodes (extra : List AreaT) (ops : List Op) : List AreaT :=
  let ns := (opsAreas ops ++ extra).flatMap nodes
  ns.foldl (fun acc a => if acc.any (·.id == a.id) then acc else acc ++ [a]) []

/-- the same id always names the same object -/
def idsConsistent (areas : List AreaT) : Bool :=
  let ns := areas.flatMap nodes
  ns.all fun a => ns.all fun b => a.id != b.id ||
    (a.loc == b.loc && a.core == b.core && a.kind == b.kind && a.product == b.product
      && a.kids.map (·.id) == b.kids.map (·.id))

def jLists (l : List (List Nat)) : Json := jArr (l.map jNats)

def secLists (r : Rec) (aid : Nat) : List (List Nat) :=
  [sortNats (r.section aid .pre), sortNats (r.section aid .cross), sortNats (r.section aid .post)]

def obsOf (extra : List AreaT) (ops : List Op) (r : Rec) : Json :=
  let ns := allNodes extra ops
  jObj [
    ("order", ids r.genes),
    ("children", jArr (ns.map fun a => jArr [toJson a.id, jNats (sortNats (r.children a.id))])),
    ("sections", jArr (ns.map fun a => jArr [toJson a.id, jLists (secLists r a.id)])),
    ("region", jArr ((opsGenes ops).map fun g => jArr [toJson g.id,
        match r.regionOfGene g.id with | some x => toJson x | none => Json.null])),
    ("defs", jArr ((ns.filter (fun a => a.kind == .proto || a.kind == .sideProto)).map fun a => jArr [toJson a.id, jNats (sortNats (r.definition a.id))])),
    ("log", jArr (r.log.map jLists))]

/-- the nodes the record currently serves: the collections in it and their descendants -/
def liveNodes (l : Live) : List AreaT := l.areas.flatMap nodes
/-- a region of the record: always a fresh object, never anybody's child, so it alone decides its sections
    (other collections also receive the section their parent chose, see design/C08.md) -/
def ownSections (l : Live) (a : AreaT) : Bool :=
  a.kind == .region && l.regions.any (·.id == a.id)

def specSecLists (genes : List Gene) (a : AreaT) : List (List Nat) :=
  let inside := genes.filter fun g => specContained g.loc a.loc
  [Section.pre, Section.cross, Section.post].map fun s =>
    sortNats ((inside.filter fun g => specSection a.loc g.loc == s).map (·.id))

def specObs (extra : List AreaT) (ops : List Op) : Json :=
  let l := liveAfter ops
  let ns := allNodes extra ops
  let live := liveNodes l
  let ns := ns.map fun a => (a, live.any (·.id == a.id))
  jObj [
    ("children", jArr (ns.map fun (a, alive) => jArr [toJson a.id,
        if alive then jNats (sortNats (specChildren l.genes a)) else Json.null])),
    ("sections", jArr (ns.map fun (a, _) => jArr [toJson a.id,
        if ownSections l a then jLists (specSecLists l.genes a) else Json.null])),
    ("region", jArr (l.genes.map fun g => jArr [toJson g.id, jNats (sortNats (specRegions l.regions g))])),
    ("defs", jArr ((ns.filter (fun x => x.1.kind == .proto || x.1.kind == .sideProto)).map fun (a, alive) => jArr [toJson a.id,
        if a.kind == .sideProto then jNats [] else
        if alive then jNats (sortNats (specDefinition l.genes a)) else Json.null]))]

def sameSet (a b : List Nat) : Bool := sortNats a == sortNats b

/-- the spec's verdict on what one observing call returned (`out`), given what is alive at that moment -/
def checkOut (l : Live) (op : Op) (out : List (List Nat)) : Bool :=
  match op, out with
  | .peekCds, [got] =>
    let gs := got.filterMap fun i => l.genes.find? (·.id == i)
    gs.length == got.length && sameSet got (l.genes.map (·.id)) && distinctIds got && specSorted gs
  | .peekArea aid, [all, pre, cross, post] =>
    match (liveNodes l).find? (·.id == aid) with
    | none => true
    | some d =>
      sameSet all (specChildren l.genes d) && distinctIds all
      && sameSet (pre ++ cross ++ post) all
      && (!ownSections l d || [sortNats pre, sortNats cross, sortNats post] == specSecLists l.genes d)
  | .byName gid, [[i, s, e]] =>
    i == gid && l.genes.any fun g => g.id == gid && g.loc.start.toNat == s && g.loc.end.toNat == e
  | .hasCds aid gid, [[b]] =>
    match (liveNodes l).find? (·.id == aid) with
    | none => b ≤ 1
    | some d => b == (if (specChildren l.genes d).contains gid then 1 else 0)
  | .indexOf aid gid, [[i]] =>
    match (liveNodes l).find? (·.id == aid) with
    | none => true
    | some d => (specChildren l.genes d).contains gid && decide (i < (specChildren l.genes d).length)
  | .withinRegions, [got] =>
    got == sortNats ((l.genes.filter fun g => l.regions.any fun a => specContained g.loc a.loc).map (·.id))
  | _, _ => false
where distinctIds (l : List Nat) : Bool := (sortNats l).length == l.length

def isPeek : Op → Bool
  | .peekCds | .peekArea _ | .byName _ | .withinRegions | .hasCds _ _ | .indexOf _ _ => true
  | _ => false

/-- spec verdicts for the implementation's log, one per observing call, in order -/
def checkLog (ops : List Op) (log : List (List (List Nat))) : List Bool :=
  let rec go (l : Live) : List Op → List (List (List Nat)) → List Bool
    | [], _ => []
    | op :: rest, log =>
      if isPeek op then
        match log with
        | out :: more => checkOut l op out :: go l rest more
        | [] => [false]
      else go (l.step op) rest log
  go {} ops log

def handle (j : Json) : R Json := do
  let f ← strF j "f"
  let len ← intF j "len"
  match f with
  | "lookup" =>
    let genes ← listOf geneOfJson (← fld j "genes")
    let qs ← listOf (fun x => do return ((← locOfJson (← fld x "q")), (← boolF x "ov"))) (← fld j "qs")
    let m := run len (genes.map Op.cds)
    let model := eJson (fun (r : Rec) => jObj [("order", ids r.genes),
      ("bisect", toJson (genes.map fun g => Bisect.bisect (fun f : Gene => !locLt g.loc f.loc) r.genes)),
      ("found", jArr (qs.map fun (q, ov) => ids (within r.genes q ov)))]) m
    -- spec on the implementation's gene order
    let order ← match j.getObjVal? "order" with
      | .ok v => listOf asNat v
      | .error _ => pure []
    let ordered := order.filterMap fun i => genes.find? (·.id == i)
    let scope := genes.all (geneOK len) && qs.all (fun (q, _) => queryOK len q) && distinct (genes.map (·.id))
      && genes.all (fun g => genes.all fun h => g.id == h.id || g.loc != h.loc)
    return jObj [("model", model),
                 ("spec", jObj [("found", jArr (qs.map fun (q, ov) => ids (specWithin ordered q ov))),
                                ("sorted", toJson (specSorted ordered)),
                                ("complete", toJson (ordered.length == genes.length))]),
                 ("scope", toJson scope)]
  | "history" =>
    let ops ← listOf opOfJson (← fld j "ops")
    let ops2 ← match j.getObjVal? "ops2" with
      | .ok v => listOf opOfJson v
      | .error _ => pure ops
    let extra ← match j.getObjVal? "areas" with
      | .ok v => listOf areaOfJson v
      | .error _ => pure []
    let implLog ← match j.getObjVal? "impl_log" with
      | .ok v => listOf (listOf (listOf asNat)) v
      | .error _ => pure []
    let genes := opsGenes ops
    let areas := opsAreas ops
    let scope := genes.all (geneOK len) && distinct (genes.map (·.id))
      && genes.all (fun g => genes.all fun h => g.id == h.id || g.loc != h.loc)
      && areas.all (fun a => kidsInside a && kindsWF a && (nodes a).all fun n => locOK len n.loc && locOK len n.core)
      && idsConsistent (areas ++ extra)
    let isOk := fun (x : E Rec) => match x with | .ok _ => true | .error _ => false
    let replay := specDefsAfter ops
    let protoNodes := (allNodes extra ops).filter fun a => a.kind == .proto || a.kind == .sideProto
    return jObj [("model", eJson (obsOf extra ops) (runLoose len ops)),
                 ("model2", eJson (obsOf extra ops) (runLoose len ops2)),
                 ("strict", toJson (isOk (run len ops) || !isOk (runLoose len ops))),
                 ("defs_replay", jArr (protoNodes.map fun a => jArr [toJson a.id,
                    jNats (sortNats ((replay.filter fun x => x.1 == a.id).map (·.2)))])),
                 ("spec", specObs extra ops),
                 ("log_ok", toJson (checkLog ops implLog)),
                 ("ann", jArr (← (← arrF j "ops").filterMapM fun o => do
                    match ← asStr (← idx o 0) with
                    | "cds" => do let x ← annSpecOfJson (← idx o 1); pure (if x == Json.null then none else some x)
                    | _ => pure none)),
                 ("ann_rewrites", jArr (← (← arrF j "ops").filterMapM fun o => do
                    match ← asStr (← idx o 0) with
                    | "set_cores" => do
                      let x ← annSpecOfJson (jObj [("id", ← idx o 1), ("ann", ← idx o 2)])
                      pure (some x)
                    | _ => pure none)),
                 ("scope", toJson scope)]
  | _ => throw s!"C08: unknown case kind {f}"

end ASV.Drv.C08
