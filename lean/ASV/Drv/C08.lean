import ASV.Drv.J
namespace ASV.Drv.C08
open Lean ASV ASV.Drv

def handle (_j : Json) : R Json := throw "C08: no model yet"

end ASV.Drv.C08
