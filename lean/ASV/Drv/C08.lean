import ASV.Drv.J
import ASV.Spec.Lookup
namespace ASV.Drv.C08
open Lean ASV ASV.Drv ASV.Lookup

def geneOfJson (j : Json) : R Gene := do
  let cores ← match j.getObjVal? "cores" with
    | .ok v => listOf asStr v
    | .error _ => pure []
  return { id := ← natF j "id", loc := ← locOfJson (← fld j "loc"), cores := cores }

def kindOfStr : String → R Kind
  | "proto" => pure .proto | "cand" => pure .cand | "sub" => pure .sub | "region" => pure .region
  | s => throw s!"bad kind {s}"

partial def areaOfJson (j : Json) : R AreaT := do
  let loc ← locOfJson (← fld j "loc")
  let core ← match j.getObjVal? "core" with
    | .ok .null => pure loc
    | .ok v => locOfJson v
    | .error _ => pure loc
  let product := (strF j "product").toOption.getD ""
  let kids ← match j.getObjVal? "kids" with
    | .ok v => listOf areaOfJson v
    | .error _ => pure []
  return .mk (← natF j "id") (← kindOfStr (← strF j "kind")) loc core product kids

def opOfJson (j : Json) : R Op := do
  match ← asStr (← idx j 0) with
  | "cds" => return .cds (← geneOfJson (← idx j 1))
  | "area" => return .area (← areaOfJson (← idx j 1))
  | t => throw s!"bad op {t}"

def ids (gs : List Gene) : Json := toJson (gs.map (·.id))
def sortNats (l : List Nat) : List Nat := sortDedup (· < ·) l
def jNats (l : List Nat) : Json := toJson l

def eJson {α} (f : α → Json) : E α → Json
  | .ok v => jObj [("ok", f v)]
  | .error e => jObj [("err", Json.str e)]

/-- well-formed gene: parts non-empty and non-negative, the sort key exists -/
def geneOK (len : Int) (g : Gene) : Bool :=
  !g.loc.parts.isEmpty
  && g.loc.parts.all (fun p => decide (0 ≤ p.lo) && decide (p.lo < p.hi) && decide (p.hi ≤ len))
  && (match comparatorStart g.loc with | .ok _ => true | .error _ => false)

def locOK (len : Int) (l : Loc) : Bool :=
  !l.parts.isEmpty && l.parts.all fun p => decide (0 ≤ p.lo) && decide (p.lo < p.hi) && decide (p.hi ≤ len)

/-- a query: parts non-empty and inside the record; a single part may start below 0 (it is clamped) -/
def queryOK (len : Int) (q : Loc) : Bool :=
  match q.parts with
  | [p] => decide (p.lo < p.hi) && decide (p.hi ≤ len) && decide (0 < p.hi)
  | _ => locOK len q

def distinct (l : List Nat) : Bool := (sortNats l).length == l.length

partial def kidsInside : AreaT → Bool
  | .mk _ _ loc _ _ kids => kids.all fun k => containedBy k.loc loc && kidsInside k

partial def kindsWF : AreaT → Bool
  | .mk _ kind _ _ _ kids =>
    (match kind with
      | .proto | .sub => kids.isEmpty
      | .cand => kids.all (·.kind == .proto)
      | .region => kids.all fun k => k.kind == .cand || k.kind == .sub)
    && kids.all kindsWF

def opsGenes (ops : List Op) : List Gene := ops.filterMap fun | .cds g => some g | _ => none
def opsAreas (ops : List Op) : List AreaT := ops.filterMap fun | .area a => some a | _ => none

def allNodes (extra : List AreaT) (ops : List Op) : List AreaT :=
  let ns := (opsAreas ops ++ extra).flatMap nodes
  ns.foldl (fun acc a => if acc.any (·.id == a.id) then acc else acc ++ [a]) []

/-- the same id always names the same object -/
def idsConsistent (ops : List Op) : Bool :=
  let ns := (opsAreas ops).flatMap nodes
  ns.all fun a => ns.all fun b => a.id != b.id ||
    (a.loc == b.loc && a.core == b.core && a.kind == b.kind && a.product == b.product
      && a.kids.map (·.id) == b.kids.map (·.id))

def obsOf (extra : List AreaT) (ops : List Op) (r : Rec) : Json :=
  let ns := allNodes extra ops
  jObj [
    ("order", ids r.genes),
    ("children", jArr (ns.map fun a => jArr [toJson a.id, jNats (sortNats (r.children a.id))])),
    ("region", jArr ((opsGenes ops).map fun g => jArr [toJson g.id,
        match r.regionOfGene g.id with | some x => toJson x | none => Json.null])),
    ("defs", jArr ((ns.filter (·.kind == .proto)).map fun a => jArr [toJson a.id, jNats (sortNats (r.definition a.id))]))]

def specObs (extra : List AreaT) (ops : List Op) : Json :=
  let ns := allNodes extra ops
  let genes := opsGenes ops
  let regions := (opsAreas ops).filter (·.kind == .region)
  -- an area is served by the record once it, or an area it is a child of, has been added
  let reach := (opsAreas ops).flatMap nodes
  let ns := ns.map fun a => (a, reach.any (·.id == a.id))
  jObj [
    ("children", jArr (ns.map fun (a, live) => jArr [toJson a.id, jNats (if live then sortNats (specChildren genes a) else [])])),
    ("region", jArr (genes.map fun g => jArr [toJson g.id, jNats (sortNats (specRegions regions g))])),
    ("defs", jArr ((ns.filter (·.1.kind == .proto)).map fun (a, live) => jArr [toJson a.id, jNats (if live then sortNats (specDefinition genes a) else [])]))]

def handle (j : Json) : R Json := do
  let f ← strF j "f"
  let len ← intF j "len"
  match f with
  | "lookup" =>
    let genes ← listOf geneOfJson (← fld j "genes")
    let qs ← listOf (fun x => do return ((← locOfJson (← fld x "q")), (← boolF x "ov"))) (← fld j "qs")
    let m := run len (genes.map Op.cds)
    let model := eJson (fun (r : Rec) => jObj [("order", ids r.genes),
      ("found", jArr (qs.map fun (q, ov) => ids (within r.genes q ov)))]) m
    -- spec on the implementation's gene order
    let order ← match j.getObjVal? "order" with
      | .ok v => listOf asNat v
      | .error _ => pure []
    let ordered := order.filterMap fun i => genes.find? (·.id == i)
    let scope := genes.all (geneOK len) && qs.all (fun (q, _) => queryOK len q) && distinct (genes.map (·.id))
      && genes.all (fun g => genes.all fun h => g.id == h.id || g.loc != h.loc)
    return jObj [("model", model),
                 ("spec", jObj [("found", jArr (qs.map fun (q, ov) => ids (specWithin ordered q ov))),
                                ("sorted", toJson (specSorted ordered)),
                                ("complete", toJson (ordered.length == genes.length))]),
                 ("scope", toJson scope)]
  | "history" =>
    let ops ← listOf opOfJson (← fld j "ops")
    let ops2 ← match j.getObjVal? "ops2" with
      | .ok v => listOf opOfJson v
      | .error _ => pure ops
    let extra ← match j.getObjVal? "areas" with
      | .ok v => listOf areaOfJson v
      | .error _ => pure []
    let genes := opsGenes ops
    let areas := opsAreas ops
    let scope := genes.all (geneOK len) && distinct (genes.map (·.id))
      && genes.all (fun g => genes.all fun h => g.id == h.id || g.loc != h.loc)
      && areas.all (fun a => kidsInside a && kindsWF a && (nodes a).all fun n => locOK len n.loc && locOK len n.core)
      && idsConsistent (ops ++ extra.map Op.area) && distinct (areas.map (·.id))
    return jObj [("model", eJson (obsOf extra ops) (run len ops)),
                 ("model2", eJson (obsOf extra ops) (run len ops2)),
                 ("spec", specObs extra ops),
                 ("scope", toJson scope)]
  | _ => throw s!"C08: unknown case kind {f}"

end ASV.Drv.C08
