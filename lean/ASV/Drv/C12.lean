import ASV.Drv.J
import ASV.Spec.RegionExtract
namespace ASV.Drv.C12
open Lean ASV ASV.Drv ASV.RegionExtract

def optInt (j : Json) (k : String) : R (Option Int) :=
  match j.getObjVal? k with
  | .ok .null => pure none
  | .ok v => do return some (← asInt v)
  | .error _ => pure none
def optStr (j : Json) (k : String) : R (Option String) :=
  match j.getObjVal? k with
  | .ok .null => pure none
  | .ok v => do return some (← asStr v)
  | .error _ => pure none
def optInts (j : Json) (k : String) : R (Option (List Int)) :=
  match j.getObjVal? k with
  | .ok .null => pure none
  | .ok v => do return some (← listOf asInt v)
  | .error _ => pure none

def qualsOfJson (j : Json) : R Quals := do
  return { candNumbers := (← optInts j "candidate_cluster_numbers").getD [],
           subNumbers := (← optInts j "subregion_numbers").getD [],
           candNumber := ← optInt j "candidate_cluster_number",
           protoNumbers := ← optInts j "protoclusters",
           protoNumber := ← optInt j "protocluster_number",
           coreLoc := ← optStr j "core_location",
           subNumber := ← optInt j "subregion_number",
           leaderLoc := ← optStr j "leader_location",
           tailLoc := ← optStr j "tail_location" }

def optJ {α} (f : α → Json) : Option α → List (String × Json) → String → List (String × Json)
  | some v, acc, k => acc ++ [(k, f v)]
  | none, acc, _ => acc

def qualsToJson (q : Quals) : Json :=
  let acc : List (String × Json) := []
  let acc := if q.candNumbers.isEmpty then acc else acc ++ [("candidate_cluster_numbers", jInts q.candNumbers)]
  let acc := if q.subNumbers.isEmpty then acc else acc ++ [("subregion_numbers", jInts q.subNumbers)]
  let acc := optJ (fun (i : Int) => toJson i) q.candNumber acc "candidate_cluster_number"
  let acc := optJ jInts q.protoNumbers acc "protoclusters"
  let acc := optJ (fun (i : Int) => toJson i) q.protoNumber acc "protocluster_number"
  let acc := optJ Json.str q.coreLoc acc "core_location"
  let acc := optJ (fun (i : Int) => toJson i) q.subNumber acc "subregion_number"
  let acc := optJ Json.str q.leaderLoc acc "leader_location"
  let acc := optJ Json.str q.tailLoc acc "tail_location"
  jObj acc

def featureOfJson (j : Json) : R BioFeature := do
  return { tag := ← intF j "src", type := ← strF j "type", loc := ← locOfJson (← fld j "loc"),
           q := ← qualsOfJson (← fld j "q") }

def featureToJson (f : BioFeature) : Json :=
  jObj [("src", toJson f.tag), ("type", Json.str f.type), ("loc", locToJson f.loc), ("q", qualsToJson f.q)]

def regionDataOfJson (j : Json) : R RegionData := do
  let cands ← listOf (fun c => do
    let protos ← listOf (fun p => do
      return ({ number := ← intF p "n", loc := ← locOfJson (← fld p "loc"), core := ← locOfJson (← fld p "core") } : ProtoArea))
      (← fld c "protos")
    return ({ number := ← intF c "n", loc := ← locOfJson (← fld c "loc"), protos := protos } : CandArea)) (← fld j "cands")
  let subs ← listOf (fun s => do return ({ number := ← intF s "n", loc := ← locOfJson (← fld s "loc") } : Area)) (← fld j "subs")
  return { start := ← intF j "start", «end» := ← intF j "end", cands := cands, subs := subs }

def ivsToJson (l : List Iv) : Json := jArr (l.map fun x => jArr [toJson x.1, toJson x.2])

def locOK (L : Int) (l : Loc) : Bool :=
  !l.parts.isEmpty && l.parts.all fun p => decide (0 ≤ p.lo) && decide (p.lo < p.hi) && decide (p.hi ≤ L)

def pairsOfJson (j : Json) : R (List (String × String)) :=
  listOf (fun kv => do return ((← asStr (← idx kv 0)), (← asStr (← idx kv 1)))) j
def pairsToJson (l : List (String × String)) : Json := jArr (l.map fun kv => jArr [Json.str kv.1, Json.str kv.2])
def commentsOfJson (j : Json) : R (Option (List (String × List (String × String)))) :=
  match j with
  | .null => pure none
  | _ => do return some (← listOf (fun kv => do return ((← asStr (← idx kv 0)), (← pairsOfJson (← idx kv 1)))) j)
def commentsToJson : Option (List (String × List (String × String))) → Json
  | none => Json.null
  | some m => jArr (m.map fun kv => jArr [Json.str kv.1, pairsToJson kv.2])

/-- the annotation part: the model's region-file comment, the parent's comment afterwards, the spec's expectation -/
def annotationsJson (rd : RegionData) (sc : Option (List (String × List (String × String)))) : Json :=
  let t : AnnTree := ⟨[], sc⟩
  let (h, parent) := heapOfTree t
  match buildAnnotationsHeap h parent rd with
  | none => jObj [("err", Json.str "annotations")]
  | some (h', a) =>
    jObj [("file", match readTop h' a with | some r => commentsToJson r.sc | none => Json.str "unreadable"),
          ("parent_after", match readTop h' parent with | some r => commentsToJson r.sc | none => Json.str "unreadable"),
          ("expected", commentsToJson (expectedAnn t rd).sc)]

def handleRegion (circular : Bool) (L : Int) (rec : BioRecord) (j : Json) : R Json := do
  let rd ← regionDataOfJson (← fld j "data")
  let sc ← commentsOfJson (fldD j "sc" Json.null)
  let m := writeToGenbank rd rec
  let modelJ := match m with
    | .error e => jObj [("err", Json.str e)]
    | .ok w => jObj [("ok", jObj [
        ("seq", Json.str (String.ofList w.extract.seq)),
        ("features", jArr (w.extract.features.map featureToJson)),
        ("orig_start", Json.str w.extract.annotations.origStart),
        ("orig_end", Json.str w.extract.annotations.origEnd),
        ("cross_note", toJson w.extract.annotations.crossNote),
        ("parent_same", toJson (w.parentAfter == rec.features)),
        ("parent_touched", toJson (w.parentBeforeRestore != rec.features))])]
  -- executable spec on what the implementation wrote
  let onImpl ← match j.getObjVal? "impl" with
    | .ok (.obj o) => do
      let ij := Json.obj o
      let fs ← listOf featureOfJson (← fld ij "features")
      let same := fs.map fun g =>
        match rec.features.find? (·.tag == g.tag) with
        | some f => f.type == g.type && sameBasesB L rd f.loc g.loc
        | none => false
      pure (jObj [
        ("same_bases", jArr (same.map fun (b : Bool) => toJson b)),
        ("protos_numbered", toJson (numberedAsLoaded (·.q.protoNumber) (ofType "protocluster" fs))),
        ("cands_numbered", toJson (numberedAsLoaded (·.q.candNumber) (ofType "cand_cluster" fs))),
        ("subs_numbered", toJson (numberedAsLoaded (·.q.subNumber) (ofType "subregion" fs))),
        ("protos_ties", toJson (tiesInFileOrder (·.q.protoNumber) (ofType "protocluster" fs))),
        ("subs_ties", toJson (tiesInFileOrder (·.q.subNumber) (ofType "subregion" fs))),
        ("refs_in_range", toJson (refsInRange fs)),
        ("cores_agree", toJson (coresAgree fs)),
        ("one_region", toJson (oneRegion L rd fs)),
        ("refs_consistent", toJson (refsConsistent rec.features fs)),
        ("motif_locs", toJson (motifLocsOk L rd rec.features fs)),
        ("inside_kept", toJson (insideKept L rd rec.features fs))])
    | _ => pure Json.null
  let locs ← match j.getObjVal? "locs" with
    | .ok v => listOf locOfJson v
    | .error _ => pure []
  let images := locs.map fun l => jObj [("inside", toJson (insideRegion L rd l)), ("canon", ivsToJson (imageCanon L rd l))]
  return jObj [("model", modelJ), ("on_impl", onImpl), ("ann", annotationsJson rd sc),
               ("expected_seq", Json.str (String.ofList (expectedSeq L rd rec.seq))),
               ("region_len", toJson (regionLen L rd)),
               ("images", jArr images),
               ("scope", toJson (wfInput rd rec && consistent rd rec && regionFeatureOK rd rec && writable rd rec)),
               ("scope_wf", toJson (wfInput rd rec)),
               ("kf_prepeptide_cut", toJson (prepeptideCut L rd rec.features)),
               ("kf_equal_areas", toJson (equalAreas rd)),
               ("kf_exons_span_file", toJson (exonsSpanFile circular L rd rec.features)),
               ("kf_file_reconnects", toJson (fileReconnects circular L rd))]

def handleRecord (j : Json) : R Json := do
  let seq ← strF j "seq"
  let parent ← listOf featureOfJson (← fld j "parent")
  let record : BioRecord := { seq := seq.toList, features := parent }
  let L := record.length
  let regions ← (← arrF j "regions").mapM (handleRegion (boolFD j "circular" true) L record)
  return jObj [("regions", jArr regions)]

/-- one record, or — an input of several records written by `main.write_outputs` — each record by itself: every
    region file is held against its own record -/
def handle (j : Json) : R Json := do
  match j.getObjVal? "records" with
  | .ok _ =>
    let records ← (← arrF j "records").mapM handleRecord
    return jObj [("records", jArr records)]
  | .error _ => handleRecord j

end ASV.Drv.C12
