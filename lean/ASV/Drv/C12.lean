import ASV.Drv.J
namespace ASV.Drv.C12
open Lean ASV ASV.Drv

def handle (_j : Json) : R Json := throw "C12: no model yet"

end ASV.Drv.C12
