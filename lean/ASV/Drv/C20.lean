import ASV.Drv.J
import ASV.Spec.WriteSafety
namespace ASV.Drv.C20
open Lean ASV ASV.Drv ASV.WriteSafety

/-! JSON forms (see harness/props/c20.py) -/

partial def valOfJson (j : Json) : R PyVal := do
  let tag ← asStr (← idx j 0)
  match tag with
  | "none" => return .none
  | "bool" => return .bool (← asBool (← idx j 1))
  | "int" => return .int (← asInt (← idx j 1))
  | "str" => return .str (← asStr (← idx j 1))
  | "list" => return .list (← listOf valOfJson (← idx j 1))
  | "dict" => return .dict (← listOf (fun kv => do return (← asStr (← idx kv 0), ← valOfJson (← idx kv 1))) (← idx j 1))
  | "seq" => return .seq (← asStr (← idx j 1))
  | "seqconv" => return .seqConv (← asStr (← idx j 1)) (← valOfJson (← idx j 2))
  | "conv" => return .conv (← valOfJson (← idx j 1))
  | "convraises" => return .convRaises (← asStr (← idx j 1))
  | "dunder" => return .dunder (← valOfJson (← idx j 1))
  | "dunderraises" => return .dunderRaises (← asStr (← idx j 1))
  | "both" => return .both (← valOfJson (← idx j 1)) (← valOfJson (← idx j 2))
  | "opaque" => return .opaque
  | t => throw s!"unknown value tag {t}"

def rawOfJson (j : Json) : R Raw := do
  match ← asStr (← idx j 0) with
  | "dict" => return .dict (← asNat (← idx j 1))
  | "list" => return .list (← asNat (← idx j 1))
  | "str" => return .str (← asStr (← idx j 1))
  | "int" => return .int (← asInt (← idx j 1))
  | "bool" => return .bool (← asBool (← idx j 1))
  | t => throw s!"unknown raw tag {t}"

/-- `["none"] | ["mod", truthy, v] | ["raises", truthy, e] | ["invalid", raw]`; the older forms
    `["mod", v]`, `["raises", e]`, `["invalid"]` (truthy objects, a non-empty dict) are still read -/
def modOfJson (j : Json) : R ModSpec := do
  let n := (← asArr j).length
  match ← asStr (← idx j 0) with
  | "none" => return .none
  | "mod" =>
    if n == 2 then return .mod true (← valOfJson (← idx j 1))
    else return .mod (← asBool (← idx j 1)) (← valOfJson (← idx j 2))
  | "raises" =>
    if n == 2 then return .raises true (← asStr (← idx j 1))
    else return .raises (← asBool (← idx j 1)) (← asStr (← idx j 2))
  | "invalid" =>
    if n == 1 then return .invalid (.dict 1) else return .invalid (← rawOfJson (← idx j 1))
  | t => throw s!"unknown module tag {t}"

def dictOfJson (j : Json) : R ModDict :=
  listOf (fun kv => do return (← asStr (← idx kv 0), ← modOfJson (← idx kv 1))) j

def recOfJson (j : Json) : R RecSpec :=
  match j with
  | .null => pure ⟨none⟩
  | _ => do return ⟨some (← asStr j)⟩

def tokOfJson (j : Json) : R Tok :=
  match j with
  | .str "null" => pure .null
  | .str "[" => pure .lbrack
  | .str "]" => pure .rbrack
  | .str "{" => pure .lbrace
  | .str "}" => pure .rbrace
  | _ => do
    match ← asStr (← idx j 0) with
    | "raw" => return .raw (← asStr (← idx j 1))
    | "bool" => return .bool (← asBool (← idx j 1))
    | "int" => return .int (← asInt (← idx j 1))
    | "str" => return .str (← asStr (← idx j 1))
    | "key" => return .key (← asStr (← idx j 1))
    | t => throw s!"unknown token {t}"

def tokToJson : Tok → Json
  | .raw s => jArr [Json.str "raw", Json.str s]
  | .null => Json.str "null"
  | .bool b => jArr [Json.str "bool", toJson b]
  | .int n => jArr [Json.str "int", toJson n]
  | .str s => jArr [Json.str "str", Json.str s]
  | .key s => jArr [Json.str "key", Json.str s]
  | .lbrack => Json.str "["
  | .rbrack => Json.str "]"
  | .lbrace => Json.str "{"
  | .rbrace => Json.str "}"

def bytesToJson (b : Bytes) : Json := jArr (b.map tokToJson)

def entryOfJson (j : Json) : R Entry := do
  return ⟨← asStr (← idx j 0), ← asBool (← idx j 1), ← listOf tokOfJson (← idx j 2)⟩
def entryToJson (e : Entry) : Json := jArr [Json.str e.name, toJson e.isDir, bytesToJson e.content]
def dirOfJson (j : Json) : R Dir := listOf entryOfJson j
def dirToJson (d : Dir) : Json := jArr (d.map entryToJson)

def targetOfJson (j : Json) : R Target :=
  match j with
  | .str "absent" => pure .absent
  | .str "file" => pure .file
  | _ => do return .dir (← dirOfJson j)
def targetToJson : Target → Json
  | .absent => Json.str "absent"
  | .file => Json.str "file"
  | .dir es => dirToJson es

def handleOfJson (j : Json) : R Handle := do
  match ← asStr (← idx j 0) with
  | "path" => return .path (← asStr (← idx j 1))
  | "io" => return .io (← asStr (← idx j 1))
  | "absent" => return .absent
  | t => throw s!"unknown handle {t}"

def evOfJson (j : Json) : R Ev :=
  match j with
  | .str "logerr" => pure .logErr
  | .str "mkdir" => pure .mkdir
  | .str "prepared" => pure .prepared
  | .str "annotated" => pure .annotated
  | .str "outputs" => pure .outputsWritten
  | _ => do
    match ← asStr (← idx j 0) with
    | "rec" => return .recConv (← asNat (← idx j 1))
    | "mod" => return .modConv (← asNat (← idx j 1)) (← asNat (← idx j 2))
    | "open" => return .openW (← asStr (← idx j 1))
    | "write" => return .write (← asStr (← idx j 1))
    | "remove" => return .remove (← asStr (← idx j 1))
    | "mkdir" => return .mkdirSub (← asStr (← idx j 1))
    | t => throw s!"unknown event {t}"

def evToJson : Ev → Json
  | .recConv i => jArr [Json.str "rec", toJson i]
  | .modConv i k => jArr [Json.str "mod", toJson i, toJson k]
  | .logErr => Json.str "logerr"
  | .openW n => jArr [Json.str "open", Json.str n]
  | .write n => jArr [Json.str "write", Json.str n]
  | .remove n => jArr [Json.str "remove", Json.str n]
  | .mkdir => Json.str "mkdir"
  | .mkdirSub n => jArr [Json.str "mkdir", Json.str n]
  | .prepared => Json.str "prepared"
  | .annotated => Json.str "annotated"
  | .outputsWritten => Json.str "outputs"

def errToJson : Option Exn → Json
  | none => Json.null
  | some e => Json.str e
def errOfJson (j : Json) : R (Option Exn) :=
  match j with
  | .null => pure none
  | _ => do return some (← asStr j)

def resultsOfJson (j : Json) : R Results := do
  return ⟨← listOf recOfJson (← fld j "records"), ← listOf dictOfJson (← fld j "results"),
          ← valOfJson (← fld j "timings")⟩

def outToJson (o : Out) : Json :=
  jObj [("trace", jArr (o.trace.map evToJson)), ("err", errToJson o.err), ("dir", dirToJson o.dir)]
def outOfJson (j : Json) : R Out := do
  return ⟨← listOf evOfJson (← fld j "trace"), ← errOfJson (← fld j "err"), ← dirOfJson (← fld j "dir")⟩
def prepOutToJson (o : PrepOut) : Json :=
  jObj [("trace", jArr (o.trace.map evToJson)), ("err", errToJson o.err), ("target", targetToJson o.target)]
def prepOutOfJson (j : Json) : R PrepOut := do
  return ⟨← listOf evOfJson (← fld j "trace"), ← errOfJson (← fld j "err"), ← targetOfJson (← fld j "target")⟩

def strFD (j : Json) (k : String) (d : String) : String := (strF j k).toOption.getD d

def callInOfJson (j : Json) : R CallIn := do
  let name ← strF j "name"
  return ⟨← targetOfJson (← fld j "target"), ← strF j "input", ← strF j "cwd", name,
          ⟨strFD j "basename" "", name, ← strF j "logfile"⟩⟩

/-- the invariants the theorems assume, on this input -/
def inScope (c : CallIn) : Bool :=
  (effective c).1.WF &&
    (c.opts.outputBasename == "" || plainName c.opts.outputBasename.toList)

/-- spec verdict on the implementation's own output, `false` when the harness could not observe one -/
def onImpl {α} (j : Json) (parse : Json → R α) (spec : α → Bool) : Bool :=
  match j.getObjVal? "impl" with
  | .ok (.null) => false
  | .ok i => match parse i with | .ok o => spec o | .error _ => false
  | .error _ => false

def handle (j : Json) : R Json := do
  match ← strF j "kind" with
  | "write" =>
    let r ← resultsOfJson (← fld j "results")
    let h ← handleOfJson (← fld j "handle")
    let d ← dirOfJson (← fld j "dir")
    let env : Env := ⟨match strFD j "locale" "utf-8" with
      | "ascii" => .ascii
      | "latin-1" => .latin1
      | _ => .utf8⟩
    match ← strF j "fn" with
    | "write_to_file" =>
      let o := writeToFileAt env r h d
      return jObj [("model", outToJson o),
        ("spec", jObj [("fault", toJson r.hasFault),
                       ("model_ok", toJson (specWriteAt r h d o)),
                       ("impl_ok", toJson (onImpl j outOfJson (specWriteAt r h d)))]),
        ("scope", toJson true)]
    | "dump_records" =>
      let o := dumpRecordsIn env r.records r.results h d
      return jObj [("model", outToJson o),
        ("spec", jObj [("fault", toJson (match h with
                          | .absent => callFault r.records r.results
                          | _ => conversionFault r.records r.results)),
                       ("model_ok", toJson (specDumpRecords r.records r.results h d o)),
                       ("impl_ok", toJson (onImpl j outOfJson (specDumpRecords r.records r.results h d)))]),
        ("scope", toJson true)]
    | f => throw s!"unknown fn {f}"
  | "prepare" =>
    let c ← callInOfJson j
    let p := (effective c).1
    let o := prepareOutputDir p
    return jObj [("model", prepOutToJson o), ("name", Json.str p.name),
      ("spec", jObj [("accepts", toJson (specAccepts p)),
                     ("model_ok", toJson (specPrepare p o)),
                     ("impl_ok", toJson (onImpl j prepOutOfJson (specPrepare p)))]),
      ("scope", toJson (inScope c))]
  | "pipeline" =>
    let c ← callInOfJson j
    let written ← resultsOfJson (← fld j "results")
    let results := if boolFD j "reload" false then reload written else written
    let r : RunIn := ⟨c, results, strFD j "results_input" "seq.gbk"⟩
    let p := r.toPipe
    if boolFD j "outer" false then
      let oj := fldD j "opts" (jObj [])
      let opts : RunOpts := ⟨boolFD oj "list_plugins" false, boolFD oj "check_prereqs_only" false,
        boolFD oj "prereqs_ok" true, boolFD oj "profile" false, boolFD oj "options_valid" true,
        boolFD oj "any_module" true, boolFD oj "debug" false, boolFD oj "verbose" false,
        ← (match fldD oj "input" Json.null with
            | .null => pure InputKind.sequence
            | .str "sequence" => pure InputKind.sequence
            | .str "nothing" => pure InputKind.nothing
            | .str "empty" => pure (InputKind.reuse .empty)
            | .str "notjson" => pure (InputKind.reuse .notJson)
            | .str "noschema" => pure (InputKind.reuse (.doc none))
            | v => do pure (InputKind.reuse (.doc (some (← asNat v)))) : R InputKind)⟩
      let x := runFull opts r
      let codeJ : Option Nat → Json := fun c => match c with | none => Json.null | some n => toJson n
      let runOutOfJson : Json → R RunOut := fun i => do
        let code ← match fldD i "code" Json.null with
          | .null => pure none
          | c => do pure (some (← asNat c))
        return ⟨← prepOutOfJson i, code⟩
      return jObj [("model", (prepOutToJson x.out).setObjVal! "code" (codeJ x.code)),
        ("name", Json.str p.prep.name), ("json", Json.str p.jsonName),
        ("place", Json.str (reprStr (logPlace p.prep))),
        ("spec", jObj [("accepts", toJson (specAccepts (afterLogging p.prep))), ("fault", toJson p.results.hasFault),
                       ("early", toJson (stopsEarly opts)),
                       ("model_ok", toJson (specFull opts r x)),
                       ("impl_ok", toJson (onImpl j runOutOfJson (specFull opts r)))]),
        ("scope", toJson (inScope c && (afterLogging p.prep).WF))]
    let o := runTail r
    return jObj [("model", prepOutToJson o), ("name", Json.str p.prep.name), ("json", Json.str p.jsonName),
      ("spec", jObj [("accepts", toJson (specAccepts p.prep)), ("fault", toJson p.results.hasFault),
                     ("model_ok", toJson (specPipeline p o)),
                     ("impl_ok", toJson (onImpl j prepOutOfJson (specPipeline p)))]),
      ("scope", toJson (inScope c))]
  | "path" =>
    -- the `posixpath` functions the model relies on, compared with the real ones
    let a := (← strF j "a").toList
    let b := (← strF j "b").toList
    let sp := PosixPath.splitext a
    return jObj [("model", jObj [
      ("normpath", Json.str (String.ofList (PosixPath.normpath a))),
      ("join", Json.str (String.ofList (PosixPath.join a b))),
      ("abspath", Json.str (String.ofList (PosixPath.abspath a b))),
      ("basename", Json.str (String.ofList (PosixPath.basename a))),
      ("splitext", jArr [Json.str (String.ofList sp.1), Json.str (String.ofList sp.2)]),
      ("isabs", toJson (PosixPath.isabs a))])]
  | k => throw s!"unknown kind {k}"

end ASV.Drv.C20
