import ASV.Drv.J
namespace ASV.Drv.C20
open Lean ASV ASV.Drv

def handle (_j : Json) : R Json := throw "C20: no model yet"

end ASV.Drv.C20
