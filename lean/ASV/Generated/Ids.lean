-- GENERATED from /repo by harness/gen_tables.py on every run; do not edit
namespace ASV.Generated.Ids

/-- `illegal_chars` of `record_processing.fix_record_name_id` -/
def illegalRecordChars : List Char := [' ', '!', '"', '#', '$', '%', '&', '\'', '(', ')', '*', '+', ',', '/', ':', ';', '=', '>', '?', '@', '[', ']', '^', '`', '{', '|', '}']

/-- `illegal_chars` of `cds_feature._sanitise_id_value` -/
def illegalGeneChars : List Char := ['\t', '\n', '\r', ' ', '!', '"', '#', '$', '%', '&', '\'', '(', ')', '*', '+', ',', '/', ':', ';', '=', '>', '?', '@', '[', ']', '^', '`', '{', '|', '}']

end ASV.Generated.Ids
