-- GENERATED from /repo by harness/gen_tables.py on every run; do not edit
namespace ASV.Generated.RecordPickle

/-- `Record.__slots__` -/
def recordSlots : List String := ["_record", "_seq", "skip", "_cds_features", "_cds_by_name", "_cds_by_location", "_protoclusters", "original_id", "_cds_motifs", "_pfam_domains", "_antismash_domains", "_protocluster_numbering", "_nonspecific_features", "record_index", "_genes", "_transl_table", "_domains_by_name", "_pfams_by_cds_name", "_genes_by_name", "_modules", "_candidate_clusters", "_candidate_clusters_numbering", "_subregions", "_subregion_numbering", "_regions", "_region_numbering", "_antismash_domains_by_tool", "_antismash_domains_by_cds_name", "_gc_content", "_cds_cache", "_cds_cache_dirty", "_sources"]

/-- names `Record.__setattr__` does not store in a slot (SeqRecord passthroughs, annotations) -/
def setDiverted : List String := ["id", "seq", "description", "name", "annotations"]

/-- names `Record.__getattr__` answers from the wrapped SeqRecord -/
def getDiverted : List String := ["id", "seq", "description", "name", "annotations", "dbxrefs"]

/-- pickling hooks the class defines itself (none: copyreg's slot-by-slot state is used) -/
def picklingHooks : List String := []

end ASV.Generated.RecordPickle
