-- GENERATED from /repo by harness/gen_tables.py on every run; do not edit
namespace ASV.Generated
def dockingDomains : List String := ["NRPS-COM_Cterm", "NRPS-COM_Nterm", "PKS_Docking_Cterm", "PKS_Docking_Nterm"]
end ASV.Generated
