-- GENERATED from /repo by harness/gen_tables.py on every run; do not edit
namespace ASV.Orf.Gen
def startCodons : List (List Char) := [['A', 'T', 'G'], ['G', 'T', 'G'], ['T', 'T', 'G']]
def stopCodons : List (List Char) := [['T', 'A', 'A'], ['T', 'A', 'G'], ['T', 'G', 'A']]
def complementPairs : List (Char × Char) := [('A', 'T'), ('B', 'V'), ('C', 'G'), ('D', 'H'), ('G', 'C'), ('H', 'D'), ('K', 'M'), ('M', 'K'), ('N', 'N'), ('R', 'Y'), ('S', 'S'), ('T', 'A'), ('V', 'B'), ('W', 'W'), ('X', 'X'), ('Y', 'R'), ('a', 't'), ('b', 'v'), ('c', 'g'), ('d', 'h'), ('g', 'c'), ('h', 'd'), ('k', 'm'), ('m', 'k'), ('n', 'n'), ('r', 'y'), ('s', 's'), ('t', 'a'), ('v', 'b'), ('w', 'w'), ('x', 'x'), ('y', 'r')]
end ASV.Orf.Gen
