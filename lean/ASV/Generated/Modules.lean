-- GENERATED from /repo by harness/gen_tables.py on every run; do not edit
namespace ASV.Modules.T

def adenylations : List String := ["A-OX", "AMP-binding"]
def acyltransferases : List String := ["PKS_AT"]
def condensations : List String := ["Cglyc", "Condensation_DCL", "Condensation_Dual", "Condensation_LCL", "Condensation_Starter", "Condensation_sid", "Heterocyclization"]
def ends : List String := ["Abhydrolase_1", "Epimerization", "TD", "Thioesterase", "cAT"]
def ketosynthases : List String := ["PKS_KS"]
def modifiers : List String := ["Beta_elim_lyase", "LPG_synthase_C", "PKS_DH", "PKS_DH2", "PKS_DHt", "PKS_ER", "PKS_KR", "TauD", "cMT", "nMT", "oMT"]
def carrierProteins : List String := ["ACP", "ACP_beta", "PCP", "PKS_PP", "PP-binding"]
def alternateStarters : List String := ["CAL_domain", "SAT"]
def nonModule : List String := ["NRPS-COM_Cterm", "NRPS-COM_Nterm", "PKS_Docking_Cterm", "PKS_Docking_Nterm"]
def other : List String := ["ACPS", "Aminotran_1_2", "Aminotran_3", "Aminotran_4", "Aminotran_5", "B", "ECH", "F", "FkbH", "GNAT", "Hal", "IBH_Asp", "Interface", "NAD_binding_4", "PS", "PT", "Polyketide_cyc", "Polyketide_cyc2", "TIGR02353", "X"]
def special : List String := ["TIGR01720", "Trans-AT_docking"]
def fusedStarters : List String := ["A-OX", "AMP-binding", "Interface", "PKS_AT"]

/-- CLASSIFICATIONS in dict order (classify returns the first key whose set contains the name) -/
def classifications : List (String × List String) := [("A", adenylations), ("AT", acyltransferases), ("C", condensations), ("S", alternateStarters), ("E", ends), ("KS", ketosynthases), ("+", modifiers), ("CP", carrierProteins), ("!", special), (".", other), ("ignore", nonModule)]
def doubleTransporterCases : List (List String) := [["LPG_synthase_C", "Beta_elim_lyase"]]
/-- the collections `Component.is_starter` looks through -/
def starterCollections : List (List String) := [condensations, ketosynthases, adenylations, acyltransferases, alternateStarters]
def coaLigaseLabel : String := "CAL_domain"
def pksPrefix : String := "PKS"
def transAtSubtype : String := "Trans-AT-KS"
def transAtDocking : String := "Trans-AT_docking"
def iterativeSubtype : String := "Iterative-KS"
def terminationLabels : List String := ["Thioesterase", "TD"]
/-- the finalising domains `Module.end` does not count into the module's extent -/
def endTrimLabels : List String := ["TD", "Thioesterase"]
def starterModuleLabels : List String := ["CAL_domain", "Condensation_Starter", "SAT"]
def transAtKrLabel : String := "PKS_KR"
def trailingKrLabel : String := "PKS_KR"

end ASV.Modules.T
