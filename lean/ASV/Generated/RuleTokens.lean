-- GENERATED from /repo by harness/gen_tables.py on every run; do not edit
namespace ASV.Generated.RuleTokens
/-- `Tokeniser.mapping`: text ↦ name of the `TokenTypes` member -/
def mapping : List (String × String) := [("(", "GROUP_OPEN"), (")", "GROUP_CLOSE"), ("[", "LIST_OPEN"), ("]", "LIST_CLOSE"), ("and", "AND"), ("or", "OR"), ("not", "NOT"), (",", "COMMA"), (".", "DOT"), ("minimum", "MINIMUM"), ("cds", "CDS"), ("minscore", "SCORE"), ("RULE", "RULE"), ("CONDITIONS", "CONDITIONS"), ("DESCRIPTION", "DESCRIPTION"), ("CUTOFF", "CUTOFF"), ("NEIGHBOURHOOD", "NEIGHBOURHOOD"), ("SUPERIORS", "SUPERIORS"), ("RELATED", "RELATED"), ("CATEGORY", "CATEGORY"), ("DEFINE", "DEFINE"), ("AS", "AS"), ("EXAMPLE", "EXAMPLE"), ("EXTENDERS", "EXTENDERS")]
/-- `TokenTypes`: member name ↦ numeric value -/
def tokenValues : List (String × Nat) := [("GROUP_OPEN", 1), ("GROUP_CLOSE", 2), ("LIST_OPEN", 3), ("LIST_CLOSE", 4), ("IDENTIFIER", 6), ("MINIMUM", 7), ("CDS", 8), ("AND", 9), ("OR", 10), ("NOT", 11), ("INT", 12), ("COMMA", 13), ("SCORE", 14), ("DOT", 15), ("RULE", 100), ("DESCRIPTION", 101), ("CUTOFF", 102), ("NEIGHBOURHOOD", 103), ("CONDITIONS", 104), ("SUPERIORS", 105), ("RELATED", 106), ("TEXT", 107), ("CATEGORY", 108), ("DEFINE", 109), ("AS", 110), ("EXAMPLE", 111), ("EXTENDERS", 112)]
end ASV.Generated.RuleTokens
