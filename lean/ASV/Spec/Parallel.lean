/-
  Spec for C18, written without reference to how a pool stores or assembles results.

  Reference behaviour: the calls run one after another (`sequential`, the library `mapM` in
  the exception monad).  A batch handed to the parallel helper must

    * return exactly the reference list (same values, same order, same length) when every
      call succeeds, every chunk of work is completed and nothing interrupts the wait;
    * raise the error of one of the failing calls when some call fails;
    * raise the time-out / dead-worker error when the deadline passes or a worker is lost
      before the work is complete;
    * with a single cpu: behave exactly like the reference (including *which* error).

  In no case may it return anything but the full reference list.
-/
import ASV.Model.Parallel
namespace ASV.Parallel

/-- the reference: one call after another, in argument order -/
def sequential {α ε β} (f : α → Except ε β) (args : List α) : Except ε (List β) := args.mapM f

/-- the reference as an outcome -/
def sequentialOutcome {α ε β} (f : α → Except ε β) (args : List α) : Outcome ε β :=
  match sequential f args with
  | .ok l => .returned (l.map some)
  | .error e => .raised (.task e)

/-- `⌈a / b⌉` (0 when `b = 0`) -/
def ceilDiv (a b : Nat) : Nat := (a + b - 1) / b

/-- number of chunks a pool of `workers` processes cuts `n` calls into:
    chunks of `⌈n / (4·workers)⌉` calls -/
def numChunks (n workers : Nat) : Nat := ceilDiv n (ceilDiv n (4 * workers))

/-- the chunk indices of a schedule's completion events, in completion order -/
def doneIdxs (evs : List Event) : List Nat := evs.filterMap Event.chunk?

/-- a schedule in which every one of the `m` chunks completes exactly once — in any relative
    order — and nothing else happens -/
def Complete (m : Nat) (evs : List Event) : Prop :=
  (∀ ev ∈ evs, ev.isDone = true) ∧ (doneIdxs evs).Perm (List.range m)

/-- executable form of `Complete` -/
def completeB (m : Nat) (evs : List Event) : Bool :=
  evs.all Event.isDone && (doneIdxs evs).isPerm (List.range m)

/-- a schedule a pool can produce at all: no chunk completes twice, only existing chunks -/
def Valid (m : Nat) (evs : List Event) : Prop :=
  (doneIdxs evs).Nodup ∧ ∀ i ∈ doneIdxs evs, i < m

def validB (m : Nat) (evs : List Event) : Bool :=
  decide (doneIdxs evs).Nodup && (doneIdxs evs).all (· < m)

/-- walking the events in order: the first deadline expiry (when a timeout was requested) or
    worker death that happens while fewer than `m` chunks have completed; `none` if the work
    completes first or the events run out -/
def interruption {ε} (hasTimeout : Bool) : Nat → List Event → Option (Err ε)
  | 0, _ => none
  | _ + 1, [] => none
  | left + 1, .done _ :: rest => interruption hasTimeout left rest
  | left + 1, .timeout :: rest =>
    if hasTimeout then some .timeout else interruption hasTimeout (left + 1) rest
  | _ + 1, .died _ :: _ => some .workerDied
  | left + 1, .bystander _ :: rest => interruption hasTimeout (left + 1) rest

/-- the property's reading of an outcome of the parallel helper on a pool of `cpus ≥ 2`
    workers, for a valid schedule: what the caller may observe -/
def poolAcceptable {α ε β} [DecidableEq ε] [DecidableEq β] (f : α → Except ε β) (args : List α)
    (workers : Nat) (hasTimeout : Bool) (evs : List Event) (o : Outcome ε β) : Bool :=
  let m := numChunks args.length workers
  match interruption (ε := ε) hasTimeout m evs with
  | some err => o == .raised err
  | none =>
    if (doneIdxs evs).length < m then o == .blocked
    else
      match sequential f args with
      | .ok l => o == .returned (l.map some)
      | .error _ =>
        match o with
        | .raised (.task e) => args.any fun a => match f a with | .error e' => e' == e | .ok _ => false
        | _ => false

/-- the property's reading of an outcome of `parallel_function` -/
def acceptable {α ε β} [DecidableEq ε] [DecidableEq β] (configCpus : Nat) (f : α → Except ε β)
    (args : List α) (cpus : Nat) (hasTimeout : Bool) (evs : List Event) (o : Outcome ε β) : Bool :=
  let k := if cpus = 0 then configCpus else cpus
  if k = 1 then o == sequentialOutcome f args
  else if k = 0 then o == .raised .noProcesses
  else poolAcceptable f args k hasTimeout evs o

/-- the property's reading of an outcome of `parallel_execute` (no single-cpu shortcut) -/
def acceptableExecute {α ε} [DecidableEq ε] (configCpus : Nat) (runner : α → Except ε Int)
    (commands : List α) (cpus : Nat) (hasTimeout : Bool) (evs : List Event) (o : Outcome ε Int) : Bool :=
  let k := if cpus = 0 then configCpus else cpus
  if k = 0 then o == .raised .noProcesses
  else poolAcceptable runner commands k hasTimeout evs o

end ASV.Parallel
