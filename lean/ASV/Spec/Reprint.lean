/-
  Spec for C02, thm 7 (`reparse_printed`): the regenerated condition text as a token sequence with
  canonical spacing, and the condition objects it denotes when read again (`normC`: the printer
  drops the parentheses of a group that holds a single non-`and` operand, keeps those of a nested
  negation (D17) and of a lone group inside `cds(...)` (D26), and prints `minimum` options sorted).
-/
import ASV.Model.Parser
import ASV.Spec.Formula
namespace ASV.Reprint
open ASV ASV.Rules ASV.Parser

def notT (neg : Bool) : List String := if neg then ["not"] else []

def idsT : List String → List String
  | [] => []
  | [a] => [a]
  | a :: rest => a :: "," :: idsT rest

mutual
/-- `str(condition)` token by token -/
def printTexts : Cond → List String
  | .single neg n => notT neg ++ [n]
  | .score neg n s => notT neg ++ ["minscore", "(", n, ",", toString s.toNat, ")"]
  | .minimum neg c opts =>
      notT neg ++ ["minimum", "(", toString c, ",", "["] ++ idsT (sortDedupStr opts) ++ ["]", ")"]
  | .cds neg subs =>
      let t := joinTexts "or" subs
      let t := if isSingleton subs && subs.all Cond.isGroup && !(t.head? == some "(") then "(" :: t ++ [")"] else t
      notT neg ++ ["cds", "("] ++ t ++ [")"]
  | .group neg subs =>
      let t := joinTexts "or" subs
      if isSingleton subs && !(subs.all Cond.isConj) then
        if neg && t.head? == some "not" then ["not", "("] ++ t ++ [")"] else notT neg ++ t
      else notT neg ++ "(" :: t ++ [")"]
  | .conj subs => joinTexts "and" subs
def joinTexts (op : String) : List Cond → List String
  | [] => []
  | [c] => printTexts c
  | c :: cs => printTexts c ++ op :: joinTexts op cs
end

/-! ### canonical spacing: one blank between two tokens, except after `(` `[`, before `)` `,` `]`,
    and between `cds`/`minimum`/`minscore` and their `(` -/

def noSpaceBefore (t : String) : Bool := t == ")" || t == "," || t == "]"
def opener (t : String) : Bool := t == "(" || t == "["
def callWord (t : String) : Bool := t == "cds" || t == "minimum" || t == "minscore"

def gap (a b : String) : List Char :=
  if noSpaceBefore b || opener a || (b == "(" && callWord a) then [] else [' ']

def renderCanon : List String → List Char
  | [] => []
  | [a] => a.toList
  | a :: b :: rest => a.toList ++ gap a b ++ renderCanon (b :: rest)

/-! ### what the printed tokens denote when parsed again -/

def setNeg : Cond → Cond
  | .single _ n => .single true n
  | .score _ n s => .score true n s
  | .minimum _ c o => .minimum true c o
  | .cds _ s => .cds true s
  | .group _ s => .group true s
  | .conj s => .conj s

/-- the single element of a one-element list -/
def unwrap : List Cond → Cond
  | [a] => a
  | l => .group false l

mutual
def normC : Cond → Cond
  | .single neg n => .single neg n
  | .score neg n s => .score neg n s
  | .minimum neg c opts => .minimum neg c (sortDedupStr opts)
  | .cds neg subs =>
      if isSingleton subs && subs.all Cond.isGroup && !((joinTexts "or" subs).head? == some "(") then
        .cds neg [.group false (normL subs)]
      else .cds neg (normL subs)
  | .group neg subs =>
      if isSingleton subs && !(subs.all Cond.isConj) then
        if neg && (joinTexts "or" subs).head? == some "not" then .group true (normL subs)
        else if neg then setNeg (unwrap (normL subs)) else unwrap (normL subs)
      else .group neg (normL subs)
  | .conj subs => .conj (normL subs)
def normL : List Cond → List Cond
  | [] => []
  | c :: cs => normC c :: normL cs
end


end ASV.Reprint
