/-
  C10 spec — what "the same record" means for a reader of the record, written independently of the
  conversion code: a *view* of every feature (where it is, what it is, its notes as a sorted list
  wherever they are stored, its remaining qualifiers as a key-sorted dictionary, the class-specific
  fields), the area lists in their numbered order with their cross references, the plain features as
  a multiset per record.  Two records are the same when their views are equal.

  `textual = true` is used for the GenBank text path: the text format has no strandless locations,
  Biopython reads every such location back as forward, so strand `None` and `+1` are identified.
-/
import ASV.Model.Serial
namespace ASV.Serial
open ASV

def normStrand (textual : Bool) (l : Loc) : Loc :=
  if !textual then l else
  let f (p : Part) : Part := if p.strand == .none then { p with strand := .fwd } else p
  match l with
  | .simple p => .simple (f p)
  | .compound ps => .compound (ps.map f)

structure FeatView where
  loc : Loc
  type : String
  notes : List String
  quals : Quals
  byAS : Bool
  codon : Option Int
deriving DecidableEq, Repr

/-- notes: stored `note` qualifier and `notes` attribute together, sorted; qualifiers: everything else
    except the `tool` marker (which mirrors `created_by_antismash`), sorted by key -/
def Feat.view (textual : Bool) (f : Feat) : FeatView :=
  ⟨normStrand textual f.loc, f.type, sortStrs ((Q.get? f.quals "note").getD [] ++ f.notes),
   Q.sortKeys (Q.erase (Q.erase f.quals "note") "tool"), f.byAS, f.codon⟩

structure ProtoView where
  feat : FeatView
  core : Loc
  strs : List String
  cutoff : Int
  nbhd : Int
  side : Option Quals
deriving DecidableEq, Repr

def Proto.view (t : Bool) (p : Proto) : ProtoView :=
  ⟨p.feat.view t, normStrand t p.core, [p.tool, p.product, p.rule, p.category], p.cutoff, p.nbhd, p.side⟩

structure SubView where
  feat : FeatView
  tool : String
  label : String
  side : Option Quals
deriving DecidableEq, Repr

def Sub.view (t : Bool) (s : Sub) : SubView := ⟨s.feat.view t, s.tool, s.label, s.side⟩

structure CandView where
  feat : FeatView
  kind : String
  children : List Nat
  smiles : Option String
  polymer : Option String
  core : Option Loc
deriving DecidableEq, Repr

def Cand.view (t : Bool) (r : Rec) (c : Cand) : CandView :=
  ⟨c.feat.view t, c.kind, c.children, c.smiles, c.polymer,
   match c.coreLoc r with | .ok l => some (normStrand t l) | .error _ => none⟩

structure RegView where
  feat : FeatView
  cands : List Nat
  subs : List Nat
deriving DecidableEq, Repr

def Reg.view (t : Bool) (g : Reg) : RegView := ⟨g.feat.view t, g.cands, g.subs⟩

/-- `a` is a rearrangement of `b` -/
def isPerm {α} [DecidableEq α] : List α → List α → Bool
  | [], b => b.isEmpty
  | x :: a, b => b.contains x && isPerm a (b.erase x)

/-- the same record: same length and topology, the same plain features (any order), the same CDS
    features in order, the same areas in the same numbered order with the same cross references -/
def sameRecord (t : Bool) (a b : Rec) : Bool :=
  a.len == b.len && a.circular == b.circular &&
  isPerm (a.others.map (Feat.view t)) (b.others.map (Feat.view t)) &&
  a.cdss.map (Feat.view t) == b.cdss.map (Feat.view t) &&
  a.subs.map (Sub.view t) == b.subs.map (Sub.view t) &&
  a.protos.map (Proto.view t) == b.protos.map (Proto.view t) &&
  a.cands.map (Cand.view t a) == b.cands.map (Cand.view t b) &&
  a.regs.map (Reg.view t) == b.regs.map (Reg.view t)

/-- every cross reference by position points at an existing area -/
def refsValid (r : Rec) : Bool :=
  r.cands.all (fun c => !c.children.isEmpty && c.children.all (· < r.protos.length)) &&
  r.regs.all (fun g => (!g.cands.isEmpty || !g.subs.isEmpty) &&
    g.cands.all (· < r.cands.length) && g.subs.all (· < r.subs.length))

/-- a list in non-descending order for a comparison `lt`: no later element is smaller than an earlier one -/
def sortedBy {α} (lt : α → α → Bool) : List α → Bool
  | [] => true
  | x :: rest => rest.all (fun y => !lt y x) && sortedBy lt rest

end ASV.Serial

namespace ASV.Serial
open ASV

/-! ### executable mirror of the hypotheses of the record theorem (`Rec.Scope` in Proofs/SerialRecord) -/

def areaTypes : List String := ["protocluster", "subregion", "cand_cluster", "region"]

def nodupKeys (q : Quals) : Bool := decide (q.map (·.1)).Nodup

def featWFb (f : Feat) : Bool :=
  nodupKeys f.quals && (Q.get? f.quals "codon_start").isNone && Q.get? f.quals "note" != some [] &&
  (Q.get? f.quals "tool" != some ["antismash"] || f.byAS) && f.loc.parts.all (fun p => decide (p.lo ≤ p.hi))

def insideb (r : Rec) (l : Loc) : Bool :=
  decide (0 ≤ l.start) && decide (l.end ≤ r.len) && (decide (l.parts.length ≤ 1) || r.circular)

def subWFb (r : Rec) (s : Sub) : Bool :=
  featWFb s.feat && s.feat.byAS && s.feat.codon.isNone && s.feat.type == "subregion" &&
  ["aStool", "label", "anchor", "subregion_number", "contig_edge"].all (fun k => (Q.get? s.feat.quals k).isNone) &&
  !isExternal s.tool && s.side.isNone && insideb r s.feat.loc

def protoWFb (r : Rec) (p : Proto) : Bool :=
  featWFb p.feat && p.feat.byAS && p.feat.codon.isNone && p.feat.type == "protocluster" && !p.core.parts.isEmpty &&
  ["category", "neighbourhood", "cutoff", "product", "aStool", "detection_rule", "core_location", "protocluster_number",
   "contig_edge"].all (fun k => (Q.get? p.feat.quals k).isNone) &&
  !isExternal p.tool && p.side.isNone && insideb r p.feat.loc && (decide (p.core.parts.length ≤ 1) || r.circular)

def candWFb (r : Rec) (c : Cand) : Bool :=
  c.feat == ⟨c.feat.loc, "cand_cluster", [], [], true, none⟩ && kinds.contains c.kind && !c.children.isEmpty &&
  c.children.all (· < r.protos.length) && c.wrap == (if r.circular then some r.len else none) &&
  (match connect (c.children.filterMap fun i => (r.protos[i]?).map (·.feat.loc)) c.wrap with
    | .ok l => l == c.feat.loc | .error _ => false) && insideb r c.feat.loc

def regWFb (r : Rec) (g : Reg) : Bool :=
  g.feat == ⟨g.feat.loc, "region", [], [], true, none⟩ && (!g.cands.isEmpty || !g.subs.isEmpty) &&
  g.cands.all (· < r.cands.length) && g.subs.all (· < r.subs.length) &&
  (match regionLoc ((g.subs.filterMap fun i => (r.subs[i]?).map (·.feat.loc)) ++
                    (g.cands.filterMap fun i => (r.cands[i]?).map (·.feat.loc))) with
    | .ok l => l == g.feat.loc | .error _ => false) && insideb r g.feat.loc

/-- everything of `Rec.Scope` except the strict-weak-order condition (checked separately on the
    comparison matrix by the driver) -/
def scopeButOrder (r : Rec) : Bool :=
  (r.others ++ r.cdss).all (fun f => !areaTypes.contains f.type) &&
  r.subs.all (subWFb r) && r.protos.all (protoWFb r) && r.cands.all (candWFb r) && r.regs.all (regWFb r) &&
  sortedBy (fun (a b : Sub) => areaLt a.feat.loc b.feat.loc) r.subs &&
  sortedBy (fun (a b : Proto) => areaLt a.feat.loc b.feat.loc) r.protos &&
  sortedBy (fun (a b : Cand) => areaLt a.feat.loc b.feat.loc) r.cands &&
  sortedBy (fun (a b : Reg) => areaLt a.feat.loc b.feat.loc) r.regs &&
  sortedBy (fun (a b : Reg) => locationsOverlap a.feat.loc b.feat.loc) r.regs

/-! ### locations up to the cut into parts -/

/-- `accRev`: parts kept so far, last one first; `part` is merged into the last one when it continues
    exactly where that one stops in transcription order -/
def mergeStep (accRev : List Part) (part : Part) : List Part :=
  match accRev with
  | [] => [part]
  | prev :: rest =>
    if prev.strand == part.strand && part.strand == .rev && part.hi == prev.lo then
      ⟨part.lo, prev.hi, part.strand⟩ :: rest
    else if prev.strand == part.strand && part.strand != .rev && part.lo == prev.hi then
      ⟨prev.lo, part.hi, part.strand⟩ :: rest
    else part :: prev :: rest

/-- the same bases in the same transcription order with as few parts as possible: the normal form
    used to compare two locations "whatever the cut into parts" -/
def mergeAdjoining (l : Loc) : Loc := Loc.ofParts ((l.parts.foldl mergeStep []).reverse)

end ASV.Serial
