/-
  C14 spec: what the property text and the module docstring of module_identification.py say,
  written over plain *lists of components* (no module state, no look-ahead machinery):

    [starter] loader [modification, ...] carrier_protein [finalisation]
    trans-AT:  starter(Trans-AT-KS) [modification, ...] carrier_protein [KR] [finalisation]

  * `layout cs`      — every position of a module's component list obeys the documented layout,
                       stated position by position in terms of what precedes and what follows
  * `complete cs f`  — the documented completeness rule
  * `transAt`, `starterModule`, `terminationModule`, `iterative`, `isPks`, `isNrps`
  * `partition`      — the modules of a gene are its non-docking domains in query order
  * `combineOK`      — the merge of two adjacent genes' border modules

  All definitions are `Bool` so the driver evaluates them on the implementation's output.
  The only vocabulary shared with the model is the domain-class predicates of `Comp` (the
  regenerated tables).
-/
import ASV.Model.Modules
namespace ASV.Modules.Spec
open T

/-- can start a module but cannot load a substrate (condensation, ketosynthase, SAT) -/
def pureStarter (c : Comp) : Bool := c.isStarter && !c.isLoader

/-- a module's starter is its first starter-capable domain, its loader the first loader-capable
    one, and so on -/
def starterOf (cs : List Comp) : Option Comp := cs.find? Comp.isStarter
def loaderOf (cs : List Comp) : Option Comp := cs.find? Comp.isLoader
def carrierOf (cs : List Comp) : Option Comp := cs.find? Comp.isCarrierProtein
def endOf (cs : List Comp) : Option Comp := cs.find? Comp.isEnd

def hasCarrier (cs : List Comp) : Bool := cs.any Comp.isCarrierProtein

def isPks (cs : List Comp) : Bool := cs.any Comp.isPksSpecific
def isNrps (cs : List Comp) : Bool :=
  (match starterOf cs with | some s => s.isNrpsSpecific | none => false)
  || (match loaderOf cs with | some l => l.isNrpsSpecific | none => false)

/-- trans-AT PKS module: PKS, a starter but no loader, and either the KS is of the trans-AT
    subtype or a trans-AT docking domain is present -/
def transAt (cs : List Comp) : Bool :=
  isPks cs && (loaderOf cs).isNone &&
  (match starterOf cs with
   | some s => s.subtype == some transAtSubtype || cs.any (fun c => c.label == transAtDocking)
   | none => false)

/-- complete: a carrier protein, and either trans-AT or both a starter and a loader — where a
    loader that doubles as the starter only counts in the first module of its gene -/
def complete (cs : List Comp) (firstInCds : Bool) : Bool :=
  hasCarrier cs &&
  (transAt cs ||
   (match starterOf cs, loaderOf cs with
    | some s, some _ => !s.isLoader || firstInCds
    | _, _ => false))

def starterModule (cs : List Comp) (firstInCds : Bool) : Bool :=
  match starterOf cs with
  | some s => starterModuleLabels.contains s.label || (s.isLoader && firstInCds)
  | none => false

def terminationModule (cs : List Comp) : Bool :=
  match endOf cs with | some e => terminationLabels.contains e.label | none => false

def iterative (cs : List Comp) : Bool :=
  match starterOf cs with | some s => s.subtype == some iterativeSubtype | none => false

/-- where a module begins on its protein: the start of its first domain -/
def moduleStart (cs : List Comp) : Option Int := cs.head?.map (·.start)

/-- where it ends: the end of its last domain — of the one before it if the module has more than
    one domain and its terminating domain is a product finalising one (TD / thioesterase) -/
def moduleEnd (cs : List Comp) : Option Int :=
  match cs.reverse with
  | [] => none
  | last :: rest =>
    match endOf cs, rest with
    | some e, second :: _ => if endTrimLabels.contains e.label then some second.stop else some last.stop
    | _, _ => some last.stop

/-! ### layout -/

/-- the next two domains are a listed double-transporter pair -/
def dtPair (rest : List Comp) : Bool := doubleTransporterCases.contains ((rest.take 2).map (·.label))

/-- the domain `back` places before the end of `pre` is a carrier protein that was not the
    module's first carrier protein -/
def extraCarrierAt (pre : List Comp) (back : Nat) : Bool :=
  match pre.reverse.drop back with
  | [] => false
  | x :: p => x.isCarrierProtein && p.any Comp.isCarrierProtein

/-- the domain that comes next is the first or the second one after such an extra carrier protein -/
def followsExtraCarrier (pre : List Comp) : Bool := extraCarrierAt pre 0 || extraCarrierAt pre 1

/-- NRPS and PKS starters/loaders are not mixed -/
def noMix (pre : List Comp) (c : Comp) : Bool :=
  match starterOf pre with
  | some s => !(s.isPksSpecific && c.isNrpsSpecific) && !(s.isNrpsSpecific && c.isPksSpecific)
  | none => true

/-- what the documented layout demands of the component `c` standing after `pre` and before `rest` -/
def positionOK (pre : List Comp) (c : Comp) (rest : List Comp) : Bool :=
  -- docking / COM domains are never part of a module
  !c.isIgnored &&
  (c.isSpecial ||
   ( -- nothing but special domains after the terminating domain (so at most one of those)
     !pre.any Comp.isEnd
     -- an explicit starter is the very first domain (so at most one)
     && (!pureStarter c || pre.isEmpty)
     -- at most one loader, before any modification / carrier protein, matching the starter's kind
     && (!c.isLoader || (!pre.any Comp.isLoader
                          && !pre.any (fun p => p.isModification || p.isCarrierProtein || p.isEnd)
                          && noMix pre c))
     -- modifications come before the carrier protein, except the trans-AT KR and the two
     -- modifiers of a double-transporter case
     && (!(c.isModification && hasCarrier pre)
          || (c.label == transAtKrLabel && transAt pre) || followsExtraCarrier pre)
     -- one carrier protein, except in front of a double-transporter pair
     && (!(c.isCarrierProtein && hasCarrier pre) || dtPair rest)))

def layoutFrom (pre : List Comp) : List Comp → Bool
  | [] => true
  | c :: rest => positionOK pre c rest && layoutFrom (pre ++ [c]) rest

/-- the documented layout holds at every position -/
def layout (cs : List Comp) : Bool := layoutFrom [] cs

/-- the same, said with indices -/
def layoutIdx (cs : List Comp) : Bool :=
  (List.range cs.length).all fun i =>
    match cs[i]? with
    | some c => positionOK (cs.take i) c (cs.drop (i + 1))
    | none => true

/-! ### partition -/

def ignoredDomain (d : Domain) : Bool := nonModule.contains d.label

def sortedByStart : List Domain → Bool
  | [] => true
  | [_] => true
  | a :: b :: rest => decide (a.start ≤ b.start) && sortedByStart (b :: rest)

/-- the modules' components, read left to right, are exactly the gene's non-docking domains in
    query order (ties in input order), each exactly once, each module non-empty, only the first
    module flagged first-in-gene -/
def partition (domains : List Domain) (cdsName : String) (modules : List (List Comp × Bool)) : Bool :=
  let flat := modules.flatMap (·.1)
  flat.map Comp.domain == (sortDomains domains).filter (fun d => !ignoredDomain d)
  && flat.all (fun c => c.locus == cdsName)
  && modules.all (fun m => !m.1.isEmpty)
  && (match modules with
      | [] => true
      | m :: ms => m.2 && ms.all (fun x => !x.2))
  -- independent of the sort used above: a permutation of the kept input, non-decreasing
  && (flat.map Comp.domain).isPerm (domains.filter (fun d => !ignoredDomain d))
  && sortedByStart (flat.map Comp.domain)

/-! ### combining the border modules of adjacent genes -/

/-- `prev`/`cur`: the component lists (+ first flag) of the two genes' modules before,
    `prev'`/`cur'` afterwards, `merged` the reported module -/
def combineOK (sameStrand : Bool) (prev cur prev' cur' : List (List Comp × Bool))
    (merged : Option (List Comp × Bool)) : Bool :=
  -- every domain of both genes is still there, in order
  (prev' ++ cur').flatMap (·.1) == (prev ++ cur).flatMap (·.1) &&
  (match merged with
   | none => prev' == prev && cur' == cur
   | some m =>
     match prev.getLast?, cur with
     | some head, tail :: rest =>
       sameStrand
       && !complete head.1 head.2
       && (!complete tail.1 tail.2 || (match tail.1 with | c0 :: _ => c0.isFusedStarter | [] => false))
       && !((isPks head.1 && isNrps tail.1) || (isNrps head.1 && isPks tail.1))
       && complete m.1 m.2 && layout m.1 && !m.2
       && prev' == prev.dropLast ++ [m]
       && ((m.1 == head.1 ++ tail.1 && cur' == rest)
           || (match rest with
               | ([kr], _) :: rest2 =>
                 kr.label == trailingKrLabel && transAt (head.1 ++ tail.1)
                 && m.1 == head.1 ++ tail.1 ++ [kr] && cur' == rest2
               | _ => false))
     | _, _ => false)


/-! ### the assembly line across genes

  Genes are listed in genome order.  On the reverse strand the *upstream* gene (in transcription
  order) is the one at the higher coordinate, so the assembly line reads a maximal run of adjacent
  reverse-strand genes from right to left, everything else from left to right.  Merging border
  modules must never disturb that reading: a cross-gene module joins the C-terminal (trailing)
  module of the upstream gene with the N-terminal (leading) module of the downstream gene. -/

/-- reading of `(reverse strand?, components)` entries given in genome order; `acc` collects the
    current run of reverse-strand genes -/
def lineGo : List (Bool × List Comp) → List Comp → List Comp
  | [], acc => acc
  | (true, cs) :: rest, acc => lineGo rest (cs ++ acc)
  | (false, cs) :: rest, acc => acc ++ cs ++ lineGo rest []

/-- the domains in assembly-line (transcription) order -/
def assemblyLine (entries : List (Bool × List Comp)) : List Comp := lineGo entries []

/-- `m` occurs in `line` as a contiguous block -/
def isInfixB (m : List Comp) : List Comp → Bool
  | [] => m.isPrefixOf []
  | x :: xs => m.isPrefixOf (x :: xs) || isInfixB m xs

/-- the non-docking domains of a gene in query order, as components -/
def keptComps (name : String) (domains : List Domain) : List Comp :=
  ((sortDomains domains).filter fun d => !ignoredDomain d).map
    fun d => ⟨d.label, d.subtypes, d.start, d.stop, name⟩

/-- does `generate_domains` look at the gene at all -/
def liveGene (g : Gene) : Bool := !(g.domains.isEmpty && !g.hasMotifs)

def isReverse (strand : Int) : Bool := strand == -1

/-- the assembly line of a list of genes before any module is built -/
def geneLine (genes : List Gene) : List Comp :=
  assemblyLine ((genes.filter liveGene).map fun g => (isReverse g.strand, keptComps g.name g.domains))

/-- what the reported modules of a gene list (`out`: gene name + component lists of its modules, in
    genome order) must satisfy: one entry per live gene; read in assembly-line order the reported
    modules are a sub-sequence of the genes' domains in assembly-line order (nothing reordered or
    duplicated across genes — single-domain modules are dropped from the report, hence "sub");
    and every reported module is a contiguous block of the assembly line (so a cross-gene module is
    the trailing end of the upstream gene followed by the leading end of the downstream gene) -/
def chainLineOK (genes : List Gene) (out : List (String × List (List Comp))) : Bool :=
  let live := genes.filter liveGene
  let line := geneLine genes
  out.map (·.1) == live.map (·.name)
  && (assemblyLine ((live.zip out).map fun (g, o) => (isReverse g.strand, o.2.flatten))).isSublist line
  && out.all fun o => o.2.all fun m => isInfixB m line


/-! ### … and merging only between direct neighbours

  The assembly line above runs through all genes.  Border modules may only be merged between two
  genes that are direct neighbours in the iteration order (no gene in between, not even one
  without domains), lie in the same region and on the same strand.  Wherever two consecutive live
  genes are *not* such neighbours a separator pseudo-domain is put into the line; a reported module
  must be a contiguous block of that line and contain no separator. -/

/-- a pseudo-component that never occurs in a module (no label, no locus) -/
def sepComp : Comp := ⟨"", [], 0, 0, ""⟩

structure LineItem where
  index : Nat
  strand : Int
  region : Nat
  comps : List Comp
  /-- the gene has hits but no module of its own (only docking/COM domains, or only motif hits):
      it still separates its neighbours -/
  barrier : Bool := false
deriving Repr

/-- may border modules of these two consecutive live genes be merged at all -/
def mergeable (a b : LineItem) : Bool :=
  b.index == a.index + 1 && a.region == b.region && a.strand == b.strand && !a.barrier && !b.barrier

/-- the separator entry, if any, between the previous live gene and `x` -/
def sepBefore (prev : Option LineItem) (x : LineItem) : List (Bool × List Comp) :=
  match prev with
  | some p => if mergeable p x then [] else [(false, [sepComp])]
  | none => []

/-- the genes' entries for `lineGo`, with a separator entry between non-mergeable neighbours
    (not direct neighbours, different region or strand, or one of them without any module) -/
def interleave : Option LineItem → List LineItem → List (Bool × List Comp)
  | _, [] => []
  | prev, x :: xs => sepBefore prev x ++ (isReverse x.strand, x.comps) :: interleave (some x) xs

/-- the assembly line with separators -/
def chainLine (items : List LineItem) : List Comp := lineGo (interleave none items) []

def geneItems (genes : List Gene) : List LineItem :=
  (genes.filter liveGene).map fun g =>
    ⟨g.index, g.strand, g.region, keptComps g.name g.domains, (keptComps g.name g.domains).isEmpty⟩

/-- the strengthened report check: as `chainLineOK`, against the line with separators, and no
    reported module contains a separator — so a cross-gene module only ever spans direct
    neighbours of one region and one strand, upstream gene's trailing end first -/
def chainBlocksOK (genes : List Gene) (out : List (String × List (List Comp))) : Bool :=
  let live := genes.filter liveGene
  let line := chainLine (geneItems genes)
  out.map (·.1) == live.map (·.name)
  && (chainLine ((live.zip out).map fun (g, o) =>
        ⟨g.index, g.strand, g.region, o.2.flatten, (keptComps g.name g.domains).isEmpty⟩)).isSublist line
  && out.all fun o => o.2.all fun m => isInfixB m line && !m.contains sepComp


/-! ### the reported aSModule against the module it was made from -/

/-- the feature's domains are, in order, the domains of the module's components: same gene, same
    protein coordinates (`doms`: locus, protein start, protein end of each domain feature) -/
def featureFollows (comps : List Comp) (doms : List (String × Int × Int)) : Bool :=
  doms == comps.map fun c => (c.locus, c.start, c.stop)

end ASV.Modules.Spec
