/-
  Spec for C12: what a region file must be, written without looking at how it is produced.

  Coordinates.  Position `i` of the region file is position `toRecord i` of the full record:
  `start + i`, taken modulo the record length when the region runs over the origin.  The file has
  `regionLen` positions.  Everything else is phrased through this map:

    * sequence      nucleotide `i` of the file is nucleotide `toRecord i` of the record
    * features      `SameBases`: base `i` of the file belongs to the written feature iff base
                    `toRecord i` of the record belongs to the original feature, and nothing sticks out
    * numbering     areas of each kind are numbered 1..n in the order in which a record orders them
                    when the file is loaded (start, then larger first): `numberedAsLoaded`
    * references    every reference by number made in the file resolves (`refsInRange`) and is the
                    image, under one renumbering per kind, of the reference made in the full record
                    (`refsConsistent`); the protocluster's `core_location` text denotes the location
                    of its `proto_core` feature (`coresAgree`)
    * parent        the full record's features are what they were

  All checks are executable (`Bool`): the driver evaluates them on what the real code wrote.
-/
import ASV.Model.RegionExtract
import ASV.Model.RegionAnnotations
import ASV.Model.LocOps
import ASV.Spec.Bases
namespace ASV.RegionExtract
open ASV

/-- the region runs over the origin (or covers the whole of a circular record) -/
def wraps (rd : RegionData) : Bool := decide (rd.end ≤ rd.start)

/-- number of positions of the region file -/
def regionLen (L : Int) (rd : RegionData) : Int :=
  if wraps rd then L - rd.start + rd.end else rd.end - rd.start

/-- position `i` of the region file is this position of the full record -/
def toRecord (L : Int) (rd : RegionData) (i : Int) : Int :=
  if wraps rd then (rd.start + i) % L else rd.start + i

/-- the written location covers exactly the bases of the original one -/
def SameBases (L : Int) (rd : RegionData) (orig new : Loc) : Prop :=
  ∀ i : Int, new.mem i = true ↔ (0 ≤ i ∧ i < regionLen L rd ∧ orig.mem (toRecord L rd i) = true)

def intRange (n : Int) : List Int := (List.range n.toNat).map Int.ofNat

/-- executable form: position by position over the file, and no part sticks out of the file -/
def sameBasesB (L : Int) (rd : RegionData) (orig new : Loc) : Bool :=
  ((intRange (regionLen L rd)).all fun i => new.mem i == orig.mem (toRecord L rd i)) &&
  new.parts.all fun p => decide (0 ≤ p.lo) && decide (p.lo ≤ p.hi) && decide (p.hi ≤ regionLen L rd)

/-- the sequence a region file must carry -/
def expectedSeq (L : Int) (rd : RegionData) (seq : List Char) : List Char :=
  (intRange (regionLen L rd)).map fun i => seq.getD (toRecord L rd i).toNat 'N'

/-- an original feature lies inside the region: all its parts lie between the region's start and
    end; in a region running over the origin that is before the origin, or after it, or — for a
    feature that itself runs over the origin — each part on its side -/
def insideRegion (L : Int) (rd : RegionData) (l : Loc) : Bool :=
  let pre := fun (p : Part) => decide (rd.start ≤ p.lo) && decide (p.hi ≤ L)
  let post := fun (p : Part) => decide (0 ≤ p.lo) && decide (p.hi ≤ rd.end)
  if wraps rd then
    l.parts.all pre || l.parts.all post || (bridgesOrigin l && l.parts.all fun p => pre p || post p)
  else l.parts.all fun p => decide (rd.start ≤ p.lo) && decide (p.hi ≤ rd.end)

/-- canonical set of bases of the image of an original location in file coordinates -/
def imageCanon (L : Int) (rd : RegionData) (l : Loc) : List Iv :=
  canonIvs (l.parts.map fun p =>
    if wraps rd && decide (p.lo < rd.start) then (p.lo + L - rd.start, p.hi + L - rd.start)
    else (p.lo - rd.start, p.hi - rd.start))

/-! ### numbering as a record assigns it on loading -/

/-- how a loaded record orders areas of one kind (`CDSCollection.__lt__`): by start — an area still
    running over the origin counting from before it —, larger first -/
def loadKey (l : Loc) : Int × Int :=
  ((match comparatorStart l with | .ok s => s | .error _ => l.start), -l.len)

def pairLt (a b : Int × Int) : Bool := a.1 < b.1 || (a.1 == b.1 && a.2 < b.2)

def insertInt' (x : Int) : List Int → List Int
  | [] => [x]
  | y :: ys => if x ≤ y then x :: y :: ys else y :: insertInt' x ys

/-- `1, 2, …, n` -/
def oneTo (n : Nat) : List Int := (List.range n).map fun (k : Nat) => (Int.ofNat k) + 1

/-- the features `fs` (all of one kind, `num` reading their own number) carry the numbers 1..n,
    and a feature that a loaded record orders strictly before another has the smaller number -/
def numberedAsLoaded (num : BioFeature → Option Int) (fs : List BioFeature) : Bool :=
  (fs.all fun f => (num f).isSome) &&
  ((fs.filterMap num).foldr insertInt' [] == oneTo fs.length) &&
  fs.all fun f => fs.all fun g =>
    !(pairLt (loadKey f.loc) (loadKey g.loc)) ||
      (match num f, num g with
       | some a, some b => decide (a < b)
       | _, _ => false)

/-- ties: features of one kind (`fs` in file order, `num` reading their own number) that a loading record cannot
    tell apart by position and size are numbered by it in the order in which they stand in the file
    (`Record.add_protocluster` / `add_subregion` insert behind equals), so the one standing first must carry the
    smaller number.  File order of equals is the order of their record-wide numbers, so this is what the last
    component of `_number_by_position`'s sort key is for.  Used for protoclusters and subregions; where equal
    candidate clusters stand in the file depends on `sorted(all_features)` meeting `CDSCollection.__lt__`'s
    child shortcut, so for them the harness compares, number by number, what a number stands for before and
    after loading the file instead. -/
def tiesInFileOrder (num : BioFeature → Option Int) : List BioFeature → Bool
  | [] => true
  | f :: rest =>
    (rest.all fun g => loadKey f.loc != loadKey g.loc ||
      (match num f, num g with
       | some a, some b => decide (a < b)
       | _, _ => false)) && tiesInFileOrder num rest

def ofType (t : String) (fs : List BioFeature) : List BioFeature := fs.filter (·.type == t)

/-- executable form of `InNumberOrder` -/
def inNumberOrderB (type : String) (num : BioFeature → Option Int) : List BioFeature → Bool
  | [] => true
  | f :: rest =>
    (rest.all fun g => !(f.type == type) || !(g.type == type) ||
      (match num f, num g with
       | some a, some b => decide (a < b)
       | _, _ => true)) && inNumberOrderB type num rest


/-- the features of one kind stand in the list in the order of their numbers (what `Record.to_biopython` gives for
    protoclusters and subregions: the record numbers them by their place in its sorted lists and writes them out in
    that order) -/
def InNumberOrder (type : String) (num : BioFeature → Option Int) (fs : List BioFeature) : Prop :=
  fs.Pairwise (fun f1 f2 => f1.type = type → f2.type = type → ∀ a b, num f1 = some a → num f2 = some b → a < b)


def inRange (n : Nat) (xs : List Int) : Bool := xs.all fun x => decide (1 ≤ x) && decide (x ≤ (n : Int))

/-- every reference by number made in the file points at an area present in the file -/
def refsInRange (fs : List BioFeature) : Bool :=
  let nC := (ofType "cand_cluster" fs).length
  let nP := (ofType "protocluster" fs).length
  let nS := (ofType "subregion" fs).length
  fs.all fun f =>
    if f.type == "region" then inRange nC f.q.candNumbers && inRange nS f.q.subNumbers
    else if f.type == "cand_cluster" then inRange nP (f.q.protoNumbers.getD [])
    else if f.type == "proto_core" then inRange nP (f.q.protoNumber.toList)
    else true

/-- the `core_location` text of each protocluster denotes the bases of the `proto_core` feature
    with the same number -/
def coresAgree (fs : List BioFeature) : Bool :=
  (ofType "protocluster" fs).all fun f =>
    match f.q.coreLoc.bind locFromString with
    | none => false
    | some core =>
      (ofType "proto_core" fs).any fun g => g.q.protoNumber == f.q.protoNumber && g.loc.canon == core.canon

/-- one region, covering the whole file -/
def oneRegion (L : Int) (rd : RegionData) (fs : List BioFeature) : Bool :=
  match ofType "region" fs with
  | [r] => r.loc.canon == [(0, regionLen L rd)]
  | _ => false

/-- what a loadable region file must satisfy on its own -/
def selfConsistent (L : Int) (rd : RegionData) (fs : List BioFeature) : Bool :=
  numberedAsLoaded (·.q.protoNumber) (ofType "protocluster" fs) &&
  numberedAsLoaded (·.q.candNumber) (ofType "cand_cluster" fs) &&
  numberedAsLoaded (·.q.subNumber) (ofType "subregion" fs) &&
  refsInRange fs && coresAgree fs && oneRegion L rd fs

/-! ### references are images of the full record's references -/

/-- the renumbering of one kind read off the file: (number in the full record, number in the file) -/
def observedMap (t : String) (num : BioFeature → Option Int) (parent ext : List BioFeature) : List (Int × Int) :=
  (ofType t ext).filterMap fun g =>
    match parent.find? (·.tag == g.tag) with
    | some f => match num f, num g with
      | some a, some b => some (a, b)
      | _, _ => none
    | none => none

def functional (m : List (Int × Int)) : Bool :=
  m.all fun a => m.all fun b => (a.1 != b.1 || a.2 == b.2) && (a.2 != b.2 || a.1 == b.1)

def mapsTo (m : List (Int × Int)) (xs ys : List Int) : Bool :=
  xs.length == ys.length && (xs.zip ys).all fun p => m.contains p

/-- every written feature comes from a feature of the full record (same `tag`, same type) and its
    references are that feature's references sent through one injective renumbering per kind -/
def refsConsistent (parent ext : List BioFeature) : Bool :=
  let mP := observedMap "protocluster" (·.q.protoNumber) parent ext
  let mC := observedMap "cand_cluster" (·.q.candNumber) parent ext
  let mS := observedMap "subregion" (·.q.subNumber) parent ext
  functional mP && functional mC && functional mS &&
  ext.all fun g =>
    match parent.find? (·.tag == g.tag) with
    | none => false
    | some f =>
      f.type == g.type &&
      (if g.type == "region" then mapsTo mC f.q.candNumbers g.q.candNumbers && mapsTo mS f.q.subNumbers g.q.subNumbers
       else if g.type == "cand_cluster" then mapsTo mP (f.q.protoNumbers.getD []) (g.q.protoNumbers.getD [])
       else if g.type == "proto_core" then mapsTo mP f.q.protoNumber.toList g.q.protoNumber.toList
       else true)

/-- a location-valued qualifier (text) of a written feature denotes the image of the original's -/
def textImageOk (L : Int) (rd : RegionData) (orig new : Option String) : Bool :=
  match orig, new with
  | none, none => true
  | some a, some b =>
    match locFromString a, locFromString b with
    | some la, some lb => lb.canon == imageCanon L rd la && decide (lb.len = la.len)
    | _, _ => false
  | _, _ => false

/-- leader/tail locations of every written motif denote the images of the original ones -/
def motifLocsOk (L : Int) (rd : RegionData) (parent ext : List BioFeature) : Bool :=
  (ofType "CDS_motif" ext).all fun g =>
    match parent.find? (·.tag == g.tag) with
    | none => false
    | some f => textImageOk L rd f.q.leaderLoc g.q.leaderLoc && textImageOk L rd f.q.tailLoc g.q.tailLoc

/-- every feature of the full record that lies inside the region is written -/
def insideKept (L : Int) (rd : RegionData) (parent ext : List BioFeature) : Bool :=
  parent.all fun f => !(insideRegion L rd f.loc) || ext.any (·.tag == f.tag)

/-! ### known-finding classes (decidable, evaluated on the input) -/

def textInside (L : Int) (rd : RegionData) : Option String → Bool
  | none => true
  | some t => match locFromString t with
    | some l => insideRegion L rd l
    | none => false

/-- KF-C12-prepeptide-cut: the core motif of a prepeptide lies inside the region but its leader or
    tail does not (the three parts are separate features for Biopython; the core is written with
    `leader_location`/`tail_location` pointing outside the file, which then cannot be loaded) -/
def prepeptideCut (L : Int) (rd : RegionData) (parent : List BioFeature) : Bool :=
  parent.any fun f => f.type == "CDS_motif" && insideRegion L rd f.loc &&
    !(textInside L rd f.q.leaderLoc && textInside L rd f.q.tailLoc)

/-- KF-C12-exons-span-file: in a linear record, a multi-part feature reaching from the first to the
    last base of the region; `Record.from_biopython` takes such a feature for an origin-spanning one
    and refuses the (linear) file -/
def exonsSpanFile (circular : Bool) (L : Int) (rd : RegionData) (parent : List BioFeature) : Bool :=
  !circular && !wraps rd && parent.any fun f =>
    decide (f.loc.parts.length > 1) && insideRegion L rd f.loc &&
    decide (f.loc.start = rd.start) && decide (f.loc.end = rd.end)

def hasDup : List (List Iv × Int) → Bool
  | [] => false
  | x :: xs => xs.any (fun y => y.1 == x.1 && y.2 != x.2) || hasDup xs

/-- KF-C12-equal-areas (D20): two different areas of one kind with the same coordinates; a loaded
    record numbers them in the reverse of the order in which they are written -/
def equalAreas (rd : RegionData) : Bool :=
  hasDup ((protoDict rd).map fun kv => (kv.2.loc.canon, kv.1)) ||
  hasDup ((candDict rd).map fun kv => (kv.2.canon, kv.1)) ||
  hasDup ((subDict rd).map fun kv => (kv.2.canon, kv.1))

/-! ### well-formed input (the hypotheses of the theorems, evaluated on every case as the scope flag) -/

/-- an origin-spanning location with one part on each side of the origin (either part order) -/
def twoPart (L : Int) : Loc → Bool
  | .compound [a, b] =>
    a.strand == b.strand &&
    ((decide (a.hi = L) && decide (b.lo = 0) && decide (0 < b.hi) && decide (b.hi ≤ a.lo) && decide (a.lo < L)) ||
     (decide (a.lo = 0) && decide (b.hi = L) && decide (0 < a.hi) && decide (a.hi ≤ b.lo) && decide (b.lo < L)))
  | _ => false

/-- parts in ascending order, none reaching into a later one -/
def ascParts : List Part → Bool
  | [] => true
  | p :: rest => rest.all (fun q => decide (p.hi ≤ q.lo)) && ascParts rest

/-- a part before the origin inside the region over the origin / after the origin inside it -/
def onPre (L : Int) (rd : RegionData) (p : Part) : Bool := decide (rd.start ≤ p.lo) && decide (p.hi ≤ L)
def onPost (rd : RegionData) (p : Part) : Bool := decide (0 ≤ p.lo) && decide (p.hi ≤ rd.end)

/-- an origin-spanning feature inside a region over the origin with its exons in transcription order, any number
    on each side: on the forward strand the exons before the origin (ascending) and then those after it
    (ascending); on the reverse strand those after the origin (descending) and then those before it (descending);
    at least one on each side, none empty, none reaching into another -/
def ringOrdered (L : Int) (rd : RegionData) (l : Loc) : Bool :=
  l.parts.all (fun p => decide (p.lo < p.hi)) &&
  match l.strand with
  | .fwd =>
    let a := l.parts.takeWhile (onPre L rd)
    let b := l.parts.dropWhile (onPre L rd)
    !a.isEmpty && !b.isEmpty && b.all (onPost rd) && ascParts a && ascParts b
  | .rev =>
    let b := l.parts.takeWhile (onPost rd)
    let a := l.parts.dropWhile (onPost rd)
    !a.isEmpty && !b.isEmpty && a.all (onPre L rd) && ascParts a.reverse && ascParts b.reverse
  | _ => false

/-- a leader / tail location of a precursor peptide as they come: no part empty, all parts inside the region, in
    transcription order — ascending or descending when the region does not run over the origin or all parts lie on
    one side of it; `ringOrdered` when the origin lies inside the leader / tail -/
def motifOrdered (L : Int) (rd : RegionData) (l : Loc) : Bool :=
  l.parts.all (fun p => decide (p.lo < p.hi)) &&
  if rd.crossesOrigin then
    decide (0 < rd.end) && decide (rd.end ≤ rd.start) && decide (rd.start < L) &&
    (ringOrdered L rd l ||
      ((l.parts.all (onPre L rd) || l.parts.all (onPost rd)) && (ascParts l.parts || ascParts l.parts.reverse)))
  else
    l.parts.all (fun p => decide (rd.start ≤ p.lo) && decide (p.hi ≤ rd.end)) &&
      (ascParts l.parts || ascParts l.parts.reverse)

def partsOK (L : Int) (l : Loc) : Bool :=
  !l.parts.isEmpty && l.parts.all fun p => decide (0 ≤ p.lo) && decide (p.lo < p.hi) && decide (p.hi ≤ L)

/-- one part moved by `k` -/
def shiftPart (k : Int) (p : Part) : Part := ⟨p.lo + k, p.hi + k, p.strand⟩

/-- the loop body of `offset_location` that brings one shifted part back into the record: reduced modulo the
    record length, split at the origin when it runs over it -/
def wrapPart (L : Int) (p : Part) : List Part :=
  let s := p.lo % L
  let e := (p.hi - 1) % L + 1
  if 0 ≤ s && s < e && e ≤ L then [(⟨s, e, p.strand⟩ : Part)]
  else [⟨s, L, p.strand⟩, ⟨0, e, p.strand⟩]

/-- the pieces `offset_location` makes of a location before it merges abutting ones -/
def rotPieces (L k : Int) (l : Loc) : List Part := l.parts.flatMap fun p => wrapPart L (shiftPart k p)

/-- all parts on one strand (abutting pieces of different strands make `offset_location` raise) -/
def oneStrand (l : Loc) : Bool :=
  match l.parts with
  | [] => false
  | p :: ps => ps.all (·.strand == p.strand)

/-- the record is not empty; the region lies in it (`start < end`, or `0 < end ≤ start < L` when it runs over
    the origin — `start = end`: all the way round); every feature has non-empty parts inside the record.  For a
    region over the origin, where `offset_location` is at work: a feature that runs over the origin has one
    part on each side of it; any other feature is not as long as the record and has all parts on one strand -/
def wfInput (rd : RegionData) (rec : BioRecord) : Bool :=
  let L := rec.length
  decide (0 < L) &&
  (if rd.crossesOrigin then decide (0 < rd.end) && decide (rd.end ≤ rd.start) && decide (rd.start < L)
   else decide (0 ≤ rd.start) && decide (rd.end ≤ L)) &&
  rec.features.all fun f =>
    partsOK L f.loc &&
    (!rd.crossesOrigin ||
      ((bridgesOrigin f.loc && twoPart L f.loc) || (decide (f.loc.len ≠ L) && oneStrand f.loc)))

/-! ### references go through one renumbering per kind -/

/-- `ys` is `xs` sent element by element through the renumbering `d` -/
def Through (d : List (Int × Int)) (xs ys : List Int) : Prop := mapE (dictGet d) xs = .ok ys

/-- the numbering qualifiers `gq` of a written feature of type `type` are those of the original
    feature, `fq`, with every number sent through the renumbering of its kind -/
def RefsThrough (rn : Renumbering) (type : String) (fq gq : Quals) : Prop :=
  (type = "region" → Through rn.cands fq.candNumbers gq.candNumbers ∧ Through rn.subs fq.subNumbers gq.subNumbers) ∧
  (type = "cand_cluster" → ∃ n m ps ps', fq.candNumber = some n ∧ gq.candNumber = some m ∧ dictGet rn.cands n = .ok m ∧
      fq.protoNumbers = some ps ∧ gq.protoNumbers = some ps' ∧ Through rn.protos ps ps') ∧
  ((type = "protocluster" ∨ type = "proto_core") →
      ∃ n m, fq.protoNumber = some n ∧ gq.protoNumber = some m ∧ dictGet rn.protos n = .ok m) ∧
  (type = "subregion" → ∃ n m, fq.subNumber = some n ∧ gq.subNumber = some m ∧ dictGet rn.subs n = .ok m)

/-- a renumbering `ν` of the areas `areas` (number, location) is a bijection onto `1..n` that follows
    their position in the region file -/
def GoodNumbering (rd : RegionData) (L : Int) (areas : List (Int × Loc)) (ν : List (Int × Int)) : Prop :=
  (∀ a la, (a, la) ∈ areas → ∃ m, dictGet ν a = .ok m) ∧
  (∀ a m, dictGet ν a = .ok m → 1 ≤ m ∧ m ≤ areas.length ∧ ∃ la, (a, la) ∈ areas) ∧
  (∀ a b la lb m m', (a, la) ∈ areas → (b, lb) ∈ areas → dictGet ν a = .ok m → dictGet ν b = .ok m' →
    ((m ≤ m' ↔ keyLe (positionKey rd L a la) (positionKey rd L b lb) = true) ∧ (m = m' → a = b)))

/-- the tie rule of a renumbering `ν`: areas at the same position in the region file with the same size are
    numbered in the order of their record-wide numbers (not, say, in the order in which the region's candidates
    happen to list them) -/
def TiesByRecordNumber (rd : RegionData) (L : Int) (areas : List (Int × Loc)) (ν : List (Int × Int)) : Prop :=
  ∀ a b la lb m m', (a, la) ∈ areas → (b, lb) ∈ areas → dictGet ν a = .ok m → dictGet ν b = .ok m' →
    (positionKey rd L a la).1 = (positionKey rd L b lb).1 →
    (positionKey rd L a la).2.1 = (positionKey rd L b lb).2.1 →
    (m < m' ↔ a < b)

/-! ### the numbers written follow the order in which a loaded record numbers the areas -/

/-- among the features `fs`, those of type `type` that a loaded record orders strictly before another
    carry the smaller number (`num` reads a feature's own number) — the order part of `numberedAsLoaded` -/
def FollowsLoadOrder (type : String) (num : BioFeature → Option Int) (fs : List BioFeature) : Prop :=
  ∀ g1 ∈ fs, ∀ g2 ∈ fs, g1.type = type → g2.type = type → ∀ m1 m2, num g1 = some m1 → num g2 = some m2 →
    pairLt (loadKey g1.loc) (loadKey g2.loc) = true → m1 < m2

/-- the shape of an area's location: one forward part, or a forward pair over the origin (one that goes all
    the way round a region over the origin starts where the region starts) -/
def areaShape (L : Int) (rd : RegionData) : Loc → Bool
  | .simple p => p.strand == .fwd
  | .compound [a, b] =>
    a.strand == .fwd && b.strand == .fwd && decide (a.hi = L) && decide (b.lo = 0) && decide (0 < b.hi) &&
    decide (b.hi ≤ a.lo) && decide (a.lo < L) &&
    (decide (b.hi < a.lo) || !rd.crossesOrigin || decide (a.lo = rd.start))
  | _ => false

def protoAreas (rd : RegionData) : List (Int × Loc) := (protoDict rd).map fun kv => (kv.1, kv.2.loc)

/-- the area features of kind `type` in the record carry the location their `RegionData` entry (same number) has -/
def linkedKind (type : String) (num : BioFeature → Option Int) (areas : List (Int × Loc)) (rec : BioRecord) : Bool :=
  rec.features.all fun f =>
    f.type != type ||
    match num f with
    | none => true
    | some n => areas.all fun a => a.1 != n || a.2 == f.loc

/-- the two views of the region's areas handed to `write_to_genbank` (the record's features, `RegionData`) agree,
    and area locations have the shape of areas -/
def linked (rd : RegionData) (rec : BioRecord) : Bool :=
  linkedKind "protocluster" (·.q.protoNumber) (protoAreas rd) rec &&
  linkedKind "cand_cluster" (·.q.candNumber) (candDict rd) rec &&
  linkedKind "subregion" (·.q.subNumber) (subDict rd) rec &&
  (protoAreas rd ++ candDict rd ++ subDict rd).all fun a => areaShape rec.length rd a.2

/-! ### the whole picture handed to `write_to_genbank` is consistent (hypothesis of `extract_reloads`) -/

def nodupB : List Int → Bool
  | [] => true
  | x :: xs => !xs.contains x && nodupB xs

/-- for one kind of area: every area of the region has a feature of the kind carrying its number, the kind's
    features carry distinct numbers, and the areas lie inside the region -/
def consistentKind (type : String) (num : BioFeature → Option Int) (areas : List (Int × Loc)) (rd : RegionData)
    (rec : BioRecord) : Bool :=
  (areas.all fun a => rec.features.any fun f => f.type == type && num f == some a.1) &&
  nodupB ((ofType type rec.features).filterMap num) &&
  areas.all fun a => insideRegion rec.length rd a.2

def coreAreas (rd : RegionData) : List (Int × Loc) := (protoDict rd).map fun kv => (kv.1, kv.2.core)

/-- `linked`, and: features are told apart by their `tag`; a feature running over the origin reaches from the
    record's first to its last base; per kind of area the record's features and `RegionData` describe the same
    areas (`consistentKind`); `proto_core` features carry the core location of the protocluster of their number,
    which has the shape of an area location -/
def consistent (rd : RegionData) (rec : BioRecord) : Bool :=
  linked rd rec &&
  nodupB (rec.features.map (·.tag)) &&
  (rec.features.all fun f => !bridgesOrigin f.loc || (decide (f.loc.start = 0) && decide (f.loc.end = rec.length))) &&
  consistentKind "protocluster" (·.q.protoNumber) (protoAreas rd) rd rec &&
  consistentKind "cand_cluster" (·.q.candNumber) (candDict rd) rd rec &&
  consistentKind "subregion" (·.q.subNumber) (subDict rd) rd rec &&
  linkedKind "proto_core" (·.q.protoNumber) (coreAreas rd) rec &&
  consistentKind "proto_core" (·.q.protoNumber) (coreAreas rd) rd rec &&
  (coreAreas rd).all fun a => areaShape rec.length rd a.2

/-- the `core_location` text of every written protocluster reads back (`location_from_string`) to a location
    covering exactly the bases of the written `proto_core` feature with the same number (Prop form of `coresAgree`) -/
def CoresAgree (fs : List BioFeature) : Prop :=
  ∀ g ∈ fs, g.type = "protocluster" → ∃ t core, g.q.coreLoc = some t ∧ locFromString t = some core ∧
    ∃ g' ∈ fs, g'.type = "proto_core" ∧ g'.q.protoNumber = g.q.protoNumber ∧ ∀ i, core.mem i = g'.loc.mem i

/-! ### the write does not raise (hypothesis `writable`) -/

def hasKey {α} (d : List (Int × α)) (k : Int) : Bool := (d.map (·.1)).contains k

/-- a location-valued motif qualifier reads back to a location with at least one part -/
def textOK : Option String → Bool
  | none => true
  | some t => match locFromString t with
    | some l => !l.parts.isEmpty
    | none => false

/-- every lookup `_adjust_features` makes for this feature finds its key, and its motif texts read back -/
def adjustable (rd : RegionData) (f : BioFeature) : Bool :=
  if f.type == "region" then
    f.q.candNumbers.all (hasKey (candDict rd)) && f.q.subNumbers.all (hasKey (subDict rd))
  else if f.type == "cand_cluster" then
    (match f.q.candNumber with | some n => hasKey (candDict rd) n | none => false) &&
    (match f.q.protoNumbers with | some ps => ps.all (hasKey (protoDict rd)) | none => false)
  else if f.type == "protocluster" || f.type == "proto_core" then
    match f.q.protoNumber with | some n => hasKey (protoDict rd) n | none => false
  else if f.type == "subregion" then
    match f.q.subNumber with | some n => hasKey (subDict rd) n | none => false
  else if f.type == "CDS_motif" then textOK f.q.leaderLoc && textOK f.q.tailLoc
  else true

/-- the feature passes one of the tests that put features into the region record -/
def mayBeWritten (rd : RegionData) (L : Int) (f : BioFeature) : Bool :=
  if rd.crossesOrigin then
    (decide (rd.start ≤ f.loc.start) && decide (f.loc.end ≤ L)) || (decide (0 ≤ f.loc.start) && decide (f.loc.end ≤ rd.end)) ||
    bridgesOrigin f.loc
  else decide (rd.start ≤ f.loc.start) && decide (f.loc.end ≤ rd.end)

/-- every feature that may end up in the region file is `adjustable` -/
def writable (rd : RegionData) (rec : BioRecord) : Bool :=
  rec.features.all fun f => !mayBeWritten rd rec.length f || adjustable rd f

/-- the region's own feature: exactly one feature of type `region` passes the tests that put features into the
    region record, and it has the region's location (hypothesis of `one_region`) -/
def regionFeatureOK (rd : RegionData) (rec : BioRecord) : Bool :=
  let L := rec.length
  match rec.features.filter fun f => f.type == "region" && mayBeWritten rd L f with
  | [f] =>
    if rd.crossesOrigin then f.loc == .compound [⟨rd.start, L, .fwd⟩, ⟨0, rd.end, .fwd⟩]
    else f.loc == .simple ⟨rd.start, rd.end, .fwd⟩
  | _ => false

/-! ### annotations of the region file -/

/-- what the annotations of a region file must say, given what the full record's say: the same, with
    NOTE / Orig. start / Orig. end set in the antiSMASH-Data comment (created, after the others, if missing) -/
def expectedAnn (t : AnnTree) (rd : RegionData) : AnnTree :=
  let notes := fun (d : List (String × String)) =>
    setStr (setStr (setStr d "NOTE" (if wraps rd then noteCross else notePlain)) "Orig. start" (toString rd.start))
      "Orig. end" (toString rd.end)
  let m := t.sc.getD []
  let m' := if m.any (·.1 == "antiSMASH-Data") then
      m.map fun kv => if kv.1 == "antiSMASH-Data" then (kv.1, notes kv.2) else kv
    else m ++ [("antiSMASH-Data", notes [])]
  ⟨t.other, some m'⟩

/-- a heap holding just the dicts of one annotation tree, and the address of its top dict -/
def heapOfTree (t : AnnTree) : AHeap × Nat :=
  match t.sc with
  | none => alloc [] (.top t.other none)
  | some m =>
    let (h1, entries) := allocEntries [] m
    let (h2, c) := alloc h1 (.comments entries)
    alloc h2 (.top t.other (some c))

/-- the image of a location in file coordinates, as a location (one forward part per stretch of bases) -/
def imageLoc (L : Int) (rd : RegionData) (l : Loc) : Loc :=
  Loc.ofParts ((imageCanon L rd l).map fun iv => (⟨iv.1, iv.2, .fwd⟩ : Part))

/-- KF-C12-circular-file-reconnects: the region file of a circular record says `topology: circular` itself, and a
    record loading it re-forms every candidate cluster from its protoclusters with `connect_locations(…,
    wrap_point = file length)`; for a candidate cluster whose protoclusters leave a gap of more than half the file
    (never formed by `create_candidate_clusters`, whose members overlap in a chain, but a legal `CandidateCluster`)
    the shorter way round is over the file's ends and the candidate — and with it the region — comes back as an
    origin-spanning one -/
def fileReconnects (circular : Bool) (L : Int) (rd : RegionData) : Bool :=
  circular && rd.cands.any fun c =>
    match connect (c.protos.map fun p => imageLoc L rd p.loc) (some (regionLen L rd)) with
    | .ok l => l.canon != imageCanon L rd c.loc
    | .error _ => true

end ASV.RegionExtract
