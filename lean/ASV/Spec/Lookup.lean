/-
  Spec for C08: which genes a location "holds", which genes an area lists, which region a gene points
  to, which genes define a protocluster — written from the property text, not from the code.
  Everything is executable: the driver evaluates these definitions on the implementation's outputs.

    contained   every part of the gene lies inside one part of the location
    shares      the gene and the location share a base (set-of-bases reading, Spec/Bases)
    order       the record's gene order (ascending `Feature.__lt__` key); a multi-part location is
                walked part by part, within a part first the genes that do not cross the origin, then
                the ones that do (they sort first but sit at the far end of the coordinates), each gene once
-/
import ASV.Model.Lookup
import ASV.Spec.Bases
namespace ASV.Lookup
open ASV

/-- every part of `g` lies inside one part of `q` -/
def specContained (g q : Loc) : Bool :=
  g.parts.all fun gp => q.parts.any fun qp => decide (qp.lo ≤ gp.lo) && decide (gp.hi ≤ qp.hi)

/-- `g` and `q` share a base -/
def specShares (g q : Loc) : Bool := sharesPts g q

/-- what a lookup keeps -/
def specKeeps (ov : Bool) (g q : Loc) : Bool := if ov then specShares g q else specContained g q

/-- the gene list is in location order: nothing is followed by something strictly smaller -/
def specSorted : List Gene → Bool
  | [] => true
  | g :: gs => gs.all (fun h => !locLt h.loc g.loc) && specSorted gs

/-- remove later duplicates -/
def dedup : List Gene → List Gene
  | [] => []
  | g :: gs => g :: (dedup gs).filter (· != g)

/-- the genes of one part of a multi-part location, in the order they are met -/
def specPartHits (genes : List Gene) (p : Part) : List Gene :=
  let hits := genes.filter fun g => specShares g.loc (.simple p)
  hits.filter (fun g => !crosses g.loc) ++ hits.filter (fun g => crosses g.loc)

/-- the answer to "which genes are within / overlap `q`", given the record's genes in location order -/
def specWithin (genes : List Gene) (q : Loc) (ov : Bool) : List Gene :=
  match q.parts with
  | [] => []
  | [p] => genes.filter fun g => specKeeps ov g.loc (.simple p)
  | ps => (dedup (ps.flatMap (specPartHits genes))).filter fun g => specKeeps ov g.loc q

/-! ### areas -/

/-- ids of the genes an area must list -/
def specChildren (genes : List Gene) (a : AreaT) : List Nat :=
  (genes.filter fun g => specContained g.loc a.loc).map (·.id)

/-- ids of the genes that define a protocluster: inside its core, with a core annotation for its product -/
def specDefinition (genes : List Gene) (a : AreaT) : List Nat :=
  (genes.filter fun g => specContained g.loc a.loc && specContained g.loc a.core && g.cores.contains a.product).map (·.id)

/-- the regions containing a gene (at most one when regions are disjoint) -/
def specRegions (regions : List AreaT) (g : Gene) : List Nat :=
  (regions.filter fun a => specContained g.loc a.loc).map (·.id)

/-- every area occurring in a forest of areas (each node, parents first) -/
def nodes : AreaT → List AreaT
  | .mk id kind loc core product kids => .mk id kind loc core product kids :: nodesL kids
where nodesL : List AreaT → List AreaT
  | [] => []
  | k :: ks => nodes k ++ nodesL ks

/-! ### sections of an area's gene list -/

/-- where a gene of an area is filed: genes crossing the origin under `cross`; in an area that itself crosses
    the origin, genes inside its second part (the one starting at the origin) under `post`, the others under
    `pre`; in an ordinary area everything (that does not cross the origin) under `post` -/
def specSection (area g : Loc) : Section :=
  if crosses g then .cross
  else match area.parts with
    | _ :: p1 :: _ => if specContained g (.simple p1) then .post else .pre
    | _ => .post

/-! ### what is alive after a history with clearing calls -/

/-- the genes and the collections currently in the record -/
structure Live where
  genes : List Gene := []
  regions : List AreaT := []
  protos : List AreaT := []
  cands : List AreaT := []
  subs : List AreaT := []

def Live.areas (l : Live) : List AreaT := l.regions ++ l.protos ++ l.cands ++ l.subs

/-- regions are rebuilt (from what is left) only if there were any -/
def Live.reset (l : Live) (new : List AreaT) : Live :=
  if l.regions.isEmpty then l else { l with regions := new }

def Live.step (l : Live) : Op → Live
  | .cds g => { l with genes := l.genes ++ [g] }
  | .area a =>
    match a.kind with
    | .proto => { l with protos := l.protos ++ [a] }
    | .sideProto => { l with protos := l.protos ++ [a] }
    | .cand => { l with cands := l.cands ++ [a] }
    | .sub => { l with subs := l.subs ++ [a] }
    | .region => { l with regions := l.regions ++ [a] }
  | .clearRegions => { l with regions := [] }
  | .clearSubs new => Live.reset { l with subs := [] } new
  | .clearCands new => Live.reset { l with cands := [] } new
  | .clearProtos new => Live.reset { l with protos := [], cands := [] } new
  | .setCores gid cs => { l with genes := l.genes.map fun g => if g.id == gid then { g with cores := cs } else g }
  | _ => l

def liveAfter (ops : List Op) : Live := ops.foldl Live.step {}

/-! ### defining genes when annotations change at any time: decided each time gene and protocluster meet -/

/-- does gene `g` (with the annotations it carries now) define protocluster `d`? -/
def specDefines (g : Gene) (d : AreaT) : Bool :=
  d.kind == .proto && specContained g.loc d.loc && specContained g.loc d.core && g.cores.contains d.product

/-- the (protocluster, gene) pairs decided when the genes `gs` meet the collection trees `as` -/
def meetPairs (gs : List Gene) (as : List AreaT) : List (Nat × Nat) :=
  as.flatMap fun a => (nodes a).flatMap fun d => (gs.filter fun g => specContained g.loc a.loc && specDefines g d).map fun g => (d.id, g.id)

/-- one call: a new gene meets everything in the record, a new collection (or re-created region) meets every gene —
    each time with the annotations the gene carries at that moment; nothing is ever taken back -/
def defsStep (acc : Live × List (Nat × Nat)) (op : Op) : Live × List (Nat × Nat) :=
  let (l, d) := acc
  let l' := l.step op
  match op with
  | .cds g => (l', d ++ meetPairs [g] l.areas)
  | .area a => (l', d ++ meetPairs l.genes [a])
  | .clearSubs new | .clearCands new | .clearProtos new =>
    (l', if l.regions.isEmpty then d else d ++ meetPairs l.genes new)
  | _ => (l', d)

/-- every (protocluster id, gene id) pair a history makes defining -/
def specDefsAfter (ops : List Op) : List (Nat × Nat) := (ops.foldl defsStep ({}, [])).2

/-- the collections one call hands to the record (an `add_<area>` argument, the regions a clearing call
    re-creates) -/
def opAreas : Op → List AreaT
  | .area a => [a]
  | .clearSubs new => new
  | .clearCands new => new
  | .clearProtos new => new
  | _ => []

/-- every collection a history hands to the record -/
def opsAreas (ops : List Op) : List AreaT := ops.flatMap opAreas

end ASV.Lookup
