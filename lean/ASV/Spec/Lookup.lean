/-
  Spec for C08: which genes a location "holds", which genes an area lists, which region a gene points
  to, which genes define a protocluster — written from the property text, not from the code.
  Everything is executable: the driver evaluates these definitions on the implementation's outputs.

    contained   every part of the gene lies inside one part of the location
    shares      the gene and the location share a base (set-of-bases reading, Spec/Bases)
    order       the record's gene order (ascending `Feature.__lt__` key); a multi-part location is
                walked part by part, within a part first the genes that do not cross the origin, then
                the ones that do (they sort first but sit at the far end of the coordinates), each gene once
-/
import ASV.Model.Lookup
import ASV.Spec.Bases
namespace ASV.Lookup
open ASV

/-- every part of `g` lies inside one part of `q` -/
def specContained (g q : Loc) : Bool :=
  g.parts.all fun gp => q.parts.any fun qp => decide (qp.lo ≤ gp.lo) && decide (gp.hi ≤ qp.hi)

/-- `g` and `q` share a base -/
def specShares (g q : Loc) : Bool := sharesPts g q

/-- what a lookup keeps -/
def specKeeps (ov : Bool) (g q : Loc) : Bool := if ov then specShares g q else specContained g q

/-- the gene list is in location order: nothing is followed by something strictly smaller -/
def specSorted : List Gene → Bool
  | [] => true
  | g :: gs => gs.all (fun h => !locLt h.loc g.loc) && specSorted gs

/-- remove later duplicates -/
def dedup : List Gene → List Gene
  | [] => []
  | g :: gs => g :: (dedup gs).filter (· != g)

/-- the genes of one part of a multi-part location, in the order they are met -/
def specPartHits (genes : List Gene) (p : Part) : List Gene :=
  let hits := genes.filter fun g => specShares g.loc (.simple p)
  hits.filter (fun g => !crosses g.loc) ++ hits.filter (fun g => crosses g.loc)

/-- the answer to "which genes are within / overlap `q`", given the record's genes in location order -/
def specWithin (genes : List Gene) (q : Loc) (ov : Bool) : List Gene :=
  match q.parts with
  | [] => []
  | [p] => genes.filter fun g => specKeeps ov g.loc (.simple p)
  | ps => (dedup (ps.flatMap (specPartHits genes))).filter fun g => specKeeps ov g.loc q

/-! ### areas -/

/-- ids of the genes an area must list -/
def specChildren (genes : List Gene) (a : AreaT) : List Nat :=
  (genes.filter fun g => specContained g.loc a.loc).map (·.id)

/-- ids of the genes that define a protocluster: inside its core, with a core annotation for its product -/
def specDefinition (genes : List Gene) (a : AreaT) : List Nat :=
  (genes.filter fun g => specContained g.loc a.loc && specContained g.loc a.core && g.cores.contains a.product).map (·.id)

/-- the regions containing a gene (at most one when regions are disjoint) -/
def specRegions (regions : List AreaT) (g : Gene) : List Nat :=
  (regions.filter fun a => specContained g.loc a.loc).map (·.id)

/-- every area occurring in a forest of areas (each node, parents first) -/
def nodes : AreaT → List AreaT
  | .mk id kind loc core product kids => .mk id kind loc core product kids :: nodesL kids
where nodesL : List AreaT → List AreaT
  | [] => []
  | k :: ks => nodes k ++ nodesL ks

end ASV.Lookup
