/-
  C20 — what "a failed or refused write never damages existing results" means, written without
  reference to the order in which the code does things:

  * `Results.hasFault` — *somewhere* in the results there is something that cannot become JSON
    (a record or module whose conversion raises, a value of the wrong type, a nested object without
    a conversion, an integer orjson cannot write, a results list shorter than the record list);
  * `failSafe` — the caller gets an exception, the directory listing (names and contents) is equal
    to what it was, and no file-touching effect was even attempted;
  * `written` — otherwise the target holds exactly the documented document and nothing else moved;
  * `allowed` / `specAccepts` — which existing output directories may be written into;
  * `refusedUntouched`, `acceptedCleanup` — what happens to the directory in either case.

  All of them are `Bool`/decidable, so the driver evaluates the very same definitions on what the
  real code did.
-/
import ASV.Model.WriteSafety
namespace ASV.WriteSafety
open ASV.PosixPath (Path)

/-! ### faults, irrespective of where the conversion would meet them -/

mutual
/-- some part of the value has no JSON form -/
def PyVal.faulty : PyVal → Bool
  | .none => false
  | .bool _ => false
  | .int n => !intOk n
  | .str _ => false
  | .list xs => faultyList xs
  | .dict kvs => faultyKvs kvs
  | .seq _ => false
  | .seqConv _ _ => false
  | .conv v => v.faulty
  | .convRaises _ => true
  | .dunder v => v.faulty
  | .dunderRaises _ => true
  | .both v _ => v.faulty
  | .opaque => true
def faultyList : List PyVal → Bool
  | [] => false
  | x :: xs => x.faulty || faultyList xs
def faultyKvs : List (String × PyVal) → Bool
  | [] => false
  | (_, v) :: rest => v.faulty || faultyKvs rest
end

mutual
/-- the JSON text a value stands for (meaningful for fault-free values) -/
def denote : PyVal → Bytes
  | .none => [.null]
  | .bool b => [.bool b]
  | .int n => [.int n]
  | .str s => [.str s]
  | .list xs => .lbrack :: denoteList xs ++ [.rbrack]
  | .dict kvs => .lbrace :: denoteKvs kvs ++ [.rbrace]
  | .seq s => [.str s]
  | .seqConv s _ => [.str s]
  | .conv v => denote v
  | .convRaises _ => []
  | .dunder v => denote v
  | .dunderRaises _ => []
  | .both v _ => denote v
  | .opaque => []
def denoteList : List PyVal → Bytes
  | [] => []
  | x :: xs => denote x ++ denoteList xs
def denoteKvs : List (String × PyVal) → Bytes
  | [] => []
  | (k, v) :: rest => .key k :: denote v ++ denoteKvs rest
end

def ModSpec.faulty : ModSpec → Bool
  | .none => false
  | .mod _ v => v.faulty
  | .raises _ _ => true
  | .invalid _ => true

def dictFaulty (m : ModDict) : Bool := m.any fun kv => kv.2.faulty

/-- a fault among the records and the results that belong to them (`results[i]` for `i < len(records)`) -/
def conversionFault (records : List RecSpec) (results : List ModDict) : Bool :=
  decide (results.length < records.length) || records.any (fun r => r.fault.isSome)
    || (results.take records.length).any dictFaulty

/-- a conversion *call* raises (`to_json()` of a module or the record's own conversion, a value of
    the wrong type, a missing `results[i]`) — the only faults when nothing is serialised -/
def ModSpec.raising : ModSpec → Bool
  | .raises _ _ => true
  | .invalid _ => true
  | _ => false

def callFault (records : List RecSpec) (results : List ModDict) : Bool :=
  decide (results.length < records.length) || records.any (fun r => r.fault.isSome)
    || (results.take records.length).any fun m => m.any fun kv => kv.2.raising

/-- `write_to_file` converts the records and the timings -/
def Results.hasFault (r : Results) : Bool :=
  conversionFault r.records r.results || r.timings.faulty

/-! ### fault plans: one failing conversion at a chosen position -/

def setFault : ModDict → Nat → ModSpec → ModDict
  | [], _, _ => []
  | (k, _) :: rest, 0, f => (k, f) :: rest
  | kv :: rest, j + 1, f => kv :: setFault rest j f

/-- the results with the `j`-th module entry of record `i` replaced by `f` -/
def injectAt : List ModDict → Nat → Nat → ModSpec → List ModDict
  | [], _, _, _ => []
  | m :: ms, 0, j, f => setFault m j f :: ms
  | m :: ms, i + 1, j, f => m :: injectAt ms i j f

/-! ### the documented content -/

/-- `"modules": {name: to_json(), …}` of one record, `None` entries left out -/
def modsDoc : ModDict → Bytes
  | [] => []
  | (k, .mod _ v) :: rest => .key k :: denote v ++ modsDoc rest
  | _ :: rest => modsDoc rest

def recordsDoc : List ModDict → Bytes
  | [] => []
  | m :: rest => .lbrace :: modsDoc m ++ .rbrace :: recordsDoc rest

def expectedFull (r : Results) : Bytes :=
  docFull (recordsDoc (r.results.take r.records.length)) (denote r.timings)

def expectedRecords (records : List RecSpec) (results : List ModDict) : Bytes :=
  docRecords (recordsDoc (results.take records.length))

/-! ### outcomes -/

/-- `open`, `write`, `remove`, `mkdir` -/
def Ev.touchesFiles : Ev → Bool
  | .openW _ => true
  | .write _ => true
  | .remove _ => true
  | .mkdir => true
  | .mkdirSub _ => true
  | _ => false

def Ev.isConversion : Ev → Bool
  | .recConv _ => true
  | .modConv _ _ => true
  | _ => false

/-- the failure half of the property: reported, and the directory is what it was -/
def failSafe (before : Dir) (o : Out) : Bool :=
  o.err.isSome && decide (o.dir = before) && !o.trace.any Ev.touchesFiles

/-- file `n` has content `text`, every other entry is as before (a missing file is created) -/
def Dir.withFile (d : Dir) (n : String) (text : Bytes) : Dir :=
  if d.any (fun e => e.name == n) then
    d.map fun e => if e.name == n then { e with content := text } else e
  else d ++ [⟨n, false, text⟩]

def expectedAfter (h : Handle) (before : Dir) (text : Bytes) : Dir :=
  match h with
  | .path n => before.withFile n text
  | .io n => before.append n text
  | .absent => before

/-- the success half: no error, the target holds the document, nothing else changed -/
def written (h : Handle) (before : Dir) (text : Bytes) (o : Out) : Bool :=
  o.err.isNone && decide (o.dir = expectedAfter h before text)

/-- no conversion happens after the first file effect ("convert, then open") -/
def convertThenTouch : List Ev → Bool
  | [] => true
  | e :: rest => if e.touchesFiles then !rest.any Ev.isConversion && convertThenTouch rest
                 else convertThenTouch rest

def specWriteToFile (r : Results) (h : Handle) (before : Dir) (o : Out) : Bool :=
  convertThenTouch o.trace &&
  if r.hasFault then failSafe before o else written h before (expectedFull r) o

def specDumpRecords (records : List RecSpec) (results : List ModDict) (h : Handle) (before : Dir)
    (o : Out) : Bool :=
  convertThenTouch o.trace &&
  match h with
  | .absent =>   -- nothing is serialised or written: the converted data is only returned
    if callFault records results then failSafe before o else written h before [] o
  | _ =>
    if conversionFault records results then failSafe before o
    else written h before (expectedRecords records results) o

def Ev.writesOrRemoves : Ev → Bool
  | .write _ => true
  | .remove _ => true
  | _ => false

/-- with a directory at the target path nothing can be written: whatever the results, the call must
    fail, leave every entry as it was, and write nothing (an attempted `open` is all that may show) -/
def specWriteAt (r : Results) (h : Handle) (before : Dir) (o : Out) : Bool :=
  if targetIsDir h before then
    convertThenTouch o.trace && o.err.isSome && decide (o.dir = before) &&
      !o.trace.any Ev.writesOrRemoves &&
      (!r.hasFault || !o.trace.any Ev.touchesFiles)
  else specWriteToFile r h before o

/-! ### the output directory -/

/-- the lexical identity of a path: how many leading slashes survive, and the components that remain
    after resolving `.`, `..` and repeated slashes against the working directory -/
def denotes (cwd q : Path) : Nat × List Path :=
  (PosixPath.leadSlashes (PosixPath.absArg cwd q),
   PosixPath.normComps true (PosixPath.splitSlash (PosixPath.absArg cwd q)))

/-- the entry is the file the run logs to: a log file was requested and both paths denote the same
    place — not merely similar names, not a directory above it -/
def isLogFile (p : PrepIn) (e : Entry) : Bool :=
  p.logfile != "" && decide (denotes p.cwd.toList (entryPath p e) = denotes p.cwd.toList p.logfile.toList)

/-- antiSMASH's own input copy (the directory `input`) or its log file -/
def allowed (p : PrepIn) (e : Entry) : Bool :=
  (e.name == "input" && e.isDir) || isLogFile p e

/-- a name as `os.listdir` yields it -/
def plainName (n : Path) : Bool := n != [] && n != PosixPath.dot && n != PosixPath.dotdot && !n.contains '/'

/-- what the operating system and the function's own guard (`if not name: name = …`) guarantee:
    the working directory is absolute, the directory argument is not empty, listing entries are
    plain names -/
def PrepIn.WF (p : PrepIn) : Bool :=
  PosixPath.isabs p.cwd.toList && !p.name.toList.isEmpty &&
    match p.target with
    | .dir es => es.all fun e => plainName e.name.toList
    | _ => true

/-- documented pattern: `<anything>.region<three characters>.gbk`, not a hidden file -/
def RegionGbkName (n : String) : Prop :=
  n.toList.head? ≠ some '.' ∧
  ∃ pre mid : List Char, n.toList = pre ++ ".region".toList ++ mid ++ ".gbk".toList ∧ mid.length = 3

/-- exactly these may be written into: a path that does not exist yet; an existing directory that
    is empty or holds only the input copy and/or the log file; any directory when reusing results -/
def specAccepts (p : PrepIn) : Bool :=
  match p.target with
  | .absent => true
  | .file => false
  | .dir es => reuseMode p || es.all (allowed p)

/-- a refusal leaves everything as it was and attempts nothing -/
def refusedUntouched (p : PrepIn) (o : PrepOut) : Bool :=
  o.err == some inputError && decide (o.target = p.target) && o.trace.isEmpty

/-- an acceptance creates a missing directory, and in an existing one removes the stale region
    GenBank files and nothing else -/
def acceptedCleanup (p : PrepIn) (o : PrepOut) : Bool :=
  o.err.isNone &&
  match p.target with
  | .absent => decide (o.target = .dir []) && decide (o.trace = [.mkdir])
  | .file => false
  | .dir es =>
    decide (o.target = .dir (es.filter fun e => !isRegionGbk e.name)) &&
    decide (o.trace = (es.filter fun e => isRegionGbk e.name).map fun e => .remove e.name)

def specPrepare (p : PrepIn) (o : PrepOut) : Bool :=
  if specAccepts p then acceptedCleanup p o else refusedUntouched p o

/-! ### the run as a whole -/

/-- the listing after `prepare_output_directory` accepted -/
def preparedDir (p : PrepIn) : Dir :=
  match p.target with
  | .dir es => es.filter fun e => !isRegionGbk e.name
  | _ => []

/-- refused: nothing at all happened; conversion fault: the prepared directory is kept as it is and
    neither `annotate_records` nor `write_outputs` ran; otherwise the results file is complete
    before either of them runs -/
def specPipeline (p : PipeIn) (o : PrepOut) : Bool :=
  if !specAccepts p.prep then refusedUntouched p.prep o
  else if p.results.hasFault then
    o.err.isSome && decide (o.target = .dir (preparedDir p.prep))
      && !o.trace.contains .annotated && !o.trace.contains .outputsWritten
      && !o.trace.any (fun e => e == .openW p.jsonName || e == .write p.jsonName)
  else
    o.err.isNone
      && decide (o.target = .dir ((preparedDir p.prep).withFile p.jsonName (expectedFull p.results)))
      && (o.trace.dropWhile (fun e => e != .openW p.jsonName)
            == [.openW p.jsonName, .write p.jsonName, .annotated, .outputsWritten])


/-! ### the whole of `run_antismash` -/

/-- the call as `_run_antismash` finds it: logging has already created / appended to the log file -/
def afterLogging (p : PrepIn) : PrepIn := { p with target := (setupLogging (logPlace p) p.target).1 }

/-- apart from what setting up the log file does (always the same, accepted or not), and the logged
    error message on a refusal, the run is the run of `specPipeline` on the directory logging left -/
def specRun (r : RunIn) (o : PrepOut) : Bool :=
  let p := (effective r.call).1
  let s := setupLogging (logPlace p) p.target
  let rest := o.trace.drop s.2.length
  let refusedTail := o.err == some inputError
  let inner := if refusedTail then rest.dropLast else rest
  (o.trace.take s.2.length == s.2) && (!refusedTail || rest.getLast? == some .logErr) &&
    specPipeline ⟨afterLogging p, r.results, r.jsonName⟩ ⟨inner, o.err, o.target⟩


/-! ### the whole of `run_antismash`, every option -/

/-- the run stops before it ever looks at the output directory -/
def stopsEarly (o : RunOpts) : Bool :=
  o.listPlugins || o.checkPrereqsOnly || !o.prereqsOk || !o.optionsValid || !o.anyModule
    || (readData o.input).isSome

def earlyResult (o : RunOpts) : Option Exn × Option Nat :=
  if o.listPlugins then (none, some 0)
  else if o.checkPrereqsOnly then (none, some (if o.prereqsOk then 0 else 1))
  else if !o.prereqsOk then (some "RuntimeError", none)
  else if !o.optionsValid then (none, some 1)
  else if !o.anyModule then (some "ValueError", none)
  else (readData o.input, none)

def Ev.isProfiling : Ev → Bool
  | .openW n => n == profBinName || n == profTxtName
  | .write n => n == profBinName || n == profTxtName
  | _ => false

/-- for every option set: whatever happens before the directory test, a refusal, or a failed
    conversion leaves — apart from logging's own set-up — no file effect and in particular **no
    profiling files**; only a run that completed writes them, after everything else, into the
    directory it was allowed to use -/
def specFull (o : RunOpts) (r : RunIn) (x : RunOut) : Bool :=
  let p := (effective r.call).1
  let s := setupLogging (logPlace p) p.target
  let rest := x.out.trace.drop s.2.length
  (x.out.trace.take s.2.length == s.2) &&
  if stopsEarly o then
    decide (x.out.target = s.1) && !rest.any Ev.touchesFiles && x.out.err == (earlyResult o).1
      && x.code == (earlyResult o).2
  else
    let pipe : PipeIn := ⟨afterLogging p, r.results, r.jsonName⟩
    if specAccepts pipe.prep && !r.results.hasFault then
      let body := rest.takeWhile fun e => !e.isProfiling
      let prof := rest.dropWhile fun e => !e.isProfiling
      let done := (preparedDir pipe.prep).withFile pipe.jsonName (expectedFull r.results)
      x.out.err.isNone && x.code == some 0
        && (body.dropWhile (fun e => e != .openW pipe.jsonName)
              == [.openW pipe.jsonName, .write pipe.jsonName, .annotated, .outputsWritten])
        && (if o.profile then
              prof == [.openW profBinName, .write profBinName, .openW profTxtName, .write profTxtName]
                && decide (x.out.target = .dir ((done.withFile profBinName [profBin]).withFile profTxtName [profTxt]))
            else prof.isEmpty && decide (x.out.target = .dir done))
    else
      !rest.any Ev.isProfiling && x.code.isNone && specRun r x.out

end ASV.WriteSafety
