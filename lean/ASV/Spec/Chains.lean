/-
  Spec for C03, written without reference to how `cluster_prediction.py` computes it:

    anchoring genes of a rule : the genes at which the rule's formula holds with a reason profile
                                (C01's documented meaning over *all* genes of the record, distances
                                measured on the sets of bases, the shorter way round on a ring),
                                together with the neighbouring genes that supplied a profile
    chains                    : the connected components of "fewer than `cutoff` bases in between"
    core                      : the smallest span covering a chain (hull on a line, shortest arc on a ring)
    protocluster              : the bases within `neighbourhood` of the core (clipped on a line, wrapped on a ring)
    superiors                 : a chain is dropped iff the core of a chain of a superior rule covers its core

  Everything is executable: `verdict` evaluates the spec on the protoclusters the implementation
  reported.  The model (`ASV.Model.Protocluster`) is imported for the input types only.
-/
import ASV.Model.Protocluster
import ASV.Spec.Formula
import ASV.Spec.Bases
namespace ASV.Chains
open ASV ASV.Rules ASV.Proto

/-! ### chains: connected components of a relation, by absorption -/

/-- absorb into `grp` every element of `rest` related to a member, until nothing changes -/
def grow {α} (rel : α → α → Bool) : Nat → List α → List α → List α × List α
  | 0, grp, rest => (grp, rest)
  | n + 1, grp, rest =>
    let inn := rest.filter fun x => grp.any fun m => rel m x
    let out := rest.filter fun x => !(grp.any fun m => rel m x)
    if inn.isEmpty then (grp, rest) else grow rel n (grp ++ inn) out

def comps {α} (rel : α → α → Bool) : Nat → List α → List (List α)
  | 0, _ => []
  | _ + 1, [] => []
  | n + 1, x :: xs =>
    let gr := grow rel xs.length [x] xs
    gr.1 :: comps rel n gr.2

/-- the connected components of `rel` (taken symmetric) on `xs` -/
def components {α} (rel : α → α → Bool) (xs : List α) : List (List α) :=
  comps (fun a b => rel a b || rel b a) xs.length xs

/-! ### the chain relation and the chain properties the theorems are stated with -/

/-- a gene read as a span: a multi-exon gene covers its introns, an origin-spanning one covers the arc
    from its upper section over the origin to its lower section -/
def spanParts (w : Int) (l : Loc) : List Part :=
  if bridgesOrigin l then
    match splitBridging l with
    | .ok (lower, upper) => [fl (minList (upper.map (·.lo))) w, fl 0 (maxList (lower.map (·.hi)))]
    | .error _ => l.parts
  else [fl l.start l.end]

def spanLoc (w : Int) (l : Loc) : Loc := Loc.ofParts (spanParts w l)

/-- the chain relation: the two genes (as spans) share a base or have fewer than `c` bases strictly
    between them, the shorter way round on a ring of length `L` (`L = 0`: line) -/
def nearB (L c : Int) (a b : Loc) : Bool :=
  sharesPts (spanLoc L a) (spanLoc L b) || decide (specDistFull L (spanLoc L a) (spanLoc L b) < c)

/-- `a` and `b` are linked by a chain of `rel`-steps through members of `grp` -/
inductive Linked {α} (rel : α → α → Prop) (grp : List α) (a : α) : α → Prop
  | refl : a ∈ grp → Linked rel grp a a
  | step {b c : α} : Linked rel grp a b → c ∈ grp → (rel b c ∨ rel c b) → Linked rel grp a c

/-- `groups` are the maximal chains of `xs`: they partition `xs` (as a permutation of the input),
    none is empty, each is internally linked, and no step leads from one group to another -/
structure IsChainPartition {α} (rel : α → α → Prop) (xs : List α) (groups : List (List α)) : Prop where
  perm : groups.flatten.Perm xs
  nonempty : ∀ g ∈ groups, g ≠ []
  linked : ∀ g ∈ groups, ∀ a ∈ g, ∀ b ∈ g, Linked rel g a b
  separated : ∀ gs₁ g gs₂, groups = gs₁ ++ g :: gs₂ → ∀ a ∈ g, ∀ g' ∈ gs₂, ∀ b ∈ g', ¬ rel a b ∧ ¬ rel b a

/-- two lists related element by element, in order -/
inductive Paired {α β} (R : α → β → Prop) : List α → List β → Prop
  | nil : Paired R [] []
  | cons {a b l1 l2} : R a b → Paired R l1 l2 → Paired R (a :: l1) (b :: l2)

/-! ### spans -/

abbrev Iv := ASV.Iv

def unionCanon (w : Int) (ls : List Loc) : List Iv := canon (ls.flatMap (spanParts w))

def subsetIvs (a b : List Iv) : Bool :=
  a.all fun x => b.any fun y => decide (y.1 ≤ x.1) && decide (x.2 ≤ y.2)

/-- hull of a chain on a line -/
def hullIv (ls : List Loc) : Iv := (minList (ls.map (·.start)), maxList (ls.map (·.end)))

/-- the bases within `d` of an area (one part, or two parts bridging the origin) -/
def withinDist (circ : Bool) (L d : Int) (a : Loc) : List Iv :=
  let ps := a.parts
  let n0 := (ps.head?.map (·.lo)).getD 0
  let n1 := (ps.getLast?.map (·.hi)).getD 0
  let base := ps.map fun p => (p.lo, p.hi)
  if circ then canonIvs (base ++ wrapIv L (n0 - d, n0) ++ wrapIv L (n1, n1 + d))
  else canonIvs (base ++ [(max 0 (n0 - d), n0), (n1, min L (n1 + d))])

/-! ### anchoring genes by the documented meaning -/

def ringL (r : Rec) : Int := if r.circular then r.len else 0

def specEnv (r : Rec) (cutoff : Int) : Env :=
  Env.ofLocsSpec (r.genes.map (·.id)) ((r.genes.filter (·.hasRes)).map (·.id))
    (fun h => match r.genes.find? (·.id == h) with | some x => x.hits | none => [])
    (fun h => match r.genes.find? (·.id == h) with | some x => x.loc | none => default)
    cutoff (ringL r)

def dedupNat : List Nat → List Nat
  | [] => []
  | g :: gs => g :: (dedupNat gs).filter (· != g)

/-- the anchoring genes of a rule -/
def anchorSet (r : Rec) (rule : RuleM) : List Gene :=
  let e := specEnv r rule.cutoff
  dedupNat ((r.genes.filter (·.hasRes)).flatMap fun g =>
    if specAnchors e g.id rule.cond then g.id :: (detect e g.id rule.cond).ancillary.map (·.1) else [])

/-- the chains of a rule, as lists of genes in record order -/
def chainsOf (r : Rec) (rule : RuleM) : List (List GeneInfo) :=
  let a := anchorSet r rule
  components (fun x y => nearB (ringL r) rule.cutoff x.loc y.loc) (r.genes.filter fun g => a.contains g.id)

/-! ### the verdict on reported protoclusters -/

structure ImplPC where
  rule : String
  core : Loc
  loc : Loc
deriving Repr, Inhabited

structure Verdict where
  ok : Bool
  why : String := ""
  known : String := ""
  groups : Nat := 0
  maxGroup : Nat := 0
  /-- some chain spans half of a ring or more: `connect_locations` may close such a span either way
      round (outside C04's guarantee); the rule is then left to the correspondence -/
  longChain : Bool := false
deriving Repr, Inhabited

def partOK (len : Int) (p : Part) : Bool := decide (0 ≤ p.lo) && decide (p.lo < p.hi) && decide (p.hi ≤ len)

/-- the inputs the property quantifies over: a positive record length, genes inside the record with
    non-empty parts and distinct names (exon order may cross the origin only on a circular record),
    non-negative distances, distinct rule names, conditions in the documented grammar -/
def inputsWF (r : Rec) (rules : List RuleM) : Bool :=
  decide (0 < r.len)
  && r.genes.all (fun g => !g.loc.parts.isEmpty && g.loc.parts.all (partOK r.len) && (r.circular || !bridgesOrigin g.loc)
                            && (!bridgesOrigin g.loc || (splitBridging g.loc).toOption.isSome))
  && (dedupNat (r.genes.map (·.id))).length == r.genes.length
  && rules.all (fun x => decide (0 ≤ x.cutoff) && decide (0 ≤ x.nbhd) && x.cond.WF
                          && (match x.extenders with | some c => c.WF | none => true))
  && (rules.map (·.name)).eraseDups.length == rules.length

/-- does the reported core cover the chain, and tightly? (line: it is the hull; ring: a well-formed
    area covering every member's span, of the shortest possible length whenever the chain spans less than
    half of the ring — longer chains may be closed either way round) -/
def coreCovers (r : Rec) (core : Loc) (chain : List GeneInfo) : Bool :=
  subsetIvs (unionCanon r.len (chain.map (·.loc))) core.canon

def coreTight (r : Rec) (core : Loc) (chain : List GeneInfo) : Bool :=
  if r.circular then
    let u := unionCanon r.len (chain.map (·.loc))
    areaWF r.len r.len core && (decide (2 * shortestArc r.len u ≥ r.len) || ivsLen core.canon == shortestArc r.len u)
  else
    match core.parts with
    | [p] => (p.lo, p.hi) == hullIv (chain.map (·.loc))
    | _ => false

/-- the reported protocluster is its own core widened by the neighbourhood; when that is the whole
    ring and the core spans the origin, the two ends meet leaving at most one base out -/
def nbhdOK (r : Rec) (nbhd : Int) (pc : ImplPC) : Bool :=
  let expected := withinDist r.circular r.len nbhd pc.core
  areaWF (ringL r) r.len pc.loc &&
  (pc.loc.canon == expected ||
    (r.circular && expected == [(0, r.len)] && bridgesOrigin pc.core && subsetIvs pc.core.canon pc.loc.canon
      && decide (ivsLen pc.loc.canon ≥ r.len - 1)))

/-- first and last gene (record order) inside a hull on a line -/
def firstLastIn (r : Rec) (h : Iv) : Option (Loc × Loc) :=
  let inside := r.genes.filter fun g => locationContainsOther (.simple ⟨h.1, h.2, .fwd⟩) g.loc
  match inside.head?, inside.getLast? with
  | some a, some b => some (a.loc, b.loc)
  | _, _ => none

def ltLoc (a b : Loc) : Bool := (featureLt a b).toOption.getD false

/-- on a linear record: is the chain's hull covered by the hull of a chain of a superior rule (the
    property's reading), and does a superior chain's gene range merely interleave with it (what the
    implementation additionally drops — KF-C03-superior-overlap)? -/
def superiorStatus (r : Rec) (rules : List RuleM) (rule : RuleM) (chain : List GeneInfo) : Bool × Bool :=
  let h := hullIv (chain.map (·.loc))
  let supChains := (rules.filter fun s => rule.superiors.contains s.name).flatMap fun s => chainsOf r s
  let covered := supChains.any fun c => let k := hullIv (c.map (·.loc)); decide (k.1 ≤ h.1) && decide (h.2 ≤ k.2)
  let interleaves := supChains.any fun c =>
    match firstLastIn r (hullIv (c.map (·.loc))), firstLastIn r h with
    | some (of, ol), some (f, l) => !(ltLoc ol f) && !(ltLoc l of)
    | _, _ => false
  (covered, interleaves)

/-! ### EXTENDERS: "plus any genes admitted by the rule's EXTENDERS clause" -/

/-- a record consisting of the gene alone (what `can_extend_to` evaluates the clause in) -/
def selfEnv (g : GeneInfo) (cutoff : Int) : Env :=
  Env.ofLocs [g.id] [g.id] (fun h => if h == g.id then g.hits else []) (fun _ => g.loc) cutoff 0

/-- the gene satisfies the EXTENDERS clause, by the documented meaning of the condition -/
def extOK (rule : RuleM) (g : GeneInfo) : Bool :=
  match rule.extenders with
  | some c => sem (selfEnv g rule.cutoff) g.id c
  | none => false

/-- the walk outwards from the core, as rules: genes inside the core are no candidates; the walk ends at
    the first gene further than the cutoff from the reference gene; a gene within the cutoff that
    satisfies the clause is admitted and becomes the reference; one that does not is stepped over -/
inductive ExtWalk (c : Int) (dist : GeneInfo → GeneInfo → Int) (ext inCore : GeneInfo → Bool) :
    GeneInfo → List GeneInfo → List GeneInfo → Prop
  | done (ref : GeneInfo) : ExtWalk c dist ext inCore ref [] []
  | inside {ref x rest adm} : inCore x = true → ExtWalk c dist ext inCore ref rest adm →
      ExtWalk c dist ext inCore ref (x :: rest) adm
  | stop {ref x rest} : inCore x = false → dist x ref > c → ExtWalk c dist ext inCore ref (x :: rest) []
  | accept {ref x rest adm} : inCore x = false → dist x ref ≤ c → ext x = true →
      ExtWalk c dist ext inCore x rest adm → ExtWalk c dist ext inCore ref (x :: rest) (x :: adm)
  | stepOver {ref x rest adm} : inCore x = false → dist x ref ≤ c → ext x = false →
      ExtWalk c dist ext inCore ref rest adm → ExtWalk c dist ext inCore ref (x :: rest) adm

/-- the admitted genes, computed -/
def specWalk (c : Int) (dist : GeneInfo → GeneInfo → Int) (ext inCore : GeneInfo → Bool) :
    GeneInfo → List GeneInfo → List GeneInfo
  | _, [] => []
  | ref, x :: rest =>
    if inCore x then specWalk c dist ext inCore ref rest
    else if dist x ref > c then []
    else if ext x then x :: specWalk c dist ext inCore x rest
    else specWalk c dist ext inCore ref rest

def ltLoc' (a b : Loc) : Bool := (featureLt a b).toOption.getD false

/-- the genes before (nearest first) and after the core in gene order -/
def walkBack (r : Rec) (core : Loc) : List GeneInfo :=
  (r.genes.take (r.genes.takeWhile fun g => ltLoc' g.loc core).length).reverse
def walkForward (r : Rec) (core : Loc) : List GeneInfo :=
  r.genes.drop (r.genes.takeWhile fun g => ltLoc' g.loc core).length

/-- on a linear record: the hull of a chain (`h`) together with the genes its rule's EXTENDERS clause
    admits, walking outwards from the first / last gene inside the hull -/
def extendedHull (r : Rec) (rule : RuleM) (h : Iv) : Option Iv :=
  let core : Loc := .simple ⟨h.1, h.2, .fwd⟩
  let inside := r.genes.filter fun g => locationContainsOther core g.loc
  match inside.head?, inside.getLast? with
  | some first, some last =>
    let dist := fun (a b : GeneInfo) => specDistFull 0 a.loc b.loc
    let back := specWalk rule.cutoff dist (extOK rule) (fun g => locationContainsOther core g.loc) first (walkBack r core)
    let h1 := hullIv (core :: back.map (·.loc))
    let core1 : Loc := .simple ⟨h1.1, h1.2, .fwd⟩
    let forw := specWalk rule.cutoff dist (extOK rule) (fun g => locationContainsOther core1 g.loc) last (walkForward r core)
    some (hullIv (core1 :: forw.map (·.loc)))
  | _, _ => none

def insIv (x : Iv) : List Iv → List Iv
  | [] => [x]
  | y :: ys => if x.1 < y.1 || (x.1 == y.1 && x.2 < y.2) then x :: y :: ys
               else if x == y then y :: ys else y :: insIv x ys
def sortIvSet (l : List Iv) : List Iv := l.foldr insIv []

/-- the cores expected for a rule with EXTENDERS on a linear record: every chain's hull extended by
    the admitted genes, extended cores within the cutoff of each other joined -/
def extendedHulls (r : Rec) (rule : RuleM) : Option (List Iv) :=
  let hulls := (chainsOf r rule).map fun c => extendedHull r rule (hullIv (c.map (·.loc)))
  if hulls.any (·.isNone) then none else some (hulls.filterMap id)

def expectedExtCores (r : Rec) (rule : RuleM) : Option (List Iv) :=
  (extendedHulls r rule).map fun hulls =>
    sortIvSet ((components (nearB 0 rule.cutoff) (hulls.map fun x => Loc.simple ⟨x.1, x.2, .fwd⟩)).map hullIv)

/-- are the reported cores of a rule with EXTENDERS the expected ones?  Without superiors exactly; with
    superiors (some extended cores may have been dropped before the joining) every reported core must be
    the span of the extended cores it contains -/
def extCoresOK (r : Rec) (rule : RuleM) (got : List Iv) : Bool :=
  match extendedHulls r rule, expectedExtCores r rule with
  | some hulls, some expected =>
    if rule.superiors.isEmpty then sortIvSet got == expected
    else got.all fun g =>
      let inside := hulls.filter fun h => decide (g.1 ≤ h.1) && decide (h.2 ≤ g.2)
      !inside.isEmpty && (minList (inside.map (·.1)), maxList (inside.map (·.2))) == g
  | _, _ => false

/-! #### EXTENDERS on a ring: the walk goes on round the record -/

/-- the genes before the core nearest first, continuing from the end of the record round to the core;
    the genes from the core on, continuing from the start of the record -/
def walkBackRing (r : Rec) (core : Loc) : List GeneInfo :=
  let idx := (r.genes.takeWhile fun g => ltLoc' g.loc core).length
  (r.genes.take idx).reverse ++ (r.genes.drop (idx + 1)).reverse
def walkForwardRing (r : Rec) (core : Loc) : List GeneInfo :=
  let idx := (r.genes.takeWhile fun g => ltLoc' g.loc core).length
  r.genes.drop idx ++ r.genes.take idx

/-- the span of a core and further genes on a ring (`connect_locations`, C04: covers its inputs, a
    well-formed area, the shortest arc when that is less than half of the ring) -/
def joinRing (r : Rec) (core : Loc) (gs : List GeneInfo) : Option Loc :=
  gs.foldlM (fun c g => (connect [g.loc, c] (some r.len)).toOption) core

/-- on a circular record: a chain's core together with the genes its rule's EXTENDERS clause admits,
    walking outwards both ways round the ring from the first / last gene inside the core, distances
    measured the shorter way round -/
def extendedCoreRing (r : Rec) (rule : RuleM) (chain : List GeneInfo) : Option Loc := do
  let core ← (connect (chain.map (·.loc)) (some r.len)).toOption
  let inside := withinSpec r core false
  let first ← inside.head?
  let last ← inside.getLast?
  let dist := fun (a b : GeneInfo) => specDistFull r.len a.loc b.loc
  let back := specWalk rule.cutoff dist (extOK rule) (fun g => locationContainsOther core g.loc) first (walkBackRing r core)
  let core1 ← joinRing r core back
  let forw := specWalk rule.cutoff dist (extOK rule) (fun g => locationContainsOther core1 g.loc) last (walkForwardRing r core)
  joinRing r core1 forw

/-- ring: every reported core of a rule with EXTENDERS is the span of the extended cores of the chains
    it covers -/
def extCoresRingOK (r : Rec) (rule : RuleM) (mine : List ImplPC) : Bool :=
  let chains := chainsOf r rule
  mine.all fun pc =>
    let covered := chains.filter fun c => subsetIvs (unionCanon r.len (c.map (·.loc))) pc.core.canon
    match covered.mapM (extendedCoreRing r rule) with
    | none => false
    | some [] => false
    | some exts =>
      match (connect exts (some r.len)).toOption with
      | some expected => expected.canon == pc.core.canon
      | none => false

def verdictRule (r : Rec) (rules : List RuleM) (impl : List ImplPC) (rule : RuleM) : Verdict :=
  let chains := chainsOf r rule
  let mine := impl.filter (·.rule == rule.name)
  let plain := rule.extenders.isNone
  let stats : Verdict := { ok := true, groups := chains.length, maxGroup := (chains.map (·.length)).foldl max 0 }
  if r.circular && (chains.any fun c => decide (2 * shortestArc r.len (unionCanon r.len (c.map (·.loc))) ≥ r.len)) then
    { stats with longChain := true }
  -- every reported protocluster is its core widened by the neighbourhood
  else if !(mine.all (nbhdOK r rule.nbhd)) then { stats with ok := false, why := s!"{rule.name}: protocluster is not its core widened by the neighbourhood" }
  -- no protocluster without a chain; without EXTENDERS exactly one chain per protocluster, tightly
  else if !(mine.all fun pc => chains.any fun c => coreCovers r pc.core c) then
    { stats with ok := false, why := s!"{rule.name}: a protocluster covers no chain of anchoring genes" }
  else if plain && !(mine.all fun pc => (chains.filter fun c => coreCovers r pc.core c).length == 1) then
    { stats with ok := false, why := s!"{rule.name}: a protocluster covers more than one chain" }
  else if plain && !(mine.all fun pc => chains.all fun c => !coreCovers r pc.core c || coreTight r pc.core c) then
    { stats with ok := false, why := s!"{rule.name}: a core is not the smallest span covering its chain" }
  else if !(chains.all fun c => (mine.filter fun pc => coreCovers r pc.core c).length ≤ 1) then
    { stats with ok := false, why := s!"{rule.name}: a chain lies in more than one protocluster" }
  else if !plain && !r.circular && !extCoresOK r rule (mine.map fun pc => (pc.core.start, pc.core.end)) then
    { stats with ok := false, why := s!"{rule.name}: a core is not its chain plus the genes admitted by EXTENDERS" }
  else if !plain && r.circular && !extCoresRingOK r rule mine then
    { stats with ok := false, why := s!"{rule.name}: a core is not its chain plus the genes admitted by EXTENDERS" }
  else
    -- chains without a protocluster / with one: the superiors clause
    let judgeable := !r.circular && (rules.all fun x => x.extenders.isNone)
    chains.foldl (fun (v : Verdict) c =>
      if !v.ok && v.known == "" then v else
      let kept := mine.any fun pc => coreCovers r pc.core c
      if rule.superiors.isEmpty then
        if kept then v else { v with ok := false, known := "", why := s!"{rule.name}: a chain has no protocluster" }
      else if !judgeable then v
      else
        let (covered, interleaves) := superiorStatus r rules rule c
        if kept && covered then { v with ok := false, known := "", why := s!"{rule.name}: kept although a superior covers its core" }
        else if !kept && !covered then
          if interleaves then { v with ok := false, known := "KF-C03-superior-overlap",
                                       why := s!"{rule.name}: dropped although no superior covers its core (a superior core intersects it)" }
          else { v with ok := false, known := "", why := s!"{rule.name}: dropped although no superior core touches it" }
        else v) stats

/-- output-level reading of "dropped when the cluster of one of its SUPERIORS covers its core genes", on
    lines and rings alike: no reported protocluster may have every base of its core inside the core of a
    reported protocluster of one of the superiors its rule lists (cores read as sets of bases) -/
def reportedUnderSuperior (rules : List RuleM) (pcs : List ImplPC) : Option (ImplPC × ImplPC) :=
  pcs.findSome? fun low =>
    match rules.find? (·.name == low.rule) with
    | none => none
    | some rule =>
      (pcs.find? fun high => rule.superiors.contains high.rule && subsetIvs low.core.canon high.core.canon).map
        fun high => (low, high)

/-- the spec evaluated on the reported protoclusters (`none`: the implementation raised) -/
def verdict (r : Rec) (rules : List RuleM) (impl : Option (List ImplPC)) : Verdict :=
  match impl with
  | none => { ok := false, why := "the implementation raised an exception" }
  | some pcs =>
    if !(pcs.all fun pc => rules.any (·.name == pc.rule)) then { ok := false, why := "protocluster of an unknown rule" }
    else if let some (low, high) := reportedUnderSuperior rules pcs then
      { ok := false, why := s!"a protocluster of {low.rule} is reported although the core of a protocluster of its superior {high.rule} covers its core" }
    else
      rules.foldl (fun (v : Verdict) rule =>
        let w := verdictRule r rules pcs rule
        if !v.ok && v.known == "" then v
        else if !w.ok then { w with groups := v.groups + w.groups, maxGroup := max v.maxGroup w.maxGroup, longChain := v.longChain || w.longChain,
                                     known := if w.known != "" then w.known else "", why := w.why }
        else { v with groups := v.groups + w.groups, maxGroup := max v.maxGroup w.maxGroup, longChain := v.longChain || w.longChain })
        { ok := true }

end ASV.Chains
