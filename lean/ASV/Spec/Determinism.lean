/-
  C17 spec: what "the result does not depend on the process or hash seed" means for a stage that
  reads hash-ordered containers, written independently of the stages themselves.

  A Python `set` (or the key view of a dict filled by iterating one) shows itself to the program
  only through *some* enumeration of its members.  Two runs of the same command on the same input
  build the same sets and may see any two enumerations.  Hence:

    * a stage reading ONE container is deterministic  ⇔  `EnumerationInvariant stage`
      (any two permutations of the members give the same result);
    * a stage reading a list of containers in a fixed order (a dict of sets, the feature lists of a
      record) is deterministic ⇔ it gives the same result on `Pointwise`-permuted inputs.

  Executable parts (evaluated by the driver on the implementation's output): `isPermB`,
  `canonicalBy` ("the output is the members listed in non-decreasing key order"), `hasKeyTie` (the
  decidable class on which a keyed sort cannot be canonical), `allSame` (a batch of outputs obtained
  from different enumerations / child processes is a single value).
-/
namespace ASV.Determinism

/-- same length, related position by position -/
inductive Pointwise {α β : Type} (R : α → β → Prop) : List α → List β → Prop
  | nil : Pointwise R [] []
  | cons {a b l₁ l₂} : R a b → Pointwise R l₁ l₂ → Pointwise R (a :: l₁) (b :: l₂)

/-- a stage reading one hash-ordered container gives one answer for all its enumerations -/
def EnumerationInvariant {α β : Type} (stage : List α → β) : Prop :=
  ∀ l₁ l₂ : List α, l₁.Perm l₂ → stage l₁ = stage l₂

/-- the same, for containers satisfying `P` (e.g. "no two members share a sort key") -/
def EnumerationInvariantOn {α β : Type} (P : List α → Prop) (stage : List α → β) : Prop :=
  ∀ l₁ l₂ : List α, P l₁ → l₁.Perm l₂ → stage l₁ = stage l₂

/-- a dict `key ↦ set`: same keys in the same order, every set enumerated arbitrarily -/
def SameDictOfSets {κ α : Type} (d₁ d₂ : List (κ × List α)) : Prop :=
  Pointwise (fun a b => a.1 = b.1 ∧ a.2.Perm b.2) d₁ d₂

/-! ### executable -/

/-- multiset equality -/
def isPermB {α : Type} [DecidableEq α] (a b : List α) : Bool :=
  a.all (fun x => a.count x == b.count x) && b.all (fun x => a.count x == b.count x)

/-- every earlier element is related to every later one -/
def pairwiseAll {α : Type} (r : α → α → Bool) : List α → Bool
  | [] => true
  | a :: l => l.all (r a) && pairwiseAll r l

/-- `out` lists exactly the members, in non-decreasing key order (`ltK` strict, linear on keys) -/
def canonicalBy {α κ : Type} [DecidableEq α] (key : α → κ) (ltK : κ → κ → Bool) (members out : List α) : Bool :=
  isPermB members out && pairwiseAll (fun a b => !ltK (key b) (key a)) out

/-- two different members carry the same key: no keyed sort can order them canonically -/
def hasKeyTie {α κ : Type} [DecidableEq α] [DecidableEq κ] (key : α → κ) : List α → Bool
  | [] => false
  | a :: l => l.any (fun b => decide (a ≠ b) && decide (key a = key b)) || hasKeyTie key l

/-- all values of a batch are one value -/
def allSame {α : Type} [DecidableEq α] : List α → Bool
  | [] => true
  | a :: l => l.all (fun b => decide (b = a))

/-- strict lexicographic order on the 5-tuple keys used by `get_unique_protoclusters` -/
def tripleLt (a b : Int × Int × Int × Int × Int) : Bool :=
  decide (a.1 < b.1) || (decide (a.1 = b.1) && (decide (a.2.1 < b.2.1) || (decide (a.2.1 = b.2.1) &&
    (decide (a.2.2.1 < b.2.2.1) || (decide (a.2.2.1 = b.2.2.1) && (decide (a.2.2.2.1 < b.2.2.2.1) ||
      (decide (a.2.2.2.1 = b.2.2.2.1) && decide (a.2.2.2.2 < b.2.2.2.2))))))))

/-- strict order on names (ranks) -/
def intLt (a b : Int) : Bool := decide (a < b)

end ASV.Determinism
