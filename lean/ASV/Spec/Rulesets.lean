/-
  Spec for C02, "cutoff and neighbourhood are read in kilobases and scaled by the multipliers":
  whatever rulesets a process asks for, in whatever order, each one holds the rules of its
  strictness that match its name/category restriction, every distance being the parsed one
  (kilobases × 1000) scaled by *that* ruleset's multipliers, once: `⌊d · p / q⌋`.
-/
import ASV.Model.Rulesets
namespace ASV.Rulesets
open ASV ASV.Parser

/-- is the rule wanted by the restriction (an empty restriction wants everything) -/
def wantedRule (names cats : List String) (r : Rule) : Bool :=
  (names.isEmpty || names.contains r.name) && (cats.isEmpty || cats.contains r.category)

/-- the rules a ruleset for (`names`, `cats`, multipliers) must hold, given the parsed rule files -/
def wanted (parsed : List Rule) (names cats : List String) (m : Mul) : List Rule :=
  (parsed.filter (wantedRule names cats)).map fun r =>
    { r with cutoff := r.cutoff * m.cutoff.1 / m.cutoff.2,
             neighbourhood := r.neighbourhood * m.neighbourhood.1 / m.neighbourhood.2 }

/-- options `check_options` must let through, and only these: positive fungal multipliers, requested
    rule names that exist in the rule files of the strictness, requested categories that exist -/
def optionsOk (parsed : List Rule) (allCats : List String) (q : Req) : Bool :=
  decide (0 < q.cmul.1) && decide (0 < q.nmul.1) && q.names.all (fun n => parsed.any (·.name == n))
    && q.cats.all (allCats.contains ·)

end ASV.Rulesets
