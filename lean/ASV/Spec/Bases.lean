/-
  Spec for C04 (and its users): locations as *sets of bases* on a line or a ring.
  Everything here is executable, so the definitions the theorems talk about are also evaluated
  on the implementation's outputs by the driver.
-/
import ASV.Model.Loc
namespace ASV

/-- number of bases strictly between two non-empty simple parts on a line (0 when they touch
    or overlap) -/
def lineGap (a b : Part) : Int :=
  if a.hi ≤ b.lo then b.lo - a.hi else if b.hi ≤ a.lo then a.lo - b.hi else 0

/-- two simple parts share a base -/
def Part.SharesBase (a b : Part) : Prop := ∃ i : Int, a.mem i = true ∧ b.mem i = true

/-- two locations share a base -/
def Loc.SharesBase (a b : Loc) : Prop := ∃ i : Int, a.mem i = true ∧ b.mem i = true

/-! ### bases strictly between two positions -/

/-- number of bases strictly between positions `i ≠ j` on a line -/
def lineBetween (i j : Int) : Int := iabs (i - j) - 1
/-- … on a ring of length `L`, the shorter way round -/
def ringBetween (L i j : Int) : Int := min (iabs (i - j)) (L - iabs (i - j)) - 1
/-- `L = 0` means a line -/
def between (L i j : Int) : Int := if L = 0 then lineBetween i j else ringBetween L i j

/-- `d` is the distance of the base sets `a`, `b`: 0 if they share a base, else the least number of
    bases strictly between a base of `a` and a base of `b` (attained, and a lower bound) -/
def IsDist (L : Int) (a b : Loc) (d : Int) : Prop :=
  (a.SharesBase b ∧ d = 0) ∨
  (¬ a.SharesBase b ∧ (∃ i j, a.mem i = true ∧ b.mem j = true ∧ between L i j = d) ∧
    ∀ i j, a.mem i = true → b.mem j = true → d ≤ between L i j)

/-- closed form for two disjoint non-empty parts inside `[0, L]` -/
def specPartDist (L : Int) (p q : Part) : Int :=
  if L = 0 then lineGap p q
  else if p.hi ≤ q.lo then min (q.lo - p.hi) (p.lo + L - q.hi)
  else if q.hi ≤ p.lo then min (p.lo - q.hi) (q.lo + L - p.hi)
  else 0

/-- executable distance of two locations read as sets of bases -/
def specDist (L : Int) (a b : Loc) : Int :=
  minList (a.parts.flatMap fun p => b.parts.map fun q => specPartDist L p q)

/-- executable "share a base": if two intervals meet, the larger of their starts lies in both -/
def sharesPts (a b : Loc) : Bool :=
  (a.parts.map (·.lo) ++ b.parts.map (·.lo)).any fun i => a.mem i && b.mem i

/-- the distance of two locations read as sets of bases: 0 when they share a base -/
def specDistFull (L : Int) (a b : Loc) : Int := if sharesPts a b then 0 else specDist L a b

/-! ### canonical form of a set of bases: sorted, disjoint, non-adjacent, non-empty intervals -/

abbrev Iv := Int × Int

def insertIv (x : Iv) : List Iv → List Iv
  | [] => [x]
  | y :: ys => if x.1 ≤ y.1 then x :: y :: ys else y :: insertIv x ys

def sortIvs (l : List Iv) : List Iv := l.foldr insertIv []

/-- merge a sorted list of non-empty intervals -/
def mergeSorted : List Iv → List Iv
  | [] => []
  | [x] => [x]
  | x :: y :: rest =>
    if y.1 ≤ x.2 then mergeSorted ((x.1, max x.2 y.2) :: rest)
    else x :: mergeSorted (y :: rest)
termination_by l => l.length

def canonIvs (l : List Iv) : List Iv := mergeSorted (sortIvs (l.filter fun x => x.1 < x.2))

def canon (ps : List Part) : List Iv := canonIvs (ps.map fun p => (p.lo, p.hi))

def Loc.canon (l : Loc) : List Iv := ASV.canon l.parts

def ivsMem (l : List Iv) (i : Int) : Bool := l.any fun x => decide (x.1 ≤ i) && decide (i < x.2)
def ivsLen (l : List Iv) : Int := (l.map fun x => x.2 - x.1).sum

/-- rotate an interval inside `[0, L]` by `k` (split at the origin when needed) -/
def rotateIv (L k : Int) (x : Iv) : List Iv :=
  let s := (x.1 + k) % L
  let e := s + (x.2 - x.1)
  if e ≤ L then [(s, e)] else [(s, L), (0, e - L)]

/-- reduce an interval that may stick out of `[0, L)` on either side to intervals inside it -/
def wrapIv (L : Int) (x : Iv) : List Iv :=
  if x.2 - x.1 ≥ L then [(0, L)]
  else rotateIv L 0 (x.1 % L, x.1 % L + (x.2 - x.1))

/-! ### well-formedness of spans ("areas") -/

/-- parts non-empty, inside `[0, L]`, mutually disjoint, at most two, and then the first ends at
    `L` and the second starts at the origin (`L = 0`: linear, a single part) -/
def areaWF (L : Int) (len : Int) (l : Loc) : Bool :=
  match l.parts with
  | [p] => decide (0 ≤ p.lo) && decide (p.lo < p.hi) && decide (p.hi ≤ len)
  | [p, q] => decide (L ≠ 0) && decide (0 ≤ p.lo) && decide (p.lo < p.hi) && decide (p.hi = L)
                && decide (q.lo = 0) && decide (q.lo < q.hi) && decide (q.hi ≤ p.lo)
  | _ => false

/-- every part non-empty and inside the record -/
def partsInside (len : Int) (l : Loc) : Bool :=
  l.parts.all fun p => decide (0 ≤ p.lo) && decide (p.lo < p.hi) && decide (p.hi ≤ len)

/-- parts mutually disjoint -/
def partsDisjoint : List Part → Bool
  | [] => true
  | p :: ps => ps.all (fun q => !partsOverlap p q) && partsDisjoint ps

/-! ### shortest covering arc on a ring -/

/-- gaps between consecutive canonical intervals going round the ring (incl. the one over the origin) -/
def ringGaps (L : Int) (c : List Iv) : List Int :=
  match c with
  | [] => []
  | first :: _ =>
    let rec go : List Iv → List Int
      | [] => []
      | [x] => [first.1 + L - x.2]
      | x :: y :: rest => (y.1 - x.2) :: go (y :: rest)
    go c

/-- length of the shortest arc covering all bases of the canonical set `c` -/
def shortestArc (L : Int) (c : List Iv) : Int := L - maxList (ringGaps L c)

end ASV
