/-
  Spec for C04 (and users): locations as sets of bases on a line or ring.
-/
import ASV.Model.Loc
namespace ASV

/-- number of bases strictly between two non-empty simple parts on a line (0 when they touch
    or overlap) -/
def lineGap (a b : Part) : Int :=
  if a.hi ≤ b.lo then b.lo - a.hi else if b.hi ≤ a.lo then a.lo - b.hi else 0

/-- two simple parts share a base -/
def Part.SharesBase (a b : Part) : Prop := ∃ i : Int, a.mem i = true ∧ b.mem i = true

end ASV
