/-
  C16 spec — what "sanitised identifiers" means, written on plain outputs (no reference to how
  the code computes them).  All definitions are `Bool` so that the driver evaluates the very
  same definitions on the implementation's output that the theorems of Props/C16 talk about.
-/
import ASV.Model.Loc
import ASV.Generated.Ids
namespace ASV.IdSpec
open ASV.Generated.Ids

/-- one record after pre-processing: id, name, original_id -/
structure Out where
  id : List Char
  name : List Char
  orig : Option (List Char)
  deriving DecidableEq, Repr

/-- no two positions hold the same value -/
def pairwiseDistinct {α} [BEq α] : List α → Bool
  | [] => true
  | x :: xs => xs.all (fun y => !(y == x)) && pairwiseDistinct xs

/-- none of the characters unusable in file names / GenBank headers occurs -/
def fileSafe (s : List Char) : Bool := illegalRecordChars.all fun bad => !s.contains bad

/-- at most 16 characters unless long headers are allowed -/
def shortEnough (allowLong : Bool) (s : List Char) : Bool := allowLong || decide (s.length ≤ 16)

/-- the record remembers its original identifier exactly when the identifier changed -/
def remembers (inputId : List Char) (o : Out) : Bool :=
  if o.id == inputId then o.orig == none else o.orig == some inputId

def remembersAll : List (List Char) → List Out → Bool
  | [], [] => true
  | i :: is, o :: os => remembers i o && remembersAll is os
  | _, _ => false      -- a record was lost or invented

/-- the whole record-level property on (input ids, setting, output records) -/
def recordsOk (allowLong : Bool) (inputIds : List (List Char)) (outs : List Out) : Bool :=
  pairwiseDistinct (outs.map (·.id))
  && outs.all (fun o => fileSafe o.id && fileSafe o.name)
  && outs.all (fun o => shortEnough allowLong o.id && shortEnough allowLong o.name)
  && remembersAll inputIds outs

/-- `generate_unique_id`, whenever it returns: the id is not one of the existing ids and, when a
    positive `max_length` was given, not longer than it -/
def uniqueOk (taken : List (List Char)) (maxLength : Int) (name : List Char) : Bool :=
  !taken.contains name && (decide (maxLength ≤ 0) || decide ((name.length : Int) ≤ maxLength))

/-- Python falsiness of an optional string -/
def falsy : Option (List Char) → Bool
  | none => true
  | some s => s.isEmpty

/-- one `fix_record_name_id` call on a record (old id, old original_id) with id set `taken`,
    giving record `o` and set `taken'`: clean, short, the new id is the old one or was free, the
    set only grows and holds the new id (when it held the old one), original_id as documented -/
def fixOk (allowLong : Bool) (taken : List (List Char)) (oldId : List Char) (oldOrig : Option (List Char))
    (o : Out) (taken' : List (List Char)) : Bool :=
  fileSafe o.id && fileSafe o.name && shortEnough allowLong o.id && shortEnough allowLong o.name
  && (o.id == oldId || !taken.contains o.id)
  && taken.all (fun y => taken'.contains y) && (!taken.contains oldId || taken'.contains o.id)
  && o.orig == (if falsy oldOrig && o.id != oldId then some oldId else oldOrig)

/-- gene identifiers contain no character that breaks external programs -/
def geneSafe (s : List Char) : Bool := illegalGeneChars.all fun bad => !s.contains bad

/-- gene level: the CDS features of a record have pairwise distinct names and locations -/
def genesOk (cdss : List (List Char × Loc)) : Bool :=
  pairwiseDistinct (cdss.map (·.1)) && pairwiseDistinct (cdss.map (·.2)) && cdss.all (fun c => geneSafe c.1)

end ASV.IdSpec
