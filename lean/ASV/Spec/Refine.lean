/-
  Spec for C13, refinement part: what the property text promises about the hits returned for one
  protein, written as executable `Bool` relations between the input hits and an output list (so
  the very same definitions are evaluated on the implementation's output by the driver).
  Nothing here follows the control flow of the code.
-/
import ASV.Model.Refine
namespace ASV.Refine

/-- `r` holds between every element and every later element -/
def pairwiseB {α} (r : α → α → Bool) : List α → Bool
  | [] => true
  | a :: l => l.all (r a) && pairwiseB r l

/-- all sub-lists (order kept); only used to search for a fragment set in the driver -/
def sublistsOf {α} : List α → List (List α)
  | [] => [[]]
  | a :: l => let r := sublistsOf l; r ++ r.map (a :: ·)

/-! ### "ordered by position" -/
def sortedByStart (out : List Hit) : Bool := pairwiseB (fun a b => decide (a.qs ≤ b.qs)) out

/-! ### "no two overlap by more than the allowed margin" (20 % of the longer profile) -/

/-- number of shared residues (≤ 0 when disjoint) -/
def overlapLen (a b : Hit) : Int := min a.qe b.qe - max a.qs b.qs

/-- margin in fifths of a residue: `5 · 0.20 · max(len_a, len_b)` -/
def margin5 (env : Env) (a b : Hit) : Int := max (env.len a.prof) (env.len b.prof)

def withinMargin (env : Env) (a b : Hit) : Bool := decide (5 * overlapLen a b ≤ margin5 env a b)

def noExcessOverlap (env : Env) (out : List Hit) : Bool := pairwiseB (withinMargin env) out

/-- the stronger form the code aims at: measured to the *end of the earlier hit* (a later hit
    nested in an earlier one counts with the whole remainder of the earlier hit) -/
def startsClear (env : Env) (a b : Hit) : Bool := decide (5 * a.qe - margin5 env a b ≤ 5 * b.qs)

def allStartClear (env : Env) (out : List Hit) : Bool := pairwiseB (startsClear env) out

/-- the same with one margin `m5` (fifths) for every pair — holds with `m5` = the longest profile -/
def allStartClearBy (m5 : Int) (out : List Hit) : Bool :=
  pairwiseB (fun a b => decide (5 * a.qe - m5 ≤ 5 * b.qs)) out

/-! ### "an input hit or the merge of same-profile fragments close enough to be one domain
        (spanning them, with their best score)" -/

/-- `o` spans the non-empty fragment list `F`: one profile, earliest start, latest end,
    best (smallest) e-value and best (largest) score among the fragments -/
def isSpanOf (F : List Hit) (o : Hit) : Bool :=
  !F.isEmpty
  && F.all (fun f => f.prof == o.prof && decide (o.qs ≤ f.qs) && decide (f.qe ≤ o.qe)
                     && decide (o.ev ≤ f.ev) && decide (f.sc ≤ o.sc))
  && F.any (fun f => f.qs == o.qs) && F.any (fun f => f.qe == o.qe)
  && F.any (fun f => f.ev == o.ev) && F.any (fun f => f.sc == o.sc)

/-- close enough to be one domain: the first fragment starts the merged hit and every other
    fragment ends less than 1.5 profile lengths after that start -/
def closeEnough (env : Env) (F : List Hit) (o : Hit) : Bool :=
  match F with
  | [] => false
  | f₀ :: rest => f₀.qs == o.qs && rest.all fun f => decide (2 * (f.qe - o.qs) < 3 * env.len o.prof)

def isMergeOf (env : Env) (F : List Hit) (o : Hit) : Bool := isSpanOf F o && closeEnough env F o

/-- executable search for the fragment list among the input hits (sorted by position) -/
def provenanceOK (env : Env) (input : List Hit) (o : Hit) : Bool :=
  input.contains o ||
  (sublistsOf (input.filter fun f => f.prof == o.prof && decide (o.qs ≤ f.qs) && decide (f.qe ≤ o.qe))).any
    fun F => isMergeOf env F o

def allProvenanceOK (env : Env) (input out : List Hit) : Bool := out.all (provenanceOK env input)

/-! ### merging loses nothing: every fragment is inside a hit of its profile that carries at
        least its score and at most its e-value -/
def covers (m x : Hit) : Bool :=
  m.prof == x.prof && decide (m.qs ≤ x.qs) && decide (x.qe ≤ m.qe) && decide (x.sc ≤ m.sc) && decide (m.ev ≤ x.ev)

def allCovered (input out : List Hit) : Bool := input.all fun x => out.any fun m => covers m x

/-! ### "a hit is dropped only if a better-ranked overlapping hit is kept" (overlap stage) -/

/-- `k` outranks `d`: higher score, or the same score (the earlier one wins ties, which the
    position-sorted input decides) -/
def outranks (k d : Hit) : Bool := decide (d.sc ≤ k.sc)

/-- the two hits collide in the sense of `startsClear` (earlier-starting one first) -/
def collide (env : Env) (a b : Hit) : Bool :=
  if a.qs ≤ b.qs then !startsClear env a b || (a.qs == b.qs && !startsClear env b a) else !startsClear env b a

/-- `k` outranks `d` in the list `l`: the higher score, and of two equal scores the one that comes
    first in `l` (the tie rule of the overlap pass) -/
def RanksAbove (l : List Hit) (k d : Hit) : Prop :=
  d.sc < k.sc ∨ (k.sc = d.sc ∧ ∃ i j : Nat, i < j ∧ l[i]? = some k ∧ l[j]? = some d)

def droppedJustified (env : Env) (input out : List Hit) : Bool :=
  input.all fun d => out.contains d || out.any fun k => collide env k d && outranks k d

/-! ### neighbour mode (NRPS/PKS domains, ab-motifs, KS sub-types): overlaps are resolved between the
        raw hits *before* fragments are merged, so a complete hit that no raw hit scoring at least as
        high collides with cannot be lost — it comes back, possibly inside a merge of its immediate
        same-profile neighbours -/

/-- no other raw hit scoring at least as high collides with `x` -/
def uncontested (env : Env) (input : List Hit) (x : Hit) : Bool :=
  input.all fun k => k == x || decide (k.sc < x.sc) || !collide env k x

/-- the raw hits that neighbour mode may not lose -/
def mustBeKept (env : Env) (input : List Hit) : List Hit :=
  input.filter fun x => decide (env.len x.prof < 2 * x.length) && uncontested env input x

/-- every complete, uncontested raw hit lies inside a returned hit of its profile with at least its score -/
def uncontestedCompleteKept (env : Env) (input out : List Hit) : Bool :=
  input.all fun x => !(decide (env.len x.prof < 2 * x.length) && uncontested env input x) || out.any fun m => covers m x

/-! ### the incomplete-fragment rule of `remove_incomplete` (threshold 1/2, fallback 1/3) -/

/-- the fragment covers more than half of its profile -/
def complete (env : Env) (h : Hit) : Bool := decide (env.len h.prof < 2 * h.length)
/-- `a` covers at most as large a share of its profile as `b` does of its own -/
def shareLe (env : Env) (a b : Hit) : Bool :=
  decide (a.length * env.len b.prof ≤ b.length * env.len a.prof)
def overThird (env : Env) (h : Hit) : Bool := decide (env.len h.prof < 3 * h.length)

def firstRegulator (env : Env) (domains : List Hit) : List Hit :=
  match domains.find? (fun d => env.reg d.prof) with
  | some d => [d]
  | none => []

/-- all complete hits if any; else the first hit with the largest share if that share exceeds a
    third; else the first regulator hit; else nothing -/
def specIncomplete (env : Env) (domains : List Hit) : List Hit :=
  if domains.any (complete env) then domains.filter (complete env)
  else
    match domains.find? (fun b => domains.all fun d => shareLe env d b) with
    | some b => if overThird env b then [b] else firstRegulator env domains
    | none => firstRegulator env domains

/-! ### docking domains: only within 50 residues of a terminus -/
def specDockKeep (env : Env) (cdsLength : Int) (h : Hit) : Bool :=
  !env.dock h.prof || decide (h.qs < 50) || decide (cdsLength - h.qe < 50)

end ASV.Refine
