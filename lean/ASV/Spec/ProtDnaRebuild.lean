/-
  C09: the class predicate of KF-C09-prepeptide-false-merge (hypothesis of the theorem about the UNREPAIRED
  `Prepeptide.from_biopython`): every step of `build_location_from_others` over the sections written by
  `to_biopython` joins only what really adjoins (`sectionsSound`, Spec/ProtDna.lean).
-/
import ASV.Model.ProtDna
import ASV.Spec.ProtDna
namespace ASV.ProtDna
open ASV

def rebuildSound (l : Loc) (leaderLen tailLen : Int) : Bool :=
  match prepeptideSections l leaderLen tailLen with
  | .ok x => sectionsSound (sectionList x)
  | _ => true

end ASV.ProtDna
