/-
  Spec for C01: the *documented* boolean meaning of a rule condition at a gene, written
  without reference to how the code evaluates it.
    profile name      : hits the gene or any gene closer than the cutoff
    cds(...)          : one single gene in that range satisfies the inner formula on its own
    minimum(n,[...])  : listed profiles counted over the gene and the genes in range
    minscore(p,s)     : additionally bitscore >= s
    not / and / or    : plain
  Reasons: the rule's profiles that hit the gene itself; a cds(...) group counts only when
  the gene satisfies the group itself, a minscore only when the gene's own score suffices.
-/
import ASV.Model.Rules
import ASV.Spec.Bases
namespace ASV.Rules

/-- the environment of the *documented* meaning: "closer than the cutoff" is measured on the sets
    of bases (number of bases strictly between, the shorter way round on a ring) -/
def Env.ofLocsSpec (genes withHits : List Gene) (hits : Gene → List (Prof × Int)) (loc : Gene → Loc)
    (cutoff circ : Int) : Env :=
  { genes, withHits, hits, cutoff, dist := fun g h => specDistFull circ (loc g) (loc h) }

/-- the genes "in range" of `g`: every other gene of the record window closer than the cutoff -/
def Env.near (e : Env) (g : Gene) : List Gene :=
  e.genes.filter fun h => h != g && e.inRange g h

mutual
/-- the formula read over one gene's own hits (the inside of cds(...)) -/
def semLocal (e : Env) (g : Gene) : Cond → Bool
  | .single neg p => xor neg (e.has g p)
  | .score neg p s => xor neg (e.hasScore g p s)
  | .minimum neg n opts => xor neg (decide ((opts.filter (e.has g)).length ≥ n))
  | .cds neg subs => xor neg (semLocalAny e g subs)
  | .group neg subs => xor neg (semLocalAny e g subs)
  | .conj subs => semLocalAll e g subs
def semLocalAny (e : Env) (g : Gene) : List Cond → Bool
  | [] => false
  | c :: cs => semLocal e g c || semLocalAny e g cs
def semLocalAll (e : Env) (g : Gene) : List Cond → Bool
  | [] => true
  | c :: cs => semLocal e g c && semLocalAll e g cs
end

mutual
/-- the documented meaning at gene `g` -/
def sem (e : Env) (g : Gene) : Cond → Bool
  | .single neg p => xor neg (e.has g p || (e.near g).any (e.has · p))
  | .score neg p s => xor neg (e.hasScore g p s || (e.near g).any (e.hasScore · p s))
  | .minimum neg n opts =>
      xor neg (decide (((g :: e.near g).map fun h => (opts.filter (e.has h)).length).sum ≥ n))
  | .cds neg subs => xor neg (semLocalAny e g subs || (e.near g).any (semLocalAny e · subs))
  | .group neg subs => xor neg (semAny e g subs)
  | .conj subs => semAll e g subs
def semAny (e : Env) (g : Gene) : List Cond → Bool
  | [] => false
  | c :: cs => sem e g c || semAny e g cs
def semAll (e : Env) (g : Gene) : List Cond → Bool
  | [] => true
  | c :: cs => sem e g c && semAll e g cs
end

mutual
/-- profiles named by the formula that hit `g` itself (leaves only; used inside cds) -/
def leafHits (e : Env) (g : Gene) : Cond → List Prof
  | .single _ p => if e.has g p then [p] else []
  | .score _ p _ => if e.has g p then [p] else []
  | .minimum _ _ opts => opts.filter (e.has g)
  | .cds _ subs => leafHitsL e g subs
  | .group _ subs => leafHitsL e g subs
  | .conj subs => leafHitsL e g subs
def leafHitsL (e : Env) (g : Gene) : List Cond → List Prof
  | [] => []
  | c :: cs => leafHits e g c ++ leafHitsL e g cs
end

mutual
/-- the documented reason profiles of `g` -/
def specReasons (e : Env) (g : Gene) : Cond → List Prof
  | .single _ p => if e.has g p then [p] else []
  | .score _ p s => if e.hasScore g p s then [p] else []
  | .minimum _ _ opts => opts.filter (e.has g)
  | .cds _ subs => if semLocalAny e g subs then leafHitsL e g subs else []
  | .group _ subs => specReasonsL e g subs
  | .conj subs => specReasonsL e g subs
def specReasonsL (e : Env) (g : Gene) : List Cond → List Prof
  | [] => []
  | c :: cs => specReasons e g c ++ specReasonsL e g cs
end

/-- "reported as anchoring exactly when the formula is true at that gene and the gene itself
    contributes at least one reason profile" -/
def specAnchors (e : Env) (g : Gene) (c : Cond) : Bool :=
  sem e g c && !(specReasons e g c).isEmpty

mutual
/-- all profile names a condition mentions (`Conditions.profiles`) -/
def Cond.profiles : Cond → List Prof
  | .single _ p => [p]
  | .score _ p _ => [p]
  | .minimum _ _ opts => opts
  | .cds _ subs => profilesL subs
  | .group _ subs => profilesL subs
  | .conj subs => profilesL subs
def profilesL : List Cond → List Prof
  | [] => []
  | c :: cs => c.profiles ++ profilesL cs
end

mutual
/-- documented grammar: inside cds(...) only identifiers, not/and/or and groups -/
def Cond.localWF : Cond → Bool
  | .single _ _ => true
  | .score _ _ _ => false
  | .minimum _ _ _ => false
  | .cds _ _ => false
  | .group _ subs => localWFs subs
  | .conj subs => localWFs subs
def localWFs : List Cond → Bool
  | [] => true
  | c :: cs => c.localWF && localWFs cs
end
mutual
def Cond.WF : Cond → Bool
  | .single _ _ => true
  | .score _ _ _ => true
  | .minimum _ _ _ => true
  | .cds _ subs => localWFs subs
  | .group _ subs => WFs subs
  | .conj subs => WFs subs
def WFs : List Cond → Bool
  | [] => true
  | c :: cs => c.WF && WFs cs
end

/-- what `apply_cluster_rules` guarantees about the dictionaries it passes to `detect`:
    `results_by_id ⊆ features_by_id`, every gene with a hit is a key of `results_by_id` -/
structure Env.WF (e : Env) : Prop where
  sub : ∀ h, h ∈ e.withHits → h ∈ e.genes
  hit : ∀ h, h ∈ e.genes → e.hits h ≠ [] → h ∈ e.withHits

def Env.wfb (e : Env) : Bool :=
  e.withHits.all (e.genes.contains ·) && e.genes.all fun h => (e.hits h).isEmpty || e.withHits.contains h

end ASV.Rules
