/-
  Spec for C13, competition part: `hmmer.remove_overlapping` and the per-gene filters of
  `cluster_prediction`, as executable relations between input and output.
-/
import ASV.Model.HitFilter
import ASV.Spec.Refine
namespace ASV.HitFilter
open ASV.Refine (pairwiseB)

/-! ### hmmer.remove_overlapping -/

/-- the two hits share at least `limit` residues … in the code's inclusive sense -/
def tooClose (limit : Int) (a b : HHit) : Bool :=
  decide (a.ps + limit ≤ b.pe) && decide (b.ps + limit ≤ a.pe)

/-- documented ranking: higher `score/cutoff`, then longer, then earlier, then identifier;
    `true` when `a` ranks at least as high as `b` -/
def ranksAtLeast (cut : Int → Int) (a b : HHit) : Bool :=
  let sa := a.sc * cut b.ident   -- score_a/cutoff_a vs score_b/cutoff_b
  let sb := b.sc * cut a.ident
  decide (sb < sa) || (sa == sb && (decide (b.length < a.length) || (a.length == b.length &&
    (decide (a.ps < b.ps) || (a.ps == b.ps && decide (a.ident ≤ b.ident))))))

structure HmmerVerdict where
  sorted : Bool        -- ordered by protein start
  subset : Bool        -- every output hit is an input hit, none more often than in the input
  separated : Bool     -- no two output hits are `tooClose`
  justified : Bool     -- every dropped hit is `tooClose` to a kept hit ranking at least as high
  topKept : Bool       -- every input hit that no other input hit outranks-or-ties … is kept
deriving Repr

def hmmerSpec (cut : Int → Int) (limit : Int) (input out : List HHit) : HmmerVerdict where
  sorted := pairwiseB (fun a b => decide (a.ps ≤ b.ps)) out
  subset := out.all fun h => decide (0 < out.count h ∧ out.count h ≤ input.count h)
  separated := pairwiseB (fun a b => !tooClose limit a b) out
  justified := input.all fun d => out.contains d ||
    out.any fun k => tooClose limit k d && ranksAtLeast cut k d
  topKept := input.all fun t => !(input.all fun o => ranksAtLeast cut t o) || out.contains t

def HmmerVerdict.ok (v : HmmerVerdict) : Bool :=
  v.sorted && v.subset && v.separated && v.justified && v.topKept

/-! ### filter_result_multiple: one hit per profile and gene, a best-scoring one, the earliest
        among equals (hits scoring −1 or less are never reported) -/

/-- `hits[i]` is reported -/
def keptMultiple (hits : List FHit) (i : Nat) (h : FHit) : Bool :=
  decide (-10 < h.sc)
  && (hits.take i).all (fun g => g.prof != h.prof || decide (g.sc < h.sc))
  && (hits.drop (i + 1)).all (fun g => g.prof != h.prof || decide (g.sc ≤ h.sc))

def specMultiple (hits : List FHit) : List FHit :=
  (hits.zipIdx.filter fun (h, i) => keptMultiple hits i h).map (·.1)

/-! ### filter_results: competition between the hits of one gene -/

def overlaps20 (a b : FHit) : Bool := decide (20 < overlapSize a b)

/-- the two hits compete: different objects sharing more than 20 residues -/
def competes (a b : FHit) : Bool := a.uid != b.uid && overlaps20 a b

/-- connected through a chain of competing hits of the gene: one *overlapping group* -/
inductive Linked (hits : List FHit) : FHit → FHit → Prop
  | refl (x : FHit) : Linked hits x x
  | step {a b c : FHit} : a ∈ hits → b ∈ hits → competes a b = true → Linked hits b c → Linked hits a c

/-- `o` is preferred to `h`: the higher bitscore, and of two equal bitscores the one that comes
    first in the gene's hit list (the tie rule of `filter_results`) -/
def prefers (hits : List FHit) (o h : FHit) : Bool :=
  decide (h.sc < o.sc) || (o.sc == h.sc && [o, h].isSublist hits)

/-- executable twin of `Linked` for the driver (closure by `hits.length` rounds of neighbour
    expansion).  It is not proved equal to the `Prop`; the theorems speak about `Linked`, the
    correspondence runs this -/
def expandB (hits front : List FHit) : List FHit :=
  hits.filter fun h => front.any fun f => f == h || competes f h
def reachB (hits : List FHit) (a : FHit) : List FHit :=
  (List.range hits.length).foldl (fun front _ => expandB hits front) [a]
def linkedB (hits : List FHit) (a b : FHit) : Bool := a == b || (reachB hits a).contains b

structure EquivVerdict where
  sublist : Bool      -- survivors are input hits in their input order, none invented
  separated : Bool    -- if ≥ 2 profiles of some equivalence group survive, no two survivors overlap by > 20
  bestKept : Bool     -- the (unique) best-scoring hit of the gene survives
  untouched : Bool    -- a gene with < 2 profiles of every equivalence group keeps all hits
deriving Repr

def isSublistB {α} [DecidableEq α] : List α → List α → Bool
  | [], _ => true
  | _ :: _, [] => false
  | a :: l, b :: m => if a = b then isSublistB l m else isSublistB (a :: l) m

/-- at least two different profiles of the equivalence group hit the gene -/
def qualifies (eqGroup : List Int) (hits : List FHit) : Bool :=
  decide (2 ≤ ((ASV.Refine.firstOcc eqGroup).filter fun p => hits.any fun h => h.prof == p).length)

/-- one competition: if at least two profiles of the equivalence group hit the gene, every
    overlapping group keeps exactly its preferred member; hits outside any group stay -/
def specPassB (hits : List FHit) (eqGroup : List Int) : List FHit :=
  if qualifies eqGroup hits then
    hits.filter fun h => hits.all fun o => !(linkedB hits h o && prefers hits o h)
  else hits

def specFilterB (eqGroups : List (List Int)) (hits : List FHit) : List FHit := eqGroups.foldl specPassB hits

def equivSpec (eqGroups : List (List Int)) (input out : List FHit) : EquivVerdict where
  sublist := isSublistB out input
  separated := !(eqGroups.any fun g => qualifies g out) ||
    pairwiseB (fun a b => !overlaps20 a b) out
  bestKept := input.all fun t => !(input.all fun o => o.uid == t.uid || decide (o.sc < t.sc)) || out.contains t
  untouched := (eqGroups.any fun g => qualifies g input) || out == input

def EquivVerdict.ok (v : EquivVerdict) : Bool := v.sublist && v.separated && v.bestKept && v.untouched

/-! ### `find_hmmer_hits`, one gene: the order of the two filters is part of the meaning -/

/-- what must come back for a gene: of the raw hits strictly above their signature's cut-off, first
    the competition between equivalent profiles (every overlapping group keeps its preferred hit),
    *then* per profile the earliest best of what survived, in start order.  Picking the best of a
    profile first would lose a profile whose best copy loses the competition while another copy
    of it is uncontested -/
def specFindHmmerHits (cut : Int → Int) (eqGroups : List (List Int)) (raw : List FHit) : List FHit :=
  ASV.Refine.sortBy (fun (a b : FHit) => decide (a.hs ≤ b.hs))
    (specMultiple (specFilterB eqGroups (raw.filter fun h => decide (cut h.prof < h.sc))))

/-- the per-profile promise on its own: every hit that survives the competition and scores above −1
    has its profile represented in `out` by a hit scoring at least as high -/
def profilesRepresented (survivors out : List FHit) : Bool :=
  survivors.all fun h => !decide (-10 < h.sc) || out.any fun x => x.prof == h.prof && decide (h.sc ≤ x.sc)

end ASV.HitFilter
