/-
  C09 spec — what "the nucleotides that encode residues [s,e)" means, written independently of
  the code: the gene's positions in TRANSCRIPTION ORDER.

  `bases loc` lists the record coordinates of the gene's nucleotides in the order in which they
  are transcribed: parts in list order; inside a part ascending on the forward strand,
  descending on the reverse strand.  This is what Biopython's `location.extract` concatenates
  (`"".join(part.extract(seq))`, a reverse part being reverse-complemented) — the trusted link,
  exercised by the harness on random DNA in every run.
-/
import ASV.Model.Loc
import ASV.Model.LocOps
namespace ASV.ProtDna
open ASV

/-- `lo, lo+1, …` (`n` values) -/
def upRange (lo : Int) : Nat → List Int
  | 0 => []
  | n + 1 => lo :: upRange (lo + 1) n
/-- `hi-1, hi-2, …` (`n` values) -/
def downRange (hi : Int) : Nat → List Int
  | 0 => []
  | n + 1 => (hi - 1) :: downRange (hi - 1) n

/-- positions of one exon in transcription order -/
def partBases (p : Part) : List Int :=
  if p.strand == .rev then downRange p.hi (p.hi - p.lo).toNat else upRange p.lo (p.hi - p.lo).toNat

/-- positions of the whole location in transcription order -/
def bases (l : Loc) : List Int := l.parts.flatMap partBases

/-- `l[a:b]` -/
def sliceL {α} (l : List α) (a b : Nat) : List α := (l.drop a).take (b - a)

/-- a gene location the property quantifies over: at least one exon, no empty exon, one strand
    throughout (any exon order, introns, overlaps and origin crossings allowed) -/
def geneWF (l : Loc) : Bool :=
  !l.parts.isEmpty && l.parts.all fun p => decide (p.lo < p.hi) && p.strand == l.strand

/-- `location.extract(seq)` for a sequence given as a function of the coordinate, with a complement -/
def extract {β} (seq : Int → β) (compl : β → β) (l : Loc) : List β :=
  l.parts.flatMap fun p =>
    if p.strand == .rev then (partBases p).map (fun i => compl (seq i)) else (partBases p).map seq

/-- reading frame: consecutive triples, an incomplete last one dropped -/
def codons {β} : List β → List (β × β × β)
  | a :: b :: c :: rest => (a, b, c) :: codons rest
  | _ => []

/-- translation under an arbitrary genetic code -/
def translate {β γ} (code : β × β × β → γ) (dna : List β) : List γ := (codons dna).map code

/-- the sanity assertion of `_adjust_location_by_offset` fires: the location does not cross the origin,
    yet its first exon is not the outermost one (nested exons) -/
def firstExonNotOuter (l : Loc) : Bool :=
  match l with
  | .simple _ => false
  | .compound [] => true
  | .compound (p :: _) =>
    !bridgesOrigin l && (if l.strand == .rev then decide (p.hi ≠ l.end) else decide (p.lo ≠ l.start))

/-- length of the first exon -/
def firstLen (l : Loc) : Int := match l.parts with | p :: _ => p.len | [] => 0

/-- the guard under which `frameshift_location_by_qualifier` succeeds: a codon_start of 1..3, and for a
    real shift a first exon that is long enough (when shifting, not when undoing) and outermost -/
def frameGuard (l : Loc) (cs : Int) (undo : Bool) : Bool :=
  decide (1 ≤ cs) && decide (cs ≤ 3) &&
    (decide (cs = 1) || ((undo || decide (cs - 1 ≤ firstLen l)) && !firstExonNotOuter l))

/-- every part of `inner` lies inside some part of `outer`, is non-empty and keeps its strand -/
def partsInside (outer inner : Loc) : Bool :=
  inner.parts.all fun q => outer.parts.any fun p =>
    decide (p.lo ≤ q.lo) && decide (q.lo < q.hi) && decide (q.hi ≤ p.hi) && q.strand == p.strand

/-- the executable verdict used on implementation output: `r` is the annotation location produced
    for offsets `[a,b)` (nucleotides, transcription order) of gene `l` -/
def coversSlice (l r : Loc) (a b : Nat) : Bool :=
  bases r == sliceL (bases l) a b && decide ((bases r).length = b - a) && partsInside l r

/-! ### the standard exon orders (hypotheses of the `convert_*_partial` theorems) -/

/-- exons listed upwards without overlap -/
def ascDisjointB : List Part → Bool
  | [] => true
  | [_] => true
  | p :: q :: r => decide (p.hi ≤ q.lo) && ascDisjointB (q :: r)

/-- exons listed downwards without overlap -/
def descDisjointB : List Part → Bool
  | [] => true
  | [_] => true
  | p :: q :: r => decide (q.hi ≤ p.lo) && descDisjointB (q :: r)

/-! ### rebuilding a location from consecutive sections (prepeptide write-out / re-read) -/

/-- one step of the loop of `build_location_from_others` (same expression as in Model/LocOps.lean) -/
def blfoStep (location loc : Loc) : Loc :=
  if loc.start = location.end then
    match location.parts.getLast?, loc.parts.head? with
    | some lastP, some firstP =>
      let newSub : Part := ⟨lastP.lo, firstP.hi, location.strand⟩
      if location.parts.length > 1 || loc.parts.length > 1 then
        .compound (location.parts.dropLast ++ [newSub] ++ loc.parts.drop 1)
      else .simple newSub
    | _, _ => location
  else .compound (location.parts ++ loc.parts)

/-- the step joins what really adjoins: whenever the coordinate test `loc.start == location.end` fires, the
    last part kept so far and the first part of the next section do adjoin, upwards, on a non-reverse strand -/
def stepSound (location loc : Loc) : Bool :=
  decide (loc.start ≠ location.end) ||
    (location.strand != .rev &&
      match location.parts.getLast?, loc.parts.head? with
      | some lastP, some firstP => decide (lastP.hi = firstP.lo)
      | _, _ => false)

/-- hypothesis of the theorem about the UNREPAIRED rebuild: every step of the fold is sound -/
def foldSound : Loc → List Loc → Bool
  | _, [] => true
  | acc, x :: xs => stepSound acc x && foldSound (blfoStep acc x) xs

def sectionsSound : List Loc → Bool
  | [] => true
  | x :: xs => foldSound x xs

end ASV.ProtDna
