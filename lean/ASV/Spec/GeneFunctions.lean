/-
  Spec for the gene-function container: a gene *carries* the annotations added since it was last cleared,
  each once, in the order they were first added; its core products are the products of the carried
  annotations whose function is CORE.
-/
import ASV.Model.GeneFunctions
namespace ASV.GeneFn

def carried (ops : List Op) : List Ann :=
  ops.foldl (fun acc op => match op with
    | .clear => []
    | .add a => if acc.contains a then acc else acc ++ [a]) []

def specCoreProducts (ops : List Op) : List String :=
  ((carried ops).filter fun a => a.fn == CORE).map (·.product)

end ASV.GeneFn
