/-
  Spec for C19: what the data of the region overview must satisfy, stated on the *emitted*
  lists (areas / orfs) and the region's inputs, without reference to how the code computes
  them.  Every predicate is decidable (`Bool` or a decidable `Prop`), so the same definition
  the theorems talk about is evaluated by the driver on the implementation's output.

  Coordinates: areas are 0-based half-open `[nstart, nend)` with the core `[start, end)`;
  orfs are 1-based inclusive `[start, end]` (that is how the JSON is written).
-/
import ASV.Model.Packing
namespace ASV.Packing.Spec
open ASV ASV.Packing

/-! ### the announced range -/

/-- The drawing range of a region, 0-based half-open: it begins at the region's first base and
    is as long as the region; for an origin-spanning region `[s, L) + [0, e)` it therefore
    continues past the record length to `L + e`. -/
def drawRange (c : Ctx) : Int × Int :=
  match c.region with
  | .compound [p, q] => (p.lo, c.L + q.hi)
  | .simple p => (p.lo, p.hi)
  | l => (l.start, l.end)

/-- distance travelled along the genome from the region's first base `lo` to position `r`
    (positions before `lo` are reached only after passing the origin) -/
def ringOffset (L lo r : Int) : Int := if lo ≤ r then r - lo else r + L - lo

/-- the numbers `start`/`end` written for the region describe the drawing range (the code writes
    a 1-based start for ordinary regions and a 0-based start for origin-spanning ones; both
    denote the same first base) -/
def announcedOk (c : Ctx) (ann : Int × Int) : Bool :=
  let (lo, hi) := drawRange c
  ann.2 == hi && (ann.1 == lo || ann.1 == lo + 1)

/-! ### areas: in range, core inside extent -/

/-- extent inside the range, core inside the extent, nothing inverted -/
def areaInRange (lo hi : Int) (a : Area) : Bool :=
  decide (lo ≤ a.nstart) && decide (a.nstart ≤ a.start) && decide (a.start ≤ a.end)
    && decide (a.end ≤ a.nend) && decide (a.nend ≤ hi)

def areasInRange (c : Ctx) (out : List Area) : Bool :=
  out.all (areaInRange (drawRange c).1 (drawRange c).2)

/-! ### areas: no overlap within a row -/

/-- two areas are on different rows or their full extents share no position -/
def Sep (a b : Area) : Prop := a.height = b.height → a.nend ≤ b.nstart ∨ b.nend ≤ a.nstart
instance (a b : Area) : Decidable (Sep a b) := by unfold Sep; infer_instance

/-- no two areas placed on the same row overlap in their full extents -/
def RowsDisjoint (out : List Area) : Prop := out.Pairwise Sep
instance (out : List Area) : Decidable (RowsDisjoint out) := by unfold RowsDisjoint; infer_instance

/-! ### areas: every feature drawn exactly once (or as two linked halves) -/

/-- one drawn item: a whole area, or two halves linked by a shared non-zero group id -/
inductive Drawn where
  | whole (a : Area)
  | halves (a b : Area)
deriving DecidableEq, Repr

/-- read the emitted list as drawn items: group 0 = whole; a non-zero group must be followed
    immediately by its other half -/
def parseGo : Option Area → List Area → Option (List Drawn)
  | none, [] => some []
  | some _, [] => none
  | none, a :: rest =>
    if a.group == 0 then (parseGo none rest).map fun ds => Drawn.whole a :: ds
    else parseGo (some a) rest
  | some a, b :: rest =>
    if a.group == b.group then (parseGo none rest).map fun ds => Drawn.halves a b :: ds
    else none
def parse (out : List Area) : Option (List Drawn) := parseGo none out

/-- what a drawn item shows, folded back onto the record: kind, extent and core as
    `(start, end)` coordinates of the genome -/
structure Shown where
  kind : Kind
  start : Int
  «end» : Int
  coreStart : Int
  coreEnd : Int
  /-- number of positions covered by the drawn extent / core (both halves together) -/
  len : Int
  coreLen : Int
deriving DecidableEq, Repr

/-- drawing coordinate → genome coordinate for a start (`L` itself is position 0) -/
def foldS (L x : Int) : Int := if L ≤ x then x - L else x
/-- drawing coordinate → genome coordinate for an end (`L` itself stays `L`) -/
def foldE (L x : Int) : Int := if L < x then x - L else x

def Drawn.shown (L : Int) : Drawn → Option Shown
  | .whole a => some ⟨a.kind, foldS L a.nstart, foldE L a.nend, foldS L a.start, foldE L a.end,
                      a.nend - a.nstart, a.end - a.start⟩
  | .halves a b =>
    -- the first half runs up to the end of the record, the second starts at the origin, both
    -- on the same row; the core is whatever part of it lies in each half (an empty piece is
    -- written as `start == end`)
    if a.nend == L && b.nstart == 0 && a.kind == b.kind && a.height == b.height then
      some ⟨a.kind, a.nstart, b.nend,
            if a.start < a.end then a.start else b.start,
            if b.start < b.end then b.end else a.end,
            (a.nend - a.nstart) + (b.nend - b.nstart), (a.end - a.start) + (b.end - b.start)⟩
    else none

def Drawn.groupId : Drawn → Option Int
  | .whole _ => none
  | .halves a _ => some a.group

/-- what must be shown for a feature: its extent, and its core if it is a protocluster, with as
    many positions as the feature (core) has bases — so a core is never drawn as an empty span -/
def expectedShown (f : Feat) : Shown :=
  match f.kind with
  | .proto => ⟨f.kind, f.start, f.end, f.coreStart, f.coreEnd, f.loc.len, f.core.len⟩
  | _ => ⟨f.kind, f.start, f.end, f.start, f.end, f.loc.len, f.loc.len⟩

/-- the features that have to appear: every subregion, every protocluster, and every candidate
    cluster except the `single` ones of a region without subregions (those are represented by
    their one protocluster) -/
def toDraw (r : RegionIn) : List Feat :=
  (r.candidates.filter fun c => !(r.subregions.isEmpty && c.single)) ++ r.subregions ++ r.protos

/-- every feature is drawn exactly once (whole, or as two linked halves), nothing else is drawn,
    and distinct split features carry distinct group ids -/
def Complete (L : Int) (r : RegionIn) (out : List Area) : Prop :=
  ∃ ds, parse out = some ds ∧
    (∃ ss, ds.mapM (Drawn.shown L) = some ss ∧ ss.Perm ((toDraw r).map expectedShown)) ∧
    (ds.filterMap Drawn.groupId).Nodup

/-- executable form of `Complete` -/
def completeB (L : Int) (r : RegionIn) (out : List Area) : Bool :=
  match parse out with
  | none => false
  | some ds =>
    (match ds.mapM (Drawn.shown L) with
     | none => false
     | some ss => ss.isPerm ((toDraw r).map expectedShown))
    && decide (ds.filterMap Drawn.groupId).Nodup

/-! ### genes -/

/-- a drawn gene lies in the range (1-based inclusive coordinates) -/
def orfInRange (lo hi : Int) (o : Orf) : Bool :=
  decide (lo + 1 ≤ o.start) && decide (o.start ≤ o.end) && decide (o.end ≤ hi)

def orfsInRange (c : Ctx) (orfs : List Orf) : Bool :=
  orfs.all (orfInRange (drawRange c).1 (drawRange c).2)

inductive DrawnOrf where
  | whole (o : Orf)
  | halves (a b : Orf)
deriving DecidableEq, Repr

def parseOrfsGo : Option Orf → List Orf → Option (List DrawnOrf)
  | none, [] => some []
  | some _, [] => none
  | none, a :: rest =>
    if a.group == 0 then (parseOrfsGo none rest).map fun ds => DrawnOrf.whole a :: ds
    else parseOrfsGo (some a) rest
  | some a, b :: rest =>
    if a.group == b.group then (parseOrfsGo none rest).map fun ds => DrawnOrf.halves a b :: ds
    else none

/-- genome `(start, end, strand)` of a drawn gene; for halves: the first runs to the end of the
    record, the `_split` one starts at base 1, exactly one of them is the strand-less block and
    the other carries the arrow head: the second for forward genes, the first for reverse ones -/
def DrawnOrf.shown (L : Int) : DrawnOrf → Option (Int × Int × Int)
  | .whole o => if o.split then none else some (foldS L (o.start - 1), foldE L o.end, o.strand)
  | .halves a b =>
    if a.end == L && b.start == 1 && !a.split && b.split
        && ((a.strand == 0 && b.strand == 1) || (a.strand == -1 && b.strand == 0)) then
      some (a.start - 1, b.end, if a.strand == 0 then b.strand else a.strand)
    else none

def DrawnOrf.groupId : DrawnOrf → Option Int
  | .whole _ => none
  | .halves a _ => some a.group

def expectedOrf (v : GeneView) : Int × Int × Int :=
  (v.start, v.end, if v.strand == -1 then -1 else 1)

/-- every gene drawn exactly once, in the order given, with its own coordinates -/
def orfsCompleteB (L : Int) (genes : List GeneView) (orfs : List Orf) : Bool :=
  match parseOrfsGo none orfs with
  | none => false
  | some ds =>
    (match ds.mapM (DrawnOrf.shown L) with
     | none => false
     | some ss => ss == genes.map expectedOrf)
    && decide (ds.filterMap DrawnOrf.groupId).Nodup

/-- order along the drawing equals order along the genome: a gene drawn whole sits at the
    region's first base plus the distance travelled along the genome to the gene's start -/
def orfPlaced (c : Ctx) (v : GeneView) (o : Orf) : Bool :=
  o.start - 1 == (drawRange c).1 + ringOffset c.L (drawRange c).1 v.start

end ASV.Packing.Spec

/-! ### the inputs the theorems quantify over (hypotheses, evaluated by the driver as the
    scope flag): what `CDSCollection.__init__`, `Protocluster.__init__`, `Record.add_*` and
    region formation guarantee -/
namespace ASV.Packing.Spec
open ASV ASV.Packing

/-- a collection's location on a record of length `L`: one non-empty part inside the record, or
    the two forward halves `[s, L) + [0, e)` of an origin-spanning area, which do not overlap
    (`e ≤ s`; `e = s` is an area or region that tiles the whole record from `s` back to `s`) -/
def collOK (L : Int) : Loc → Bool
  | .simple p => decide (0 ≤ p.lo) && decide (p.lo < p.hi) && decide (p.hi ≤ L)
  | .compound [p, q] =>
    p.strand == .fwd && q.strand == .fwd && q.lo == 0 && decide (0 < q.hi) && decide (q.hi ≤ p.lo)
      && decide (p.lo < p.hi) && p.hi == L
  | .compound _ => false

/-- the location tiles the whole record from a position back to itself: `[s, L) + [0, s)` -/
def tilesRecord : Loc → Bool
  | .compound [p, q] => q.hi == p.lo
  | _ => false

/-- a child area of the region: well-formed, inside the region, origin-spanning only on a
    circular record; a protocluster's core is well-formed (it may tile the whole record, like any area), lies
    inside the protocluster, and an origin-spanning core needs an origin-spanning protocluster -/
def featOK (c : Ctx) (f : Feat) : Bool :=
  collOK c.L f.loc && locationContainsOther c.region f.loc && (!f.crosses || c.circular)
    && (f.kind != .proto
        || (collOK c.L f.core && locationContainsOther f.loc f.core
            && (!decide (f.core.parts.length > 1) || f.crosses)))

def regionOK (c : Ctx) : Bool :=
  collOK c.L c.region && (!c.regionCrosses || c.circular)

def inputOK (c : Ctx) (r : RegionIn) : Bool :=
  regionOK c && r.subregions.all (featOK c) && r.candidates.all (featOK c) && r.protos.all (featOK c)

/-- a gene of the region as `convert_cds_features` sees it: its hull lies in one part of the
    region (and `inLast` says which), or it spans the origin inside an origin-spanning or
    whole-record circular region without overlapping itself -/
def viewOK (c : Ctx) (v : GeneView) : Bool :=
  (v.strand == 1 || v.strand == -1 || v.strand == 0) &&
  match c.region with
  | .compound [p, q] =>
    if v.crosses then !v.inLast && decide (p.lo ≤ v.start) && decide (v.start < c.L)
                      && decide (0 < v.end) && decide (v.end ≤ q.hi)
    else if v.inLast then decide (0 ≤ v.start) && decide (v.start < v.end) && decide (v.end ≤ q.hi)
    else decide (p.lo ≤ v.start) && decide (v.start < v.end) && decide (v.end ≤ c.L)
  | .simple p =>
    if v.crosses then c.circular && p.lo == 0 && p.hi == c.L && decide (0 < v.end)
                      && decide (v.end ≤ v.start) && decide (v.start < c.L)
    else decide (p.lo ≤ v.start) && decide (v.start < v.end) && decide (v.end ≤ p.hi)
  | .compound _ => false

end ASV.Packing.Spec

namespace ASV.Packing.Spec
open ASV ASV.Packing

/-- two locations share a base of the record (set-of-bases reading) -/
def SharesBase (a b : Loc) : Prop := ∃ i : Int, a.mem i = true ∧ b.mem i = true

end ASV.Packing.Spec

/-! ### the protoclusters of a region -/
namespace ASV.Packing.Spec
open ASV ASV.Packing

/-- keep the first of every group of entries with the same identity -/
def dedupId : List PObj → List PObj
  | [] => []
  | p :: ps => p :: (dedupId ps).filter (·.id != p.id)

/-- the protoclusters of a region are the protoclusters of its candidate clusters, each object
    once however many candidate clusters share it — and two *different* objects both count, even
    when they agree in extent and product (a detected cluster and a sideloaded annotation of it,
    or two clusters of one product with different cores) -/
def regionProtos (cands : List Cand) : List PObj := dedupId (cands.flatMap (·.members))

/-- what has to be drawn for a region given by its children -/
def regionSpecIn (subs : List Feat) (cands : List Cand) : RegionIn :=
  { subregions := subs, candidates := cands.map (·.feat), protos := (regionProtos cands).map (·.feat) }

/-- identities are identities: entries with the same id are the same object -/
def idsConsistent (l : List PObj) : Bool :=
  l.all fun p => l.all fun q => p.id != q.id || p == q

/-- `delivered` is exactly the region's protoclusters, each once (compared by identity) -/
def deliveredOk (cands : List Cand) (delivered : List PObj) : Bool :=
  (delivered.map (·.id)).isPerm ((regionProtos cands).map (·.id))

end ASV.Packing.Spec

/-! ### genes as locations (what `CDSFeature`s of a region look like) -/
namespace ASV.Packing.Spec
open ASV ASV.Packing

/-- the stretch `[lo, hi)` lies inside one part of the region -/
def hullIn (c : Ctx) (lo hi : Int) : Bool :=
  match c.region with
  | .compound [p, q] =>
    decide (lo < hi) && ((decide (p.lo ≤ lo) && decide (hi ≤ c.L)) || (decide (0 ≤ lo) && decide (hi ≤ q.hi)))
  | .simple p => decide (p.lo ≤ lo) && decide (lo < hi) && decide (hi ≤ p.hi)
  | .compound _ => false

/-- piece `a` ends the record, piece `b` begins it, both inside the region -/
def bridgeIn (c : Ctx) (a b : Part) : Bool :=
  match c.region with
  | .compound [p, q] => decide (p.lo ≤ a.lo) && decide (a.hi ≤ c.L) && decide (0 ≤ b.lo) && decide (b.hi ≤ q.hi)
  | .simple p => c.circular && p.lo == 0 && p.hi == c.L && decide (a.hi ≤ c.L) && decide (0 ≤ b.lo)
  | .compound _ => false

/-- a gene of one or two exons inside the region: exons non-empty, in transcription order (for
    the reverse strand the exon with the higher coordinates comes first), not overlapping;
    either its hull lies in one part of the region, or it runs over the origin (the first exon
    in genome order ends the record, the second begins it) -/
def geneOK (c : Ctx) : Loc → Bool
  | .simple p => hullIn c p.lo p.hi
  | .compound [p, q] =>
    p.strand == q.strand && (p.strand == .fwd || p.strand == .rev) &&
    -- genome order
    (let a := if p.strand == .fwd then p else q
     let b := if p.strand == .fwd then q else p
     if a.lo < b.lo then decide (a.lo < a.hi) && decide (a.hi ≤ b.lo) && decide (b.lo < b.hi) && hullIn c a.lo b.hi
     else decide (b.lo < b.hi) && decide (b.hi ≤ a.lo) && decide (a.lo < a.hi) && bridgeIn c a b)
  | .compound _ => false

end ASV.Packing.Spec

/-! ### reading the written JSON back -/
namespace ASV.Packing.Spec
open ASV ASV.Packing

/-- the value stored under a key -/
def jLookup (k : String) : List (String × JVal) → Option JVal
  | [] => none
  | (k1, v) :: t => if k = k1 then some v else jLookup k t
def jInt (j : List (String × JVal)) (k : String) : Option Int :=
  match jLookup k j with
  | some (.int i) => some i
  | _ => none
def jStr (j : List (String × JVal)) (k : String) : Option String :=
  match jLookup k j with
  | some (.str s) => some s
  | _ => none
def kindOfName (s : String) : Option Kind :=
  if s == "protocluster" then some .proto else if s == "candidatecluster" then some .cand
  else if s == "subregion" then some .sub else none

/-- how a consumer (the drawing code, the harness) reads one area: `start`, `end`, `kind` and
    `height` must be there; a missing neighbouring coordinate is the core's, a missing string is
    empty, a missing group is 0 -/
def readArea (j : List (String × JVal)) : Option Area := do
  let start ← jInt j "start"
  let stop ← jInt j "end"
  let kind ← (jStr j "kind").bind kindOfName
  let height ← jInt j "height"
  pure { start := start, «end» := stop, kind := kind, height := height,
         nstart := (jInt j "neighbouring_start").getD start, nend := (jInt j "neighbouring_end").getD stop,
         product := (jStr j "product").getD "", group := (jInt j "group").getD 0,
         «prefix» := (jStr j "prefix").getD "", category := (jStr j "category").getD "",
         tool := (jStr j "tool").getD "" }

end ASV.Packing.Spec
