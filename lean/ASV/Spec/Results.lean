/-
  C11 — what "reusing saved module results" is supposed to mean, written without looking at how
  the individual `from_json` functions are coded.

  1. The `ModuleResults` contract (module_results.py): `from_json(to_json(x))` rebuilds `x`, and the
     rebuilt object writes the same JSON again — for any number of save/regenerate cycles.
  2. Results are only ever *reused* when they were saved under the same interpretation: same schema
     version, same record, and for each module the settings its stored values depend on.  The
     `…MayReuse` predicates below read those settings straight off the stored JSON and the current
     run's context; they do not decode the payload.
  3. For TTA and the HMMer-based modules a change of threshold has a documented meaning (a stricter
     threshold keeps a subset; a laxer one needs a rerun); the reference results are written as
     "what a fresh run under the new settings stores".
-/
import ASV.Model.Results
namespace ASV.Results.Spec
open ASV.Results

/-! #### 1. the contract -/

/-- `from_json(to_json(x))` regenerates `x` -/
def RoundTrips {α} (enc : α → J) (dec : J → Outcome α) (inv : α → Prop) : Prop :=
  ∀ x, inv x → dec (enc x) = .reuse x

/-- the regenerated object saves to the identical JSON -/
def Stable {α} (enc : α → J) (dec : J → Outcome α) (inv : α → Prop) : Prop :=
  ∀ x, inv x → ∃ y, dec (enc x) = .reuse y ∧ enc y = enc x

/-- `n` save → regenerate cycles starting from an object -/
def cycles {α} (enc : α → J) (dec : J → Outcome α) : Nat → α → Outcome α
  | 0, x => .reuse x
  | n + 1, x =>
    match dec (enc x) with
    | .reuse y => cycles enc dec n y
    | .discard => .discard
    | .refuse e => .refuse e

/-! #### 2. stored settings versus current settings (read off the JSON, payload untouched) -/

def field (j : J) (k : String) : Option J :=
  match j with
  | .obj kv => lookup k kv
  | _ => none

def intField (j : J) (k : String) : Option Int :=
  match field j k with
  | some (.int i) => some i
  | _ => none
def strField (j : J) (k : String) : Option String :=
  match field j k with
  | some (.str s) => some s
  | _ => none
def numField (j : J) (k : String) : Option Dec :=
  match field j k with
  | some (.num d) => some d
  | _ => none
def strsOf : List J → Option (List String)
  | [] => some []
  | .str s :: rest => (strsOf rest).map (s :: ·)
  | _ :: _ => none
def strsField (j : J) (k : String) : Option (List String) :=
  match field j k with
  | some (.arr l) => strsOf l
  | _ => none

/-- same set of names -/
def sameNames (a b : List String) : Bool := a.all (fun x => b.any (· == x)) && b.all (fun x => a.any (· == x))

/-- NRPS/PKS domains: schema 4 and the same record -/
def nrpsPksMayReuse (ctx : Ctx) (j : J) : Bool :=
  intField j "schema_version" == some 4 && strField j "record_id" == some ctx.recordId

/-- rule-based detection: outer schema 2, inner schema 4, same record, the enabled rule names are
    exactly the rule names of the current options, and (fungal runs) the same two multipliers -/
def hmmDetMayReuse (ctx : Ctx) (o : HmmOpts) (j : J) : Bool :=
  intField j "schema_version" == some 2
  && strField j "record_id" == some ctx.recordId
  && (match field j "rule_results" with
      | some rj =>
        intField rj "schema_version" == some 4
        && (!o.fungi ||
            (match field rj "multipliers" with
             | some mj => numField mj "cutoff" == some o.cutoffMult && numField mj "neighbourhood" == some o.neighMult
             | none => false))
      | none => false)
  && (match strsField j "enabled_types" with
      | some names => sameNames names o.ruleNames
      | none => false)

/-- sideloaded annotations: schema 1 and the same record -/
def sideloadMayReuse (ctx : Ctx) (j : J) : Bool :=
  intField j "schema_version" == some 1 && strField j "record_id" == some ctx.recordId

mutual
/-- equality of JSON trees -/
def jsonEq : J → J → Bool
  | .null, .null => true
  | .bool a, .bool b => a == b
  | .int a, .int b => a == b
  | .num a, .num b => a == b
  | .str a, .str b => a == b
  | .arr a, .arr b => jsonEqList a b
  | .obj a, .obj b => jsonEqFields a b
  | _, _ => false
def jsonEqList : List J → List J → Bool
  | [], [] => true
  | x :: xs, y :: ys => jsonEq x y && jsonEqList xs ys
  | _, _ => false
def jsonEqFields : List (String × J) → List (String × J) → Bool
  | [], [] => true
  | (k, x) :: xs, (k', y) :: ys => k == k' && jsonEq x y && jsonEqFields xs ys
  | _, _ => false
end

/-- sideloading requested for the current run as well (`requested` = what the current `--sideload*`
    options load for this record): the stored annotation arrays must be exactly what these
    annotations save to.  No request → nothing to compare. -/
def sideloadSameRequest (requested : Option Sideloaded) (j : J) : Bool :=
  match requested with
  | none => true
  | some r =>
    (match field j "subregions" with
     | some sj => jsonEq sj (.arr (r.subregions.map SubAnn.toJson))
     | none => false)
    && (match field j "protoclusters" with
        | some pj => jsonEq pj (.arr (r.protoclusters.map ProtoAnn.toJson))
        | none => false)

/-- HMMer-based results: schema 2, same record, and the stored thresholds are not stricter than
    the current ones (so that the current hit set is a subset of the stored one) -/
def hmmerMayReuse (ctx : Ctx) (maxEvalue minScore : Dec) (j : J) : Bool :=
  intField j "schema" == some 2 && strField j "record id" == some ctx.recordId
  && (match numField j "max evalue", numField j "min score" with
      | some ev, some sc => Dec.le maxEvalue ev && Dec.le sc minScore
      | _, _ => false)

/-- TTA: schema 3 (the thresholds are handled by `ttaReference`) -/
def ttaMayReuse (j : J) : Bool := intField j "schema_version" == some 3

/-- the results file itself: written by schema 1–4 (4 is current, 1–3 are documented as readable;
    a file without the field predates schema numbers) -/
def fileMayReuse (j : J) : Bool :=
  match field j "schema" with
  | none => true
  | some (.int n) => decide (1 ≤ n) && decide (n ≤ 4)
  | some (.bool b) => b
  | some _ => false

/-- the stored hmm_detection JSON states the settings of the run `o` that produced it: its rule names,
    its strictness and the multipliers its rule set was built with -/
def hmmDetSavedUnder (o : HmmOpts) (j : J) : Bool :=
  strsField j "enabled_types" == some o.ruleNames
  && strField j "strictness" == some o.strictness
  && (match field j "rule_results" with
      | some rj =>
        (match field rj "multipliers" with
         | some mj =>
           numField mj "cutoff" == some (if o.fungi then o.cutoffMult else Dec.one)
           && numField mj "neighbourhood" == some (if o.fungi then o.neighMult else Dec.one)
         | none => false)
      | none => false)

/-- PFAM results may be kept iff they were computed with the database version the *current* run of
    the *same* module asks for (each module has its own option; "latest" means the newest installed) -/
def pfamKeepAllowed (m : HmmerModule) (o : PfamOpts) (storedVersion : String) : Bool :=
  match m with
  | .full => (if o.fullVersion == "latest" then o.latestAvailable else o.fullVersion) == storedVersion
  | .cluster => (if o.clusterVersion == "latest" then o.latestAvailable else o.clusterVersion) == storedVersion

/-- sideloaded annotations may be reused under options `cur` iff `cur` requests no sideloading, or
    requests exactly the annotations that were stored (`stored` = what the options of the saving run
    load for this record) -/
def sideloadOptsMayReuse (cur : SideOpts) (stored requestedNow : Sideloaded) : Bool :=
  !cur.enabled || (requestedNow.subregions == stored.subregions && requestedNow.protoclusters == stored.protoclusters)

/-! #### 3. reference results under changed thresholds -/

/-- TTA codons a run under threshold `opt` stores for a record with GC content `gc` whose genes
    contain the codons `all`: none below the threshold, all of them otherwise -/
def ttaReference (gc opt : Dec) (all : List Loc) : List Loc :=
  if Dec.lt gc opt then [] else all

/-- hits a stored hit list contributes under thresholds `maxEvalue`, `minScore` -/
def hmmerReference (hits : List HmmerHit) (maxEvalue minScore : Dec) : List HmmerHit :=
  hits.filter fun h => Dec.le minScore h.score && Dec.le h.evalue maxEvalue

/-- hits a *fresh* run under thresholds `maxEvalue`, `minScore` reports (`hmmer.build_hits`: both
    thresholds are exclusive) -/
def hmmerFresh (hits : List HmmerHit) (maxEvalue minScore : Dec) : List HmmerHit :=
  hits.filter fun h => Dec.lt minScore h.score && Dec.lt h.evalue maxEvalue

/-- known-finding class KF-C11-refilter-boundary: some stored hit lies exactly on a current threshold -/
def hmmerOnBoundary (hits : List HmmerHit) (maxEvalue minScore : Dec) : Bool :=
  hits.any fun h => (Dec.le h.score minScore && Dec.le minScore h.score)
                    || (Dec.le h.evalue maxEvalue && Dec.le maxEvalue h.evalue)

/-! #### main.run_module: reuse iff regenerated, run iff enabled -/

/-- the entry `run_module` must leave behind: a module that is enabled runs (with the regenerated
    results as its starting point); otherwise whatever could be regenerated is kept -/
def runModuleStored {ρ} (regenerated : Option ρ) (willRun : Bool) (run : Option ρ → ρ) : Option ρ :=
  if willRun then some (run regenerated) else regenerated

end ASV.Results.Spec
