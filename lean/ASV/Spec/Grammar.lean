/-
  Spec for C02: the *documented* rule grammar, written as a stratified syntax (the
  stratification is the precedence statement: `not` binds tighter than `and`, which binds
  tighter than `or`; parentheses and `cds(...)` group), its token rendering `pp…`, its boolean
  denotation `den…` (in the sense of the C01 spec), the parser objects it denotes (`shape…`),
  alias definitions as token substitution, kilobase scaling, the transitive-closure invariant
  of SUPERIORS, and the well-formedness of an accepted rule set.
  Nothing here looks at how the parser works.
-/
import ASV.Model.Parser
import ASV.Spec.Formula
namespace ASV.Grammar
open ASV ASV.Rules ASV.Parser

mutual
/-- CONDITIONS = AND_EXPR {or AND_EXPR} -/
inductive OrE where
  | one (a : AndE)
  | or (a : AndE) (rest : OrE)
/-- AND_EXPR = ATOM {and ATOM} -/
inductive AndE where
  | one (a : Atom)
  | and (a : Atom) (rest : AndE)
/-- ATOM = [not] (ID | ( CONDITIONS ) | cds( CONDITIONS ) | minimum(n, [ids]) | minscore(id, n)) -/
inductive Atom where
  | id (neg : Bool) (name : String)
  | paren (neg : Bool) (e : OrE)
  | cds (neg : Bool) (e : OrE)
  | minimum (neg : Bool) (count : Nat) (opts : List String)
  | minscore (neg : Bool) (name : String) (score : Nat)
end

/-! ### rendering as tokens -/

def kw (text : String) (t : TT) : Tok := ⟨text, t, false⟩
def tId (name : String) : Tok := ⟨name, .identifier, false⟩
def tInt (n : Nat) : Tok := ⟨toString n, .int, false⟩
def tNot (neg : Bool) : List Tok := if neg then [kw "not" .notOp] else []
def tOpen : Tok := kw "(" .groupOpen
def tClose : Tok := kw ")" .groupClose
def tComma : Tok := kw "," .comma

/-- `a, b, c` -/
def ppIds : List String → List Tok
  | [] => []
  | [a] => [tId a]
  | a :: rest => tId a :: tComma :: ppIds rest

mutual
def ppOr : OrE → List Tok
  | .one a => ppAnd a
  | .or a rest => ppAnd a ++ kw "or" .orOp :: ppOr rest
def ppAnd : AndE → List Tok
  | .one a => ppAtom a
  | .and a rest => ppAtom a ++ kw "and" .andOp :: ppAnd rest
def ppAtom : Atom → List Tok
  | .id neg n => tNot neg ++ [tId n]
  | .paren neg e => tNot neg ++ tOpen :: ppOr e ++ [tClose]
  | .cds neg e => tNot neg ++ kw "cds" .cds :: tOpen :: ppOr e ++ [tClose]
  | .minimum neg c opts =>
      tNot neg ++ kw "minimum" .minimum :: tOpen :: tInt c :: tComma :: kw "[" .listOpen :: ppIds opts
        ++ [kw "]" .listClose, tClose]
  | .minscore neg n s => tNot neg ++ [kw "minscore" .score, tOpen, tId n, tComma, tInt s, tClose]
end

/-- a rule with the mandatory sections only: `RULE name CATEGORY cat CUTOFF c NEIGHBOURHOOD n CONDITIONS t` -/
def ruleToks (name cat : String) (cutoffKb nbhKb : Nat) (t : OrE) : List Tok :=
  [kw "RULE" .rule, tId name, kw "CATEGORY" .category, tId cat, kw "CUTOFF" .cutoff, tInt cutoffKb,
   kw "NEIGHBOURHOOD" .neighbourhood, tInt nbhKb, kw "CONDITIONS" .conditions] ++ ppOr t

/-! ### the parser objects a piece of syntax denotes -/

mutual
/-- operands of the `or`s -/
def shapeOr : OrE → List Cond
  | .one a => [shapeAnd a]
  | .or a rest => shapeAnd a :: shapeOr rest
/-- a lone atom stays itself, two or more become an `AndCondition` -/
def shapeAnd : AndE → Cond
  | .one a => shapeAtom a
  | .and a rest => .conj (shapeAtom a :: shapeAtoms rest)
def shapeAtoms : AndE → List Cond
  | .one a => [shapeAtom a]
  | .and a rest => shapeAtom a :: shapeAtoms rest
def shapeAtom : Atom → Cond
  | .id neg n => .single neg n
  | .paren neg e => .group neg (shapeOr e)
  | .cds neg e => .cds neg (shapeOr e)
  | .minimum neg c opts => .minimum neg c opts
  | .minscore neg n s => .score neg n (Int.ofNat s)
end

/-- the condition object of a whole CONDITIONS section -/
def shapeTop (t : OrE) : Cond := .group false (shapeOr t)

/-! ### denotation (documented meaning at a gene, as in the C01 spec) -/

mutual
/-- read over one gene's own hits: the inside of `cds(...)` -/
def locOr (e : Env) (g : Gene) : OrE → Bool
  | .one a => locAnd e g a
  | .or a rest => locAnd e g a || locOr e g rest
def locAnd (e : Env) (g : Gene) : AndE → Bool
  | .one a => locAtom e g a
  | .and a rest => locAtom e g a && locAnd e g rest
def locAtom (e : Env) (g : Gene) : Atom → Bool
  | .id neg n => xor neg (e.has g n)
  | .paren neg x => xor neg (locOr e g x)
  | .cds neg x => xor neg (locOr e g x)
  | .minimum neg c opts => xor neg (decide ((opts.filter (e.has g)).length ≥ c))
  | .minscore neg n s => xor neg (e.hasScore g n (Int.ofNat s))
end

mutual
def denOr (e : Env) (g : Gene) : OrE → Bool
  | .one a => denAnd e g a
  | .or a rest => denAnd e g a || denOr e g rest
def denAnd (e : Env) (g : Gene) : AndE → Bool
  | .one a => denAtom e g a
  | .and a rest => denAtom e g a && denAnd e g rest
def denAtom (e : Env) (g : Gene) : Atom → Bool
  | .id neg n => xor neg (e.has g n || (e.near g).any (e.has · n))
  | .paren neg x => xor neg (denOr e g x)
  | .cds neg x => xor neg (locOr e g x || (e.near g).any (fun h => locOr e h x))
  | .minimum neg c opts =>
      xor neg (decide (((g :: e.near g).map fun h => (opts.filter (e.has h)).length).sum ≥ c))
  | .minscore neg n s =>
      xor neg (e.hasScore g n (Int.ofNat s) || (e.near g).any (e.hasScore · n (Int.ofNat s)))
end

/-! ### well-formedness of a piece of syntax (what the documentation calls a legal condition) -/

mutual
/-- `inCds`: inside `cds(...)` neither `minimum` nor a nested `cds` may appear -/
def okOr (inCds : Bool) : OrE → Bool
  | .one a => okAnd inCds a
  | .or a rest => okAnd inCds a && okOr inCds rest
def okAnd (inCds : Bool) : AndE → Bool
  | .one a => okAtom inCds a
  | .and a rest => okAtom inCds a && okAnd inCds rest
def okAtom (inCds : Bool) : Atom → Bool
  | .id _ _ => true
  | .paren _ e => okOr inCds e && !hasDupStr (printConds (shapeOr e))
  | .cds _ e => !inCds && okOr true e && !hasDupStr (printConds (shapeOr e)) && !loneIdentifier (shapeOr e)
  | .minimum _ c opts => !inCds && decide (1 ≤ c) && !opts.isEmpty && !hasDupStr opts
  | .minscore _ _ _ => true
end

/-- no operand is written twice among the atoms of one `and` chain (compared as printed) -/
def andDistinct : AndE → Bool
  | .one _ => true
  | .and a rest => !hasDupStr (printConds (shapeAtom a :: shapeAtoms rest))

mutual
def distinctOr : OrE → Bool
  | .one a => distinctAnd a
  | .or a rest => distinctAnd a && distinctOr rest
def distinctAnd : AndE → Bool
  | .one a => distinctAtom a
  | .and a rest => andDistinct (.and a rest) && distinctAtom a && distinctAnds rest
def distinctAnds : AndE → Bool
  | .one a => distinctAtom a
  | .and a rest => distinctAtom a && distinctAnds rest
def distinctAtom : Atom → Bool
  | .paren _ e => distinctOr e
  | .cds _ e => distinctOr e
  | _ => true
end

/-- a legal CONDITIONS section: legal pieces, no operand repeated anywhere -/
def okTop (t : OrE) : Bool :=
  okOr false t && distinctOr t && !hasDupStr (printConds (shapeOr t))

/-! ### the reading of a token string (what the parser may look at) and the flattening of a
    condition object: the unique token string that denotes it -/

/-- what a token contributes: its type, its text when it is an identifier, its value when a number -/
structure Key where
  type : TT
  text : String
  val : Nat
deriving DecidableEq, Repr

def _root_.ASV.Parser.Tok.key (t : Tok) : Key :=
  ⟨t.type, if t.type = .identifier then t.text else "", if t.type = .int then digitsVal t.text.toList else 0⟩

def kOf (t : TT) : Key := ⟨t, "", 0⟩
def kId (n : String) : Key := ⟨.identifier, n, 0⟩
def kInt (v : Nat) : Key := ⟨.int, "", v⟩
def flatNot (neg : Bool) : List Key := if neg then [kOf .notOp] else []
def flatIds : List String → List Key
  | [] => []
  | [a] => [kId a]
  | a :: rest => kId a :: kOf .comma :: flatIds rest

mutual
def flatC : Cond → List Key
  | .single neg n => flatNot neg ++ [kId n]
  | .score neg n s =>
      flatNot neg ++ [kOf .score, kOf .groupOpen, kId n, kOf .comma, kInt s.toNat, kOf .groupClose]
  | .minimum neg c opts =>
      flatNot neg ++ [kOf .minimum, kOf .groupOpen, kInt c, kOf .comma, kOf .listOpen] ++ flatIds opts
        ++ [kOf .listClose, kOf .groupClose]
  | .cds neg subs => flatNot neg ++ [kOf .cds, kOf .groupOpen] ++ flatJoin .orOp subs ++ [kOf .groupClose]
  | .group neg subs => flatNot neg ++ [kOf .groupOpen] ++ flatJoin .orOp subs ++ [kOf .groupClose]
  | .conj subs => flatJoin .andOp subs
def flatJoin (op : TT) : List Cond → List Key
  | [] => []
  | [c] => flatC c
  | c :: cs => flatC c ++ kOf op :: flatJoin op cs
end

def _root_.ASV.Rules.Cond.isAtomish : Cond → Bool
  | .conj _ => false
  | _ => true

mutual
/-- the condition objects the documented grammar can denote (`allowCds = false`: inside `cds(...)`) -/
def shapeOk (allowCds : Bool) : Cond → Bool
  | .single _ _ => true
  | .score _ _ s => decide (0 ≤ s)
  | .minimum _ _ opts => allowCds && !opts.isEmpty
  | .cds _ subs => allowCds && !subs.isEmpty && shapeOks false subs && !loneIdentifier subs
  | .group _ subs => !subs.isEmpty && shapeOks allowCds subs
  | .conj subs => decide (2 ≤ subs.length) && subs.all Cond.isAtomish && shapeOks allowCds subs
def shapeOks (allowCds : Bool) : List Cond → Bool
  | [] => true
  | c :: cs => shapeOk allowCds c && shapeOks allowCds cs
end

/-! ### aliases as textual (token) substitution -/

/-- replace every alias identifier by its definition, once (definitions are stored expanded) -/
def subst (a : Aliases) : List Tok → List Tok
  | [] => []
  | t :: ts =>
    if t.type == .identifier then
      match a.lookup t.text with
      | some body => body ++ subst a ts
      | none => t :: subst a ts
    else t :: subst a ts

/-! ### distances -/

/-- "read in kilobases and scaled by the multipliers" (`⌊kb·1000·p/q⌋`) -/
def distance (kb : Nat) (mul : Nat × Nat) : Nat := kb * 1000 * mul.1 / mul.2

/-! ### SUPERIORS -/

/-- what SUPERIORS promises for one rule, given the rules stored before it: every superior is one
    of those rules, and that rule's own superiors are superiors of this rule too -/
def supOk (earlier : List Rule) (r : Rule) : Bool :=
  r.superiors.all fun n =>
    match earlier.find? (·.name == n) with
    | some p => p.superiors.all (r.superiors.contains ·)
    | none => false

def supClosedFrom (earlier : List Rule) : List Rule → Bool
  | [] => true
  | r :: rest => supOk earlier r && supClosedFrom (earlier ++ [r]) rest

/-- every rule's superiors are earlier rules and are closed transitively -/
def supClosed (rules : List Rule) : Bool := supClosedFrom [] rules

/-- transitive closure of the *declared* superiors, by unfolding declarations `fuel` times -/
def reach (decl : String → List String) : Nat → String → List String
  | 0, _ => []
  | fuel + 1, n => decl n ++ (decl n).flatMap (reach decl fuel)

/-! ### a whole rule file without aliases: several rules, optional SUPERIORS sections -/

/-- a rule as written: mandatory sections and the declared superiors -/
structure RuleSrc where
  name : String
  category : String
  cutoffKb : Nat
  nbhKb : Nat
  superiors : List String
  conds : OrE

def superiorsToks (l : List String) : List Tok :=
  if l.isEmpty then [] else kw "SUPERIORS" .superiors :: ppIds l

def ruleSrcToks (r : RuleSrc) : List Tok :=
  [kw "RULE" .rule, tId r.name, kw "CATEGORY" .category, tId r.category] ++ superiorsToks r.superiors ++
    [kw "CUTOFF" .cutoff, tInt r.cutoffKb, kw "NEIGHBOURHOOD" .neighbourhood, tInt r.nbhKb,
     kw "CONDITIONS" .conditions] ++ ppOr r.conds

/-- the declared superiors together with the superiors of each of them (rules stored before) -/
def closeSup (earlier : List Rule) (decl : List String) : List String :=
  if decl.isEmpty then [] else
  sortDedupStr (decl ++ decl.flatMap fun n =>
    match earlier.find? (·.name == n) with
    | some p => p.superiors
    | none => [])

/-- the rule a written rule denotes, given the rules stored before it -/
def denoteRule (cfg : Cfg) (earlier : List Rule) (r : RuleSrc) : Rule :=
  { name := r.name, category := r.category, cutoff := distance r.cutoffKb cfg.cutoffMul,
    neighbourhood := distance r.nbhKb cfg.nbhMul, conditions := shapeTop r.conds,
    superiors := closeSup earlier r.superiors }

def denote (cfg : Cfg) : List Rule → List RuleSrc → List Rule
  | earlier, [] => earlier
  | earlier, r :: rs => denote cfg (earlier ++ [denoteRule cfg earlier r]) rs

/-- a legal written rule, given the rules stored before it -/
def srcOk (cfg : Cfg) (earlier : List Rule) (r : RuleSrc) : Bool :=
  cfg.cats.contains r.category && !earlier.any (·.name == r.name) && okTop r.conds && positive (shapeTop r.conds)
    && (profilesL (shapeOr r.conds)).all (cfg.sigs.contains ·)
    && !hasDupStr r.superiors && r.superiors.all fun n => earlier.any (·.name == n)

def srcsOk (cfg : Cfg) : List Rule → List RuleSrc → Bool
  | _, [] => true
  | earlier, r :: rs => srcOk cfg earlier r && srcsOk cfg (earlier ++ [denoteRule cfg earlier r]) rs

/-! ### SUPERIORS lists as written ("Duplicate ids in the list will cause an error") -/

/-- the names written after a `SUPERIORS` keyword: identifiers and commas up to the next other token -/
def supListNames : List Tok → List String
  | [] => []
  | t :: rest =>
    if t.type == .identifier then t.text :: supListNames rest
    else if t.type == .comma then supListNames rest else []

/-- no `SUPERIORS` list in the text names a rule twice (a text that does is ill-formed, whatever
    the named rules inherit) -/
def supListsDistinct : List Tok → Bool
  | [] => true
  | t :: rest => (if t.type == .superiors then !hasDupStr (supListNames rest) else true) && supListsDistinct rest

/-! ### what an accepted rule set must look like ("ill-formed input is rejected") -/

mutual
/-- no condition object holds two operands that print alike; minimum options distinct, count ≥ 1 -/
def noRepeat : Cond → Bool
  | .single _ _ => true
  | .score _ _ _ => true
  | .minimum _ c opts => !hasDupStr opts && decide (1 ≤ c)
  | .cds _ subs => !hasDupStr (printConds subs) && noRepeats subs
  | .group _ subs => !hasDupStr (printConds subs) && noRepeats subs
  | .conj subs => !hasDupStr (printConds subs) && noRepeats subs
def noRepeats : List Cond → Bool
  | [] => true
  | c :: cs => noRepeat c && noRepeats cs
end

def namesDistinct (rules : List Rule) : Bool := !hasDupStr (rules.map (·.name))

/-- rule-local requirements -/
def ruleOk (cfg : Cfg) (r : Rule) : Bool :=
  cfg.cats.contains r.category && noRepeat r.conditions && positive r.conditions
    && r.conditions.profiles.all (cfg.sigs.contains ·)
    && (match r.extenders with | some e => positive e && noRepeat e | none => true)

def rulesOk (cfg : Cfg) (rules : List Rule) : Bool :=
  namesDistinct rules && supClosed rules && rules.all (ruleOk cfg)

end ASV.Grammar
