/-
  C06 — spec: regions are the connected components of the "areas share a base" relation.
  Written independently of the code: areas are (id, location) pairs read as sets of bases
  (an origin-spanning area has two parts, so sharing a base is ring-aware by itself);
  the classes are computed by incremental merging, not by a sorted sweep.
  Everything executable is evaluated by the driver on the *implementation's* output.
-/
import ASV.Spec.Bases
namespace ASV.Components
open ASV

abbrev Area := Nat × Loc

/-- two areas are linked when a chain of areas, each sharing a base with the next, joins them -/
inductive Linked (areas : List Area) : Area → Area → Prop where
  | refl (a : Area) : a ∈ areas → Linked areas a a
  | step {a b c : Area} : Linked areas a b → c ∈ areas → b.2.SharesBase c.2 → Linked areas a c

/-- `groups` are the connected components of `areas` under "share a base":
    every area lies in exactly one group (the groups, concatenated, are a rearrangement of the
    areas), the members of a group are linked to each other, and no member of one group shares
    a base with a member of another -/
structure IsComponents (areas : List Area) (groups : List (List Area)) : Prop where
  perm : groups.flatten.Perm areas
  nonempty : ∀ g ∈ groups, g ≠ []
  linked : ∀ g ∈ groups, ∀ a ∈ g, ∀ b ∈ g, Linked areas a b
  separated : groups.Pairwise (fun g g' => ∀ a ∈ g, ∀ b ∈ g', ¬ a.2.SharesBase b.2)

/-- add one area: every class it touches is merged with it -/
def mergeInto (classes : List (List Area)) (a : Area) : List (List Area) :=
  let touch := classes.filter fun c => c.any fun b => sharesPts a.2 b.2
  let rest := classes.filter fun c => !(c.any fun b => sharesPts a.2 b.2)
  (a :: touch.flatten) :: rest

/-- the connected components -/
def classes (areas : List Area) : List (List Area) := areas.foldl mergeInto []

def insertNat (x : Nat) : List Nat → List Nat
  | [] => [x]
  | y :: ys => if x ≤ y then x :: y :: ys else y :: insertNat x ys
def sortNats (l : List Nat) : List Nat := l.foldr insertNat []

def ltNats : List Nat → List Nat → Bool
  | [], [] => false
  | [], _ :: _ => true
  | _ :: _, [] => false
  | x :: xs, y :: ys => x < y || (x == y && ltNats xs ys)
def insertNats (x : List Nat) : List (List Nat) → List (List Nat)
  | [] => [x]
  | y :: ys => if ltNats y x then y :: insertNats x ys else x :: y :: ys
/-- canonical form of a family of id sets: each sorted, the family sorted -/
def canonSets (l : List (List Nat)) : List (List Nat) := (l.map sortNats).foldr insertNats []

/-- the id sets of the components, canonical -/
def classIds (areas : List Area) : List (List Nat) := canonSets ((classes areas).map fun c => c.map (·.1))

/-- bases of several locations as canonical intervals -/
def unionCanon (ls : List Loc) : List Iv := canon (ls.flatMap (·.parts))

def pairwise {α} (r : α → α → Bool) : List α → Bool
  | [] => true
  | x :: xs => xs.all (r x) && pairwise r xs

/-- the relation "these regions are exactly the components of these areas":
    `regions` = (location, ids of the member areas).
    `L` = record length, `circ` = circular record. -/
structure Verdict where
  /-- member sets = classes of the transitive closure -/
  partition : Bool
  /-- no two regions share a base -/
  disjoint : Bool
  /-- each region covers exactly the bases of its members (a component of overlapping spans has no holes) -/
  exact : Bool
  /-- each region is a well-formed span of the record -/
  wf : Bool
deriving Repr

def Verdict.ok (v : Verdict) : Bool := v.partition && v.disjoint && v.exact && v.wf

def judgeRegions (L : Int) (circ : Bool) (areas : List Area) (regions : List (Loc × List Nat)) : Verdict :=
  let locOf := fun (i : Nat) => (areas.find? (·.1 == i)).map (·.2)
  { partition := canonSets (regions.map (·.2)) == classIds areas
    disjoint := pairwise (fun a b => !sharesPts a.1 b.1) regions
    exact := regions.all fun r => r.1.canon == unionCanon (r.2.filterMap locOf)
    wf := regions.all fun r => areaWF (if circ then L else 0) L r.1 }

/-! ### the two recorded classes of circular layouts (see known_findings.json) -/

/-- some connected component covers at least half of a circular record: `connect_locations` is only
    required (C04) to return the shortest covering arc when one shorter than half the record exists,
    and beyond that it may return a longer span -/
def halfRecordComponent (L : Int) (areas : List Area) : Bool :=
  (classes areas).any fun c => decide (2 * ivsLen (unionCanon (c.map (·.2))) ≥ L)

/-- a single-part span covering the whole circular record next to an origin-spanning one: the
    containment short cut of `CDSCollection.__lt__` then contradicts its own sort key -/
def fullRecordClash (L : Int) (locs : List Loc) : Bool :=
  (locs.any fun l => match l.parts with
    | [p] => decide (p.lo = 0) && decide (p.hi = L)
    | _ => false) &&
  (locs.any fun l => l.parts.length == 2)

/-! ### numbering in location order -/

/-- where a span starts, going round from the origin: an origin-spanning span starts before it -/
def firstBase (L : Int) (l : Loc) : Int :=
  match l.parts with
  | [p, q] => if q.lo = 0 ∧ p.lo > 0 then p.lo - L else l.start
  | _ => l.start

/-- location order of collections: by first base, longer first on ties -/
def orderKey (L : Int) (l : Loc) : Int × Int := (firstBase L l, - l.len)

def keyLe (a b : Int × Int) : Bool := decide (a.1 < b.1) || (a.1 == b.1 && decide (a.2 ≤ b.2))

def sortedByKey (L : Int) : List Loc → Bool
  | [] => true
  | [_] => true
  | a :: b :: r => keyLe (orderKey L a) (orderKey L b) && sortedByKey L (b :: r)

/-- numbers shown are 1..n in list order -/
def numbered (nums : List Nat) : Bool := nums == (List.range nums.length).map (· + 1)

end ASV.Components
