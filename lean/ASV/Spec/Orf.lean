/-
  Spec for C15: what an open reading frame of a window *is*, which record bases it occupies,
  and what a location extracts to — written without reference to the scanning loop or to the
  modular arithmetic of `scan_orfs`.

  `IsOrf w s e`: the stretch `w[s .. e+3)`:
     * begins with a start codon (ATG/GTG/TTG — fixed here, not read from the code) at `s`, ends with the stop codon at `e` (inclusive), `s` and
       `e` in the same frame, the stop codon complete inside the window;
     * contains no other in-frame stop;
     * `s` is the first start codon after the previous in-frame stop (or the frame's beginning):
       every earlier in-frame start codon is separated from `s` by an in-frame stop.
-/
import ASV.Model.Orf
namespace ASV.Orf
open ASV

/-- the start codons the property names: ATG / GTG / TTG -/
def docStartCodons : List Seq := [['A', 'T', 'G'], ['G', 'T', 'G'], ['T', 'T', 'G']]
/-- the stop codons of the standard and bacterial tables: TAA / TAG / TGA -/
def docStopCodons : List Seq := [['T', 'A', 'A'], ['T', 'A', 'G'], ['T', 'G', 'A']]
def isStartDoc (c : Seq) : Bool := docStartCodons.contains c
def isStopDoc (c : Seq) : Bool := docStopCodons.contains c

def StartAt (w : Seq) (p : Nat) : Prop := isStartDoc (codonAt w p) = true
def StopAt (w : Seq) (p : Nat) : Prop := isStopDoc (codonAt w p) = true

instance (w : Seq) (p : Nat) : Decidable (StartAt w p) := by unfold StartAt; infer_instance
instance (w : Seq) (p : Nat) : Decidable (StopAt w p) := by unfold StopAt; infer_instance

structure IsOrf (w : Seq) (s e : Nat) : Prop where
  frame : s % 3 = e % 3
  lt : s < e
  inside : e + 3 ≤ w.length
  start : StartAt w s
  stop : StopAt w e
  noStop : ∀ q, s < q → q < e → q % 3 = s % 3 → ¬ StopAt w q
  first : ∀ p, p < s → p % 3 = s % 3 → StartAt w p → ∃ q, p < q ∧ q < s ∧ q % 3 = s % 3 ∧ StopAt w q

/-- length in nucleotides of the ORF `(s, e)`, stop codon included -/
def orfLen (s e : Nat) : Int := (e : Int) + 3 - (s : Int)

/-- executable form of `IsOrf` (theorem `isOrfB_iff`) -/
def isOrfB (w : Seq) (s e : Nat) : Bool :=
  s % 3 == e % 3 && decide (s < e) && decide (e + 3 ≤ w.length)
  && isStartDoc (codonAt w s) && isStopDoc (codonAt w e)
  && (List.range e).all (fun q => !(decide (s < q) && q % 3 == s % 3 && isStopDoc (codonAt w q)))
  && (List.range s).all (fun p => !(p % 3 == s % 3 && isStartDoc (codonAt w p))
        || (List.range s).any (fun q => decide (p < q) && q % 3 == s % 3 && isStopDoc (codonAt w q)))

/-- all ORFs of a window, by brute force over (start codon position, stop codon position) -/
def specOrfs (w : Seq) : List (Nat × Nat) :=
  let starts := (List.range w.length).filter fun p => isStartDoc (codonAt w p)
  let stops := (List.range w.length).filter fun p => isStopDoc (codonAt w p)
  starts.flatMap fun s => (stops.filter fun e => isOrfB w s e).map fun e => (s, e)

/-! ### where an ORF lies on the record -/

/-- record coordinate of window index `k`: the window is `record[offset .. offset+n)` read
    forwards, or its reverse complement (index `k` of the window is index `n-1-k` of the chunk);
    on a ring of length `L` coordinates are taken modulo `L` -/
def recPos (fwd : Bool) (n : Nat) (offset : Int) (recLen : Option Int) (k : Nat) : Int :=
  let p : Int := if fwd then offset + k else offset + ((n : Int) - 1 - k)
  match recLen with
  | none => p
  | some L => p % L

/-- group record coordinates listed in transcription order into parts: maximal runs of
    consecutive coordinates (ascending on the forward strand, descending on the reverse) -/
def groupRuns (fwd : Bool) : List Int → List Part
  | [] => []
  | p :: ps =>
    match groupRuns fwd ps with
    | [] => [⟨p, p + 1, dirStrand fwd⟩]
    | q :: qs =>
      if fwd then (if q.lo = p + 1 then ⟨p, q.hi, q.strand⟩ :: qs else ⟨p, p + 1, dirStrand fwd⟩ :: q :: qs)
      else (if q.hi = p then ⟨q.lo, p + 1, q.strand⟩ :: qs else ⟨p, p + 1, dirStrand fwd⟩ :: q :: qs)

/-- the location of the ORF `(s, e)`: the coordinates of its bases in transcription order -/
def specLoc (fwd : Bool) (n : Nat) (offset : Int) (recLen : Option Int) (s e : Nat) : Loc :=
  Loc.ofParts (groupRuns fwd ((List.range' s (e + 3 - s)).map (recPos fwd n offset recLen)))

/-! ### extraction (Biopython `location.extract(seq)`; C09's transcription-order reading) -/

/-- `seq[lo:hi]` -/
def sliceI (rec : Seq) (lo hi : Int) : Seq := (rec.drop lo.toNat).take (hi - lo).toNat

/-- `SimpleLocation.extract`: the slice, reverse-complemented on strand −1 (`comp` is the
    per-base complement) -/
def extractPart (comp : Char → Char) (rec : Seq) (p : Part) : Seq :=
  match p.strand with
  | .rev => ((sliceI rec p.lo p.hi).map comp).reverse
  | _ => sliceI rec p.lo p.hi

/-- `CompoundLocation.extract`: the parts' extractions concatenated in part order -/
def extract (comp : Char → Char) (rec : Seq) (l : Loc) : Seq :=
  (l.parts.map (extractPart comp rec)).flatten

/-- the ORF's own nucleotides `w[s .. e+3)` -/
def orfSeq (w : Seq) (s e : Nat) : Seq := (w.drop s).take (e + 3 - s)

/-! ### the protein an ORF encodes -/

/-- unambiguous upper-case DNA -/
def acgt : List Char := ['A', 'C', 'G', 'T']

/-- one residue per codon from the second codon up to the one before the stop, read off the codon
    table, after a leading methionine (whatever the start codon) -/
def specProtein (tbl : List (Seq × Char)) (w : Seq) (s e : Nat) : List Char :=
  'M' :: ((List.range ((e - s) / 3 - 1)).map fun i => ((lookupAa tbl (codonAt w (s + 3 * (i + 1)))).getD 'X'))

/-! ### how the scanned window relates to the record

  `find_all_orfs` cuts `chunk = record[offset .. offset + n)` (around the origin when `offset < 0`)
  and scans `chunk` with `direction = 1` and `chunk.reverse_complement()` with `direction = -1`. -/

/-- ring of length `L`: the window is the chunk starting at `offset` read forwards -/
def WindowFwd (rec w : Seq) (offset L : Int) : Prop :=
  ∀ k, k < w.length → w[k]? = rec[((offset + (k : Int)) % L).toNat]?
/-- ring of length `L`: the window is the reverse complement of the chunk starting at `offset` -/
def WindowRev (comp : Char → Char) (rec w : Seq) (offset L : Int) : Prop :=
  ∀ k, k < w.length → w[k]? = (rec[((offset + ((w.length : Int) - 1 - (k : Int))) % L).toNat]?).map comp
/-- line (`record_length=None`): the window is `record[offset .. offset + n)` -/
def WindowFwdLin (rec w : Seq) (offset : Int) : Prop :=
  0 ≤ offset ∧ ∀ k, k < w.length → w[k]? = rec[(offset + (k : Int)).toNat]?
def WindowRevLin (comp : Char → Char) (rec w : Seq) (offset : Int) : Prop :=
  0 ≤ offset ∧ ∀ k, k < w.length → w[k]? = (rec[(offset + ((w.length : Int) - 1 - (k : Int))).toNat]?).map comp

/-! ### gaps between genes -/

/-- the part of gene `g` no new ORF may touch: `[g.start + pad, g.end − pad)` -/
def Gene.core (g : Gene) (pad : Int) (i : Int) : Prop := g.start + pad ≤ i ∧ i < g.end - pad

def sortedByStart : List Gene → Prop
  | [] => True
  | g :: gs => (∀ h ∈ gs, g.start ≤ h.start) ∧ sortedByStart gs

def sortedByStartB : List Gene → Bool
  | [] => true
  | g :: gs => gs.all (fun h => decide (g.start ≤ h.start)) && sortedByStartB gs

/-- `[a, b)` is a maximal gap of `[start, end)`: non-empty, inside, clear of every gene's core,
    and not extendable on either side (it begins at `start` or right after a core base, and ends
    at `end` or right before a core base) -/
structure IsGap (start «end» : Int) (genes : List Gene) (pad a b : Int) : Prop where
  lo : start ≤ a
  ne : a < b
  hi : b ≤ «end»
  clear : ∀ g ∈ genes, ∀ i, a ≤ i → i < b → ¬ g.core pad i
  maxL : a = start ∨ ∃ g ∈ genes, g.core pad (a - 1)
  maxR : b = «end» ∨ ∃ g ∈ genes, g.core pad b

/-- executable: the area `[a, b)` avoids every gene's core -/
def areaAvoids (genes : List Gene) (pad : Int) (a : Int × Int) : Bool :=
  genes.all fun g => decide (a.2 ≤ g.start + pad) || decide (g.end - pad ≤ a.1) || decide (g.end - pad ≤ g.start + pad)
    || decide (a.2 ≤ a.1)

/-- every base of `l` lies in the area `a = (start, end)` of a record of length `L`; an area with
    `start < 0` crosses the origin and stands for `[start + L, L) ∪ [0, end)` -/
def locInArea (L : Int) (a : Int × Int) (l : Loc) : Bool :=
  l.parts.all fun p =>
    decide (p.lo < p.hi) &&
    (if a.1 ≥ 0 then decide (a.1 ≤ p.lo) && decide (p.hi ≤ a.2)
     else (decide (a.1 + L ≤ p.lo) && decide (p.hi ≤ L)) || (decide (0 ≤ p.lo) && decide (p.hi ≤ a.2)))

/-- no base of `l` lies in the core of any gene -/
def locAvoids (genes : List Gene) (pad : Int) (l : Loc) : Bool :=
  l.parts.all fun p => areaAvoids genes pad (p.lo, p.hi)

/-- bases shared by the stretch `[lo, hi)` and the gene's hull `[g.start, g.end)` -/
def overlapSize (g : Gene) (lo hi : Int) : Int := max 0 (min hi g.end - max lo g.start)

/-- bases shared by the stretch `[lo, hi)` and one exon of a gene -/
def exonOverlap (gp : Part) (lo hi : Int) : Int := max 0 (min hi gp.hi - max lo gp.lo)

/-- "lying in the gaps between existing genes (up to the allowed overlap)": no part of `l` shares
    more than `pad` bases with any exon of any of the genes (given by their locations) -/
def locOverlapOk (genes : List Loc) (pad : Int) (l : Loc) : Bool :=
  l.parts.all fun q => genes.all fun gl => gl.parts.all fun gp => decide (exonOverlap gp q.lo q.hi ≤ pad)

/-- a well-formed intergenic area of a record of length `L`: inside the record, or reaching back
    across the origin by at most one turn (`start < 0`), never longer than the record -/
def AreaOk (L : Int) (a : Int × Int) : Prop :=
  -L ≤ a.1 ∧ a.1 ≤ a.2 ∧ a.2 - a.1 ≤ L ∧ (a.1 < 0 → 0 ≤ a.2)

end ASV.Orf
