/-
  C10 specification, second layer: which values the textual qualifier formats can carry
  (`ASV/Model/SerialQual.lean`).  Boolean so that the driver can report them per case.
-/
import ASV.Model.SerialQual
import ASV.Spec.Serial
namespace ASV.Serial
open ASV

/-- a value a `{}` place holder can carry at all: `(.+?)` needs a character and `.` matches no newline -/
def groupOk (g : List Char) : Bool := !g.isEmpty && !g.contains '\n'

/-- what has to be kept out of the value of a `{}` so that the lazy group stops where the value ends:
    the character (after an optional space) with which the rest of the format starts -/
def stopOk : List Tok → List Char → Bool
  | [], _ => true
  | .lit c :: _, g => !g.contains c
  | .optSpace :: .lit c :: _, g => !g.contains ' ' && !g.contains c
  | _, _ => false

/-- the values `gs` fit the format `ts` (no `{:d}`, no two place holders without a literal character between them) -/
def fitsFormat : List Tok → Groups → Bool
  | [], gs => gs.isEmpty
  | .lit _ :: ts, gs => fitsFormat ts gs
  | .optSpace :: ts, gs => fitsFormat ts gs
  | .grp :: ts, g :: gs => groupOk g && stopOk ts g && fitsFormat ts gs
  | .grp :: _, [] => false
  | .digits :: _, _ => false

/-- what `_GeneFunctionAnnotation.__init__` guarantees of every annotation object -/
def Annot.wf (a : Annot) : Bool :=
  !a.tool.isEmpty && wordCount a.tool.toList == 1 && !a.description.isEmpty &&
    !(a.fn == .core && (a.product.getD "").isEmpty)

/-- the annotations whose text reads back: no `)` in the tool name, no newline anywhere, a product that
    is not the empty string and has no `:`; without product no `:` at all -/
def Annot.textSafe (a : Annot) : Bool :=
  groupOk a.tool.toList && !a.tool.toList.contains ')' && groupOk a.description.toList &&
    match a.product with
    | some p => groupOk p.toList && !p.toList.contains ':'
    | none => !a.tool.toList.contains ':' && !a.description.toList.contains ':'

/-- the sec_met domains whose text reads back -/
def SMDom.textSafe (d : SMDom) : Bool :=
  fitsFormat smFmt [d.name.toList, d.evalue.toList, d.bitscore.toList, d.nseeds.toList, d.tool.toList]

/-- a type II PKS annotation as the constructor accepts it (a starter unit; elongations and weights together),
    with distinct weight keys (a dictionary) whose texts fit the weight format -/
def T2.wf (t : T2) : Bool :=
  !t.starters.isEmpty && (t.elongations.isEmpty == t.weights.isEmpty) && decide (t.weights.map (·.1)).Nodup &&
  t.weights.all (fun e => fitsFormat t2WeightFmt [e.1.toList, e.2.toList])

/-- `": " in text` -/
def hasColonSpace : List Char → Bool
  | [] => false
  | c :: rest => (c == ':' && rest.head? == some ' ') || hasColonSpace rest

/-- Pfam data that reads back: a non-empty description, `PF` + five digits, a version that is not 0, gene ontology
    terms (if the qualifier object is there at all it has at least one) with distinct ids without `: ` -/
def PfamX.wf (p : PfamX) : Bool :=
  !p.description.isEmpty &&
  (p.identifier.toList.length == 7 && p.identifier.toList.take 2 == ['P', 'F'] && (p.identifier.toList.drop 2).all Char.isDigit) &&
  p.version != some 0 &&
  match p.go with
  | some g => !g.isEmpty && decide (g.map (·.1)).Nodup && g.all (fun e => !hasColonSpace e.1.toList)
  | none => true

/-- the keys the domain / motif classes write themselves -/
def domKeysB : List String :=
  ["aSTool", "locus_tag", "protein_start", "protein_end", "aSDomain", "ASF", "domain_id", "database", "detection", "label",
   "translation", "evalue", "score"]

/-- the domain / motif objects the round-trip theorem speaks about (Boolean mirror of `Dom.WF`) -/
def domWFb (kind : DomKind) (d : Dom) : Bool :=
  featWFb d.feat && d.feat.byAS && d.feat.codon.isNone && d.feat.type == kind.type &&
  domKeysB.all (fun k => (Q.get? d.feat.quals k).isNone) &&
  d.tool != "" && d.locusTag != "" && noSpaces d.locusTag == d.locusTag && decide (d.pStart ≤ d.pEnd) &&
  d.domain != some "" && canonSet d.asf == d.asf &&
  d.domainId != some "" && d.domainId.map noSpaces == d.domainId && (kind != .asDomain || d.domainId.isSome) &&
  d.database != some "" && d.detection != some "" && d.label != some "" && d.label.map noSpaces == d.label &&
  !d.translation.toList.contains '*'

end ASV.Serial
